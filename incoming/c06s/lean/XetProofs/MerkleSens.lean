/-
Helper lemmas for the sensitivity clause of C06 ("changing, reordering, inserting or dropping any
chunk changes the aggregate hash"), in collision-extraction form.  Model: `XetModel/Merkle.lean`.
Core Lean only.

Contents
 1. `decimal` is injective and prints ASCII digits only; `nodeText` and `flatMap nodeText` are injective.
 2. The grouping rule of `merge_one_level` as a memo-independent function `groupsAux`
    (generic in the element type so that it serves node lists and tree lists alike).
 3. What the memo DB can and cannot influence: the *hash* of every parent is memo-independent,
    only lengths are; the memoised leaves are the given leaves when equal hashes carry equal lengths.
 4. The downward (root to leaves) collision-extraction argument over the chain of levels.
 5. A memo-free merge (`pureRoot`) and the exact condition under which the memo DB is a pure cache.
 6. The free tree view `T`, `build`, `leaves (build cs) = cs`, `hashOf (build cs) = pureRoot cs`.
 7. Byte views of hashes are injective; chunk lists of real data.
The definitions that occur in the statements of `XetProps/C06Sens.lean` (`Collision`, `LensFunctional`,
`LeafInRange`, `RootLeafLength`, `InteriorZero`, `MemoConsistent`, `pureRoot`, `T`, `build`, `dataChunks`)
are defined here, each with a doc comment.
-/
import XetProofs.Merkle
import XetProofs.XorbFormat

namespace Xet.Merkle

/-! ## 1. Text form of a node is injective -/

/-- value of a string of ASCII digits, most significant first -/
def decVal (ds : List UInt8) : Nat := ds.foldl (fun a d => a * 10 + (d.toNat - 48)) 0

theorem decVal_snoc (ds : List UInt8) (d : UInt8) : decVal (ds ++ [d]) = decVal ds * 10 + (d.toNat - 48) := by
  simp [decVal, List.foldl_append]

theorem digit_toNat (n : Nat) : (UInt8.ofNat (48 + n % 10)).toNat = 48 + n % 10 := by
  simp only [UInt8.toNat_ofNat']
  omega

theorem decimalAux_spec (fuel n : Nat) (acc : List UInt8) (h : n < fuel) :
    ∃ ds, decimalAux fuel n acc = ds ++ acc ∧ decVal ds = n ∧
      ∀ d ∈ ds, 48 ≤ d.toNat ∧ d.toNat ≤ 57 := by
  induction fuel generalizing n acc with
  | zero => omega
  | succ fuel ih =>
    simp only [decimalAux]
    split
    · rename_i h0
      refine ⟨[UInt8.ofNat (48 + n % 10)], by simp, ?_, ?_⟩
      · simp only [decVal, List.foldl_cons, List.foldl_nil, digit_toNat]; omega
      · intro d hd
        simp only [List.mem_singleton] at hd
        subst hd
        rw [digit_toNat]; omega
    · rename_i h0
      obtain ⟨ds, e, v, dg⟩ := ih (n / 10) (UInt8.ofNat (48 + n % 10) :: acc) (by omega)
      refine ⟨ds ++ [UInt8.ofNat (48 + n % 10)], by rw [e, List.append_assoc]; rfl, ?_, ?_⟩
      · rw [decVal_snoc, v, digit_toNat]; omega
      · intro d hd
        rcases List.mem_append.mp hd with hd | hd
        · exact dg d hd
        · simp only [List.mem_singleton] at hd
          subst hd
          rw [digit_toNat]; omega

/-- `decimal n` reads back as `n` -/
theorem decVal_decimal (n : Nat) : decVal (decimal n) = n := by
  obtain ⟨ds, e, v, _⟩ := decimalAux_spec (n + 1) n [] (by omega)
  simp only [decimal, e, List.append_nil, v]

/-- `decimal n` consists of ASCII digits `'0'..'9'` only -/
theorem decimal_digits (n : Nat) : ∀ d ∈ decimal n, 48 ≤ d.toNat ∧ d.toNat ≤ 57 := by
  obtain ⟨ds, e, _, dg⟩ := decimalAux_spec (n + 1) n [] (by omega)
  simpa only [decimal, e, List.append_nil] using dg

theorem decimal_inj {a b : Nat} (h : decimal a = decimal b) : a = b := by
  have := congrArg decVal h
  simpa only [decVal_decimal] using this

theorem decimal_no_lf (n : Nat) : ∀ d ∈ decimal n, d ≠ (10 : UInt8) := by
  intro d hd e
  have := decimal_digits n d hd
  subst e
  simp at this

/-- a terminator that does not occur in either field delimits it uniquely -/
theorem sep_split {s : UInt8} {p q X Y : Bytes} (hp : ∀ d ∈ p, d ≠ s) (hq : ∀ d ∈ q, d ≠ s)
    (h : p ++ s :: X = q ++ s :: Y) : p = q ∧ X = Y := by
  induction p generalizing q with
  | nil =>
    cases q with
    | nil => simpa using h
    | cons c q =>
      simp only [List.nil_append, List.cons_append, List.cons.injEq] at h
      exact absurd h.1.symm (hq c (by simp))
  | cons c p ih =>
    cases q with
    | nil =>
      simp only [List.nil_append, List.cons_append, List.cons.injEq] at h
      exact absurd h.1 (hp c (by simp))
    | cons c' q =>
      simp only [List.cons_append, List.cons.injEq] at h
      obtain ⟨e1, e2⟩ := ih (fun d hd => hp d (by simp [hd])) (fun d hd => hq d (by simp [hd])) h.2
      exact ⟨by rw [h.1, e1], e2⟩

theorem wordHex_inj {a b : UInt64} (h : Hash.wordHex a = Hash.wordHex b) : a = b := by
  have := congrArg Hash.parseWord h
  simpa only [parseWord_wordHex, Option.some.injEq] using this

theorem hex_length (h : Hash) : h.hex.length = 64 := by
  simp [Hash.hex, wordHex_length]

theorem hex_inj {a b : Hash} (h : a.hex = b.hex) : a = b := by
  cases a with
  | mk a0 a1 a2 a3 =>
  cases b with
  | mk b0 b1 b2 b3 =>
    simp only [Hash.hex, List.append_assoc] at h
    obtain ⟨e0, h⟩ := List.append_inj h (by simp [wordHex_length])
    obtain ⟨e1, h⟩ := List.append_inj h (by simp [wordHex_length])
    obtain ⟨e2, e3⟩ := List.append_inj h (by simp [wordHex_length])
    rw [wordHex_inj e0, wordHex_inj e1, wordHex_inj e2, wordHex_inj e3]

/-- one line of `hash_node_sequence` determines the node and where the line ends -/
theorem nodeText_append_inj {a b : Node} {X Y : Bytes} (h : nodeText a ++ X = nodeText b ++ Y) :
    a = b ∧ X = Y := by
  simp only [nodeText, List.append_assoc, List.cons_append, List.nil_append] at h
  obtain ⟨eh, h⟩ := List.append_inj h (by simp [hex_length])
  simp only [List.cons.injEq, true_and] at h
  obtain ⟨ed, eX⟩ := sep_split (decimal_no_lf a.len) (decimal_no_lf b.len) h
  refine ⟨?_, eX⟩
  cases a; cases b
  simp only [Node.mk.injEq]
  exact ⟨hex_inj eh, decimal_inj ed⟩

theorem nodeText_inj {a b : Node} (h : nodeText a = nodeText b) : a = b := by
  have : nodeText a ++ [] = nodeText b ++ [] := by simpa using h
  exact (nodeText_append_inj this).1

theorem nodeText_ne_nil (a : Node) : nodeText a ≠ [] := by
  simp [nodeText]

theorem flatMap_nodeText_inj {ns ms : List Node} (h : ns.flatMap nodeText = ms.flatMap nodeText) : ns = ms := by
  induction ns generalizing ms with
  | nil =>
    cases ms with
    | nil => rfl
    | cons m ms =>
      simp only [List.flatMap_nil, List.flatMap_cons] at h
      have := congrArg List.length h
      simp [nodeText] at this
  | cons n ns ih =>
    cases ms with
    | nil =>
      simp only [List.flatMap_nil, List.flatMap_cons] at h
      have := congrArg List.length h
      simp [nodeText] at this
    | cons m ms =>
      simp only [List.flatMap_cons] at h
      obtain ⟨e1, e2⟩ := nodeText_append_inj h
      rw [e1, ih e2]

/-! ## Definitions used in the statements -/

/-- a constructed collision of `f`: two different arguments with the same value -/
def Collision {α β : Type} (f : α → β) : Prop := ∃ x y, x ≠ y ∧ f x = f y

/-- equal chunk hashes carry equal chunk lengths -/
def LensFunctional (cs : List (Hash × Nat)) : Prop := ∀ x ∈ cs, ∀ y ∈ cs, x.1 = y.1 → x.2 = y.2

/-- the leaf node of a chunk entry -/
def toNode (c : Hash × Nat) : Node := ⟨c.1, c.2⟩

/-- some node of `A` or `A'` carries a hash that is also the digest of a child sequence -/
def NodeInRange (P : HashPrims) (A A' : List Node) : Prop :=
  ∃ n, (n ∈ A ∨ n ∈ A') ∧ ∃ g, n.hash = hashNodeSeq P g

/-- both lists are a single chunk with the same hash and different lengths -/
def RootLeafLength (a b : List (Hash × Nat)) : Prop :=
  ∃ h l₁ l₂, a = [(h, l₁)] ∧ b = [(h, l₂)] ∧ l₁ ≠ l₂

/-! ## 2. The grouping rule of `merge_one_level`, memo-free -/

/-- the windows cut by `merge_one_level` (`cur` = window under construction), for any element
    type with a hash (`key`).  Same test `cutHere` as the model of the Rust loop. -/
def groupsAux {α : Type} (B : Nat) (key : α → Hash) : List α → List α → List (List α)
  | _, [] => []
  | cur, n :: rest =>
    if cutHere B cur.length (key n) rest.isEmpty then (cur ++ [n]) :: groupsAux B key [] rest
    else groupsAux B key (cur ++ [n]) rest

def groups {α : Type} (B : Nat) (key : α → Hash) (xs : List α) : List (List α) := groupsAux B key [] xs

theorem cutHere_last (B k : Nat) (h : Hash) : cutHere B k h true = true := by simp [cutHere]

/-- the windows partition the level, in order -/
theorem flatten_groupsAux {α : Type} (B : Nat) (key : α → Hash) (cur rest : List α) (h : rest ≠ []) :
    (groupsAux B key cur rest).flatten = cur ++ rest := by
  induction rest generalizing cur with
  | nil => exact absurd rfl h
  | cons n rest ih =>
    simp only [groupsAux]
    split
    · by_cases hr : rest = []
      · subst hr; simp [groupsAux]
      · simp [ih [] hr]
    · rename_i hc
      have hr : rest ≠ [] := by
        intro hr; subst hr
        exact hc (cutHere_last _ _ _)
      simp [ih (cur ++ [n]) hr]

theorem flatten_groups {α : Type} (B : Nat) (key : α → Hash) (xs : List α) : (groups B key xs).flatten = xs := by
  cases xs with
  | nil => simp [groups, groupsAux]
  | cons x xs => simpa [groups] using flatten_groupsAux B key [] (x :: xs) (by simp)

theorem groupsAux_map {α β : Type} (B : Nat) (f : α → β) (key : β → Hash) (cur rest : List α) :
    groupsAux B key (cur.map f) (rest.map f) = (groupsAux B (fun x => key (f x)) cur rest).map (List.map f) := by
  induction rest generalizing cur with
  | nil => simp [groupsAux]
  | cons n rest ih =>
    simp only [List.map_cons, groupsAux, List.length_map, List.isEmpty_map]
    split
    · have := ih []
      simp only [List.map_nil] at this
      simp [this]
    · have := ih (cur ++ [n])
      simp only [List.map_append, List.map_cons, List.map_nil] at this
      exact this

theorem groups_map {α β : Type} (B : Nat) (f : α → β) (key : β → Hash) (xs : List α) :
    groups B key (xs.map f) = (groups B (fun x => key (f x)) xs).map (List.map f) := by
  simpa [groups] using groupsAux_map B f key [] xs

/-! ## 3. What the memo DB influences -/

theorem Memo.find_mem {m : Memo} {h : Hash} {l : Nat} (e : m.find h = some l) : (h, l) ∈ m := by
  unfold Memo.find at e
  cases hf : m.find? (fun e => e.1 == h) with
  | none => simp [hf] at e
  | some x =>
    have h1 := List.find?_some hf
    have h2 := List.mem_of_find?_eq_some hf
    simp only [hf, Option.map_some, Option.some.injEq] at e
    have h3 : x.1 = h := by simpa using h1
    have : x = (h, l) := by rw [← h3, ← e]
    rw [← this]; exact h2

/-- `maybe_add_node` always answers with the requested hash … -/
theorem Memo.add_hash (m : Memo) (h : Hash) (len : Nat) : (m.add h len).node.hash = h := by
  unfold Memo.add; split <;> rfl

/-- … and either an already stored length for that hash (DB unchanged) or the requested one. -/
theorem Memo.add_spec (m : Memo) (h : Hash) (len : Nat) :
    (∃ l, (h, l) ∈ m ∧ m.add h len = ⟨⟨h, l⟩, m⟩) ∨ m.add h len = ⟨⟨h, len⟩, m ++ [(h, len)]⟩ := by
  unfold Memo.add
  split
  · rename_i l e
    exact Or.inl ⟨l, Memo.find_mem e, rfl⟩
  · exact Or.inr rfl

/-- the hashes of the parents of one level do not depend on the memo DB -/
theorem level_hashes (P : HashPrims) (B : Nat) (m : Memo) (cur rest : List Node) :
    (mergeOneLevelAux P B m cur rest).parents.map (·.hash) =
      (groupsAux B Node.hash cur rest).map (hashNodeSeq P) := by
  induction rest generalizing m cur with
  | nil => simp [mergeOneLevelAux, groupsAux]
  | cons n rest ih =>
    simp only [mergeOneLevelAux, groupsAux]
    split
    · simp [Memo.add_hash, ih]
    · exact ih _ _

/-- a consistent superset `S` of the DB makes `maybe_add_node` the identity on members of `S` -/
theorem Memo.add_of_consistent {S m : Memo} (hS : LensFunctional S) (hm : ∀ e ∈ m, e ∈ S)
    {h : Hash} {len : Nat} (hn : (h, len) ∈ S) :
    (m.add h len).node = ⟨h, len⟩ ∧ ∀ e ∈ (m.add h len).memo, e ∈ S := by
  rcases Memo.add_spec m h len with ⟨l, hl, e⟩ | e
  · rw [e]
    have : l = len := hS (h, l) (hm _ hl) (h, len) hn rfl
    subst this
    exact ⟨rfl, hm⟩
  · rw [e]
    refine ⟨rfl, ?_⟩
    intro x hx
    rcases List.mem_append.mp hx with hx | hx
    · exact hm x hx
    · simp only [List.mem_singleton] at hx
      subst hx; exact hn

/-- the memoised leaves are the given leaves when the DB and the leaves are consistent -/
theorem addLeaves_of_consistent {S : Memo} (hS : LensFunctional S) (m : Memo) (cs : List (Hash × Nat))
    (hm : ∀ e ∈ m, e ∈ S) (hc : ∀ c ∈ cs, c ∈ S) :
    (addLeaves m cs).nodes = cs.map toNode ∧ ∀ e ∈ (addLeaves m cs).memo, e ∈ S := by
  induction cs generalizing m with
  | nil => exact ⟨rfl, hm⟩
  | cons c cs ih =>
    obtain ⟨h, len⟩ := c
    simp only [addLeaves]
    obtain ⟨e1, e2⟩ := Memo.add_of_consistent hS hm (hc (h, len) (by simp))
    obtain ⟨e3, e4⟩ := ih (m.add h len).memo e2 (fun c hc' => hc c (by simp [hc']))
    refine ⟨?_, e4⟩
    simp only [List.map_cons, e1, e3, toNode]

theorem toNode_map_inj {a b : List (Hash × Nat)} (h : a.map toNode = b.map toNode) : a = b := by
  induction a generalizing b with
  | nil => cases b with
    | nil => rfl
    | cons y b => simp at h
  | cons x a ih =>
    cases b with
    | nil => simp at h
    | cons y b =>
      simp only [List.map_cons, List.cons.injEq] at h
      obtain ⟨x1, x2⟩ := x
      obtain ⟨y1, y2⟩ := y
      simp only [toNode, Node.mk.injEq] at h
      rw [ih h.2, h.1.1, h.1.2]

/-! ## 4. The chain of levels and the downward collision extraction -/

/-- `Y` is a possible level above `W`: the hashes of `Y` are the digests of the windows of `W`
    (the lengths are whatever the memo DB answered). -/
def Step (P : HashPrims) (B : Nat) (W Y : List Node) : Prop :=
  Y ≠ [] ∧ Y.map (·.hash) = (groups B Node.hash W).map (hashNodeSeq P)

inductive Chain (P : HashPrims) (B : Nat) (A : List Node) : List Node → Prop
  | base : Chain P B A A
  | up {W Y : List Node} : Chain P B A W → Step P B W Y → Chain P B A Y

theorem mergeAux_chain (P : HashPrims) (B : Nat) (A : List Node) (fuel : Nat) (m : Memo) (X : List Node)
    (h : Chain P B A X) : Chain P B A (mergeAux P B fuel m X).parents := by
  induction fuel generalizing m X with
  | zero => simpa [mergeAux] using h
  | succ fuel ih =>
    simp only [mergeAux]
    split
    · exact h
    · rename_i hl
      apply ih
      refine Chain.up h ⟨?_, ?_⟩
      · have := mergeOneLevelAux_length_pos P B m [] X (by intro e; subst e; simp at hl)
        intro e
        simp only [mergeOneLevel] at e
        rw [e] at this
        simp at this
      · exact level_hashes P B m [] X

theorem hashNodeSeq_inj_or (P : HashPrims) {g g' : List Node} (h : hashNodeSeq P g = hashNodeSeq P g') :
    g = g' ∨ Collision P.internalHash := by
  by_cases e : g.flatMap nodeText = g'.flatMap nodeText
  · exact Or.inl (flatMap_nodeText_inj e)
  · exact Or.inr ⟨_, _, e, h⟩

theorem map_hashNodeSeq_inj_or (P : HashPrims) {G G' : List (List Node)}
    (h : G.map (hashNodeSeq P) = G'.map (hashNodeSeq P)) : G = G' ∨ Collision P.internalHash := by
  induction G generalizing G' with
  | nil =>
    cases G' with
    | nil => exact Or.inl rfl
    | cons g' G' => simp at h
  | cons g G ih =>
    cases G' with
    | nil => simp at h
    | cons g' G' =>
      simp only [List.map_cons, List.cons.injEq] at h
      rcases hashNodeSeq_inj_or P h.1 with e | c
      · rcases ih h.2 with e' | c
        · exact Or.inl (by rw [e, e'])
        · exact Or.inr c
      · exact Or.inr c

/-- a level that sits above another one starts with a digest of a child sequence -/
theorem step_head {P : HashPrims} {B : Nat} {W Y X : List Node} (hs : Step P B W Y)
    (h : X.map (·.hash) = Y.map (·.hash)) : ∃ n ∈ X, ∃ g, n.hash = hashNodeSeq P g := by
  obtain ⟨hne, hh⟩ := hs
  cases Y with
  | nil => exact absurd rfl hne
  | cons y Y =>
    cases X with
    | nil => simp at h
    | cons n X =>
      cases hg : groups B Node.hash W with
      | nil => simp [hg] at hh
      | cons g G =>
        simp only [hg, List.map_cons, List.cons.injEq] at hh h
        exact ⟨n, by simp, g, by rw [h.1, hh.1]⟩

/-- **Downward extraction.**  Two chains of levels whose tops have the same hashes: either both
    are trivial (no level was built), or the bottoms coincide, or a collision of the internal-node
    hash is exhibited, or a bottom node's hash is the digest of a child sequence. -/
theorem chain_down {P : HashPrims} {B : Nat} {A A' Ya Yb : List Node}
    (ha : Chain P B A Ya) (hb : Chain P B A' Yb) (h : Ya.map (·.hash) = Yb.map (·.hash)) :
    (A = Ya ∧ A' = Yb) ∨ A = A' ∨ Collision P.internalHash ∨ NodeInRange P A A' := by
  induction ha generalizing Yb with
  | base =>
    cases hb with
    | base => exact Or.inl ⟨rfl, rfl⟩
    | up hb' hs =>
      obtain ⟨n, hn, g, hg⟩ := step_head hs h
      exact Or.inr (Or.inr (Or.inr ⟨n, Or.inl hn, g, hg⟩))
  | up ha' hsa ih =>
    cases hb with
    | base =>
      obtain ⟨n, hn, g, hg⟩ := step_head hsa h.symm
      exact Or.inr (Or.inr (Or.inr ⟨n, Or.inr hn, g, hg⟩))
    | up hb' hsb =>
      rename_i Wa _ Wb
      have e : (groups B Node.hash Wa).map (hashNodeSeq P) = (groups B Node.hash Wb).map (hashNodeSeq P) := by
        rw [← hsa.2, ← hsb.2, h]
      rcases map_hashNodeSeq_inj_or P e with e | c
      · have e' := congrArg List.flatten e
        rw [flatten_groups, flatten_groups] at e'
        subst e'
        rcases ih hb' rfl with ⟨e1, e2⟩ | r
        · exact Or.inr (Or.inl (by rw [e1, e2]))
        · exact Or.inr r
      · exact Or.inr (Or.inr (Or.inl c))

/-- the root of `rootHash` is the top of a chain over the memoised leaves -/
theorem rootHash_chain (P : HashPrims) (cs : List (Hash × Nat)) (hne : cs ≠ []) :
    ∃ r, Chain P branching (addLeaves Memo.init cs).nodes [r] ∧ rootHash P cs = r.hash := by
  have hne' : (addLeaves Memo.init cs).nodes ≠ [] := by
    intro h
    have := addLeaves_length Memo.init cs
    rw [h] at this
    cases cs <;> simp_all
  have h1 := merge_single P branching (by decide) (addLeaves Memo.init cs).memo (addLeaves Memo.init cs).nodes hne'
  have h2 := mergeAux_chain P branching (addLeaves Memo.init cs).nodes (addLeaves Memo.init cs).nodes.length
    (addLeaves Memo.init cs).memo (addLeaves Memo.init cs).nodes Chain.base
  unfold rootHash
  simp only
  unfold merge at h1 ⊢
  generalize (mergeAux P branching (addLeaves Memo.init cs).nodes.length (addLeaves Memo.init cs).memo
    (addLeaves Memo.init cs).nodes).parents = ps at h1 h2
  match ps, h1 with
  | [r], _ => exact ⟨r, h2, rfl⟩

/-- consistency of the pre-seeded DB with a chunk list -/
theorem init_consistent {cs : List (Hash × Nat)} (hL : LensFunctional cs)
    (hz : ∀ c ∈ cs, c.1 = Hash.zero → c.2 = 0) : LensFunctional (Memo.init ++ cs) := by
  intro x hx y hy e
  simp only [Memo.init, List.cons_append, List.nil_append, List.mem_cons] at hx hy
  rcases hx with hx | hx <;> rcases hy with hy | hy
  · rw [hx, hy]
  · subst hx
    exact (hz y hy e.symm).symm
  · subst hy
    exact hz x hx e
  · exact hL x hx y hy e

theorem addLeaves_init {cs : List (Hash × Nat)} (hL : LensFunctional cs)
    (hz : ∀ c ∈ cs, c.1 = Hash.zero → c.2 = 0) : (addLeaves Memo.init cs).nodes = cs.map toNode :=
  (addLeaves_of_consistent (init_consistent hL hz) Memo.init cs (fun e he => by simp [he])
    (fun c hc => by simp [hc])).1

/-- **Core of the sensitivity theorem** on `rootHash`, for lists without a mis-sized zero leaf. -/
theorem rootHash_sens (P : HashPrims) {a b : List (Hash × Nat)}
    (hLa : LensFunctional a) (hLb : LensFunctional b)
    (hza : ∀ c ∈ a, c.1 = Hash.zero → c.2 = 0) (hzb : ∀ c ∈ b, c.1 = Hash.zero → c.2 = 0)
    (hna : a ≠ []) (hnb : b ≠ []) (h : rootHash P a = rootHash P b) :
    a = b ∨ Collision P.internalHash ∨ NodeInRange P (a.map toNode) (b.map toNode) ∨ RootLeafLength a b := by
  obtain ⟨ra, ca, ea⟩ := rootHash_chain P a hna
  obtain ⟨rb, cb, eb⟩ := rootHash_chain P b hnb
  rw [addLeaves_init hLa hza] at ca
  rw [addLeaves_init hLb hzb] at cb
  have hh : [ra].map (·.hash) = [rb].map (·.hash) := by simp [← ea, ← eb, h]
  rcases chain_down ca cb hh with ⟨e1, e2⟩ | e | c | r
  · match a, b, e1, e2 with
    | [(h1, l1)], [(h2, l2)], e1, e2 =>
      simp only [List.map_cons, List.map_nil, toNode, List.cons.injEq, and_true] at e1 e2
      have hh' : h1 = h2 := by
        have : ra.hash = rb.hash := by simpa using hh
        rw [← e1, ← e2] at this
        exact this
      subst hh'
      by_cases hl : l1 = l2
      · subst hl; exact Or.inl rfl
      · exact Or.inr (Or.inr (Or.inr ⟨h1, l1, l2, rfl, rfl, hl⟩))
  · exact Or.inl (toNode_map_inj e)
  · exact Or.inr (Or.inl c)
  · exact Or.inr (Or.inr (Or.inl r))

/-! ## 5. A memo-free merge, and when the memo DB is a pure cache -/

/-- the parent of a window, computed without a DB -/
def pureNode (P : HashPrims) (g : List Node) : Node := ⟨hashNodeSeq P g, sumLen g⟩

/-- `merge_one_level` without the DB (same loop, same cut test) -/
def pureLevelAux (P : HashPrims) (B : Nat) : List Node → List Node → List Node
  | _, [] => []
  | cur, n :: rest =>
    let cur' := cur ++ [n]
    if cutHere B cur.length n.hash rest.isEmpty then pureNode P cur' :: pureLevelAux P B [] rest
    else pureLevelAux P B cur' rest

def pureLevel (P : HashPrims) (B : Nat) (nodes : List Node) : List Node := pureLevelAux P B [] nodes

/-- `merge` without the DB -/
def pureMergeAux (P : HashPrims) (B : Nat) : Nat → List Node → List Node
  | 0, nodes => nodes
  | fuel+1, nodes =>
    if nodes.length ≤ 1 then nodes else pureMergeAux P B fuel (pureLevel P B nodes)

/-- `cas_node_hash` without the DB: the hash of the root of the memo-free merge -/
def pureRoot (P : HashPrims) (cs : List (Hash × Nat)) : Hash :=
  if cs.isEmpty then Hash.zero
  else
    match pureMergeAux P branching cs.length (cs.map toNode) with
    | r :: _ => r.hash
    | [] => Hash.zero

/-- every interior node the memo-free merge creates, level by level -/
def pureCreated (P : HashPrims) (B : Nat) : Nat → List Node → List Node
  | 0, _ => []
  | fuel+1, nodes =>
    if nodes.length ≤ 1 then [] else pureLevel P B nodes ++ pureCreated P B fuel (pureLevel P B nodes)

/-- everything `cas_node_hash` would ever present to `maybe_add_node` if the DB were a pure cache:
    the pre-seeded zero node, the leaves, the interior nodes. -/
def allEntries (P : HashPrims) (cs : List (Hash × Nat)) : Memo :=
  Memo.init ++ cs ++ (pureCreated P branching cs.length (cs.map toNode)).map (fun n => (n.hash, n.len))

/-- the exact condition under which the memo DB is a pure cache for `cs`: among the finitely many
    entries above, equal hashes carry equal lengths.  (Decidable for concrete `P`, `cs`.) -/
def MemoConsistent (P : HashPrims) (cs : List (Hash × Nat)) : Prop := LensFunctional (allEntries P cs)

theorem pureLevelAux_eq_groups (P : HashPrims) (B : Nat) (cur rest : List Node) :
    pureLevelAux P B cur rest = (groupsAux B Node.hash cur rest).map (pureNode P) := by
  induction rest generalizing cur with
  | nil => simp [pureLevelAux, groupsAux]
  | cons n rest ih =>
    simp only [pureLevelAux, groupsAux]
    split
    · simp [ih]
    · exact ih _

theorem pureLevel_eq_groups (P : HashPrims) (B : Nat) (nodes : List Node) :
    pureLevel P B nodes = (groups B Node.hash nodes).map (pureNode P) :=
  pureLevelAux_eq_groups P B [] nodes

theorem pureCreated_is_pureNode (P : HashPrims) (B : Nat) (fuel : Nat) (nodes : List Node) :
    ∀ n ∈ pureCreated P B fuel nodes, ∃ g, n = pureNode P g := by
  induction fuel generalizing nodes with
  | zero => simp [pureCreated]
  | succ fuel ih =>
    intro n hn
    simp only [pureCreated] at hn
    split at hn
    · simp at hn
    · rcases List.mem_append.mp hn with hn | hn
      · rw [pureLevel_eq_groups] at hn
        obtain ⟨g, _, e⟩ := List.mem_map.mp hn
        exact ⟨g, e.symm⟩
      · exact ih _ n hn

/-- one level with a DB that stays inside a consistent set = the memo-free level -/
theorem level_pure {P : HashPrims} {B : Nat} {S : Memo} (hS : LensFunctional S) (m : Memo) (cur rest : List Node)
    (hm : ∀ e ∈ m, e ∈ S) (hn : ∀ n ∈ pureLevelAux P B cur rest, (n.hash, n.len) ∈ S) :
    (mergeOneLevelAux P B m cur rest).parents = pureLevelAux P B cur rest ∧
      ∀ e ∈ (mergeOneLevelAux P B m cur rest).memo, e ∈ S := by
  induction rest generalizing m cur with
  | nil => exact ⟨rfl, hm⟩
  | cons n rest ih =>
    simp only [mergeOneLevelAux, pureLevelAux] at hn ⊢
    split
    · rename_i hc
      rw [if_pos hc] at hn
      obtain ⟨e1, e2⟩ := Memo.add_of_consistent hS hm
        (h := hashNodeSeq P (cur ++ [n])) (len := sumLen (cur ++ [n])) (hn (pureNode P (cur ++ [n])) (by simp))
      obtain ⟨e3, e4⟩ := ih (m.add (hashNodeSeq P (cur ++ [n])) (sumLen (cur ++ [n]))).memo [] e2
        (fun x hx => hn x (by simp [hx]))
      exact ⟨by simp only [e1, e3, pureNode], e4⟩
    · rename_i hc
      rw [if_neg hc] at hn
      exact ih m (cur ++ [n]) hm hn

theorem mergeAux_pure {P : HashPrims} {B : Nat} {S : Memo} (hS : LensFunctional S) (fuel : Nat) (m : Memo)
    (nodes : List Node) (hm : ∀ e ∈ m, e ∈ S)
    (hn : ∀ n ∈ pureCreated P B fuel nodes, (n.hash, n.len) ∈ S) :
    (mergeAux P B fuel m nodes).parents = pureMergeAux P B fuel nodes := by
  induction fuel generalizing m nodes with
  | zero => rfl
  | succ fuel ih =>
    simp only [mergeAux, pureMergeAux, pureCreated] at hn ⊢
    split
    · rfl
    · rename_i hl
      rw [if_neg hl] at hn
      obtain ⟨e1, e2⟩ := level_pure (P := P) (B := B) hS m [] nodes hm
        (fun x hx => hn x (List.mem_append.mpr (Or.inl hx)))
      simp only [mergeOneLevel, e1]
      exact ih _ _ e2 (fun x hx => hn x (List.mem_append.mpr (Or.inr hx)))

/-- **The memo DB is a pure cache** for every chunk list whose entries are consistent. -/
theorem casNodeHash_eq_pureRoot (P : HashPrims) (cs : List (Hash × Nat)) (h : MemoConsistent P cs) :
    casNodeHash P cs = pureRoot P cs := by
  unfold casNodeHash pureRoot
  split
  · rfl
  · unfold rootHash
    obtain ⟨e1, e2⟩ := addLeaves_of_consistent h Memo.init cs
      (fun e he => by simp [allEntries, he]) (fun c hc => by simp [allEntries, hc])
    have e3 := mergeAux_pure (P := P) (B := branching) h (addLeaves Memo.init cs).nodes.length
      (addLeaves Memo.init cs).memo (addLeaves Memo.init cs).nodes e2 (by
        intro n hn
        rw [e1, List.length_map] at hn
        simp only [allEntries, List.mem_append, List.mem_map]
        exact Or.inr ⟨n, hn, rfl⟩)
    simp only [merge, e3]
    rw [e1, List.length_map]
    rfl

/-- a leaf the DB cannot tell from another node: its hash is the pre-seeded zero hash while its
    length is not 0, or its hash is the digest of a child sequence (an interior node's hash). -/
def LeafInRange (P : HashPrims) (a b : List (Hash × Nat)) : Prop :=
  ∃ c, (c ∈ a ∨ c ∈ b) ∧ ((c.1 = Hash.zero ∧ c.2 ≠ 0) ∨ ∃ g, c.1 = hashNodeSeq P g)

/-- a child sequence of non-zero total length whose digest is the all-zero hash (which the DB
    pre-seeds with length 0) -/
def InteriorZero (P : HashPrims) : Prop := ∃ g, hashNodeSeq P g = Hash.zero ∧ sumLen g ≠ 0

theorem mem_allEntries {P : HashPrims} {cs : List (Hash × Nat)} {x : Hash × Nat} (h : x ∈ allEntries P cs) :
    x = (Hash.zero, 0) ∨ x ∈ cs ∨ ∃ g, x = (hashNodeSeq P g, sumLen g) := by
  simp only [allEntries, Memo.init, List.mem_append, List.mem_map, List.mem_singleton] at h
  rcases h with (h | h) | ⟨n, hn, e⟩
  · exact Or.inl h
  · exact Or.inr (Or.inl h)
  · obtain ⟨g, eg⟩ := pureCreated_is_pureNode P _ _ _ n hn
    subst eg
    exact Or.inr (Or.inr ⟨g, e.symm⟩)

/-- two entries with equal hashes have equal lengths, or a degenerate situation is exhibited -/
theorem entries_pair {P : HashPrims} {cs : List (Hash × Nat)} (hL : LensFunctional cs) {x y : Hash × Nat}
    (hx : x ∈ allEntries P cs) (hy : y ∈ allEntries P cs) (e : x.1 = y.1) :
    x.2 = y.2 ∨ Collision P.internalHash ∨ LeafInRange P cs cs ∨ InteriorZero P := by
  rcases mem_allEntries hx with hx | hx | ⟨g, hx⟩ <;> rcases mem_allEntries hy with hy | hy | ⟨g', hy⟩
  · subst hx; subst hy; exact Or.inl rfl
  · subst hx
    by_cases h : y.2 = 0
    · exact Or.inl h.symm
    · exact Or.inr (Or.inr (Or.inl ⟨y, Or.inl hy, Or.inl ⟨e.symm, h⟩⟩))
  · subst hx; subst hy
    by_cases h : sumLen g' = 0
    · exact Or.inl h.symm
    · exact Or.inr (Or.inr (Or.inr ⟨g', e.symm, h⟩))
  · subst hy
    by_cases h : x.2 = 0
    · exact Or.inl h
    · exact Or.inr (Or.inr (Or.inl ⟨x, Or.inl hx, Or.inl ⟨e, h⟩⟩))
  · exact Or.inl (hL x hx y hy e)
  · subst hy
    exact Or.inr (Or.inr (Or.inl ⟨x, Or.inl hx, Or.inr ⟨g', e⟩⟩))
  · subst hx; subst hy
    by_cases h : sumLen g = 0
    · exact Or.inl h
    · exact Or.inr (Or.inr (Or.inr ⟨g, e, h⟩))
  · subst hx
    exact Or.inr (Or.inr (Or.inl ⟨y, Or.inl hy, Or.inr ⟨g, e.symm⟩⟩))
  · subst hx; subst hy
    rcases hashNodeSeq_inj_or P e with e' | c
    · subst e'; exact Or.inl rfl
    · exact Or.inr (Or.inl c)

/-- failure of `MemoConsistent` always exhibits one of the degenerate situations -/
theorem memoConsistent_or {P : HashPrims} {cs : List (Hash × Nat)} (hL : LensFunctional cs) :
    MemoConsistent P cs ∨ Collision P.internalHash ∨ LeafInRange P cs cs ∨ InteriorZero P := by
  by_cases h : Collision P.internalHash ∨ LeafInRange P cs cs ∨ InteriorZero P
  · exact Or.inr h
  · refine Or.inl ?_
    intro x hx y hy e
    rcases entries_pair hL hx hy e with r | r
    · exact r
    · exact absurd r h

/-! ## 6. The free tree view -/

/-- the tree that `merge` builds, as a free datatype (no DB, no ids) -/
inductive T where
  | leaf (h : Hash) (len : Nat)
  | node (children : List T)

mutual
/-- total data length below a tree -/
def T.lenOf : T → Nat
  | .leaf _ l => l
  | .node cs => T.sumLenOf cs
def T.sumLenOf : List T → Nat
  | [] => 0
  | t :: ts => T.lenOf t + T.sumLenOf ts
end

mutual
/-- hash of a tree: a leaf's own hash, an interior node's `hash_node_sequence` of its children -/
def T.hashOf (P : HashPrims) : T → Hash
  | .leaf h _ => h
  | .node cs => P.internalHash (T.textOf P cs)
def T.textOf (P : HashPrims) : List T → Bytes
  | [] => []
  | t :: ts => nodeText ⟨T.hashOf P t, T.lenOf t⟩ ++ T.textOf P ts
end

mutual
/-- the leaves in order -/
def T.leaves : T → List (Hash × Nat)
  | .leaf h l => [(h, l)]
  | .node cs => T.leavesL cs
def T.leavesL : List T → List (Hash × Nat)
  | [] => []
  | t :: ts => T.leaves t ++ T.leavesL ts
end

/-- the `MerkleNode` (hash, length) a tree stands for -/
def T.nodeOf (P : HashPrims) (t : T) : Node := ⟨t.hashOf P, t.lenOf⟩

/-- one level of `merge` on trees: same windows (`cutHere` on the trees' hashes), each window
    becomes an interior node -/
def levelT (P : HashPrims) (B : Nat) (ts : List T) : List T := (groups B (T.hashOf P) ts).map T.node

def buildAux (P : HashPrims) (B : Nat) : Nat → List T → List T
  | 0, ts => ts
  | fuel+1, ts => if ts.length ≤ 1 then ts else buildAux P B fuel (levelT P B ts)

/-- the tree `merge` builds over the chunk list (`node []` for the empty list) -/
def build (P : HashPrims) (cs : List (Hash × Nat)) : T :=
  match buildAux P branching cs.length (cs.map fun c => T.leaf c.1 c.2) with
  | t :: _ => t
  | [] => T.node []

theorem T.sumLenOf_eq (P : HashPrims) (ts : List T) : T.sumLenOf ts = sumLen (ts.map (T.nodeOf P)) := by
  induction ts with
  | nil => simp [T.sumLenOf, sumLen]
  | cons t ts ih =>
    simp only [T.sumLenOf, ih, sumLen, List.map_cons, List.sum_cons, T.nodeOf]

theorem T.textOf_eq (P : HashPrims) (ts : List T) : T.textOf P ts = (ts.map (T.nodeOf P)).flatMap nodeText := by
  induction ts with
  | nil => simp [T.textOf]
  | cons t ts ih => simp only [T.textOf, ih, List.map_cons, List.flatMap_cons, T.nodeOf]

theorem T.leavesL_eq (ts : List T) : T.leavesL ts = ts.flatMap T.leaves := by
  induction ts with
  | nil => simp [T.leavesL]
  | cons t ts ih => simp only [T.leavesL, ih, List.flatMap_cons]

theorem T.nodeOf_node (P : HashPrims) (ts : List T) : T.nodeOf P (T.node ts) = pureNode P (ts.map (T.nodeOf P)) := by
  simp only [T.nodeOf, T.hashOf, T.lenOf, pureNode, hashNodeSeq, T.textOf_eq, T.sumLenOf_eq P]

theorem levelT_nodeOf (P : HashPrims) (B : Nat) (ts : List T) :
    (levelT P B ts).map (T.nodeOf P) = pureLevel P B (ts.map (T.nodeOf P)) := by
  rw [pureLevel_eq_groups, groups_map B (T.nodeOf P) Node.hash ts]
  simp only [levelT, List.map_map]
  apply List.map_congr_left
  intro g _
  simp only [Function.comp, T.nodeOf_node]

theorem leaves_map_node (G : List (List T)) : (G.map T.node).flatMap T.leaves = G.flatten.flatMap T.leaves := by
  induction G with
  | nil => rfl
  | cons g G ih =>
    simp only [List.map_cons, List.flatMap_cons, List.flatten_cons, List.flatMap_append, ih, T.leaves, T.leavesL_eq]

theorem levelT_leaves (P : HashPrims) (B : Nat) (ts : List T) :
    (levelT P B ts).flatMap T.leaves = ts.flatMap T.leaves := by
  rw [levelT, leaves_map_node, flatten_groups]

theorem buildAux_nodeOf (P : HashPrims) (B : Nat) (fuel : Nat) (ts : List T) :
    (buildAux P B fuel ts).map (T.nodeOf P) = pureMergeAux P B fuel (ts.map (T.nodeOf P)) := by
  induction fuel generalizing ts with
  | zero => rfl
  | succ fuel ih =>
    simp only [buildAux, pureMergeAux, List.length_map]
    split
    · rfl
    · rw [ih, levelT_nodeOf]

theorem buildAux_leaves (P : HashPrims) (B : Nat) (fuel : Nat) (ts : List T) :
    (buildAux P B fuel ts).flatMap T.leaves = ts.flatMap T.leaves := by
  induction fuel generalizing ts with
  | zero => rfl
  | succ fuel ih =>
    simp only [buildAux]
    split
    · rfl
    · rw [ih, levelT_leaves]

/-- the memo-free merge ends with a single node (progress is inherited from `merge_single`, the
    level sizes being memo-independent) -/
theorem pureLevelAux_length (P : HashPrims) (B : Nat) (m : Memo) (cur rest : List Node) :
    (pureLevelAux P B cur rest).length = (mergeOneLevelAux P B m cur rest).parents.length := by
  have := congrArg List.length (level_hashes P B m cur rest)
  simp only [List.length_map] at this
  rw [this, pureLevelAux_eq_groups, List.length_map]

theorem pureMergeAux_single (P : HashPrims) (B : Nat) (hB : 1 ≤ B) (fuel : Nat) (nodes : List Node)
    (hne : 1 ≤ nodes.length) (hf : nodes.length ≤ fuel) : (pureMergeAux P B fuel nodes).length = 1 := by
  induction fuel generalizing nodes with
  | zero => omega
  | succ fuel ih =>
    simp only [pureMergeAux]
    split
    · omega
    · have hp := mergeOneLevel_progress P B hB [] nodes (by omega)
      have hl := pureLevelAux_length P B [] [] nodes
      simp only [mergeOneLevel] at hp
      apply ih
      · simp only [pureLevel]; omega
      · simp only [pureLevel]; omega

theorem leaves_leafList (cs : List (Hash × Nat)) : (cs.map fun c => T.leaf c.1 c.2).flatMap T.leaves = cs := by
  induction cs with
  | nil => rfl
  | cons c cs ih => simp only [List.map_cons, List.flatMap_cons, T.leaves, ih, List.singleton_append]

theorem nodeOf_leafList (P : HashPrims) (cs : List (Hash × Nat)) :
    (cs.map fun c => T.leaf c.1 c.2).map (T.nodeOf P) = cs.map toNode := by
  simp only [List.map_map]
  apply List.map_congr_left
  intro c _
  simp only [Function.comp, T.nodeOf, T.hashOf, T.lenOf, toNode]

/-- the built tree has exactly the given chunks as leaves, in order -/
theorem leaves_build (P : HashPrims) (cs : List (Hash × Nat)) : (build P cs).leaves = cs := by
  have h1 := buildAux_leaves P branching cs.length (cs.map fun c => T.leaf c.1 c.2)
  have h2 := buildAux_nodeOf P branching cs.length (cs.map fun c => T.leaf c.1 c.2)
  rw [leaves_leafList] at h1
  rw [nodeOf_leafList] at h2
  by_cases hne : cs = []
  · subst hne
    simp [build, buildAux, T.leaves, T.leavesL]
  · have h3 := pureMergeAux_single P branching (by decide) cs.length (cs.map toNode)
      (by simp only [List.length_map]; exact List.length_pos_iff.mpr hne) (by simp)
    rw [← h2, List.length_map] at h3
    unfold build
    generalize buildAux P branching cs.length (cs.map fun c => T.leaf c.1 c.2) = r at h1 h3
    match r, h3 with
    | [t], _ => simpa using h1

/-- the hash of the built tree is the root hash of the memo-free merge -/
theorem hashOf_build (P : HashPrims) (cs : List (Hash × Nat)) (hne : cs ≠ []) :
    (build P cs).hashOf P = pureRoot P cs := by
  have h2 := buildAux_nodeOf P branching cs.length (cs.map fun c => T.leaf c.1 c.2)
  rw [nodeOf_leafList] at h2
  have h3 := pureMergeAux_single P branching (by decide) cs.length (cs.map toNode)
    (by simp only [List.length_map]; exact List.length_pos_iff.mpr hne) (by simp)
  rw [← h2, List.length_map] at h3
  unfold build pureRoot
  rw [if_neg (by simpa using hne), ← h2]
  generalize buildAux P branching cs.length (cs.map fun c => T.leaf c.1 c.2) = r at h3
  match r, h3 with
  | [t], _ => rfl

/-! ## 7. Small facts for the corollaries -/

theorem nodeInRange_leaf {P : HashPrims} {a b : List (Hash × Nat)}
    (h : NodeInRange P (a.map toNode) (b.map toNode)) : LeafInRange P a b := by
  obtain ⟨n, hn, g, hg⟩ := h
  rcases hn with hn | hn <;> obtain ⟨c, hc, e⟩ := List.mem_map.mp hn <;> subst e
  · exact ⟨c, Or.inl hc, Or.inr ⟨g, hg⟩⟩
  · exact ⟨c, Or.inr hc, Or.inr ⟨g, hg⟩⟩

theorem toBytes_inj {x y : Hash} (h : x.toBytes = y.toBytes) : x = y := by
  have := congrArg Hash.ofBytes h
  simpa only [Hash.ofBytes_toBytes] using this

theorem flatMap_toBytes_inj {xs ys : List Hash} (h : xs.flatMap Hash.toBytes = ys.flatMap Hash.toBytes) : xs = ys := by
  induction xs generalizing ys with
  | nil =>
    cases ys with
    | nil => rfl
    | cons y ys =>
      have := congrArg List.length h
      simp [Hash.toBytes_length] at this
      omega
  | cons x xs ih =>
    cases ys with
    | nil =>
      have := congrArg List.length h
      simp [Hash.toBytes_length] at this
    | cons y ys =>
      simp only [List.flatMap_cons] at h
      obtain ⟨e1, e2⟩ := List.append_inj h (by simp [Hash.toBytes_length])
      rw [toBytes_inj e1, ih e2]

/-- the chunk list of a sequence of chunk contents: `(compute_data_hash(d), d.len())` -/
def dataChunks (P : HashPrims) (ds : List Bytes) : List (Hash × Nat) := ds.map fun d => (P.dataHash d, d.length)

theorem dataChunks_inj_or (P : HashPrims) {da db : List Bytes} (h : dataChunks P da = dataChunks P db) :
    da = db ∨ Collision P.dataHash := by
  induction da generalizing db with
  | nil =>
    cases db with
    | nil => exact Or.inl rfl
    | cons d db => simp [dataChunks] at h
  | cons x da ih =>
    cases db with
    | nil => simp [dataChunks] at h
    | cons y db =>
      simp only [dataChunks, List.map_cons, List.cons.injEq, Prod.mk.injEq] at h
      by_cases hxy : x = y
      · rcases ih (by simpa [dataChunks] using h.2) with e | c
        · exact Or.inl (by rw [hxy, e])
        · exact Or.inr c
      · exact Or.inr ⟨x, y, hxy, h.1.1⟩

end Xet.Merkle
