/-
C13 — Chunk-cache accounting is exact and the capacity bound holds.

Model: `XetModel/Cache.lean` (step-granular concurrent semantics of `chunk_cache/src/disk.rs`,
`fixed = true` = the code after the F10 fix, `fixed = false` = the code before it).
Theorems quantify over every interleaving (`List Action`), every oracle value (eviction choices,
deletion order) and every CRC function.
-/
import XetProofs.Cache

namespace Xet.Cache

/-- **Accounting is exact in every reachable state.**  From any state with exact counters (in
    particular the empty cache), after any sequence of steps of any number of threads — any
    interleaving of puts and gets at schedule-point granularity, including identical items
    inserted concurrently, any eviction choices — `num_items` is the number of tracked entries and
    `total_bytes` the sum of their lengths. -/
theorem C13_exact (crc : Bytes → UInt32) (w w' : World) (as : List Action)
    (h0 : Exact w.st) (h : run crc true w as = some w') :
    w'.st.numItems = cnt w'.st.items ∧ w'.st.totalBytes = byt w'.st.items :=
  (run_pres crc true as w w' h0.weak h).2 rfl h0

/-- no step of the (fixed) semantics ever hits the arithmetic-underflow panic of a lock section:
    the mutex is never poisoned -/
theorem C13_commit_no_underflow (fixed : Bool) (cap : Nat) (st : CState) (k : Key) (it : Item)
    (choices : List EvChoice) (h : Weak st) : commit fixed cap st k it choices ≠ .panic := by
  have := commit_spec fixed cap st k it choices h
  intro e; rw [e] at this; exact this

/-- **Capacity bound.**  If the counters are exact and the new item is not larger than the
    capacity, then after the commit section of `put` (for every legal sequence of eviction
    choices) `total_bytes ≤ capacity`. -/
theorem C13_capacity (cap : Nat) (st : CState) (k : Key) (it : Item) (choices : List EvChoice) (out : CommitOut)
    (hex : Exact st) (hlen : it.len.toNat ≤ cap) (h : commit true cap st k it choices = .ok out) :
    out.st.totalBytes ≤ cap ∧ Exact out.st := by
  have := commit_spec true cap st k it choices hex.weak
  rw [h] at this
  have := this.2 rfl hex
  exact ⟨this.2 hlen, this.1⟩

/-- **The code before the F10 fix**: the item count is exact and the byte total is never too
    small (so nothing underflows) in every reachable state … -/
theorem C13_prefix_weak (crc : Bytes → UInt32) (w w' : World) (as : List Action)
    (h0 : Weak w.st) (h : run crc false w as = some w') :
    w'.st.numItems = cnt w'.st.items ∧ byt w'.st.items ≤ w'.st.totalBytes :=
  (run_pres crc false as w w' h0 h).1

/-! ### F10: the pre-fix step function violates exactness (witness schedule) -/

def f10Key : Key := [1, 2, 3]
def f10Op : Op := .put f10Key ⟨0, 1⟩ [0, 1] [7]
def f10World : World := ⟨CState.empty, [], 1000, false, [.idle, .idle]⟩
/-- both threads pass `find_match` before either commits -/
def f10Schedule : List Action :=
  [.start 0 f10Op, .start 1 f10Op, .go 0 {}, .go 1 {}, .go 0 {}, .go 1 {}]

/-- … but `total_bytes` is too large after two simultaneous identical puts: one entry of 13 bytes
    is tracked, `total_bytes = 26`. -/
theorem C13_prefix_F10_witness :
    (run (fun _ => 0) false f10World f10Schedule).map
      (fun w => (w.st.numItems, cnt w.st.items, w.st.totalBytes, byt w.st.items, quiescent w))
      = some (1, 1, 26, 13, true) := by
  decide

/-- the same schedule with the repaired commit step is exact -/
example :
    (run (fun _ => 0) true f10World f10Schedule).map
      (fun w => (w.st.numItems, cnt w.st.items, w.st.totalBytes, byt w.st.items, quiescent w))
      = some (1, 1, 13, 13, true) := by
  decide

end Xet.Cache
