import XetModel.Uploads

namespace Xet.Uploads

/-! ### `setAt` -/

theorem getElem?_setAt {α} (l : List α) (i j : Nat) (v : α) :
    (setAt l i v)[j]? = if j = i then l[j]?.map (fun _ => v) else l[j]? := by
  unfold setAt
  rw [List.getElem?_map, List.getElem?_zipIdx]
  cases h : l[j]? <;> simp
  split <;> simp_all

theorem length_setAt {α} (l : List α) (i : Nat) (v : α) : (setAt l i v).length = l.length := by
  simp [setAt]


/-! ### `reap` -/

/-- what one call of the reap loop may do to a state -/
structure ReapSpec (s : S) (r : S × Bool) : Prop where
  apiErrors : r.1.apiErrors = s.apiErrors
  finalized : r.1.finalized = s.finalized
  shardUploadsStarted : r.1.shardUploadsStarted = s.shardUploadsStarted
  shardFailed : r.1.shardFailed = s.shardFailed
  length : r.1.tasks.length = s.tasks.length
  latch_mono : s.latch = true → r.1.latch = true
  latch_true : r.2 = true → r.1.latch = true
  latch_false : r.2 = false → r.1.latch = s.latch
  /-- every task is untouched, or was `.done ok` and is now `.reaped ok` (and if `ok = false` the loop
      reported it) -/
  tasks : ∀ j : Nat, r.1.tasks[j]? = s.tasks[j]? ∨
      ∃ ok : Bool, s.tasks[j]? = some (.done ok) ∧ r.1.tasks[j]? = some (.reaped ok) ∧ (ok = false → r.2 = true)
  /-- the loop reports an error only if it reaped a failed task -/
  failed : r.2 = true → ∃ j : Nat, s.tasks[j]? = some (.done false) ∧ r.1.tasks[j]? = some (.reaped false)
  finished : r.1.finished.Sublist s.finished

theorem reap_zero (s : S) : reap 0 s = (s, false) := rfl

theorem reap_nil (n : Nat) (s : S) (h : s.finished = []) : reap n s = (s, false) := by
  cases n <;> simp [reap, h]

theorem reap_ok (n : Nat) (s : S) (i : Nat) (rest : List Nat) (h : s.finished = i :: rest)
    (ht : s.tasks[i]? = some (.done true)) :
    reap (n+1) s = reap n { s with finished := rest, tasks := setAt s.tasks i (.reaped true) } := by
  simp [reap, h, ht]

theorem reap_fail (n : Nat) (s : S) (i : Nat) (rest : List Nat) (h : s.finished = i :: rest)
    (ht : s.tasks[i]? = some (.done false)) :
    reap (n+1) s = ({ s with finished := rest, tasks := setAt s.tasks i (.reaped false), latch := true }, true) := by
  simp [reap, h, ht]

theorem reap_skip (n : Nat) (s : S) (i : Nat) (rest : List Nat) (h : s.finished = i :: rest)
    (ht : ∀ ok, s.tasks[i]? ≠ some (.done ok)) :
    reap (n+1) s = reap n { s with finished := rest } := by
  simp only [reap, h]

theorem reapSpec_refl (s : S) : ReapSpec s (s, false) := by
  constructor <;> simp

theorem reap_spec (n : Nat) (s : S) : ReapSpec s (reap n s) := by
  induction n generalizing s with
  | zero => exact reapSpec_refl s
  | succ n ih =>
    cases hf : s.finished with
    | nil => rw [reap_nil _ _ hf]; exact reapSpec_refl s
    | cons i rest =>
      by_cases hd : ∃ ok, s.tasks[i]? = some (.done ok)
      · obtain ⟨ok, hd⟩ := hd
        cases ok with
        | true =>
          rw [reap_ok n s i rest hf hd]
          have h := ih { s with finished := rest, tasks := setAt s.tasks i (.reaped true) }
          constructor
          · exact h.apiErrors
          · exact h.finalized
          · exact h.shardUploadsStarted
          · exact h.shardFailed
          · simpa [length_setAt] using h.length
          · exact h.latch_mono
          · exact h.latch_true
          · exact h.latch_false
          · intro j
            have hj := h.tasks j
            simp only [getElem?_setAt] at hj
            by_cases hji : j = i
            · subst hji
              simp [hd] at hj
              right; exact ⟨true, hd, hj, by simp⟩
            · simpa [hji] using hj
          · intro hr
            obtain ⟨j, h1, h2⟩ := h.failed hr
            simp only [getElem?_setAt] at h1
            by_cases hji : j = i
            · subst hji; simp [hd] at h1
            · simp [hji] at h1; exact ⟨j, h1, h2⟩
          · rw [hf]; exact (h.finished).trans (List.sublist_cons_self _ _)
        | false =>
          rw [reap_fail n s i rest hf hd]
          constructor <;> simp [length_setAt, hf]
          · intro j
            by_cases hji : j = i
            · subst hji; right; simp [getElem?_setAt, hd]
            · left; simp [getElem?_setAt, hji]
          · exact ⟨i, hd, by simp [getElem?_setAt, hd]⟩
      · rw [reap_skip n s i rest hf (by intro ok h; exact hd ⟨ok, h⟩)]
        have h := ih { s with finished := rest }
        constructor
        · exact h.apiErrors
        · exact h.finalized
        · exact h.shardUploadsStarted
        · exact h.shardFailed
        · exact h.length
        · exact h.latch_mono
        · exact h.latch_true
        · exact h.latch_false
        · exact h.tasks
        · exact h.failed
        · rw [hf]; exact (h.finished).trans (List.sublist_cons_self _ _)

/-- the reap loop never touches a running task (nor creates one) -/
theorem reap_running (n : Nat) (s : S) (j : Nat) :
    (reap n s).1.tasks[j]? = some .running ↔ s.tasks[j]? = some .running := by
  rcases (reap_spec n s).tasks j with h | ⟨ok, h1, h2, _⟩
  · rw [h]
  · rw [h1, h2]; simp

/-- the reap loop returns an error iff it reaped a failed task (and then the latch is set) -/
theorem reap_true_iff (n : Nat) (s : S) :
    (reap n s).2 = true ↔
      ∃ j : Nat, s.tasks[j]? = some (.done false) ∧ (reap n s).1.tasks[j]? = some (.reaped false) := by
  constructor
  · exact (reap_spec n s).failed
  · rintro ⟨j, h1, h2⟩
    rcases (reap_spec n s).tasks j with h | ⟨ok, h1', _, h3⟩
    · rw [h1, h2] at h; simp at h
    · rw [h1] at h1'; simp at h1'; exact h3 h1'

theorem reap_finished_length (n : Nat) (s : S) : (reap n s).1.finished.length ≤ s.finished.length :=
  (reap_spec n s).finished.length_le

/-- `finished` = exactly the finished-but-unreaped tasks, each once -/
structure WF (s : S) : Prop where
  nodup : s.finished.Nodup
  mem_done : ∀ i : Nat, i ∈ s.finished → ∃ ok : Bool, s.tasks[i]? = some (.done ok)
  done_mem : ∀ (i : Nat) (ok : Bool), s.tasks[i]? = some (.done ok) → i ∈ s.finished

theorem wf_reap_step (s : S) (i : Nat) (rest : List Nat) (ok : Bool) (l : Bool) (hw : WF s)
    (hf : s.finished = i :: rest) :
    WF { s with finished := rest, tasks := setAt s.tasks i (.reaped ok), latch := l } := by
  have hnd := hw.nodup
  rw [hf] at hnd
  have hni : i ∉ rest := (List.nodup_cons.mp hnd).1
  constructor
  · exact (List.nodup_cons.mp hnd).2
  · intro j hj
    have hji : j ≠ i := by intro h; subst h; exact hni hj
    obtain ⟨ok', h⟩ := hw.mem_done j (by rw [hf]; exact List.mem_cons_of_mem _ hj)
    exact ⟨ok', by simp [getElem?_setAt, hji, h]⟩
  · intro j ok' hj
    simp only [getElem?_setAt] at hj
    by_cases hji : j = i
    · subst hji
      cases h : s.tasks[j]? <;> simp [h] at hj
    · simp [hji] at hj
      have := hw.done_mem j ok' hj
      rw [hf] at this
      simpa [hji] using this

theorem wf_reap (n : Nat) (s : S) (hw : WF s) : WF (reap n s).1 := by
  induction n generalizing s with
  | zero => exact hw
  | succ n ih =>
    cases hf : s.finished with
    | nil => rw [reap_nil _ _ hf]; exact hw
    | cons i rest =>
      obtain ⟨ok, hd⟩ := hw.mem_done i (by simp [hf])
      cases ok with
      | true =>
        rw [reap_ok n s i rest hf hd]
        exact ih _ (wf_reap_step s i rest true s.latch hw hf)
      | false =>
        rw [reap_fail n s i rest hf hd]
        exact wf_reap_step s i rest false true hw hf

/-- with enough fuel, a reap loop that reports no error has drained the queue -/
theorem reap_drained (n : Nat) (s : S) (hw : WF s) (hn : s.finished.length < n)
    (hr : (reap n s).2 = false) : (reap n s).1.finished = [] := by
  induction n generalizing s with
  | zero => omega
  | succ n ih =>
    cases hf : s.finished with
    | nil => rw [reap_nil _ _ hf]; exact hf
    | cons i rest =>
      obtain ⟨ok, hd⟩ := hw.mem_done i (by simp [hf])
      cases ok with
      | true =>
        rw [reap_ok n s i rest hf hd] at hr ⊢
        exact ih _ (wf_reap_step s i rest true s.latch hw hf) (by simp [hf] at hn; simpa using hn) hr
      | false =>
        rw [reap_fail n s i rest hf hd] at hr
        simp at hr


/-! ### `completeRunning`, `reapAll` -/

theorem length_completeRunning (ts : List TaskSt) (os : List Bool) :
    (completeRunning ts os).length = ts.length := by
  fun_induction completeRunning ts os <;> simp_all

/-- the join loop only turns `.running` into `.done _`; everything else is untouched -/
theorem getElem?_completeRunning (ts : List TaskSt) (os : List Bool) (j : Nat) :
    (ts[j]? = some .running ∧ ∃ o : Bool, (completeRunning ts os)[j]? = some (.done o)) ∨
    (ts[j]? ≠ some .running ∧ (completeRunning ts os)[j]? = ts[j]?) := by
  fun_induction completeRunning ts os generalizing j with
  | case1 => simp
  | case2 ts o os ih => cases j with
    | zero => simp
    | succ j => simpa using ih j
  | case3 ts ih => cases j with
    | zero => simp
    | succ j => simpa using ih j
  | case4 t ts os h1 h2 ih => cases j with
    | zero =>
      right
      simp
      intro h; subst h
      cases os <;> simp at h1 h2
    | succ j => simpa using ih j

theorem completeRunning_no_running (ts : List TaskSt) (os : List Bool) (j : Nat) :
    (completeRunning ts os)[j]? ≠ some .running := by
  rcases getElem?_completeRunning ts os j with ⟨_, o, h⟩ | ⟨h1, h2⟩
  · simp [h]
  · rw [h2]; exact h1


/-! ### the invariant -/

/-- the inductive invariant of the upload bookkeeping (holds in every reachable state, before and after
    `finalize`) -/
structure Inv (s : S) : Prop where
  wf : WF s
  /-- a reaped failure is remembered: by the latch, or by the failed `finalize` that saw it -/
  reaped_latch : ∀ i : Nat, s.tasks[i]? = some (.reaped false) → s.latch = true ∨ s.finalized = some false
  /-- a reaped failure was returned by an API call -/
  reaped_err : ∀ i : Nat, s.tasks[i]? = some (.reaped false) → 1 ≤ s.apiErrors
  latch_err : s.latch = true → 1 ≤ s.apiErrors
  latch_fin : s.latch = true → s.finalized ≠ some true
  fin_err : s.finalized = some false → 1 ≤ s.apiErrors
  fin_ok : s.finalized = some true → ∀ (i : Nat) (t : TaskSt), s.tasks[i]? = some t → taskOk t = true
  shard_fin : s.shardFailed = true → s.finalized = some false
  started_ok : s.shardUploadsStarted = true → ∀ (i : Nat) (t : TaskSt), s.tasks[i]? = some t → taskOk t = true
  started_fin : s.shardUploadsStarted = true → s.finalized.isSome = true

theorem inv_init : Inv S.init := by
  constructor <;> simp [S.init]
  constructor <;> simp

/-- facts about `registerStep` from a not-yet-finalized state -/
structure RegSpec (s : S) (r : S × Bool) : Prop where
  inv : Inv r.1
  finalized : r.1.finalized = s.finalized
  err : r.2 = false → 1 ≤ r.1.apiErrors
  errs_mono : s.apiErrors ≤ r.1.apiErrors
  started : r.1.shardUploadsStarted = s.shardUploadsStarted
  shardFailed : r.1.shardFailed = s.shardFailed
  /-- a successful registration has reaped everything that had finished -/
  drained : r.2 = true → r.1.finished = []
  /-- a failed registration reaped a failed task, set the latch, and counted one API error -/
  failed : r.2 = false → r.1.latch = true ∧ r.1.apiErrors = s.apiErrors + 1 ∧
      ∃ j : Nat, s.tasks[j]? = some (.done false) ∧ r.1.tasks[j]? = some (.reaped false)

theorem getElem?_snoc_running (ts : List TaskSt) (i : Nat) (t : TaskSt) (ht : t ≠ .running)
    (h : (ts ++ [TaskSt.running])[i]? = some t) : ts[i]? = some t := by
  rw [List.getElem?_append] at h
  split at h
  · exact h
  · rename_i hlt
    cases hi : i - ts.length with
    | zero => simp [hi] at h; exact absurd h.symm ht
    | succ k => simp [hi] at h

theorem wf_snoc_running (s : S) (hw : WF s) : WF { s with tasks := s.tasks ++ [.running] } := by
  constructor
  · exact hw.nodup
  · intro i hi
    obtain ⟨ok, h⟩ := hw.mem_done i hi
    refine ⟨ok, ?_⟩
    have hlt : i < s.tasks.length := by
      rcases Nat.lt_or_ge i s.tasks.length with h' | h'
      · exact h'
      · rw [List.getElem?_eq_none h'] at h; simp at h
    show (s.tasks ++ [TaskSt.running])[i]? = _
    rw [List.getElem?_append_left hlt]; exact h
  · intro i ok h
    exact hw.done_mem i ok (getElem?_snoc_running _ _ _ (by simp) h)

theorem registerStep_spec (s : S) (ne : Bool) (hi : Inv s) (hfin : s.finalized = none) :
    RegSpec s (registerStep s ne) := by
  have hsp := reap_spec (s.finished.length + 1) s
  have hwf := wf_reap (s.finished.length + 1) s hi.wf
  have hdr := reap_drained (s.finished.length + 1) s hi.wf (Nat.lt_succ_self _)
  -- facts about the state after the reap loop
  have hfin' : (reap (s.finished.length + 1) s).1.finalized = none := by rw [hsp.finalized, hfin]
  have hst' : (reap (s.finished.length + 1) s).1.shardUploadsStarted = false := by
    rw [hsp.shardUploadsStarted]
    cases h : s.shardUploadsStarted
    · rfl
    · have := hi.started_fin h; simp [hfin] at this
  have hsf' : (reap (s.finished.length + 1) s).1.shardFailed = false := by
    rw [hsp.shardFailed]
    cases h : s.shardFailed
    · rfl
    · have := hi.shard_fin h; simp [hfin] at this
  unfold registerStep
  cases hr : (reap (s.finished.length + 1) s).2 with
  | true =>
    simp only [hr, if_true]
    have hl := hsp.latch_true hr
    refine ⟨⟨?_, ?_, ?_, ?_, ?_, ?_, ?_, ?_, ?_, ?_⟩, hsp.finalized, ?_, ?_, hsp.shardUploadsStarted,
      hsp.shardFailed, ?_, ?_⟩
    · exact ⟨hwf.nodup, hwf.mem_done, hwf.done_mem⟩
    · intro i _; exact Or.inl hl
    · intro i _; simp
    · intro _; simp
    · intro _; simp [hfin']
    · intro _; simp
    · simp [hfin']
    · simp [hsf']
    · simp [hst']
    · simp [hst']
    · intro _; simp
    · simp [hsp.apiErrors]
    · simp
    · intro _
      refine ⟨hl, by simp [hsp.apiErrors], hsp.failed hr⟩
  | false =>
    simp only [hr]
    have hlatch := hsp.latch_false hr
    -- no new reaped failure
    have hold : ∀ i : Nat, (reap (s.finished.length + 1) s).1.tasks[i]? = some (.reaped false) →
        s.tasks[i]? = some (.reaped false) := by
      intro i h
      rcases hsp.tasks i with h' | ⟨ok, h1, h2, h3⟩
      · rw [← h']; exact h
      · rw [h2] at h
        cases ok with
        | true => simp at h
        | false => have := h3 rfl; simp [hr] at this
    have hinv : Inv (reap (s.finished.length + 1) s).1 := by
      refine ⟨hwf, ?_, ?_, ?_, ?_, ?_, ?_, ?_, ?_, ?_⟩
      · intro i h
        rcases hi.reaped_latch i (hold i h) with h' | h'
        · left; rw [hlatch]; exact h'
        · simp [hfin] at h'
      · intro i h; rw [hsp.apiErrors]; exact hi.reaped_err i (hold i h)
      · intro h; rw [hsp.apiErrors]; exact hi.latch_err (by rw [← hlatch]; exact h)
      · simp [hfin']
      · simp [hfin']
      · simp [hfin']
      · simp [hsf']
      · simp [hst']
      · simp [hst']
    cases ne with
    | true =>
      simp only [Bool.false_eq_true, if_false, if_true]
      refine ⟨⟨?_, ?_, ?_, ?_, ?_, ?_, ?_, ?_, ?_, ?_⟩, hsp.finalized, by simp, by simp [hsp.apiErrors],
        hsp.shardUploadsStarted, hsp.shardFailed, ?_, by simp⟩
      · exact wf_snoc_running _ hwf
      · intro i h; exact hinv.reaped_latch i (getElem?_snoc_running _ _ _ (by simp) h)
      · intro i h; exact hinv.reaped_err i (getElem?_snoc_running _ _ _ (by simp) h)
      · exact hinv.latch_err
      · exact hinv.latch_fin
      · exact hinv.fin_err
      · simp [hfin']
      · simp [hsf']
      · simp [hst']
      · simp [hst']
      · intro _; exact hdr hr
    | false =>
      simp only [Bool.false_eq_true, if_false]
      exact ⟨hinv, hsp.finalized, by simp, by simp [hsp.apiErrors], hsp.shardUploadsStarted,
        hsp.shardFailed, fun _ => hdr hr, by simp⟩


/-! ### `step` preserves the invariant -/

/-- the part of `finalize` after the last xorb was registered successfully: join loop, latch check, shards -/
def finalizeCore (r : S) (rest : List Bool) (shardsOk : Bool) : S :=
  let ts := completeRunning r.tasks rest
  let s1 := { r with tasks := ts.map reapAll, finished := [] }
  if !allUnreapedOk ts then { s1 with finalized := some false, apiErrors := s1.apiErrors + 1 }
  else if s1.latch then { s1 with finalized := some false, apiErrors := s1.apiErrors + 1 }
  else if shardsOk then { s1 with shardUploadsStarted := true, finalized := some true }
  else { s1 with shardUploadsStarted := true, shardFailed := true, finalized := some false, apiErrors := s1.apiErrors + 1 }

theorem step_finalize (s : S) (lastNe : Bool) (rest : List Bool) (shardsOk : Bool) :
    step s (.finalize lastNe rest shardsOk) =
      if s.finalized.isSome then s
      else if !(registerStep s lastNe).2 then { (registerStep s lastNe).1 with finalized := some false }
      else finalizeCore (registerStep s lastNe).1 rest shardsOk := rfl

theorem step_register (s : S) (ne : Bool) :
    step s (.register ne) = if s.finalized.isSome then s else (registerStep s ne).1 := rfl

theorem step_complete_running (s : S) (i : Nat) (ok : Bool) (h : s.tasks[i]? = some .running) :
    step s (.complete i ok) = { s with tasks := setAt s.tasks i (.done ok), finished := s.finished ++ [i] } := by
  simp [step, h]

theorem step_complete_other (s : S) (i : Nat) (ok : Bool) (h : s.tasks[i]? ≠ some .running) :
    step s (.complete i ok) = s := by
  simp only [step]

/-- tasks after the join loop of `finalize`: nothing runs, nothing is `.done` any more -/
theorem getElem?_joined (ts : List TaskSt) (os : List Bool) (j : Nat) (t : TaskSt)
    (h : ((completeRunning ts os).map reapAll)[j]? = some t) : ∃ ok : Bool, t = .reaped ok := by
  rw [List.getElem?_map] at h
  cases hc : (completeRunning ts os)[j]? with
  | none => simp [hc] at h
  | some u =>
    simp [hc] at h
    cases u with
    | running => exact absurd hc (completeRunning_no_running ts os j)
    | done ok => exact ⟨ok, by simp [reapAll] at h; exact h.symm⟩
    | reaped ok => exact ⟨ok, by simp [reapAll] at h; exact h.symm⟩

/-- a failure visible after the join loop was either `.reaped false` before it, or makes the join loop fail -/
theorem joined_reaped_false (ts : List TaskSt) (os : List Bool) (j : Nat)
    (h : ((completeRunning ts os).map reapAll)[j]? = some (.reaped false)) :
    ts[j]? = some (.reaped false) ∨ allUnreapedOk (completeRunning ts os) = false := by
  rw [List.getElem?_map] at h
  cases hc : (completeRunning ts os)[j]? with
  | none => simp [hc] at h
  | some u =>
    simp [hc] at h
    cases u with
    | running => exact absurd hc (completeRunning_no_running ts os j)
    | done ok =>
      simp [reapAll] at h; subst h
      right
      have hm := List.mem_of_getElem? hc
      cases hall : allUnreapedOk (completeRunning ts os) with
      | false => rfl
      | true =>
        have := List.all_eq_true.mp hall _ hm
        simp [notFailedDone] at this
    | reaped ok =>
      simp [reapAll] at h; subst h
      left
      rcases getElem?_completeRunning ts os j with ⟨_, o, h'⟩ | ⟨_, h'⟩
      · rw [hc] at h'; simp at h'
      · rw [← h']; exact hc

theorem wf_joined (r : S) (ts : List TaskSt) (os : List Bool) :
    WF { r with tasks := (completeRunning ts os).map reapAll, finished := [] } := by
  constructor
  · simp
  · simp
  · intro i ok h
    obtain ⟨ok', h'⟩ := getElem?_joined ts os i _ h
    simp at h'

theorem inv_finalizeCore (r : S) (rest : List Bool) (shardsOk : Bool) (hi : Inv r)
    (hfin : r.finalized = none) : Inv (finalizeCore r rest shardsOk) := by
  have hst : r.shardUploadsStarted = false := by
    cases h : r.shardUploadsStarted
    · rfl
    · have := hi.started_fin h; simp [hfin] at this
  have hsf : r.shardFailed = false := by
    cases h : r.shardFailed
    · rfl
    · have := hi.shard_fin h; simp [hfin] at this
  have hwf := wf_joined r r.tasks rest
  unfold finalizeCore
  simp only
  cases hall : allUnreapedOk (completeRunning r.tasks rest) with
  | false =>
    simp only [Bool.not_false, if_true]
    refine ⟨⟨hwf.nodup, hwf.mem_done, hwf.done_mem⟩, ?_, ?_, ?_, ?_, ?_, ?_, ?_, ?_, ?_⟩ <;> simp [hst, hsf]
  | true =>
    simp only [Bool.not_true, Bool.false_eq_true, if_false]
    cases hl : r.latch with
    | true =>
      simp only [if_true]
      refine ⟨⟨hwf.nodup, hwf.mem_done, hwf.done_mem⟩, ?_, ?_, ?_, ?_, ?_, ?_, ?_, ?_, ?_⟩ <;> simp [hst, hsf]
    | false =>
      simp only [Bool.false_eq_true, if_false]
      -- every task was stored
      have hok : ∀ (i : Nat) (t : TaskSt),
          ((completeRunning r.tasks rest).map reapAll)[i]? = some t → taskOk t = true := by
        intro i t h
        obtain ⟨ok, rfl⟩ := getElem?_joined _ _ i t h
        cases ok with
        | true => rfl
        | false =>
          rcases joined_reaped_false _ _ i h with h' | h'
          · rcases hi.reaped_latch i h' with h'' | h''
            · simp [hl] at h''
            · simp [hfin] at h''
          · simp [hall] at h'
      have hnr : ∀ i : Nat, ((completeRunning r.tasks rest).map reapAll)[i]? ≠ some (.reaped false) := by
        intro i h; have := hok i _ h; simp [taskOk] at this
      cases shardsOk with
      | true =>
        simp only [if_true]
        refine ⟨⟨hwf.nodup, hwf.mem_done, hwf.done_mem⟩, ?_, ?_, ?_, ?_, ?_, ?_, ?_, ?_, ?_⟩
        · intro i h; exact absurd h (hnr i)
        · intro i h; exact absurd h (hnr i)
        · simp
        · simp
        · simp
        · intro _; exact hok
        · simp [hsf]
        · intro _; exact hok
        · simp
      | false =>
        simp only [Bool.false_eq_true, if_false]
        refine ⟨⟨hwf.nodup, hwf.mem_done, hwf.done_mem⟩, ?_, ?_, ?_, ?_, ?_, ?_, ?_, ?_, ?_⟩
        · intro i h; exact absurd h (hnr i)
        · intro i h; exact absurd h (hnr i)
        · simp
        · simp
        · simp
        · simp
        · simp
        · intro _; exact hok
        · simp

theorem inv_complete (s : S) (i : Nat) (ok : Bool) (hi : Inv s) : Inv (step s (.complete i ok)) := by
  by_cases hr : s.tasks[i]? = some .running
  · rw [step_complete_running s i ok hr]
    -- a running task contradicts "all tasks ok"
    have hno : (∀ (j : Nat) (t : TaskSt), s.tasks[j]? = some t → taskOk t = true) → False := by
      intro h; have := h i _ hr; simp [taskOk] at this
    have hother : ∀ (j : Nat) (t : TaskSt), (∀ o, t ≠ .done o) →
        (setAt s.tasks i (.done ok))[j]? = some t → s.tasks[j]? = some t := by
      intro j t ht h
      rw [getElem?_setAt] at h
      by_cases hji : j = i
      · subst hji; simp [hr] at h; exact absurd h.symm (ht ok)
      · simpa [hji] using h
    refine ⟨⟨?_, ?_, ?_⟩, ?_, ?_, hi.latch_err, hi.latch_fin, hi.fin_err, ?_, hi.shard_fin, ?_, hi.started_fin⟩
    · show (s.finished ++ [i]).Nodup
      rw [List.nodup_append]
      refine ⟨hi.wf.nodup, by simp, ?_⟩
      intro a ha b hb
      simp at hb; subst hb
      intro hab; subst hab
      obtain ⟨o, h⟩ := hi.wf.mem_done a ha
      rw [hr] at h; simp at h
    · intro j hj
      show ∃ o : Bool, (setAt s.tasks i (.done ok))[j]? = _
      by_cases hji : j = i
      · subst hji; exact ⟨ok, by simp [getElem?_setAt, hr]⟩
      · have : j ∈ s.finished := by
          have : j ∈ s.finished ++ [i] := hj
          simpa [hji] using this
        obtain ⟨o, h⟩ := hi.wf.mem_done j this
        exact ⟨o, by simp [getElem?_setAt, hji, h]⟩
    · intro j o h
      show j ∈ s.finished ++ [i]
      by_cases hji : j = i
      · simp [hji]
      · have h' : (setAt s.tasks i (.done ok))[j]? = some (.done o) := h
        rw [getElem?_setAt] at h'
        simp [hji] at h'
        simp [hi.wf.done_mem j o h']
    · intro j h; exact hi.reaped_latch j (hother j _ (by simp) h)
    · intro j h; exact hi.reaped_err j (hother j _ (by simp) h)
    · intro h; exact absurd (hi.fin_ok h) hno
    · intro h; exact absurd (hi.started_ok h) hno
  · rw [step_complete_other s i ok hr]; exact hi

theorem inv_step (s : S) (e : Ev) (hi : Inv s) : Inv (step s e) := by
  cases e with
  | register ne =>
    rw [step_register]
    cases hf : s.finalized with
    | some b => simpa using hi
    | none => simpa using (registerStep_spec s ne hi hf).inv
  | complete i ok => exact inv_complete s i ok hi
  | finalize lastNe rest shardsOk =>
    rw [step_finalize]
    cases hf : s.finalized with
    | some b => simpa using hi
    | none =>
      have hsp := registerStep_spec s lastNe hi hf
      have hfin' : (registerStep s lastNe).1.finalized = none := by rw [hsp.finalized, hf]
      simp only [Option.isSome_none, Bool.false_eq_true, if_false]
      cases hr : (registerStep s lastNe).2 with
      | true =>
        simp only [Bool.not_true, Bool.false_eq_true, if_false]
        exact inv_finalizeCore _ rest shardsOk hsp.inv hfin'
      | false =>
        simp only [Bool.not_false, if_true]
        have hI := hsp.inv
        have hst : (registerStep s lastNe).1.shardUploadsStarted = false := by
          cases h : (registerStep s lastNe).1.shardUploadsStarted
          · rfl
          · have := hI.started_fin h; simp [hfin'] at this
        have hsf : (registerStep s lastNe).1.shardFailed = false := by
          cases h : (registerStep s lastNe).1.shardFailed
          · rfl
          · have := hI.shard_fin h; simp [hfin'] at this
        refine ⟨⟨hI.wf.nodup, hI.wf.mem_done, hI.wf.done_mem⟩, ?_, hI.reaped_err, hI.latch_err, ?_, ?_, ?_, ?_, ?_, ?_⟩
        · intro _ _; exact Or.inr rfl
        · simp
        · intro _; exact hsp.err hr
        · simp
        · simp
        · simp [hst]
        · simp [hst]

theorem inv_run (s : S) (evs : List Ev) (hi : Inv s) : Inv (run s evs) := by
  induction evs generalizing s with
  | nil => exact hi
  | cons e evs ih => exact ih _ (inv_step s e hi)

theorem run_append (s : S) (a b : List Ev) : run s (a ++ b) = run (run s a) b := by
  simp [run, List.foldl_append]

theorem run_snoc (s : S) (a : List Ev) (e : Ev) : run s (a ++ [e]) = step (run s a) e := by
  simp [run, List.foldl_append]

theorem inv_reachable (evs : List Ev) : Inv (run S.init evs) := inv_run _ _ inv_init


/-- the bare `spawn` of `register_new_xorb_for_upload` (without the preceding reap loop) also preserves the
    invariant — so the theorems extend to interleavings in which the reap loop of one caller and its `spawn`
    are separated by other callers' registrations (the Rust code releases the task-set lock in between). -/
theorem inv_spawn (s : S) (hi : Inv s) (hfin : s.finalized = none) :
    Inv { s with tasks := s.tasks ++ [.running] } := by
  have hst : s.shardUploadsStarted = false := by
    cases h : s.shardUploadsStarted
    · rfl
    · have := hi.started_fin h; simp [hfin] at this
  refine ⟨wf_snoc_running _ hi.wf, ?_, ?_, hi.latch_err, hi.latch_fin, hi.fin_err, ?_, hi.shard_fin, ?_, hi.started_fin⟩
  · intro i h; exact hi.reaped_latch i (getElem?_snoc_running _ _ _ (by simp) h)
  · intro i h; exact hi.reaped_err i (getElem?_snoc_running _ _ _ (by simp) h)
  · simp [hfin]
  · simp [hst]

/-! ### a failure is reported by the next call that reaches the reap loop -/

theorem reap_reports (n : Nat) (s : S) (hw : WF s) (hn : s.finished.length < n) (j : Nat)
    (hj : s.tasks[j]? = some (.done false)) : (reap n s).2 = true := by
  cases hr : (reap n s).2 with
  | true => rfl
  | false =>
    have hd := reap_drained n s hw hn hr
    have hw' := wf_reap n s hw
    rcases (reap_spec n s).tasks j with h | ⟨ok, h1, _, h3⟩
    · rw [hj] at h
      have := hw'.done_mem j false h
      simp [hd] at this
    · rw [hj] at h1
      simp at h1
      have := h3 h1
      simp [hr] at this

theorem registerStep_reports (s : S) (ne : Bool) (hw : WF s) (j : Nat)
    (hj : s.tasks[j]? = some (.done false)) : (registerStep s ne).2 = false := by
  have := reap_reports (s.finished.length + 1) s hw (Nat.lt_succ_self _) j hj
  simp [registerStep, this]

/-! ### the pre-fix behaviour (F9): `finalize` without the latch check -/

/-- `step` as it was before the `xorb_upload_failed` latch was added: identical, except that `finalize` does not
    consult the latch after the join loop -/
def stepNoLatch (s : S) : Ev → S
  | .finalize lastNe rest shardsOk =>
    if s.finalized.isSome then s else
    let r := registerStep s lastNe
    if !r.2 then { r.1 with finalized := some false }
    else
      let ts := completeRunning r.1.tasks rest
      let s1 := { r.1 with tasks := ts.map reapAll, finished := [] }
      if !allUnreapedOk ts then { s1 with finalized := some false, apiErrors := s1.apiErrors + 1 }
      else if shardsOk then { s1 with shardUploadsStarted := true, finalized := some true }
      else { s1 with shardUploadsStarted := true, shardFailed := true, finalized := some false, apiErrors := s1.apiErrors + 1 }
  | e => step s e

def runNoLatch (s : S) (evs : List Ev) : S := evs.foldl stepNoLatch s

/-- the F9 history: xorb 0 registered; its upload fails in the background; the next registration reaps the
    failure and returns the error; then `finalize` (nothing left to cut, nothing running, shards upload fine) -/
def f9History : List Ev :=
  [.register true, .complete 0 false, .register true, .finalize false [] true]

end Xet.Uploads
