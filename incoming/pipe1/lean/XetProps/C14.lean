/-
C14 — Reported sizes and dedup metrics are conserved.

Model: `XetModel/Dedup.lean` (`processChunks`/`processLoop` follow `FileDeduper::process_chunks` after
the `fix:` commit for F2; `finalize`, `Agg.*`, `Sess.*`).  Invariant and helper lemmas:
`XetProofs/Dedup.lean`.

Every theorem quantifies over: every hash-primitive record `P`; every `Limits`; EVERY defrag decision
procedure `allow : Defrag → Nat → Decision` (not only `Defrag.allowNext`); every history
`calls : List DCall` — i.e. every partition of the file's chunk list `allChunks calls` into
`process_chunks` calls, each with its own oracle answers and global-dedup counters — subject only to

* `HistoryLegal calls`: in every call, a stored answer `(n, s)` at slot `i` has `1 ≤ n`,
  `i + n ≤ chunks.length` and `s.bytes = Σ` data lengths of `chunks[i .. i+n)` (`answersLegal_iff`).
  This is what truthfulness of dedup answers (C05) provides; nothing is assumed about which xorb is
  named, the chunk-index range, or whether the answer is maximal.  Answers of the model's own
  `localQuery` need not be assumed legal: `localQuery_legal` proves it from the invariant.
* `LensFunctionalChunks (allChunks calls)`: two chunks of the file with the same hash have the same
  data length.  For real chunks (`hash = dataHash data`) a violation is a collision of the data hash
  (`lensFunctional_or_collision`).  It is needed because `dedup_query_against_local_data` takes the
  byte count of a run from the *remembered* chunk with that hash (`new_data[idx].data.len()`).

Not covered here: "the reported xorb and shard upload bytes equal what was actually handed to the
store" is a statement about the session's background upload tasks (F3); it is handled in the session
model, not in this file.
-/
import XetProofs.Dedup

namespace Xet.Dedup

/-- **Per-file conservation.**  After any legal history: total bytes / chunks are exactly what was
    fed in; new + deduplicated = total (bytes and chunks); what is counted as withheld from dedup by
    defrag prevention is a subset of the new data (bytes and chunks); and the recorded `(hash, len)`
    list is that of all chunks fed. -/
theorem C14_file_conservation (P : HashPrims) (L : Limits) (allow : Defrag → Nat → Decision) (calls : List DCall)
    (hlegal : HistoryLegal calls) (hlf : LensFunctionalChunks (allChunks calls)) :
    let fd := runCalls P L allow FD.init calls
    fd.metrics.totalBytes = dataSize (allChunks calls) ∧
    fd.metrics.totalChunks = (allChunks calls).length ∧
    fd.metrics.newBytes + fd.metrics.dedupedBytes = fd.metrics.totalBytes ∧
    fd.metrics.newChunks + fd.metrics.dedupedChunks = fd.metrics.totalChunks ∧
    fd.metrics.preventedBytes ≤ fd.metrics.newBytes ∧
    fd.metrics.preventedChunks ≤ fd.metrics.newChunks ∧
    fd.chunkHashes = chunkLens (allChunks calls) := by
  intro fd
  have h := history_inv P L 0 False allow calls hlf hlegal (fun f => f.elim)
  obtain ⟨tb, tc, sb, sc, pb, pc⟩ := h.metrics
  refine ⟨tb, tc, sb, sc, pb, pc, ?_⟩
  have := runCalls_chunkHashes P L allow calls FD.init
  rw [this]; simp [FD.init]

/-- the same at *every call boundary*: the statement holds after each prefix of the history -/
theorem C14_file_conservation_prefix (P : HashPrims) (L : Limits) (allow : Defrag → Nat → Decision) (calls : List DCall)
    (hlegal : HistoryLegal calls) (hlf : LensFunctionalChunks (allChunks calls)) (k : Nat) :
    let fd := runCalls P L allow FD.init (calls.take k)
    fd.metrics.totalBytes = dataSize (allChunks (calls.take k)) ∧
    fd.metrics.newBytes + fd.metrics.dedupedBytes = fd.metrics.totalBytes ∧
    fd.metrics.newChunks + fd.metrics.dedupedChunks = fd.metrics.totalChunks ∧
    fd.metrics.preventedBytes ≤ fd.metrics.newBytes ∧
    fd.metrics.preventedChunks ≤ fd.metrics.newChunks := by
  intro fd
  have hl' : HistoryLegal (calls.take k) := fun c hc => hlegal c (List.mem_of_mem_take hc)
  have hU' : LensFunctionalChunks (allChunks (calls.take k)) :=
    fun a ha b hb => hlf a (allChunks_take_subset calls k a ha) b (allChunks_take_subset calls k b hb)
  obtain ⟨tb, _, sb, sc, pb, pc, _⟩ := C14_file_conservation P L allow (calls.take k) hl' hU'
  exact ⟨tb, sb, sc, pb, pc⟩

/-- **Pointer size.**  The size written into the pointer file (`deduplication_metrics.total_bytes` of
    `FileDeduper::finalize`) is the number of bytes fed, and equals `MDBFileInfo::file_size()` of the
    single pending file record (the `debug_assert_eq!` in `SingleFileCleaner::finish`). -/
theorem C14_pointer_size (P : HashPrims) (L : Limits) (allow : Defrag → Nat → Decision) (calls : List DCall)
    (hlegal : HistoryLegal calls) (hlf : LensFunctionalChunks (allChunks calls)) (salt : Bytes) (sha : Hash) :
    let fin := finalize P (runCalls P L allow FD.init calls) salt sha
    fin.metrics.totalBytes = dataSize (allChunks calls) ∧
    fin.agg.pending.map (fun p => fileSize p.1) = [dataSize (allChunks calls)] := by
  intro fin
  have h := history_inv P L 0 False allow calls hlf hlegal (fun f => f.elim)
  refine ⟨h.metrics.tb, ?_⟩
  simp only [fin, finalize, List.map_cons, List.map_nil, fileSize]
  rw [h.segSum]

/-- the recorded file size survives `merge_in` and `DataAggregator::finalize` (shift and patch touch
    indices and xorb hashes only), so the record that reaches the shard carries the same size. -/
theorem C14_record_size (P : HashPrims) (a b : Agg) :
    ((a.mergeIn b).finalize P).files.map fileSize =
      a.pending.map (fun p => fileSize p.1) ++ b.pending.map (fun p => fileSize p.1) := by
  rw [finalize_fileSize, mergeIn_fileSize]

/-- **Session metrics are the sum over the finished files**: after any sequence of
    `register_single_file_clean_completion` / `register_new_xorb` / final cut, the session's metrics
    are the `Metrics.add`-sum of the metrics the files reported, whatever the aggregator did
    (merge, cut, swap-cut). -/
theorem C14_session_sum (P : HashPrims) (L : Limits) (evs : List SessEv) :
    (Sess.run P L Sess.init evs).metrics = (fileMetrics evs).foldl Metrics.add {} := by
  rw [Sess_run_metrics]; rfl

/-- component form of the sum for the two conserved totals -/
theorem C14_session_sum_totals (P : HashPrims) (L : Limits) (evs : List SessEv) :
    (Sess.run P L Sess.init evs).metrics.totalBytes = ((fileMetrics evs).map (·.totalBytes)).sum ∧
    (Sess.run P L Sess.init evs).metrics.newBytes = ((fileMetrics evs).map (·.newBytes)).sum ∧
    (Sess.run P L Sess.init evs).metrics.dedupedBytes = ((fileMetrics evs).map (·.dedupedBytes)).sum := by
  rw [C14_session_sum]
  suffices H : ∀ (ms : List Metrics) (m0 : Metrics),
      (ms.foldl Metrics.add m0).totalBytes = m0.totalBytes + (ms.map (·.totalBytes)).sum ∧
      (ms.foldl Metrics.add m0).newBytes = m0.newBytes + (ms.map (·.newBytes)).sum ∧
      (ms.foldl Metrics.add m0).dedupedBytes = m0.dedupedBytes + (ms.map (·.dedupedBytes)).sum by
    have := H (fileMetrics evs) {}
    simpa using this
  intro ms
  induction ms with
  | nil => intro m0; simp
  | cons m ms ih =>
    intro m0
    obtain ⟨h1, h2, h3⟩ := ih (Metrics.add m0 m)
    simp only [List.foldl_cons, List.map_cons, List.sum_cons]
    refine ⟨?_, ?_, ?_⟩
    · rw [h1]; simp [Metrics.add]; omega
    · rw [h2]; simp [Metrics.add]; omega
    · rw [h3]; simp [Metrics.add]; omega

/-- conservation lifts to the session: if every finished file reported conserved metrics, the
    session's metrics are conserved -/
theorem C14_session_conserved (P : HashPrims) (L : Limits) (evs : List SessEv)
    (h : ∀ m ∈ fileMetrics evs, m.newBytes + m.dedupedBytes = m.totalBytes) :
    let m := (Sess.run P L Sess.init evs).metrics
    m.newBytes + m.dedupedBytes = m.totalBytes := by
  intro m
  obtain ⟨h1, h2, h3⟩ := C14_session_sum_totals P L evs
  show (Sess.run P L Sess.init evs).metrics.newBytes + (Sess.run P L Sess.init evs).metrics.dedupedBytes
    = (Sess.run P L Sess.init evs).metrics.totalBytes
  rw [h1, h2, h3]
  generalize fileMetrics evs = ms at h
  induction ms with
  | nil => simp
  | cons x xs ih =>
    have := h x (by simp)
    have := ih (fun m hm => h m (by simp [hm]))
    simp only [List.map_cons, List.sum_cons]; omega

/-! ### Non-vacuity: a concrete two-call history with one accepted external answer, one external
    answer rejected by the defrag procedure, one accepted local self-reference and one xorb cut. -/

namespace Example

def hA : Hash := ⟨1, 0, 0, 0⟩
def hB : Hash := ⟨2, 0, 0, 0⟩
def hC : Hash := ⟨3, 0, 0, 0⟩
def hD : Hash := ⟨4, 0, 0, 0⟩
def hE : Hash := ⟨5, 0, 0, 0⟩
def hF : Hash := ⟨6, 0, 0, 0⟩
def hX : Hash := ⟨100, 0, 0, 0⟩   -- xorbs already in the store
def hY : Hash := ⟨101, 0, 0, 0⟩

def cA : DChunk := ⟨hA, List.replicate 3 0⟩
def cB : DChunk := ⟨hB, List.replicate 4 0⟩
def cC : DChunk := ⟨hC, List.replicate 5 0⟩
def cD : DChunk := ⟨hD, List.replicate 6 0⟩
def cE : DChunk := ⟨hE, List.replicate 7 0⟩
def cF : DChunk := ⟨hF, List.replicate 2 0⟩

/-- at most 3 chunks / 1000 bytes per xorb -/
def exL : Limits := ⟨1000, 3⟩

/-- a defrag procedure that rejects every run shorter than two chunks -/
def exAllow : Defrag → Nat → Decision := fun d n => ⟨decide (2 ≤ n), d⟩

/-- call 1: `A B A B C` — `A B` new, then `A B` again (found by the local query: a self-reference
      into the xorb being built, run of 2, accepted), then `C` with a stored answer of 1 chunk
      (rejected by `exAllow`; `C` becomes new data and is counted as withheld);
    call 2: `D E F` — `D E` with a stored answer of 2 chunks (accepted), `F` new: `new_data` already
      holds 3 chunks, so the xorb `A B C` is cut first. -/
def exCalls : List DCall :=
  [ ⟨[cA, cB, cA, cB, cC], [none, none, none, none, some (1, ⟨hX, 0, 5, 7, 8⟩)], 0, 0⟩,
    ⟨[cD, cE, cF], [some (2, ⟨hY, 0, 13, 0, 2⟩), none, none], 0, 0⟩ ]

/-- toy hash primitives (the theorems hold for every `P`) -/
def toyPrims : HashPrims := ⟨fun _ => ⟨11, 0, 0, 0⟩, fun _ => ⟨12, 0, 0, 0⟩, fun _ => ⟨13, 0, 0, 0⟩, fun _ _ => ⟨14, 0, 0, 0⟩⟩

def exFD : FD := runCalls toyPrims exL exAllow FD.init exCalls

example : HistoryLegal exCalls := by decide
example : LensFunctionalChunks (allChunks exCalls) := by decide

/-- what the history does: 34 bytes / 8 chunks in total; 14 bytes / 4 chunks new (`A B C F`);
    20 bytes / 4 chunks deduplicated (`A B` locally, `D E` externally); 5 bytes / 1 chunk withheld. -/
example : exFD.metrics =
    { totalBytes := 34, dedupedBytes := 20, newBytes := 14, dedupedBytesGlobal := 0, preventedBytes := 5,
      totalChunks := 8, dedupedChunks := 4, newChunks := 4, dedupedChunksGlobal := 0, preventedChunks := 1 } := by
  decide +kernel
example : exFD.cut.map (·.chunks) = [[cA, cB, cC]] := by decide +kernel
example : exFD.newData = [cF] := by decide +kernel
/-- segments: `A B` new, the self-reference `[0,2)` extended by `C` to `[0,3)`, `D E` from the store, `F` new -/
example : exFD.fileInfo.map (fun s => (s.bytes, s.cstart, s.cend)) = [(7, 0, 2), (12, 0, 3), (13, 0, 2), (2, 0, 1)] := by
  decide +kernel
example : exFD.internalRefs = [3] := by decide +kernel

/-- `LensFunctionalChunks` cannot be dropped: two chunks with one hash but different lengths (a
    data-hash collision), the second found by the local query — the run's byte count is read from
    the remembered chunk (3), not from the chunk being processed (5): 6 bytes reported, 8 fed. -/
example :
    let calls : List DCall := [⟨[⟨hA, List.replicate 3 0⟩, ⟨hA, List.replicate 5 0⟩], [], 0, 0⟩]
    HistoryLegal calls ∧ ¬ LensFunctionalChunks (allChunks calls) ∧
    (runCalls toyPrims exL (fun d _ => ⟨true, d⟩) FD.init calls).metrics.totalBytes = 6 ∧
    dataSize (allChunks calls) = 8 := by decide +kernel

end Example

end Xet.Dedup
