/-
C15 — No xorb or chunk exceeds the configured and wire-format limits.

Model: `XetModel/Dedup.lean`; invariant and helper lemmas: `XetProofs/Dedup.lean`.  Quantifiers as in
`XetProps/C14.lean`: every `P`, every `Limits`, every defrag procedure `allow`, every history of
`process_chunks` calls with legal answers (`HistoryLegal`) over a file with `LensFunctionalChunks`.

Hypotheses of the limit clauses, `ChunkHyp L maxChunk U`:
  `1 ≤ L.maxXorbChunks`, `maxChunk ≤ L.maxXorbBytes`, and every chunk of the file has between 1 and
  `maxChunk` bytes — what the chunker guarantees (C04: `C04_bounds_all`, `maxChunk = p.maxC`).
`XorbOK L maxChunk x` : `x.chunks ≠ []`, `x.chunks.length ≤ L.maxXorbChunks`,
  `1 ≤ dataSize x.chunks ≤ L.maxXorbBytes`, every chunk of `x` has between 1 and `maxChunk` bytes.
-/
import XetProps.C14

namespace Xet.Dedup

/-- **Xorbs cut in the middle of a file, and `new_data` at every call boundary.**  After any legal
    history every xorb handed to `register_new_xorb` (`fd.cut`) is non-empty and within both limits,
    consists of chunks within the chunk-size bound, and is named by `cas_node_hash` of its chunks;
    and the not-yet-cut `new_data` is within both limits (so the debug assertions of
    `RawXorbData::from_chunks` never fire). -/
theorem C15_mid_file_xorbs (P : HashPrims) (L : Limits) (maxChunk : Nat) (allow : Defrag → Nat → Decision)
    (calls : List DCall) (hlegal : HistoryLegal calls) (hlf : LensFunctionalChunks (allChunks calls))
    (hyp : ChunkHyp L maxChunk (allChunks calls)) :
    let fd := runCalls P L allow FD.init calls
    (∀ x ∈ fd.cut, XorbOK L maxChunk x ∧ x.hash = Merkle.casNodeHash P (chunkLens x.chunks)) ∧
    fd.newData.length ≤ L.maxXorbChunks ∧ dataSize fd.newData ≤ L.maxXorbBytes ∧
    fd.newXorbs = fd.cut.map (·.hash) := by
  intro fd
  have h := history_inv P L maxChunk False allow calls hlf hlegal (fun f => f.elim)
  obtain ⟨l1, l2, l3⟩ := h.lim hyp
  refine ⟨fun x hx => ⟨l3 x hx, ?_⟩, l1, l2, h.nx⟩
  have := h.cutHash x hx
  rw [this]; rfl

/-- the same at every call boundary (after each prefix of the history) -/
theorem C15_every_call_boundary (P : HashPrims) (L : Limits) (maxChunk : Nat) (allow : Defrag → Nat → Decision)
    (calls : List DCall) (hlegal : HistoryLegal calls) (hlf : LensFunctionalChunks (allChunks calls))
    (hyp : ChunkHyp L maxChunk (allChunks calls)) (k : Nat) :
    let fd := runCalls P L allow FD.init (calls.take k)
    (∀ x ∈ fd.cut, XorbOK L maxChunk x) ∧
    fd.newData.length ≤ L.maxXorbChunks ∧ dataSize fd.newData ≤ L.maxXorbBytes := by
  intro fd
  have hl' : HistoryLegal (calls.take k) := fun c hc => hlegal c (List.mem_of_mem_take hc)
  have hU' : LensFunctionalChunks (allChunks (calls.take k)) :=
    fun a ha b hb => hlf a (allChunks_take_subset calls k a ha) b (allChunks_take_subset calls k b hb)
  have hyp' : ChunkHyp L maxChunk (allChunks (calls.take k)) :=
    ⟨hyp.1, hyp.2.1, fun c hc => hyp.2.2 c (allChunks_take_subset calls k c hc)⟩
  obtain ⟨h1, h2, h3, _⟩ := C15_mid_file_xorbs P L maxChunk allow (calls.take k) hl' hU' hyp'
  exact ⟨fun x hx => (h1 x hx).1, h2, h3⟩

/-- **What a finished file hands to the session** satisfies `AggOK`: remaining chunks within both
    limits and the chunk bound; the zero-hash segments of the file record are *exactly* those listed
    in `internally_referencing_entries`.  Needs that none of the xorbs the file cut hashes to zero
    (`Hash.zero ∉ fd.newXorbs`: a patched segment would then be indistinguishable from an unresolved
    one) and that stored answers never name the zero hash (`HistoryNZ`; only used for: "entries are
    listed only if there are chunks to refer to"). -/
theorem C15_file_to_aggregator (P : HashPrims) (L : Limits) (maxChunk : Nat) (allow : Defrag → Nat → Decision)
    (calls : List DCall) (hlegal : HistoryLegal calls) (hlf : LensFunctionalChunks (allChunks calls))
    (hyp : ChunkHyp L maxChunk (allChunks calls)) (hnz : HistoryNZ calls)
    (hz : Hash.zero ∉ (runCalls P L allow FD.init calls).newXorbs) (salt : Bytes) (sha : Hash) :
    AggOK L maxChunk (finalize P (runCalls P L allow FD.init calls) salt sha).agg :=
  finalize_aggOK (history_inv P L maxChunk True allow calls hlf hlegal (fun _ => hnz)) hyp hz salt sha

/-- **Zero-hash segments are exactly the listed ones** — the invariant of `FileDeduper` behind
    `C15_no_unresolved`, at every call boundary: every listed index holds a zero-hash segment, and
    (unless a xorb cut by this file hashes to zero) every zero-hash segment is listed. -/
theorem C15_zero_exactly_listed (P : HashPrims) (L : Limits) (allow : Defrag → Nat → Decision)
    (calls : List DCall) (hlegal : HistoryLegal calls) (hlf : LensFunctionalChunks (allChunks calls)) :
    let fd := runCalls P L allow FD.init calls
    (∀ i ∈ fd.internalRefs, (segHashes fd.fileInfo)[i]? = some Hash.zero) ∧
    (Hash.zero ∉ fd.newXorbs → ∀ i, (segHashes fd.fileInfo)[i]? = some Hash.zero → i ∈ fd.internalRefs) := by
  intro fd
  have h := history_inv P L 0 False allow calls hlf hlegal (fun f => f.elim)
  exact ⟨h.refsZero, h.zeroRefs⟩

/-- `merge_in` (with its index shift) preserves `AggOK` when the sum fits — the case in which
    `register_single_file_clean_completion` merges -/
theorem C15_merge_preserves (L : Limits) (maxChunk : Nat) (a b : Agg) (ha : AggOK L maxChunk a) (hb : AggOK L maxChunk b)
    (hn : a.chunks.length + b.chunks.length ≤ L.maxXorbChunks) (hs : dataSize a.chunks + dataSize b.chunks ≤ L.maxXorbBytes) :
    AggOK L maxChunk (a.mergeIn b) := AggOK_mergeIn ha hb hn hs

/-- **No unresolved xorb reference after `DataAggregator::finalize`.**  For an aggregator satisfying
    `AggOK` (established by `C15_file_to_aggregator`, kept by `C15_merge_preserves`): no segment of any
    emitted file record has the zero xorb hash, provided the hash of the xorb being cut is not itself
    zero.  (With no chunks at all the xorb hash *is* zero by definition of `cas_node_hash`; then no
    segment is listed, so nothing is patched and nothing was unresolved.) -/
theorem C15_no_unresolved (P : HashPrims) (L : Limits) (maxChunk : Nat) (a : Agg) (ha : AggOK L maxChunk a)
    (hh : a.chunks = [] ∨ (a.finalize P).xorb.hash ≠ Hash.zero) :
    ∀ f ∈ (a.finalize P).files, ∀ seg ∈ f.segs, seg.casHash ≠ Hash.zero :=
  finalize_no_zero P ha hh

/-- **Session aggregate.**  After any sequence of file completions (`AggOK` data), mid-file xorb
    registrations (`XorbOK` or empty, as `C15_mid_file_xorbs` provides) and final cuts:
    every xorb handed to the store (`Sess.puts`) is non-empty, within both limits and the chunk
    bound; `current_session_data` is within limits; and no file record has been emitted with an
    unresolved (zero) xorb reference unless some uploaded xorb's hash is the zero hash. -/
theorem C15_aggregate_xorbs (P : HashPrims) (L : Limits) (maxChunk : Nat) (evs : List SessEv)
    (hev : ∀ ev ∈ evs, EvOK L maxChunk ev) :
    let s := Sess.run P L Sess.init evs
    (∀ x ∈ s.puts, XorbOK L maxChunk x) ∧
    s.cur.chunks.length ≤ L.maxXorbChunks ∧ dataSize s.cur.chunks ≤ L.maxXorbBytes ∧
    ((∀ x ∈ s.puts, x.hash ≠ Hash.zero) → ∀ f ∈ s.files, ∀ seg ∈ f.segs, seg.casHash ≠ Hash.zero) := by
  intro s
  have h := Sess_run_inv (L := L) (maxChunk := maxChunk) P evs Sess.init (SessInv_init L maxChunk) hev
  exact ⟨h.puts, h.cur.nChunks, h.cur.nBytes, h.files⟩

/-! ### wire-format field widths for the production constants -/

/-- the production limits, regenerated from the Rust source on every check run -/
def prodLimits : Limits := ⟨Gen.maxXorbBytes, Gen.maxXorbChunks⟩
/-- the chunker's maximum chunk size `TARGET_CHUNK_SIZE * MAXIMUM_CHUNK_MULTIPLIER` -/
def prodMaxChunk : Nat := Gen.targetChunkSize * Gen.maximumChunkMultiplier

/-- the production constants meet the numeric part of `ChunkHyp`, a maximal chunk fits the 3-byte
    length fields of the xorb chunk header and the validators' `MAXIMUM_CHUNK_SIZE` check, and a
    maximal xorb fits the `u32` fields of the shard and xorb formats -/
theorem C15_production_constants :
    1 ≤ prodLimits.maxXorbChunks ∧ prodMaxChunk ≤ prodLimits.maxXorbBytes ∧
    prodMaxChunk < 2 ^ 24 ∧ prodMaxChunk ≤ Gen.merkledbMaximumChunkSize ∧
    prodLimits.maxXorbBytes < 2 ^ 32 ∧ prodLimits.maxXorbChunks < 2 ^ 32 := by decide

/-- **Field widths.**  With the production constants every chunk of a xorb that satisfies `XorbOK`
    has a length `< 2^24` (3-byte fields of the chunk header) and `≤ MAXIMUM_CHUNK_SIZE` (accepted by
    the validating reader); the xorb's total size and chunk count are `< 2^32` (`u32` fields:
    `num_bytes_in_cas`, `chunk_byte_range_start`, `unpacked_segment_bytes`, `num_entries`, chunk
    indices). -/
theorem C15_field_widths (x : Xorb) (h : XorbOK prodLimits prodMaxChunk x) :
    (∀ c ∈ x.chunks, 1 ≤ c.data.length ∧ c.data.length < 2 ^ 24 ∧ c.data.length ≤ Gen.merkledbMaximumChunkSize) ∧
    1 ≤ dataSize x.chunks ∧ dataSize x.chunks < 2 ^ 32 ∧ 1 ≤ x.chunks.length ∧ x.chunks.length < 2 ^ 32 := by
  obtain ⟨c1, c2, c3, c4, c5, c6⟩ := C15_production_constants
  obtain ⟨h1, h2, h3, h4, h5⟩ := h
  have hpos : 0 < x.chunks.length := List.length_pos_iff.mpr h1
  refine ⟨fun c hc => ?_, h3, by omega, hpos, by omega⟩
  have := h5 c hc
  omega

/-- every running start offset recorded in the xorb's CAS info is below the total, hence `< 2^32` -/
theorem C15_cas_entries_fit (x : Xorb) (h : XorbOK prodLimits prodMaxChunk x) :
    x.casInfo.bytesInCas < 2 ^ 32 ∧ x.casInfo.numEntries < 2 ^ 32 ∧
    ∀ e ∈ x.casInfo.chunks, e.rangeStart + e.bytes ≤ x.casInfo.bytesInCas ∧ e.bytes < 2 ^ 24 := by
  obtain ⟨hc, _, hb, _, hn⟩ := C15_field_widths x h
  refine ⟨hb, hn, ?_⟩
  suffices H : ∀ (cs : List DChunk) (pos : Nat), (∀ c ∈ cs, c.data.length < 2 ^ 24) →
      ∀ e ∈ casEntries pos cs, e.rangeStart + e.bytes ≤ pos + dataSize cs ∧ e.bytes < 2 ^ 24 by
    intro e he
    have := H x.chunks 0 (fun c hc' => (hc c hc').2.1) e he
    simpa [Xorb.casInfo] using this
  intro cs
  induction cs with
  | nil => intro pos _ e he; simp [casEntries] at he
  | cons c cs ih =>
    intro pos hlt e he
    simp only [casEntries, List.mem_cons] at he
    rcases he with rfl | he
    · simp; exact hlt c (by simp)
    · have := ih (pos + c.data.length) (fun c' hc' => hlt c' (by simp [hc'])) e he
      simp; omega

/-! ### Non-vacuity (the history of `XetProps/C14.lean`: limits 3 chunks / 1000 bytes, one cut) -/

namespace Example

example : ChunkHyp exL 10 (allChunks exCalls) := by decide
example : HistoryNZ exCalls := by
  intro c hc a ha x hx
  simp [exCalls] at hc
  rcases hc with rfl | rfl <;> simp at ha <;> rcases ha with rfl | rfl <;> simp at hx <;> subst hx <;> decide
example : Hash.zero ∉ exFD.newXorbs := by decide +kernel

/-- the cut xorb `A B C` is exactly at the chunk-count limit -/
example : exFD.cut.map (fun x => (x.chunks.length, dataSize x.chunks)) = [(3, 12)] := by decide +kernel

/-- a session: the mid-file xorb is registered, the file completes, a second (identical) file
    completes and is merged with index shift, the session is finalized.  The hypotheses of
    `C15_aggregate_xorbs` hold for it (through the theorems above) and two xorbs are uploaded. -/
def exEvents : List SessEv :=
  exFD.cut.map SessEv.registerXorb ++
  [ .fileDone (finalize toyPrims exFD [] Hash.zero).agg exFD.metrics,
    .fileDone (finalize toyPrims exFD [] Hash.zero).agg exFD.metrics,
    .finish ]

example : ∀ ev ∈ exEvents, EvOK exL 10 ev := by
  have hl : HistoryLegal exCalls := by decide
  have hu : LensFunctionalChunks (allChunks exCalls) := by decide
  have hy : ChunkHyp exL 10 (allChunks exCalls) := by decide
  have hnz : HistoryNZ exCalls := by
    intro c hc a ha x hx
    simp [exCalls] at hc
    rcases hc with rfl | rfl <;> simp at ha <;> rcases ha with rfl | rfl <;> simp at hx <;> subst hx <;> decide
  have hz : Hash.zero ∉ exFD.newXorbs := by decide +kernel
  have hagg := C15_file_to_aggregator toyPrims exL 10 exAllow exCalls hl hu hy hnz hz [] Hash.zero
  have hcut := (C15_mid_file_xorbs toyPrims exL 10 exAllow exCalls hl hu hy).1
  intro ev hev
  simp only [exEvents, List.mem_append, List.mem_map, List.mem_cons, List.not_mem_nil, or_false] at hev
  rcases hev with ⟨x, hx, rfl⟩ | rfl | rfl | rfl
  · exact Or.inl (hcut x hx).1
  · exact hagg
  · exact hagg
  · trivial

example : ((Sess.run toyPrims exL Sess.init exEvents).puts.map fun x => (x.chunks.length, dataSize x.chunks)) =
    [(3, 12), (2, 4)] := by decide +kernel
example : (Sess.run toyPrims exL Sess.init exEvents).files.length = 2 := by decide +kernel

end Example

end Xet.Dedup
