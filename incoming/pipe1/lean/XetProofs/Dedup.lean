/-
Helper lemmas and the central invariant for the deduplication core (`XetModel/Dedup.lean`).
Used by `XetProps/C14.lean`, `XetProps/C15.lean`, `XetProps/C03.lean`.

Everything here quantifies over every hash-primitive record `P`, every `Limits`, EVERY defrag
decision procedure `allow : Defrag → Nat → Decision`, every partition of a file's chunk list into
`processChunks` calls and every `Answers` oracle that is *legal* (`AnswersLegal`, below).
-/
import XetModel.Dedup

namespace Xet.Dedup

open Xet.Shard (Seg FileInfo CasInfo Chunk)

/-! ### elementary facts about `dataSize`, `chunkLens` -/

@[simp] theorem dataSize_nil : dataSize [] = 0 := rfl
@[simp] theorem dataSize_cons (c : DChunk) (cs : List DChunk) :
    dataSize (c :: cs) = c.data.length + dataSize cs := by simp [dataSize]
@[simp] theorem dataSize_append (a b : List DChunk) : dataSize (a ++ b) = dataSize a + dataSize b := by
  simp [dataSize]
theorem dataSize_singleton (c : DChunk) : dataSize [c] = c.data.length := by simp

theorem dataSize_take_add_drop (n : Nat) (cs : List DChunk) :
    dataSize (cs.take n) + dataSize (cs.drop n) = dataSize cs := by
  rw [← dataSize_append, List.take_append_drop]

@[simp] theorem chunkLens_nil : chunkLens [] = [] := rfl
@[simp] theorem chunkLens_append (a b : List DChunk) : chunkLens (a ++ b) = chunkLens a ++ chunkLens b := by
  simp [chunkLens]
@[simp] theorem chunkLens_length (a : List DChunk) : (chunkLens a).length = a.length := by
  simp [chunkLens]

/-- total of the lengths recorded in a `(hash, len)` list equals the data size -/
theorem chunkLens_sum (cs : List DChunk) : ((chunkLens cs).map (·.2)).sum = dataSize cs := by
  simp [chunkLens, dataSize, Function.comp_def]

/-- every chunk at least one byte ⇒ size ≥ count -/
theorem length_le_dataSize (cs : List DChunk) (h : ∀ c ∈ cs, 1 ≤ c.data.length) :
    cs.length ≤ dataSize cs := by
  induction cs with
  | nil => simp
  | cons c cs ih =>
    have := h c (by simp)
    have := ih (fun c' hc' => h c' (by simp [hc']))
    simp; omega

/-! ### legality of the oracle answers (per call, decidable) -/

/-- One stored answer `(n, s)` standing at the head of the remaining chunks `rest`: the run is
    non-empty, does not run past the end of the call's chunks, and its byte count is the sum of
    the data lengths of the chunks it covers.  This is what truthfulness of dedup answers (C05)
    gives for the chunk count and the byte count; nothing is assumed about the xorb hash, the
    chunk-index range or the flags of the answer. -/
def SlotLegal (rest : List DChunk) : Option (Nat × Seg) → Prop
  | none => True
  | some a => 1 ≤ a.1 ∧ a.1 ≤ rest.length ∧ a.2.bytes = dataSize (rest.take a.1)

instance (rest : List DChunk) : (a : Option (Nat × Seg)) → Decidable (SlotLegal rest a)
  | none => isTrue trivial
  | some a => inferInstanceAs (Decidable (1 ≤ a.1 ∧ a.1 ≤ rest.length ∧ a.2.bytes = dataSize (rest.take a.1)))

/-- `AnswersLegal chunks answers`: every stored answer `(n, s)` at slot `i < chunks.length` has
    `1 ≤ n`, `i + n ≤ chunks.length` and `s.bytes = Σ` data lengths of `chunks[i .. i+n)`
    (index form: `answersLegal_iff`).  Slots beyond the chunk list are never read. -/
def AnswersLegal : List DChunk → Answers → Prop
  | [], _ => True
  | _ :: _, [] => True
  | c :: cs, a :: as => SlotLegal (c :: cs) a ∧ AnswersLegal cs as

instance AnswersLegal.dec : (cs : List DChunk) → (as : Answers) → Decidable (AnswersLegal cs as)
  | [], _ => isTrue (by simp [AnswersLegal])
  | _ :: _, [] => isTrue (by simp [AnswersLegal])
  | c :: cs, a :: as =>
    have := AnswersLegal.dec cs as
    inferInstanceAs (Decidable (SlotLegal (c :: cs) a ∧ AnswersLegal cs as))

theorem answersLegal_nil_right (cs : List DChunk) : AnswersLegal cs [] := by
  cases cs <;> simp [AnswersLegal]

theorem answersLegal_drop (n : Nat) : ∀ (cs : List DChunk) (as : Answers),
    AnswersLegal cs as → AnswersLegal (cs.drop n) (as.drop n) := by
  induction n with
  | zero => intro cs as h; simpa using h
  | succ n ih =>
    intro cs as h
    cases cs with
    | nil => simp [AnswersLegal]
    | cons c cs =>
      cases as with
      | nil => simp [answersLegal_nil_right]
      | cons a as => simp only [List.drop_succ_cons]; exact ih cs as h.2

theorem answersLegal_head (c : DChunk) (cs : List DChunk) (as : Answers) (h : AnswersLegal (c :: cs) as) :
    SlotLegal (c :: cs) (as.head?).join := by
  cases as with
  | nil => simp [SlotLegal]
  | cons a as => simpa using h.1

/-- index form of `AnswersLegal` (the form quoted in the property statements) -/
theorem answersLegal_iff (cs : List DChunk) (as : Answers) :
    AnswersLegal cs as ↔
      ∀ i n s, i < cs.length → as[i]? = some (some (n, s)) →
        1 ≤ n ∧ i + n ≤ cs.length ∧ s.bytes = dataSize ((cs.drop i).take n) := by
  induction cs generalizing as with
  | nil => simp [AnswersLegal]
  | cons c cs ih =>
    cases as with
    | nil => simp [AnswersLegal]
    | cons a as =>
      simp only [AnswersLegal, ih]
      constructor
      · rintro ⟨h0, hr⟩ i n s hi hget
        cases i with
        | zero =>
          simp at hget; subst hget
          simp only [SlotLegal] at h0
          simpa using h0
        | succ i =>
          simp at hget hi
          have := hr i n s hi hget
          simp only [List.length_cons, List.drop_succ_cons]; omega
      · intro h
        constructor
        · cases a with
          | none => trivial
          | some a =>
            have := h 0 a.1 a.2 (by simp) (by simp)
            simpa [SlotLegal] using this
        · intro i n s hi hget
          have := h (i + 1) n s (by simpa using hi) (by simpa using hget)
          simp only [List.length_cons, List.drop_succ_cons] at this; omega

/-- "equal hashes in the file ⇒ equal data length".  For real chunks (`hash = dataHash data`) two
    members violating this are a collision of the data hash (see `lensFunctional_or_collision`);
    it is needed exactly where the code takes a byte count from a *remembered* chunk with the same
    hash (`dedup_query_against_local_data` reads `new_data[idx].data.len()`). -/
def LensFunctionalChunks (U : List DChunk) : Prop :=
  ∀ a ∈ U, ∀ b ∈ U, a.hash = b.hash → a.data.length = b.data.length

/-- chunks as the cleaner produces them: `Chunk { hash: compute_data_hash(data), data }` -/
def toDChunks (P : HashPrims) (bs : List Bytes) : List DChunk := bs.map fun b => ⟨P.dataHash b, b⟩

/-- collision-extraction reading of `LensFunctionalChunks` -/
theorem lensFunctional_or_collision (P : HashPrims) (bs : List Bytes) :
    LensFunctionalChunks (toDChunks P bs) ∨ ∃ b₁ b₂, b₁ ≠ b₂ ∧ P.dataHash b₁ = P.dataHash b₂ := by
  by_cases h : LensFunctionalChunks (toDChunks P bs)
  · exact Or.inl h
  · right
    simp only [LensFunctionalChunks, toDChunks, List.mem_map] at h
    simp only [Classical.not_forall] at h
    obtain ⟨a, ⟨x, _, rfl⟩, b, ⟨y, _, rfl⟩, heq, hne⟩ := h
    refine ⟨x, y, ?_, heq⟩
    intro hxy; subst hxy; exact hne rfl

theorem toDChunks_dataSize (P : HashPrims) (bs : List Bytes) : dataSize (toDChunks P bs) = bs.flatten.length := by
  induction bs with
  | nil => rfl
  | cons b bs ih => simp [toDChunks] at ih ⊢; omega

/-! ### the lookup table (`new_data_hash_lookup`) -/

@[simp] theorem lookupGet_nil (h : Hash) : lookupGet [] h = none := rfl

theorem lookupGet_cons (e : Hash × Nat) (rest : List (Hash × Nat)) (h : Hash) :
    lookupGet (e :: rest) h = if e.1 = h then some e.2 else lookupGet rest h := by
  by_cases he : e.1 = h
  · simp [lookupGet, List.find?, he]
  · have : (e.1 == h) = false := by simp [he]
    simp [lookupGet, List.find?, he, this]

theorem lookupGet_lookupSet (l : List (Hash × Nat)) (h : Hash) (i : Nat) (h' : Hash) :
    lookupGet (lookupSet l h i) h' = if h' = h then some i else lookupGet l h' := by
  induction l with
  | nil =>
    simp only [lookupSet, lookupGet_cons, lookupGet_nil]
    by_cases hh : h = h'
    · simp [hh]
    · have : ¬ h' = h := fun x => hh x.symm
      simp [hh, this]
  | cons e rest ih =>
    simp only [lookupSet]
    by_cases he : e.1 = h
    · simp only [he, beq_self_eq_true, if_true, lookupGet_cons]
      by_cases hh : h = h'
      · simp [hh]
      · have : ¬ h' = h := fun x => hh x.symm
        simp [hh, this]
    · have hb : (e.1 == h) = false := by simp [he]
      simp only [hb, Bool.false_eq_true, if_false]
      rw [lookupGet_cons, ih, lookupGet_cons]
      by_cases h3 : e.1 = h'
      · have : ¬ h' = h := fun x => he (h3.trans x)
        simp [h3, this]
      · simp [h3]

/-- `new_data_hash_lookup[h] = i → new_data[i].hash = h` -/
def LookupOK (fd : FD) : Prop :=
  ∀ h i, lookupGet fd.lookup h = some i → ∃ c, fd.newData[i]? = some c ∧ c.hash = h

/-! ### `dedup_query_against_local_data` is legal -/

theorem localRunEnd_spec (fd : FD) (U : List DChunk) (hU : LensFunctionalChunks U) (hl : LookupOK fd)
    (hnew : ∀ c ∈ fd.newData, c ∈ U) (base : Nat) :
    ∀ (rest : List DChunk) (endIdx nb : Nat), (∀ c ∈ rest, c ∈ U) →
      ∃ k, k ≤ rest.length ∧
        (localRunEnd fd base endIdx nb (rest.map (·.hash))).1 = endIdx + k ∧
        (localRunEnd fd base endIdx nb (rest.map (·.hash))).2 = nb + dataSize (rest.take k) := by
  intro rest
  induction rest with
  | nil => intro endIdx nb _; exact ⟨0, by simp [localRunEnd]⟩
  | cons c rest ih =>
    intro endIdx nb hsub
    simp only [List.map_cons, localRunEnd]
    cases hg : lookupGet fd.lookup c.hash with
    | none => exact ⟨0, by simp⟩
    | some idx =>
      simp only
      by_cases hi : idx = endIdx
      · simp only [hi, if_true]
        obtain ⟨c0, hc0, hh⟩ := hl c.hash idx hg
        subst hi
        have hlen : c0.data.length = c.data.length :=
          hU c0 (hnew c0 (List.mem_of_getElem? hc0)) c (hsub c (by simp)) hh
        obtain ⟨k, hk, h1, h2⟩ := ih (idx + 1) (nb + ((fd.newData[idx]?).map (·.data.length)).getD 0)
          (fun c' hc' => hsub c' (by simp [hc']))
        refine ⟨k + 1, by simp; omega, ?_, ?_⟩
        · rw [h1]; omega
        · rw [h2]; simp [hc0, hlen]; omega
      · simp only [hi, if_false]
        exact ⟨0, by simp⟩

/-- the local self-reference query returns a legal run with the zero hash -/
theorem localQuery_legal (fd : FD) (U : List DChunk) (hU : LensFunctionalChunks U) (hl : LookupOK fd)
    (hnew : ∀ c ∈ fd.newData, c ∈ U) (c : DChunk) (rest : List DChunk) (hsub : ∀ x ∈ c :: rest, x ∈ U)
    (a : Nat × Seg) (hq : localQuery fd ((c :: rest).map (·.hash)) = some a) :
    SlotLegal (c :: rest) (some a) ∧ a.2.casHash = Hash.zero ∧ fd.newData ≠ [] := by
  simp only [List.map_cons, localQuery] at hq
  cases hg : lookupGet fd.lookup c.hash with
  | none => simp [hg] at hq
  | some base =>
    simp only [hg, Option.some.injEq] at hq
    obtain ⟨c0, hc0, hh⟩ := hl c.hash base hg
    have hlen : c0.data.length = c.data.length :=
      hU c0 (hnew c0 (List.mem_of_getElem? hc0)) c (hsub c (by simp)) hh
    obtain ⟨k, hk, h1, h2⟩ := localRunEnd_spec fd U hU hl hnew base rest (base + 1)
      (((fd.newData[base]?).map (·.data.length)).getD 0) (fun x hx => hsub x (by simp [hx]))
    subst hq
    refine ⟨?_, rfl, ?_⟩
    · simp only [SlotLegal, zeroSeg]
      rw [h1, h2]
      have : base + 1 + k - base = k + 1 := by omega
      rw [this]
      simp [hc0, hlen]; omega
    · intro hnil; simp [hnil] at hc0

/-! ### small list facts: `modifyLast`, `patchSegs`, `shiftSegs` -/

theorem getLast?_eq_some_append {α} (l : List α) (x : α) (h : l.getLast? = some x) :
    ∃ init, l = init ++ [x] := by
  refine ⟨l.dropLast, ?_⟩
  have hne : l ≠ [] := by intro hn; simp [hn] at h
  have := List.dropLast_concat_getLast hne
  rw [List.getLast?_eq_some_getLast hne] at h
  simp at h; rw [← h]; exact this.symm

theorem modifyLast_append_singleton {α} (init : List α) (x : α) (f : α → α) :
    modifyLast (init ++ [x]) f = init ++ [f x] := by
  simp [modifyLast]

def segBytes (l : List Seg) : Nat := (l.map (·.bytes)).sum
def segHashes (l : List Seg) : List Hash := l.map (·.casHash)

/-- `MDBFileInfo::file_size` -/
def fileSize (f : FileInfo) : Nat := segBytes f.segs

@[simp] theorem segBytes_nil : segBytes [] = 0 := rfl
@[simp] theorem segBytes_append (a b : List Seg) : segBytes (a ++ b) = segBytes a + segBytes b := by
  simp [segBytes]
@[simp] theorem segHashes_append (a b : List Seg) : segHashes (a ++ b) = segHashes a ++ segHashes b := by
  simp [segHashes]
@[simp] theorem segHashes_length (a : List Seg) : (segHashes a).length = a.length := by simp [segHashes]

theorem patchSegs_getElem? (segs : List Seg) (refs : List Nat) (h : Hash) (i : Nat) :
    (patchSegs segs refs h)[i]? =
      (segs[i]?).map fun s => if refs.contains i then { s with casHash := h } else s := by
  simp only [patchSegs, List.getElem?_map, List.getElem?_zipIdx]
  cases segs[i]? <;> simp

theorem patchSegs_length (segs : List Seg) (refs : List Nat) (h : Hash) :
    (patchSegs segs refs h).length = segs.length := by simp [patchSegs]

theorem segBytes_patchSegs (segs : List Seg) (refs : List Nat) (h : Hash) :
    segBytes (patchSegs segs refs h) = segBytes segs := by
  have : (patchSegs segs refs h).map (·.bytes) = segs.map (·.bytes) := by
    apply List.ext_getElem?
    intro i
    simp only [List.getElem?_map, patchSegs_getElem?]
    cases segs[i]? with
    | none => rfl
    | some s => simp only [Option.map_some]; split <;> rfl
  simp [segBytes, this]

theorem segBytes_shiftSegs (segs : List Seg) (k : Nat) : segBytes (shiftSegs segs k) = segBytes segs := by
  induction segs with
  | nil => rfl
  | cons s rest ih =>
    simp only [shiftSegs, List.map_cons, segBytes, List.sum_cons] at ih ⊢
    rw [ih]; split <;> rfl

theorem segHashes_shiftSegs (segs : List Seg) (k : Nat) : segHashes (shiftSegs segs k) = segHashes segs := by
  induction segs with
  | nil => rfl
  | cons s rest ih =>
    simp only [shiftSegs, List.map_cons, segHashes] at ih ⊢
    rw [ih]; split <;> rfl

/-- after patching, a position holds the zero hash only if it held it before and was not patched,
    or the patch hash itself is zero -/
theorem segHashes_patchSegs_zero (segs : List Seg) (refs : List Nat) (h : Hash) (hnz : h ≠ Hash.zero) (i : Nat)
    (hz : (segHashes (patchSegs segs refs h))[i]? = some Hash.zero) :
    (segHashes segs)[i]? = some Hash.zero ∧ i ∉ refs := by
  simp only [segHashes, List.getElem?_map, patchSegs_getElem?] at hz ⊢
  cases hs : segs[i]? with
  | none => simp [hs] at hz
  | some s =>
    simp only [hs, Option.map_some, Option.some.injEq] at hz ⊢
    by_cases hc : refs.contains i = true
    · rw [if_pos hc] at hz; exact absurd hz hnz
    · rw [if_neg hc] at hz
      refine ⟨hz, ?_⟩
      intro hm; exact hc (by simpa using hm)

/-! ### the loop body in named pieces -/

def countDedup (fd : FD) (n b : Nat) : FD :=
  { fd with metrics := { fd.metrics with dedupedChunks := fd.metrics.dedupedChunks + n, dedupedBytes := fd.metrics.dedupedBytes + b,
                                         totalChunks := fd.metrics.totalChunks + n, totalBytes := fd.metrics.totalBytes + b } }

def countPrevented (fd : FD) (b : Nat) : FD :=
  { fd with metrics := { fd.metrics with preventedChunks := fd.metrics.preventedChunks + 1,
                                         preventedBytes := fd.metrics.preventedBytes + b } }

def withDefrag (fd : FD) (d : Defrag) : FD := { fd with defrag := d }

/-- the answer the second loop works with at the head of `cs`: the stored one, else the local query -/
def query (fd : FD) (cs : List DChunk) (answers : Answers) : Option (Nat × Seg) :=
  match (answers.head?).join with
  | some a => some a
  | none => localQuery fd (cs.map (·.hash))

theorem processLoop_step (P : HashPrims) (L : Limits) (allow : Defrag → Nat → Decision) (fuel : Nat) (fd : FD)
    (c : DChunk) (rest : List DChunk) (answers : Answers) :
    processLoop P L allow (fuel + 1) fd (c :: rest) answers =
      match query fd (c :: rest) answers with
      | none => processLoop P L allow fuel (addNewChunk P L fd c) rest (answers.drop 1)
      | some a =>
        if continuesCurrent fd a.2 then
          processLoop P L allow fuel (addEntry (countDedup fd a.1 a.2.bytes) a.2 a.1) ((c :: rest).drop a.1) (answers.drop a.1)
        else if (allow fd.defrag a.1).allow then
          processLoop P L allow fuel (addEntry (countDedup (withDefrag fd (allow fd.defrag a.1).st) a.1 a.2.bytes) a.2 a.1)
            ((c :: rest).drop a.1) (answers.drop a.1)
        else
          processLoop P L allow fuel (addNewChunk P L (countPrevented (withDefrag fd (allow fd.defrag a.1).st) c.data.length) c)
            rest (answers.drop 1) := by
  rw [processLoop]
  simp only [query]
  cases h1 : (answers.head?).join with
  | some a => obtain ⟨n, s⟩ := a; rfl
  | none =>
    simp only
    cases h2 : localQuery fd ((c :: rest).map (·.hash)) with
    | none => rfl
    | some a => obtain ⟨n, s⟩ := a; rfl

/-- metric update of the "add new data" tail, with `pb`/`pc` the amounts counted as withheld -/
def tailMetrics (m : Metrics) (nb pb pc : Nat) : Metrics :=
  { m with totalChunks := m.totalChunks + 1, totalBytes := m.totalBytes + nb, newBytes := m.newBytes + nb,
           newChunks := m.newChunks + 1, preventedChunks := m.preventedChunks + pc, preventedBytes := m.preventedBytes + pb }

def extendsLast (fd : FD) : Bool :=
  match fd.fileInfo.getLast? with
  | some last => last.casHash == Hash.zero && last.cend == fd.newData.length
  | none => false

/-- `addNewChunk` after the cut decision -/
def addTail (fd : FD) (c : DChunk) (pb pc : Nat) : FD :=
  if extendsLast fd then
    { fd with metrics := tailMetrics fd.metrics c.data.length pb pc,
              fileInfo := modifyLast fd.fileInfo (fun l => { l with bytes := l.bytes + c.data.length, cend := l.cend + 1 }),
              defrag := fd.defrag.incLast 1,
              lookup := lookupSet fd.lookup c.hash fd.newData.length, newData := fd.newData ++ [c] }
  else
    { fd with metrics := tailMetrics fd.metrics c.data.length pb pc,
              internalRefs := fd.internalRefs ++ [fd.fileInfo.length],
              fileInfo := fd.fileInfo ++ [zeroSeg c.data.length fd.newData.length (fd.newData.length + 1)],
              defrag := fd.defrag.addRange 1,
              lookup := lookupSet fd.lookup c.hash fd.newData.length, newData := fd.newData ++ [c] }

def cutDue (L : Limits) (fd : FD) (c : DChunk) : Prop :=
  dataSize fd.newData + c.data.length > L.maxXorbBytes ∨ fd.newData.length + 1 > L.maxXorbChunks

instance (L : Limits) (fd : FD) (c : DChunk) : Decidable (cutDue L fd c) := by unfold cutDue; infer_instance

def maybeCut (P : HashPrims) (L : Limits) (fd : FD) (c : DChunk) : FD := if cutDue L fd c then cutXorb P fd else fd

theorem addNewChunk_eq (P : HashPrims) (L : Limits) (fd : FD) (c : DChunk) :
    addNewChunk P L fd c = addTail (maybeCut P L fd c) c 0 0 := by
  unfold addNewChunk addTail maybeCut cutDue extendsLast
  by_cases h : dataSize fd.newData + c.data.length > L.maxXorbBytes ∨ fd.newData.length + 1 > L.maxXorbChunks
  · simp only [h, if_true, cutXorb]
    cases hgl : (patchSegs fd.fileInfo fd.internalRefs (mkXorb P fd.newData).hash).getLast? with
    | none => simp only [Bool.false_eq_true, if_false]; rfl
    | some last =>
      by_cases hE : (last.casHash == Hash.zero && last.cend == ([] : List DChunk).length) = true
      · simp only [hE, if_true]; rfl
      · simp only [hE]; rfl
  · simp only [h, if_false]
    cases hgl : fd.fileInfo.getLast? with
    | none => simp only [Bool.false_eq_true, if_false]; rfl
    | some last =>
      by_cases hE : (last.casHash == Hash.zero && last.cend == fd.newData.length) = true
      · simp only [hE, if_true]; rfl
      · simp only [hE]; rfl

theorem addNewChunk_prevented_eq (P : HashPrims) (L : Limits) (fd : FD) (c : DChunk) (b : Nat) :
    addNewChunk P L (countPrevented fd b) c = addTail (maybeCut P L fd c) c b 1 := by
  unfold addNewChunk addTail maybeCut cutDue extendsLast countPrevented
  by_cases h : dataSize fd.newData + c.data.length > L.maxXorbBytes ∨ fd.newData.length + 1 > L.maxXorbChunks
  · simp only [h, if_true, cutXorb]
    cases hgl : (patchSegs fd.fileInfo fd.internalRefs (mkXorb P fd.newData).hash).getLast? with
    | none => simp only [Bool.false_eq_true, if_false]; rfl
    | some last =>
      by_cases hE : (last.casHash == Hash.zero && last.cend == ([] : List DChunk).length) = true
      · simp only [hE, if_true]; rfl
      · simp only [hE]; rfl
  · simp only [h, if_false]
    cases hgl : fd.fileInfo.getLast? with
    | none => simp only [Bool.false_eq_true, if_false]; rfl
    | some last =>
      by_cases hE : (last.casHash == Hash.zero && last.cend == fd.newData.length) = true
      · simp only [hE, if_true]; rfl
      · simp only [hE]; rfl

/-! ### the invariant -/

/-- metric conservation for a file that has consumed the chunks `done` -/
structure MetricsOK (m : Metrics) (done : List DChunk) : Prop where
  tb : m.totalBytes = dataSize done
  tc : m.totalChunks = done.length
  sb : m.newBytes + m.dedupedBytes = m.totalBytes
  sc : m.newChunks + m.dedupedChunks = m.totalChunks
  pb : m.preventedBytes ≤ m.newBytes
  pc : m.preventedChunks ≤ m.newChunks

/-- hypotheses of the limit clauses (C15): the chunk-count limit is at least one, every chunk of the
    file (`U`) has between 1 and `maxChunk` bytes (C04), and one maximal chunk fits a xorb. -/
def ChunkHyp (L : Limits) (maxChunk : Nat) (U : List DChunk) : Prop :=
  1 ≤ L.maxXorbChunks ∧ maxChunk ≤ L.maxXorbBytes ∧ ∀ c ∈ U, 1 ≤ c.data.length ∧ c.data.length ≤ maxChunk

/-- what C15 demands of a xorb handed to the store -/
def XorbOK (L : Limits) (maxChunk : Nat) (x : Xorb) : Prop :=
  x.chunks ≠ [] ∧ x.chunks.length ≤ L.maxXorbChunks ∧ 1 ≤ dataSize x.chunks ∧ dataSize x.chunks ≤ L.maxXorbBytes ∧
  ∀ c ∈ x.chunks, 1 ≤ c.data.length ∧ c.data.length ≤ maxChunk

/-- The invariant of `FileDeduper` inside and between `process_chunks` calls, for a file whose chunks
    all lie in `U` and which has consumed `done` so far.  `NZ` is the optional extra assumption that
    stored (external) answers never carry the zero xorb hash; it is only used for `refsNd`. -/
structure Inv (P : HashPrims) (L : Limits) (maxChunk : Nat) (U : List DChunk) (NZ : Prop) (fd : FD) (done : List DChunk) : Prop where
  lookup : LookupOK fd
  newSub : ∀ c ∈ fd.newData, c ∈ U
  metrics : MetricsOK fd.metrics done
  segSum : segBytes fd.fileInfo = dataSize done
  refsZero : ∀ i ∈ fd.internalRefs, (segHashes fd.fileInfo)[i]? = some Hash.zero
  zeroRefs : Hash.zero ∉ fd.newXorbs → ∀ i, (segHashes fd.fileInfo)[i]? = some Hash.zero → i ∈ fd.internalRefs
  nx : fd.newXorbs = fd.cut.map (·.hash)
  cutHash : ∀ x ∈ fd.cut, x = mkXorb P x.chunks
  lim : ChunkHyp L maxChunk U →
    fd.newData.length ≤ L.maxXorbChunks ∧ dataSize fd.newData ≤ L.maxXorbBytes ∧ ∀ x ∈ fd.cut, XorbOK L maxChunk x
  refsNd : NZ → fd.internalRefs ≠ [] → fd.newData ≠ []

theorem Inv_init (P : HashPrims) (L : Limits) (maxChunk : Nat) (U : List DChunk) (NZ : Prop) :
    Inv P L maxChunk U NZ FD.init [] := by
  refine ⟨?_, ?_, ⟨rfl, rfl, rfl, rfl, Nat.le_refl _, Nat.le_refl _⟩, rfl, ?_, ?_, rfl, ?_, ?_, ?_⟩
  · intro h i hg; simp [FD.init] at hg
  · intro c hc; simp [FD.init] at hc
  · intro i hi; simp [FD.init] at hi
  · intro _ i hi; simp [FD.init, segHashes] at hi
  · intro x hx; simp [FD.init] at hx
  · intro _; simp [FD.init]
  · intro _ h; simp [FD.init] at h

section steps
variable {P : HashPrims} {L : Limits} {maxChunk : Nat} {U : List DChunk} {NZ : Prop}

theorem Inv_withDefrag {fd : FD} {done : List DChunk} (d : Defrag) (h : Inv P L maxChunk U NZ fd done) :
    Inv P L maxChunk U NZ (withDefrag fd d) done :=
  ⟨h.lookup, h.newSub, h.metrics, h.segSum, h.refsZero, h.zeroRefs, h.nx, h.cutHash, h.lim, h.refsNd⟩

/-- accepted run (`add_file_data_sequence_entry` + the dedup counters) -/
theorem Inv_accept {fd : FD} {done run : List DChunk} (n : Nat) (s : Seg) (h : Inv P L maxChunk U NZ fd done)
    (hlen : run.length = n) (hbytes : s.bytes = dataSize run)
    (hnd : NZ → s.casHash = Hash.zero → fd.newData ≠ []) :
    Inv P L maxChunk U NZ (addEntry (countDedup fd n s.bytes) s n) (done ++ run) := by
  have hm : MetricsOK (countDedup fd n s.bytes).metrics (done ++ run) := by
    obtain ⟨tb, tc, sb, sc, pb, pc⟩ := h.metrics
    refine ⟨?_, ?_, ?_, ?_, ?_, ?_⟩ <;> simp [countDedup] <;> omega
  unfold addEntry
  by_cases hc : continuesCurrent (countDedup fd n s.bytes) s = true
  · simp only [hc, if_true]
    -- the last segment is extended
    have hc' : continuesCurrent fd s = true := hc
    unfold continuesCurrent at hc'
    cases hgl : fd.fileInfo.getLast? with
    | none => simp [hgl] at hc'
    | some last =>
      obtain ⟨init, hinit⟩ := getLast?_eq_some_append _ _ hgl
      have hfi : (countDedup fd n s.bytes).fileInfo = init ++ [last] := hinit
      simp only [hfi, modifyLast_append_singleton]
      have hH : segHashes (init ++ [({ last with bytes := last.bytes + s.bytes, cend := s.cend } : Seg)]) = segHashes fd.fileInfo := by
        simp [hinit, segHashes]
      refine ⟨h.lookup, h.newSub, hm, ?_, ?_, ?_, h.nx, h.cutHash, h.lim, h.refsNd⟩
      · have := h.segSum; rw [hinit] at this
        simp [segBytes] at this ⊢; omega
      · intro i hi; show (segHashes _)[i]? = _; rw [hH]; exact h.refsZero i hi
      · intro hz i hi
        have : (segHashes fd.fileInfo)[i]? = some Hash.zero := by rw [← hH]; exact hi
        exact h.zeroRefs hz i this
  · simp only [hc]
    refine ⟨h.lookup, h.newSub, hm, ?_, ?_, ?_, h.nx, h.cutHash, h.lim, ?_⟩
    · show segBytes (fd.fileInfo ++ [s]) = _
      have := h.segSum
      simp [segBytes] at this ⊢; omega
    · intro i hi
      show (segHashes (fd.fileInfo ++ [s]))[i]? = _
      have hi' : i ∈ (if (s.casHash == Hash.zero) = true then fd.internalRefs ++ [fd.fileInfo.length] else fd.internalRefs) := hi
      simp only [segHashes_append]
      by_cases hz : s.casHash = Hash.zero
      · simp only [hz, beq_self_eq_true, if_true, List.mem_append, List.mem_singleton] at hi'
        rcases hi' with hi' | hi'
        · have := h.refsZero i hi'
          have hlt : i < (segHashes fd.fileInfo).length := by
            rcases List.getElem?_eq_some_iff.mp this with ⟨hlt, _⟩; exact hlt
          rw [List.getElem?_append_left hlt]; exact this
        · subst hi'
          simp [segHashes, hz]
      · have : (s.casHash == Hash.zero) = false := by simp [hz]
        simp only [this, Bool.false_eq_true, if_false] at hi'
        have := h.refsZero i hi'
        have hlt : i < (segHashes fd.fileInfo).length := by
          rcases List.getElem?_eq_some_iff.mp this with ⟨hlt, _⟩; exact hlt
        rw [List.getElem?_append_left hlt]; exact this
    · intro hz i hi
      show i ∈ (if (s.casHash == Hash.zero) = true then fd.internalRefs ++ [fd.fileInfo.length] else fd.internalRefs)
      have hi' : (segHashes (fd.fileInfo ++ [s]))[i]? = some Hash.zero := hi
      simp only [segHashes_append] at hi'
      by_cases hlt : i < (segHashes fd.fileInfo).length
      · rw [List.getElem?_append_left hlt] at hi'
        have := h.zeroRefs hz i hi'
        split
        · exact List.mem_append_left _ this
        · exact this
      · rw [List.getElem?_append_right (Nat.le_of_not_lt hlt)] at hi'
        have hlen : (segHashes fd.fileInfo).length = fd.fileInfo.length := segHashes_length _
        have hi0 : i - (segHashes fd.fileInfo).length = 0 := by
          rcases List.getElem?_eq_some_iff.mp hi' with ⟨hlt', _⟩
          simp [segHashes] at hlt' ⊢; omega
        rw [hi0] at hi'
        simp [segHashes] at hi'
        have : i = fd.fileInfo.length := by omega
        simp [hi', this]
    · intro hnz hr
      by_cases hz : s.casHash = Hash.zero
      · exact hnd hnz hz
      · have : (s.casHash == Hash.zero) = false := by simp [hz]
        have hr' : (if (s.casHash == Hash.zero) = true then fd.internalRefs ++ [fd.fileInfo.length] else fd.internalRefs) ≠ [] := hr
        simp only [this, Bool.false_eq_true, if_false] at hr'
        exact h.refsNd hnz hr'

/-- `cut_new_xorb` keeps the invariant (the cut xorb is within limits because `new_data` is; it is
    non-empty because under `ChunkHyp` a cut is never due on empty `new_data`). -/
theorem Inv_cutXorb {fd : FD} {done : List DChunk} (h : Inv P L maxChunk U NZ fd done)
    (hne : ChunkHyp L maxChunk U → fd.newData ≠ []) :
    Inv P L maxChunk U NZ (cutXorb P fd) done := by
  refine ⟨?_, ?_, h.metrics, ?_, ?_, ?_, ?_, ?_, ?_, ?_⟩
  · intro hh i hg; simp [cutXorb] at hg
  · intro c hc; simp [cutXorb] at hc
  · show segBytes (patchSegs _ _ _) = _; rw [segBytes_patchSegs]; exact h.segSum
  · intro i hi; simp [cutXorb] at hi
  · intro hz i hi
    have hz' : Hash.zero ∉ fd.newXorbs ++ [(mkXorb P fd.newData).hash] := hz
    simp only [List.mem_append, List.mem_singleton, not_or] at hz'
    have hi' : (segHashes (patchSegs fd.fileInfo fd.internalRefs (mkXorb P fd.newData).hash))[i]? = some Hash.zero := hi
    obtain ⟨h1, h2⟩ := segHashes_patchSegs_zero _ _ _ (fun e => hz'.2 e.symm) i hi'
    exact absurd (h.zeroRefs hz'.1 i h1) h2
  · show fd.newXorbs ++ [(mkXorb P fd.newData).hash] = (fd.cut ++ [mkXorb P fd.newData]).map (·.hash)
    simp [h.nx]
  · intro x hx
    have hx' : x ∈ fd.cut ++ [mkXorb P fd.newData] := hx
    rcases List.mem_append.mp hx' with hx' | hx'
    · exact h.cutHash x hx'
    · simp at hx'; subst hx'; rfl
  · intro hyp
    obtain ⟨l1, l2, l3⟩ := h.lim hyp
    refine ⟨by simp [cutXorb], by simp [cutXorb], ?_⟩
    intro x hx
    have hx' : x ∈ fd.cut ++ [mkXorb P fd.newData] := hx
    rcases List.mem_append.mp hx' with hx' | hx'
    · exact l3 x hx'
    · simp at hx'; subst hx'
      have hb : ∀ c ∈ fd.newData, 1 ≤ c.data.length ∧ c.data.length ≤ maxChunk := fun c hc => hyp.2.2 c (h.newSub c hc)
      refine ⟨hne hyp, l1, ?_, l2, hb⟩
      have := length_le_dataSize fd.newData (fun c hc => (hb c hc).1)
      have : 0 < fd.newData.length := List.length_pos_iff.mpr (hne hyp)
      show 1 ≤ dataSize fd.newData
      omega
  · intro _ hr; simp [cutXorb] at hr

/-- the "add new data" tail keeps the invariant when the chunk fits -/
theorem Inv_addTail {fd : FD} {done : List DChunk} (c : DChunk) (pb pc : Nat) (h : Inv P L maxChunk U NZ fd done)
    (hcU : c ∈ U) (hpb : pb ≤ c.data.length) (hpc : pc ≤ 1)
    (hfit : ChunkHyp L maxChunk U → fd.newData.length + 1 ≤ L.maxXorbChunks ∧ dataSize fd.newData + c.data.length ≤ L.maxXorbBytes) :
    Inv P L maxChunk U NZ (addTail fd c pb pc) (done ++ [c]) := by
  have hm : MetricsOK (tailMetrics fd.metrics c.data.length pb pc) (done ++ [c]) := by
    obtain ⟨tb, tc, sb, sc, hb, hc⟩ := h.metrics
    refine ⟨?_, ?_, ?_, ?_, ?_, ?_⟩ <;> simp [tailMetrics] <;> omega
  have hlk : ∀ hh i, lookupGet (lookupSet fd.lookup c.hash fd.newData.length) hh = some i →
      ∃ c', (fd.newData ++ [c])[i]? = some c' ∧ c'.hash = hh := by
    intro hh i hg
    rw [lookupGet_lookupSet] at hg
    by_cases he : hh = c.hash
    · simp only [he, if_true, Option.some.injEq] at hg
      subst hg; exact ⟨c, by simp, he.symm⟩
    · simp only [he, if_false] at hg
      obtain ⟨c', hc', hh'⟩ := h.lookup hh i hg
      refine ⟨c', ?_, hh'⟩
      rcases List.getElem?_eq_some_iff.mp hc' with ⟨hlt, _⟩
      rw [List.getElem?_append_left hlt]; exact hc'
  have hsub : ∀ x ∈ fd.newData ++ [c], x ∈ U := by
    intro x hx
    rcases List.mem_append.mp hx with hx | hx
    · exact h.newSub x hx
    · simp at hx; subst hx; exact hcU
  have hlim : ChunkHyp L maxChunk U →
      (fd.newData ++ [c]).length ≤ L.maxXorbChunks ∧ dataSize (fd.newData ++ [c]) ≤ L.maxXorbBytes ∧ ∀ x ∈ fd.cut, XorbOK L maxChunk x := by
    intro hyp
    obtain ⟨f1, f2⟩ := hfit hyp
    exact ⟨by simpa using f1, by simpa using f2, (h.lim hyp).2.2⟩
  have hnd : NZ → (if extendsLast fd then fd.internalRefs else fd.internalRefs ++ [fd.fileInfo.length]) ≠ [] → fd.newData ++ [c] ≠ [] := by
    intro _ _; simp
  unfold addTail
  by_cases hE : extendsLast fd = true
  · simp only [hE, if_true]
    unfold extendsLast at hE
    cases hgl : fd.fileInfo.getLast? with
    | none => simp [hgl] at hE
    | some last =>
      obtain ⟨init, hinit⟩ := getLast?_eq_some_append _ _ hgl
      simp only [hinit, modifyLast_append_singleton]
      have hH : segHashes (init ++ [({ last with bytes := last.bytes + c.data.length, cend := last.cend + 1 } : Seg)]) = segHashes fd.fileInfo := by
        simp [hinit, segHashes]
      refine ⟨hlk, hsub, hm, ?_, ?_, ?_, h.nx, h.cutHash, hlim, fun _ _ => by simp⟩
      · have := h.segSum; rw [hinit] at this
        simp [segBytes] at this ⊢; omega
      · intro i hi; show (segHashes _)[i]? = _; rw [hH]; exact h.refsZero i hi
      · intro hz i hi
        have : (segHashes fd.fileInfo)[i]? = some Hash.zero := by rw [← hH]; exact hi
        exact h.zeroRefs hz i this
  · simp only [hE]
    refine ⟨hlk, hsub, hm, ?_, ?_, ?_, h.nx, h.cutHash, hlim, fun _ _ => by simp⟩
    · show segBytes (fd.fileInfo ++ [zeroSeg _ _ _]) = _
      have := h.segSum
      simp [segBytes, zeroSeg] at this ⊢; omega
    · intro i hi
      show (segHashes (fd.fileInfo ++ [zeroSeg _ _ _]))[i]? = _
      have hi' : i ∈ fd.internalRefs ++ [fd.fileInfo.length] := hi
      simp only [segHashes_append]
      rcases List.mem_append.mp hi' with hi' | hi'
      · have := h.refsZero i hi'
        rcases List.getElem?_eq_some_iff.mp this with ⟨hlt, _⟩
        rw [List.getElem?_append_left hlt]; exact this
      · simp at hi'; subst hi'
        simp [segHashes, zeroSeg]
    · intro hz i hi
      show i ∈ fd.internalRefs ++ [fd.fileInfo.length]
      have hi' : (segHashes (fd.fileInfo ++ [zeroSeg c.data.length fd.newData.length (fd.newData.length + 1)]))[i]? = some Hash.zero := hi
      simp only [segHashes_append] at hi'
      by_cases hlt : i < (segHashes fd.fileInfo).length
      · rw [List.getElem?_append_left hlt] at hi'
        exact List.mem_append_left _ (h.zeroRefs hz i hi')
      · rw [List.getElem?_append_right (Nat.le_of_not_lt hlt)] at hi'
        rcases List.getElem?_eq_some_iff.mp hi' with ⟨hlt', _⟩
        simp [segHashes] at hlt' hlt
        have : i = fd.fileInfo.length := by omega
        simp [this]

/-- `addNewChunk` (with or without the "withheld" counters) keeps the invariant -/
theorem Inv_maybeCut_addTail {fd : FD} {done : List DChunk} (c : DChunk) (pb pc : Nat) (h : Inv P L maxChunk U NZ fd done)
    (hcU : c ∈ U) (hpb : pb ≤ c.data.length) (hpc : pc ≤ 1) :
    Inv P L maxChunk U NZ (addTail (maybeCut P L fd c) c pb pc) (done ++ [c]) := by
  unfold maybeCut
  by_cases hcut : cutDue L fd c
  · simp only [hcut, if_true]
    apply Inv_addTail c pb pc _ hcU hpb hpc
    · intro hyp
      have := (hyp.2.2 c hcU).2
      have := hyp.2.1; have := hyp.1
      simp [cutXorb]; omega
    · apply Inv_cutXorb h
      intro hyp hnil
      have := (hyp.2.2 c hcU).2
      have := hyp.2.1; have := hyp.1
      unfold cutDue at hcut
      simp [hnil] at hcut; omega
  · simp only [hcut, if_false]
    apply Inv_addTail c pb pc h hcU hpb hpc
    intro _
    unfold cutDue at hcut
    omega

theorem Inv_addNewChunk {fd : FD} {done : List DChunk} (c : DChunk) (h : Inv P L maxChunk U NZ fd done) (hcU : c ∈ U) :
    Inv P L maxChunk U NZ (addNewChunk P L fd c) (done ++ [c]) := by
  rw [addNewChunk_eq]; exact Inv_maybeCut_addTail c 0 0 h hcU (Nat.zero_le _) (Nat.zero_le _)

theorem Inv_addNewChunk_prevented {fd : FD} {done : List DChunk} (c : DChunk) (h : Inv P L maxChunk U NZ fd done) (hcU : c ∈ U) :
    Inv P L maxChunk U NZ (addNewChunk P L (countPrevented fd c.data.length) c) (done ++ [c]) := by
  rw [addNewChunk_prevented_eq]; exact Inv_maybeCut_addTail c _ 1 h hcU (Nat.le_refl _) (Nat.le_refl _)

end steps

/-! ### the second loop of `process_chunks`: invariant and sufficiency of the fuel -/

/-- optional extra assumption on an oracle: stored answers never name the zero xorb hash (a truthful
    answer names a registered xorb, whose hash is `casNodeHash` of a non-empty chunk list) -/
def AnswersNZ (answers : Answers) : Prop := ∀ a ∈ answers, ∀ x, a = some x → x.2.casHash ≠ Hash.zero

theorem answersNZ_drop (n : Nat) (answers : Answers) (h : AnswersNZ answers) : AnswersNZ (answers.drop n) :=
  fun a ha => h a (List.mem_of_mem_drop ha)

@[simp] theorem processLoop_nil (P : HashPrims) (L : Limits) (allow : Defrag → Nat → Decision) (fuel : Nat) (fd : FD)
    (answers : Answers) : processLoop P L allow fuel fd [] answers = fd := by
  cases fuel <;> simp [processLoop]

section loop
variable {P : HashPrims} {L : Limits} {maxChunk : Nat} {U : List DChunk} {NZ : Prop}

/-- whatever the loop works with at the head of the remaining chunks — the stored answer or the
    result of the local query — is a legal run -/
theorem query_legal {fd : FD} {done : List DChunk} (hU : LensFunctionalChunks U) (h : Inv P L maxChunk U NZ fd done)
    (c : DChunk) (rest : List DChunk) (answers : Answers) (hsub : ∀ x ∈ c :: rest, x ∈ U)
    (hl : AnswersLegal (c :: rest) answers) (hnz : NZ → AnswersNZ answers) (a : Nat × Seg)
    (hq : query fd (c :: rest) answers = some a) :
    SlotLegal (c :: rest) (some a) ∧ (NZ → a.2.casHash = Hash.zero → fd.newData ≠ []) := by
  unfold query at hq
  cases hs : (answers.head?).join with
  | some a' =>
    simp only [hs, Option.some.injEq] at hq
    subst hq
    have := answersLegal_head c rest answers hl
    rw [hs] at this
    refine ⟨this, ?_⟩
    intro nz hz
    exfalso
    cases answers with
    | nil => simp at hs
    | cons x xs =>
      simp at hs
      exact hnz nz x (by simp) a' hs hz
  | none =>
    simp only [hs] at hq
    obtain ⟨h1, _, h3⟩ := localQuery_legal fd U hU h.lookup h.newSub c rest hsub a hq
    exact ⟨h1, fun _ _ => h3⟩

theorem processLoop_inv (allow : Defrag → Nat → Decision) (hU : LensFunctionalChunks U) (fuel : Nat) :
    ∀ (fd : FD) (done chunks : List DChunk) (answers : Answers),
      Inv P L maxChunk U NZ fd done → (∀ c ∈ chunks, c ∈ U) → AnswersLegal chunks answers → (NZ → AnswersNZ answers) →
      chunks.length < fuel →
      Inv P L maxChunk U NZ (processLoop P L allow fuel fd chunks answers) (done ++ chunks) := by
  induction fuel with
  | zero => intro fd done chunks answers _ _ _ _ hf; omega
  | succ fuel ih =>
    intro fd done chunks answers h hsub hl hnz hf
    cases chunks with
    | nil => simpa using h
    | cons c rest =>
      have hcU : c ∈ U := hsub c (by simp)
      have hrU : ∀ x ∈ rest, x ∈ U := fun x hx => hsub x (by simp [hx])
      have hrest : rest.length < fuel := by simp at hf; omega
      have hl1 : AnswersLegal rest (answers.drop 1) := by
        have := answersLegal_drop 1 (c :: rest) answers hl; simpa using this
      have hnz1 : NZ → AnswersNZ (answers.drop 1) := fun nz => answersNZ_drop 1 answers (hnz nz)
      have happ : done ++ c :: rest = (done ++ [c]) ++ rest := by simp
      rw [processLoop_step]
      cases hq : query fd (c :: rest) answers with
      | none =>
        simp only
        rw [happ]
        exact ih _ _ _ _ (Inv_addNewChunk c h hcU) hrU hl1 hnz1 hrest
      | some a =>
        simp only
        obtain ⟨⟨hn1, hn2, hb⟩, hnd⟩ := query_legal hU h c rest answers hsub hl hnz a hq
        have hsplit : done ++ c :: rest = (done ++ (c :: rest).take a.1) ++ (c :: rest).drop a.1 := by
          rw [List.append_assoc, List.take_append_drop]
        have hlen : ((c :: rest).take a.1).length = a.1 := by
          rw [List.length_take]; exact Nat.min_eq_left hn2
        have hdropU : ∀ x ∈ (c :: rest).drop a.1, x ∈ U := fun x hx => hsub x (List.mem_of_mem_drop hx)
        have hdropL : AnswersLegal ((c :: rest).drop a.1) (answers.drop a.1) := answersLegal_drop _ _ _ hl
        have hdropNZ : NZ → AnswersNZ (answers.drop a.1) := fun nz => answersNZ_drop _ answers (hnz nz)
        have hdropF : ((c :: rest).drop a.1).length < fuel := by
          rw [List.length_drop]; simp at hf ⊢; omega
        by_cases hc : continuesCurrent fd a.2 = true
        · simp only [hc, if_true]
          rw [hsplit]
          exact ih _ _ _ _ (Inv_accept a.1 a.2 h hlen hb hnd) hdropU hdropL hdropNZ hdropF
        · simp only [hc]
          by_cases hd : (allow fd.defrag a.1).allow = true
          · simp only [hd, if_true]
            rw [hsplit]
            exact ih _ _ _ _ (Inv_accept a.1 a.2 (Inv_withDefrag _ h) hlen hb hnd) hdropU hdropL hdropNZ hdropF
          · simp only [hd]
            rw [happ]
            exact ih _ _ _ _ (Inv_addNewChunk_prevented c (Inv_withDefrag _ h) hcU) hrU hl1 hnz1 hrest

end loop

/-! ### `chunk_hashes` is untouched by the loop (no hypothesis on the answers at all) -/

theorem addEntry_chunkHashes (fd : FD) (s : Seg) (n : Nat) : (addEntry fd s n).chunkHashes = fd.chunkHashes := by
  unfold addEntry; split <;> rfl

theorem addTail_chunkHashes (fd : FD) (c : DChunk) (pb pc : Nat) : (addTail fd c pb pc).chunkHashes = fd.chunkHashes := by
  unfold addTail; split <;> rfl

theorem maybeCut_chunkHashes (P : HashPrims) (L : Limits) (fd : FD) (c : DChunk) :
    (maybeCut P L fd c).chunkHashes = fd.chunkHashes := by
  unfold maybeCut; split <;> rfl

theorem addNewChunk_chunkHashes (P : HashPrims) (L : Limits) (fd : FD) (c : DChunk) :
    (addNewChunk P L fd c).chunkHashes = fd.chunkHashes := by
  rw [addNewChunk_eq, addTail_chunkHashes, maybeCut_chunkHashes]

theorem processLoop_chunkHashes (P : HashPrims) (L : Limits) (allow : Defrag → Nat → Decision) (fuel : Nat) :
    ∀ (fd : FD) (chunks : List DChunk) (answers : Answers),
      (processLoop P L allow fuel fd chunks answers).chunkHashes = fd.chunkHashes := by
  induction fuel with
  | zero => intro fd chunks answers; simp [processLoop]
  | succ fuel ih =>
    intro fd chunks answers
    cases chunks with
    | nil => simp
    | cons c rest =>
      rw [processLoop_step]
      cases query fd (c :: rest) answers with
      | none => simp only; rw [ih, addNewChunk_chunkHashes]
      | some a =>
        simp only
        split
        · rw [ih, addEntry_chunkHashes]; rfl
        · split
          · rw [ih, addEntry_chunkHashes]; rfl
          · rw [ih, addNewChunk_chunkHashes]; rfl

/-- `chunk_hashes` after a call = before ++ the call's `(hash, len)` list, for ANY answers (legal or
    not), any limits, any defrag procedure -/
theorem processChunks_chunkHashes (P : HashPrims) (L : Limits) (allow : Defrag → Nat → Decision) (fd : FD)
    (chunks : List DChunk) (answers : Answers) (gc gb : Nat) :
    (processChunks P L allow fd chunks answers gc gb).chunkHashes = fd.chunkHashes ++ chunkLens chunks := by
  unfold processChunks
  simp only [processLoop_chunkHashes]

/-! ### histories: any sequence of `process_chunks` calls -/

/-- one `process_chunks` call: its chunks, the `deduped_blocks` its first loop produced, and the
    global-dedup counters the first loop accumulated -/
structure DCall where
  chunks : List DChunk
  answers : Answers
  gc : Nat
  gb : Nat
  deriving Repr

def runCalls (P : HashPrims) (L : Limits) (allow : Defrag → Nat → Decision) (fd : FD) (calls : List DCall) : FD :=
  calls.foldl (fun fd c => processChunks P L allow fd c.chunks c.answers c.gc c.gb) fd

/-- the file's chunk list: the concatenation of the calls' chunk lists -/
def allChunks (calls : List DCall) : List DChunk := calls.flatMap (·.chunks)

/-- every call's oracle answers are legal -/
def HistoryLegal (calls : List DCall) : Prop := ∀ c ∈ calls, AnswersLegal c.chunks c.answers

instance (calls : List DCall) : Decidable (HistoryLegal calls) := by unfold HistoryLegal; infer_instance

def HistoryNZ (calls : List DCall) : Prop := ∀ c ∈ calls, AnswersNZ c.answers

@[simp] theorem allChunks_nil : allChunks [] = [] := rfl
@[simp] theorem allChunks_cons (c : DCall) (cs : List DCall) : allChunks (c :: cs) = c.chunks ++ allChunks cs := by
  simp [allChunks]

theorem runCalls_chunkHashes (P : HashPrims) (L : Limits) (allow : Defrag → Nat → Decision) (calls : List DCall) :
    ∀ fd : FD, (runCalls P L allow fd calls).chunkHashes = fd.chunkHashes ++ chunkLens (allChunks calls) := by
  induction calls with
  | nil => intro fd; simp [runCalls]
  | cons c cs ih =>
    intro fd
    simp only [runCalls, List.foldl_cons] at ih ⊢
    rw [ih, processChunks_chunkHashes]; simp

section calls
variable {P : HashPrims} {L : Limits} {maxChunk : Nat} {U : List DChunk} {NZ : Prop}

theorem processChunks_inv (allow : Defrag → Nat → Decision) (hU : LensFunctionalChunks U) {fd : FD} {done : List DChunk}
    (chunks : List DChunk) (answers : Answers) (gc gb : Nat)
    (h : Inv P L maxChunk U NZ fd done) (hsub : ∀ c ∈ chunks, c ∈ U) (hl : AnswersLegal chunks answers)
    (hnz : NZ → AnswersNZ answers) :
    Inv P L maxChunk U NZ (processChunks P L allow fd chunks answers gc gb) (done ++ chunks) := by
  unfold processChunks
  have h0 : Inv P L maxChunk U NZ
      { fd with metrics := { fd.metrics with dedupedChunksGlobal := fd.metrics.dedupedChunksGlobal + gc,
                                             dedupedBytesGlobal := fd.metrics.dedupedBytesGlobal + gb } } done :=
    ⟨h.lookup, h.newSub, ⟨h.metrics.tb, h.metrics.tc, h.metrics.sb, h.metrics.sc, h.metrics.pb, h.metrics.pc⟩,
      h.segSum, h.refsZero, h.zeroRefs, h.nx, h.cutHash, h.lim, h.refsNd⟩
  have h1 := processLoop_inv allow hU (chunks.length + 1) _ done chunks answers h0 hsub hl hnz (Nat.lt_succ_self _)
  exact ⟨h1.lookup, h1.newSub, h1.metrics, h1.segSum, h1.refsZero, h1.zeroRefs, h1.nx, h1.cutHash, h1.lim, h1.refsNd⟩

theorem runCalls_inv (allow : Defrag → Nat → Decision) (hU : LensFunctionalChunks U) (calls : List DCall) :
    ∀ (fd : FD) (done : List DChunk), Inv P L maxChunk U NZ fd done → (∀ c ∈ allChunks calls, c ∈ U) →
      HistoryLegal calls → (NZ → HistoryNZ calls) →
      Inv P L maxChunk U NZ (runCalls P L allow fd calls) (done ++ allChunks calls) := by
  induction calls with
  | nil => intro fd done h _ _ _; simpa [runCalls] using h
  | cons c cs ih =>
    intro fd done h hsub hl hnz
    simp only [runCalls, List.foldl_cons, allChunks_cons] at ih ⊢
    rw [← List.append_assoc]
    apply ih
    · exact processChunks_inv allow hU c.chunks c.answers c.gc c.gb h
        (fun x hx => hsub x (by simp [hx])) (hl c (by simp)) (fun nz => hnz nz c (by simp))
    · intro x hx; exact hsub x (by simp [hx])
    · intro x hx; exact hl x (by simp [hx])
    · intro nz x hx; exact hnz nz x (by simp [hx])

/-- the invariant holds after every legal history that starts from a fresh `FileDeduper` -/
theorem history_inv (P : HashPrims) (L : Limits) (maxChunk : Nat) (NZ : Prop) (allow : Defrag → Nat → Decision)
    (calls : List DCall) (hU : LensFunctionalChunks (allChunks calls)) (hl : HistoryLegal calls) (hnz : NZ → HistoryNZ calls) :
    Inv P L maxChunk (allChunks calls) NZ (runCalls P L allow FD.init calls) (allChunks calls) := by
  have := runCalls_inv (P := P) (L := L) (maxChunk := maxChunk) (NZ := NZ) allow hU calls FD.init []
    (Inv_init P L maxChunk _ NZ) (fun c hc => hc) hl hnz
  simpa using this

end calls

/-! ### `finalize`, the aggregator, the session -/

/-- patched positions in general form -/
theorem segHashes_patchSegs_cases (segs : List Seg) (refs : List Nat) (h : Hash) (i : Nat)
    (hz : (segHashes (patchSegs segs refs h))[i]? = some Hash.zero) :
    (i ∈ refs ∧ h = Hash.zero) ∨ (i ∉ refs ∧ (segHashes segs)[i]? = some Hash.zero) := by
  simp only [segHashes, List.getElem?_map, patchSegs_getElem?] at hz ⊢
  cases hs : segs[i]? with
  | none => simp [hs] at hz
  | some s =>
    simp only [hs, Option.map_some, Option.some.injEq] at hz ⊢
    by_cases hc : refs.contains i = true
    · rw [if_pos hc] at hz; exact Or.inl ⟨by simpa using hc, hz⟩
    · rw [if_neg hc] at hz
      exact Or.inr ⟨fun hm => hc (by simpa using hm), hz⟩

/-- what is known of a `DataAggregator` (a finished file's remaining data, or the session's
    `current_session_data`): within both limits, chunk sizes bounded, and **the zero-hash segments of
    every pending file are exactly those listed in its index list**; index lists are non-empty only
    if there are chunks to refer to. -/
structure AggOK (L : Limits) (maxChunk : Nat) (a : Agg) : Prop where
  nChunks : a.chunks.length ≤ L.maxXorbChunks
  nBytes : dataSize a.chunks ≤ L.maxXorbBytes
  chunkB : ∀ c ∈ a.chunks, 1 ≤ c.data.length ∧ c.data.length ≤ maxChunk
  zeroRefs : ∀ p ∈ a.pending, ∀ i, (segHashes p.1.segs)[i]? = some Hash.zero → i ∈ p.2
  refsZero : ∀ p ∈ a.pending, ∀ i ∈ p.2, (segHashes p.1.segs)[i]? = some Hash.zero
  refsNd : (∃ p ∈ a.pending, p.2 ≠ []) → a.chunks ≠ []

theorem AggOK_empty (L : Limits) (maxChunk : Nat) : AggOK L maxChunk Agg.empty := by
  refine ⟨by simp [Agg.empty], by simp [Agg.empty], ?_, ?_, ?_, ?_⟩ <;> simp [Agg.empty]

/-- `merge_in`: the shift touches chunk indices only, so "zero-hash ⇔ listed" survives -/
theorem AggOK_mergeIn {L : Limits} {maxChunk : Nat} {a b : Agg} (ha : AggOK L maxChunk a) (hb : AggOK L maxChunk b)
    (hn : a.chunks.length + b.chunks.length ≤ L.maxXorbChunks) (hs : dataSize a.chunks + dataSize b.chunks ≤ L.maxXorbBytes) :
    AggOK L maxChunk (a.mergeIn b) := by
  have hmem : ∀ p ∈ (a.mergeIn b).pending, p ∈ a.pending ∨
      ∃ q ∈ b.pending, p = ({ q.1 with segs := shiftSegs q.1.segs a.chunks.length }, q.2) := by
    intro p hp
    simp only [Agg.mergeIn, List.mem_append, List.mem_map] at hp
    rcases hp with hp | ⟨q, hq, rfl⟩
    · exact Or.inl hp
    · exact Or.inr ⟨q, hq, rfl⟩
  refine ⟨by simpa [Agg.mergeIn] using hn, by simpa [Agg.mergeIn] using hs, ?_, ?_, ?_, ?_⟩
  · intro c hc
    simp only [Agg.mergeIn, List.mem_append] at hc
    rcases hc with hc | hc
    · exact ha.chunkB c hc
    · exact hb.chunkB c hc
  · intro p hp i hi
    rcases hmem p hp with hp | ⟨q, hq, rfl⟩
    · exact ha.zeroRefs p hp i hi
    · simp only [segHashes_shiftSegs] at hi; exact hb.zeroRefs q hq i hi
  · intro p hp i hi
    rcases hmem p hp with hp | ⟨q, hq, rfl⟩
    · exact ha.refsZero p hp i hi
    · simp only [segHashes_shiftSegs]; exact hb.refsZero q hq i hi
  · rintro ⟨p, hp, hne⟩
    rcases hmem p hp with hp | ⟨q, hq, rfl⟩
    · have := ha.refsNd ⟨p, hp, hne⟩
      simp [Agg.mergeIn, this]
    · have := hb.refsNd ⟨q, hq, hne⟩
      simp [Agg.mergeIn, this]

/-- `DataAggregator::finalize` patches every listed segment; so no zero-hash segment is left,
    provided the xorb hash is not itself zero (when there are no chunks there is nothing listed). -/
theorem finalize_no_zero {L : Limits} {maxChunk : Nat} (P : HashPrims) {a : Agg} (ha : AggOK L maxChunk a)
    (hh : a.chunks = [] ∨ (a.finalize P).xorb.hash ≠ Hash.zero) :
    ∀ f ∈ (a.finalize P).files, ∀ seg ∈ f.segs, seg.casHash ≠ Hash.zero := by
  intro f hf seg hseg hz
  simp only [Agg.finalize, List.mem_map] at hf
  obtain ⟨p, hp, rfl⟩ := hf
  simp only at hseg
  obtain ⟨i, hi⟩ := List.getElem?_of_mem hseg
  have hi' : (segHashes (patchSegs p.1.segs p.2 (mkXorb P a.chunks).hash))[i]? = some Hash.zero := by
    simp [segHashes, hi, hz]
  rcases segHashes_patchSegs_cases _ _ _ _ hi' with ⟨hm, hzero⟩ | ⟨hm, hold⟩
  · rcases hh with hnil | hnz
    · have := ha.refsNd ⟨p, hp, fun hn => by simp [hn] at hm⟩
      exact this hnil
    · exact hnz hzero
  · exact hm (ha.zeroRefs p hp i hold)

/-- file sizes recorded in the emitted records are those of the pending records -/
theorem finalize_fileSize (P : HashPrims) (a : Agg) :
    (a.finalize P).files.map fileSize = a.pending.map (fun p => fileSize p.1) := by
  simp [Agg.finalize, fileSize, segBytes_patchSegs, Function.comp_def]

theorem mergeIn_fileSize (a b : Agg) :
    (a.mergeIn b).pending.map (fun p => fileSize p.1) =
      a.pending.map (fun p => fileSize p.1) ++ b.pending.map (fun p => fileSize p.1) := by
  simp [Agg.mergeIn, fileSize, segBytes_shiftSegs, Function.comp_def]

/-- session events that touch the aggregation state -/
inductive SessEv where
  | fileDone (a : Agg) (m : Metrics)     -- `register_single_file_clean_completion`
  | registerXorb (x : Xorb)              -- `register_new_xorb` (a xorb cut in the middle of a file)
  | finish                               -- `finalize_impl`: cut what is left

def Sess.step (P : HashPrims) (L : Limits) (s : Sess) : SessEv → Sess
  | .fileDone a m => s.fileDone P L a m
  | .registerXorb x => s.registerXorb x
  | .finish => s.finish P

def Sess.run (P : HashPrims) (L : Limits) (s : Sess) (evs : List SessEv) : Sess := evs.foldl (Sess.step P L) s

/-- metrics reported by the finished files, in order -/
def fileMetrics : List SessEv → List Metrics
  | [] => []
  | .fileDone _ m :: rest => m :: fileMetrics rest
  | _ :: rest => fileMetrics rest

/-- what an event must satisfy (established for `fileDone` by `finalize_aggOK`, for `registerXorb`
    by the `cut` clause of the invariant) -/
def EvOK (L : Limits) (maxChunk : Nat) : SessEv → Prop
  | .fileDone a _ => AggOK L maxChunk a
  | .registerXorb x => XorbOK L maxChunk x ∨ dataSize x.chunks = 0
  | .finish => True

structure SessInv (L : Limits) (maxChunk : Nat) (s : Sess) : Prop where
  cur : AggOK L maxChunk s.cur
  puts : ∀ x ∈ s.puts, XorbOK L maxChunk x
  files : (∀ x ∈ s.puts, x.hash ≠ Hash.zero) → ∀ f ∈ s.files, ∀ seg ∈ f.segs, seg.casHash ≠ Hash.zero

theorem SessInv_init (L : Limits) (maxChunk : Nat) : SessInv L maxChunk Sess.init :=
  ⟨AggOK_empty L maxChunk, by simp [Sess.init], by simp [Sess.init]⟩

@[simp] theorem processAgg_cur (P : HashPrims) (s : Sess) (a : Agg) : (s.processAgg P a).cur = s.cur := by
  unfold Sess.processAgg; simp only []; split <;> rfl

@[simp] theorem processAgg_metrics (P : HashPrims) (s : Sess) (a : Agg) : (s.processAgg P a).metrics = s.metrics := by
  unfold Sess.processAgg; simp only []; split <;> rfl

theorem processAgg_inv {L : Limits} {maxChunk : Nat} (P : HashPrims) {s : Sess} {a : Agg}
    (hp : ∀ x ∈ s.puts, XorbOK L maxChunk x)
    (hf : (∀ x ∈ s.puts, x.hash ≠ Hash.zero) → ∀ f ∈ s.files, ∀ seg ∈ f.segs, seg.casHash ≠ Hash.zero)
    (ha : AggOK L maxChunk a) :
    (∀ x ∈ (s.processAgg P a).puts, XorbOK L maxChunk x) ∧
    ((∀ x ∈ (s.processAgg P a).puts, x.hash ≠ Hash.zero) →
      ∀ f ∈ (s.processAgg P a).files, ∀ seg ∈ f.segs, seg.casHash ≠ Hash.zero) := by
  have hx : (a.finalize P).xorb.chunks = a.chunks := rfl
  unfold Sess.processAgg
  by_cases h0 : dataSize (a.finalize P).xorb.chunks = 0
  · simp only [h0, if_true]
    have hnil : a.chunks = [] := by
      rw [hx] at h0
      have := length_le_dataSize a.chunks (fun c hc => (ha.chunkB c hc).1)
      exact List.eq_nil_of_length_eq_zero (by omega)
    refine ⟨hp, ?_⟩
    intro hnz f hfm
    rcases List.mem_append.mp hfm with hfm | hfm
    · exact hf hnz f hfm
    · exact finalize_no_zero P ha (Or.inl hnil) f hfm
  · simp only [h0, if_false]
    constructor
    · intro x hxm
      rcases List.mem_append.mp hxm with hxm | hxm
      · exact hp x hxm
      · simp at hxm; subst hxm
        rw [hx] at h0
        refine ⟨?_, ha.nChunks, by rw [hx]; omega, ha.nBytes, ha.chunkB⟩
        rw [hx]; intro hn; simp [hn] at h0
    · intro hnz f hfm
      rcases List.mem_append.mp hfm with hfm | hfm
      · exact hf (fun x hxm => hnz x (List.mem_append_left _ hxm)) f hfm
      · exact finalize_no_zero P ha (Or.inr (hnz _ (by simp))) f hfm

theorem Sess_step_inv {L : Limits} {maxChunk : Nat} (P : HashPrims) {s : Sess} (ev : SessEv)
    (h : SessInv L maxChunk s) (hev : EvOK L maxChunk ev) : SessInv L maxChunk (Sess.step P L s ev) := by
  cases ev with
  | fileDone a m =>
    have ha : AggOK L maxChunk a := hev
    simp only [Sess.step, Sess.fileDone]
    by_cases hover : dataSize s.cur.chunks + dataSize a.chunks > L.maxXorbBytes ∨ s.cur.chunks.length + a.chunks.length > L.maxXorbChunks
    · simp only [hover, if_true]
      by_cases hsw : dataSize s.cur.chunks > dataSize a.chunks
      · simp only [hsw, if_true]
        obtain ⟨h1, h2⟩ := processAgg_inv (s := { s with cur := a }) P h.puts h.files h.cur
        exact ⟨by simpa using ha, h1, h2⟩
      · simp only [hsw, if_false]
        obtain ⟨h1, h2⟩ := processAgg_inv (s := s) P h.puts h.files ha
        exact ⟨by simpa using h.cur, h1, h2⟩
    · simp only [hover, if_false]
      refine ⟨AggOK_mergeIn h.cur ha (by omega) (by omega), h.puts, h.files⟩
  | registerXorb x =>
    simp only [Sess.step, Sess.registerXorb]
    by_cases h0 : dataSize x.chunks = 0
    · simp only [h0, if_true]; exact ⟨h.cur, h.puts, h.files⟩
    · simp only [h0, if_false]
      have hx : XorbOK L maxChunk x := by
        rcases hev with hx | hx
        · exact hx
        · exact absurd hx h0
      refine ⟨h.cur, ?_, ?_⟩
      · intro y hy
        rcases List.mem_append.mp hy with hy | hy
        · exact h.puts y hy
        · simp at hy; subst hy; exact hx
      · intro hnz; exact h.files (fun y hy => hnz y (List.mem_append_left _ hy))
  | finish =>
    simp only [Sess.step, Sess.finish]
    obtain ⟨h1, h2⟩ := processAgg_inv (s := { s with cur := Agg.empty }) P h.puts h.files h.cur
    exact ⟨by simpa using AggOK_empty L maxChunk, h1, h2⟩

theorem Sess_run_inv {L : Limits} {maxChunk : Nat} (P : HashPrims) (evs : List SessEv) :
    ∀ s : Sess, SessInv L maxChunk s → (∀ ev ∈ evs, EvOK L maxChunk ev) → SessInv L maxChunk (Sess.run P L s evs) := by
  induction evs with
  | nil => intro s h _; simpa [Sess.run] using h
  | cons ev evs ih =>
    intro s h hev
    simp only [Sess.run, List.foldl_cons] at ih ⊢
    exact ih _ (Sess_step_inv P ev h (hev ev (by simp))) (fun e he => hev e (by simp [he]))

/-! session metrics -/

theorem Metrics.add_zero (m : Metrics) : Metrics.add m {} = m := by
  cases m; simp [Metrics.add]

theorem Metrics.zero_add (m : Metrics) : Metrics.add {} m = m := by
  cases m; simp [Metrics.add]

theorem Metrics.add_assoc (a b c : Metrics) : Metrics.add (Metrics.add a b) c = Metrics.add a (Metrics.add b c) := by
  simp [Metrics.add, Nat.add_assoc]

theorem Sess_step_metrics (P : HashPrims) (L : Limits) (s : Sess) (ev : SessEv) :
    (Sess.step P L s ev).metrics = (fileMetrics [ev]).foldl Metrics.add s.metrics := by
  cases ev with
  | fileDone a m =>
    simp only [Sess.step, Sess.fileDone, fileMetrics, List.foldl_cons, List.foldl_nil]
    split
    · split <;> simp
    · rfl
  | registerXorb x => simp [Sess.step, Sess.registerXorb, fileMetrics]
  | finish => simp [Sess.step, Sess.finish, fileMetrics]

theorem fileMetrics_cons (ev : SessEv) (evs : List SessEv) : fileMetrics (ev :: evs) = fileMetrics [ev] ++ fileMetrics evs := by
  cases ev <;> simp [fileMetrics]

theorem Sess_run_metrics (P : HashPrims) (L : Limits) (evs : List SessEv) :
    ∀ s : Sess, (Sess.run P L s evs).metrics = (fileMetrics evs).foldl Metrics.add s.metrics := by
  induction evs with
  | nil => intro s; simp [Sess.run, fileMetrics]
  | cons ev evs ih =>
    intro s
    simp only [Sess.run, List.foldl_cons] at ih ⊢
    rw [ih, Sess_step_metrics, fileMetrics_cons ev evs, List.foldl_append]

/-! ### from a finished file to the aggregator -/

instance (U : List DChunk) : Decidable (LensFunctionalChunks U) := by unfold LensFunctionalChunks; infer_instance
instance (L : Limits) (maxChunk : Nat) (U : List DChunk) : Decidable (ChunkHyp L maxChunk U) := by
  unfold ChunkHyp; infer_instance

/-- `FileDeduper::finalize` hands the session a `DataAggregator` satisfying `AggOK`, provided none of
    the xorbs this file cut has the zero hash. -/
theorem finalize_aggOK {P : HashPrims} {L : Limits} {maxChunk : Nat} {U : List DChunk} {fd : FD} {done : List DChunk}
    (h : Inv P L maxChunk U True fd done) (hyp : ChunkHyp L maxChunk U) (hz : Hash.zero ∉ fd.newXorbs)
    (salt : Bytes) (sha : Hash) : AggOK L maxChunk (finalize P fd salt sha).agg := by
  obtain ⟨l1, l2, _⟩ := h.lim hyp
  refine ⟨l1, l2, fun c hc => hyp.2.2 c (h.newSub c hc), ?_, ?_, ?_⟩
  · intro p hp i hi
    simp only [finalize, List.mem_singleton] at hp
    subst hp; exact h.zeroRefs hz i hi
  · intro p hp i hi
    simp only [finalize, List.mem_singleton] at hp
    subst hp; exact h.refsZero i hi
  · rintro ⟨p, hp, hne⟩
    simp only [finalize, List.mem_singleton] at hp
    subst hp; exact h.refsNd trivial hne

theorem allChunks_take_subset (calls : List DCall) (k : Nat) : ∀ c ∈ allChunks (calls.take k), c ∈ allChunks calls := by
  intro c hc
  simp only [allChunks, List.mem_flatMap] at hc ⊢
  obtain ⟨d, hd, hcd⟩ := hc
  exact ⟨d, List.mem_of_mem_take hd, hcd⟩

end Xet.Dedup
