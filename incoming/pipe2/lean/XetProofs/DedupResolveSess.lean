/-
Aggregator and session level of the invariant of DESIGN.md Appendix A.2: `finalize`, `Agg.mergeIn`,
`Agg.finalize`, `Sess.{registerXorb, fileDone, finish}` and histories of a whole session.
-/
import XetProofs.DedupResolveInv

set_option linter.unusedSimpArgs false

namespace Xet.Dedup

open Xet.Shard (Seg FileInfo CasInfo Chunk)

/-! ## file records -/

/-- a finished file (ghost): its id, the chunks fed over all its calls, and the `finalize` arguments -/
structure Done where
  id : Nat
  chunks : List DChunk
  salt : Bytes
  sha : Hash

/-- store-independent part of a file record: file hash, verification hashes, metadata -/
def RecMeta (P : HashPrims) (fi : FileInfo) (g : Done) : Prop :=
  fi.hash = Merkle.fileNodeHash P (chunkLens g.chunks) g.salt ∧
  fi.verif = verification P fi.segs (chunkLens g.chunks) ∧
  fi.metaExt = some g.sha ∧ fi.numEntries = fi.segs.length ∧
  fi.flags = Shard.flagVerification + Shard.flagMetadataExt ∧ fi.unused = 0

/-- invariant of a pending (file, refs) pair of an aggregator w.r.t. the aggregator's chunk list -/
def PendOK (P : HashPrims) (W : List Xorb) (chunks : List DChunk) (p : FileInfo × List Nat) (g : Done) : Prop :=
  resolveFile W chunks p.1.segs = some g.chunks ∧ (∀ s ∈ p.1.segs, SegGood W chunks s) ∧
  p.2 = zeroIdx 0 p.1.segs ∧ RecMeta P p.1 g

/-- an emitted file record: all segments name store xorbs and the record resolves to the file's chunks -/
def RecOK (P : HashPrims) (W : List Xorb) (fi : FileInfo) (g : Done) : Prop :=
  resolveFile W [] fi.segs = some g.chunks ∧ (∀ s ∈ fi.segs, s.casHash ≠ Hash.zero ∧ SegGood W [] s) ∧ RecMeta P fi g

/-- `verification` only looks at the segment widths -/
theorem res_verification_congr (P : HashPrims) (a b : List Seg) (hs : List (Hash × Nat))
    (h : a.map (fun s => s.cend - s.cstart) = b.map (fun s => s.cend - s.cstart)) :
    verification P a hs = verification P b hs := by
  induction a generalizing b hs with
  | nil => cases b <;> simp_all [verification]
  | cons s rest ih =>
    cases b with
    | nil => simp at h
    | cons t rest' =>
      simp only [List.map_cons, List.cons.injEq] at h
      simp only [verification, h.1, ih rest' _ h.2]

theorem res_shiftSegs_width (segs : List Seg) (k : Nat) :
    (shiftSegs segs k).map (fun s => s.cend - s.cstart) = segs.map (fun s => s.cend - s.cstart) := by
  unfold shiftSegs
  rw [List.map_map]
  apply List.map_congr_left
  intro s _
  simp only [Function.comp]
  split
  · simp; omega
  · rfl

theorem res_patch1_width (segs : List Seg) (h : Hash) :
    (segs.map (patch1 h)).map (fun s => s.cend - s.cstart) = segs.map (fun s => s.cend - s.cstart) := by
  rw [List.map_map]
  apply List.map_congr_left
  intro s _
  simp only [Function.comp, patch1]
  split <;> rfl

theorem res_shiftSegs_casHash (segs : List Seg) (k : Nat) :
    (shiftSegs segs k).map (·.casHash) = segs.map (·.casHash) := by
  unfold shiftSegs
  rw [List.map_map]
  apply List.map_congr_left
  intro s _
  simp only [Function.comp]
  split <;> rfl

/-! ### `FileDeduper::finalize` -/

theorem res_finalize_pend {P : HashPrims} {W : List Xorb} {fd : FD} {consumed : List DChunk} (id : Nat) (salt : Bytes) (sha : Hash)
    (hI : InvW W fd consumed) (hc : fd.chunkHashes = chunkLens consumed) :
    (finalize P fd salt sha).agg.chunks = fd.newData ∧
    ∃ p, (finalize P fd salt sha).agg.pending = [p] ∧ PendOK P W fd.newData p ⟨id, consumed, salt, sha⟩ := by
  refine ⟨rfl, _, rfl, ?_⟩
  refine ⟨hI.1.resolves, hI.1.segs, hI.1.refs, ?_⟩
  simp [RecMeta, hc]

/-! ### `DataAggregator::merge_in` -/

theorem res_PendOK_append {P : HashPrims} {W : List Xorb} {chunks : List DChunk} (more : List DChunk)
    {p : FileInfo × List Nat} {g : Done} (h : PendOK P W chunks p g) : PendOK P W (chunks ++ more) p g := by
  obtain ⟨h1, h2, h3, h4⟩ := h
  have hseg : ∀ s ∈ p.1.segs, resolveSeg W (chunks ++ more) s = resolveSeg W chunks s := by
    intro s hs
    obtain ⟨r, hr, _⟩ := h2 s hs
    rw [hr, res_resolveSeg_loc_append hr]
  refine ⟨by rw [res_resolveFile_congr_mem _ hseg, h1], ?_, h3, h4⟩
  intro s hs
  obtain ⟨r, hr, hb⟩ := h2 s hs
  exact ⟨r, by rw [hseg s hs, hr], hb⟩

def shift1 (k : Nat) (s : Seg) : Seg :=
  if s.casHash == Hash.zero then { s with cstart := s.cstart + k, cend := s.cend + k } else s

theorem res_shiftSegs_eq (segs : List Seg) (k : Nat) : shiftSegs segs k = segs.map (shift1 k) := rfl

/-- the shift of exactly the zero-hash segments: resolution in the merged list = resolution in the old -/
theorem res_shift1_resolve (W : List Xorb) (pre loc : List DChunk) (s : Seg) :
    resolveSeg W (pre ++ loc) (shift1 pre.length s) = resolveSeg W loc s := by
  unfold shift1
  by_cases hz : s.casHash = Hash.zero
  · simp only [hz, beq_self_eq_true, if_true]
    simp only [resolveSeg, hz, if_true, rangeOf, List.length_append]
    have e : (s.cstart + pre.length < s.cend + pre.length ∧ s.cend + pre.length ≤ pre.length + loc.length) ↔
        (s.cstart < s.cend ∧ s.cend ≤ loc.length) := by omega
    by_cases hc : s.cstart < s.cend ∧ s.cend ≤ loc.length
    · rw [if_pos hc, if_pos (e.mpr hc), res_slice_shift]
    · rw [if_neg hc, if_neg (fun x => hc (e.mp x))]
  · have : (s.casHash == Hash.zero) = false := by simpa using hz
    simp only [this]
    exact res_resolveSeg_loc hz

theorem res_PendOK_shift {P : HashPrims} {W : List Xorb} {chunks : List DChunk} (pre : List DChunk)
    {p : FileInfo × List Nat} {g : Done} (h : PendOK P W chunks p g) :
    PendOK P W (pre ++ chunks) ({ p.1 with segs := shiftSegs p.1.segs pre.length }, p.2) g := by
  obtain ⟨h1, h2, h3, h4⟩ := h
  refine ⟨?_, ?_, ?_, ?_⟩
  · show resolveFile W (pre ++ chunks) (shiftSegs p.1.segs pre.length) = _
    rw [res_shiftSegs_eq, res_resolveFile_map _ _ (fun s _ => res_shift1_resolve W pre chunks s), h1]
  · intro t ht
    change t ∈ shiftSegs p.1.segs pre.length at ht
    rw [res_shiftSegs_eq] at ht
    obtain ⟨s, hs, rfl⟩ := List.mem_map.mp ht
    obtain ⟨r, hr, hb⟩ := h2 s hs
    refine ⟨r, by rw [res_shift1_resolve, hr], ?_⟩
    rw [← hb]; unfold shift1; split <;> rfl
  · show p.2 = zeroIdx 0 (shiftSegs p.1.segs pre.length)
    rw [h3]
    exact res_zeroIdx_congr 0 _ _ (res_shiftSegs_casHash _ _).symm
  · obtain ⟨m1, m2, m3, m4, m5, m6⟩ := h4
    refine ⟨m1, ?_, m3, ?_, m5, m6⟩
    · show p.1.verif = verification P (shiftSegs p.1.segs pre.length) _
      rw [m2]
      exact res_verification_congr P _ _ _ (res_shiftSegs_width _ _).symm
    · show p.1.numEntries = (shiftSegs p.1.segs pre.length).length
      rw [m4]; simp [shiftSegs]

/-- **`merge_in` keeps the pending invariant on both sides** -/
theorem res_mergeIn_pend {P : HashPrims} {W : List Xorb} (a o : Agg) :
    (∀ p ∈ a.pending, ∀ g, PendOK P W a.chunks p g → PendOK P W (a.mergeIn o).chunks p g) ∧
    (∀ p ∈ o.pending, ∀ g, PendOK P W o.chunks p g →
      ∃ p' ∈ (a.mergeIn o).pending, PendOK P W (a.mergeIn o).chunks p' g) ∧
    (∀ p' ∈ (a.mergeIn o).pending, p' ∈ a.pending ∨
      ∃ p ∈ o.pending, p' = ({ p.1 with segs := shiftSegs p.1.segs a.chunks.length }, p.2)) := by
  refine ⟨?_, ?_, ?_⟩
  · intro p _ g h
    exact res_PendOK_append o.chunks h
  · intro p hp g h
    refine ⟨({ p.1 with segs := shiftSegs p.1.segs a.chunks.length }, p.2), ?_, res_PendOK_shift a.chunks h⟩
    simp only [Agg.mergeIn]
    exact List.mem_append_right _ (List.mem_map.mpr ⟨p, hp, rfl⟩)
  · intro p' hp'
    simp only [Agg.mergeIn] at hp'
    rcases List.mem_append.mp hp' with h | h
    · exact Or.inl h
    · obtain ⟨p, hp, rfl⟩ := List.mem_map.mp h
      exact Or.inr ⟨p, hp, rfl⟩

/-! ### `DataAggregator::finalize` -/

theorem res_finalize_rec {P : HashPrims} {W : List Xorb} (hW : StoreConsistent W) {chunks : List DChunk}
    (hx : chunks ≠ [] → mkXorb P chunks ∈ W ∧ (mkXorb P chunks).hash ≠ Hash.zero)
    {p : FileInfo × List Nat} {g : Done} (h : PendOK P W chunks p g) :
    RecOK P W { p.1 with segs := patchSegs p.1.segs p.2 (mkXorb P chunks).hash } g := by
  obtain ⟨h1, h2, h3, h4⟩ := h
  have hseg := fun s (_ : s ∈ p.1.segs) => res_patch1_resolve (P := P) hW hx s
  refine ⟨?_, ?_, ?_⟩
  · show resolveFile W [] (patchSegs p.1.segs p.2 (mkXorb P chunks).hash) = _
    rw [h3, res_patchSegs_eq_map, res_resolveFile_map _ _ hseg, h1]
  · intro t ht
    change t ∈ patchSegs p.1.segs p.2 (mkXorb P chunks).hash at ht
    rw [h3, res_patchSegs_eq_map] at ht
    obtain ⟨s, hs, rfl⟩ := List.mem_map.mp ht
    obtain ⟨r, hr, hb⟩ := h2 s hs
    refine ⟨?_, r, by rw [hseg s hs, hr], ?_⟩
    · unfold patch1
      split
      · rename_i hz
        rw [res_resolveSeg_zero hz] at hr
        obtain ⟨p1, p2, _⟩ := res_rangeOf_some hr
        have : chunks ≠ [] := by intro e; subst e; simp at p2; omega
        exact (hx this).2
      · assumption
    · rw [← hb]; unfold patch1; split <;> rfl
  · obtain ⟨m1, m2, m3, m4, m5, m6⟩ := h4
    refine ⟨m1, ?_, m3, ?_, m5, m6⟩
    · show p.1.verif = verification P (patchSegs p.1.segs p.2 (mkXorb P chunks).hash) _
      rw [m2, h3, res_patchSegs_eq_map]
      exact res_verification_congr P _ _ _ (res_patch1_width _ _).symm
    · show p.1.numEntries = (patchSegs p.1.segs p.2 (mkXorb P chunks).hash).length
      rw [m4]; simp [patchSegs]

/-- **`DataAggregator::finalize`**: every emitted file has only non-zero segments and resolves in the
    store (which contains the new xorb) to the same chunk list -/
theorem res_aggFinalize {P : HashPrims} {W : List Xorb} (hW : StoreConsistent W) (a : Agg)
    (hx : a.chunks ≠ [] → mkXorb P a.chunks ∈ W ∧ (mkXorb P a.chunks).hash ≠ Hash.zero) :
    (a.finalize P).xorb = mkXorb P a.chunks ∧
    (∀ p ∈ a.pending, ∀ g, PendOK P W a.chunks p g → ∃ fi ∈ (a.finalize P).files, RecOK P W fi g) ∧
    (∀ fi ∈ (a.finalize P).files, ∃ p ∈ a.pending, ∀ g, PendOK P W a.chunks p g → RecOK P W fi g) := by
  refine ⟨rfl, ?_, ?_⟩
  · intro p hp g h
    exact ⟨_, List.mem_map.mpr ⟨p, hp, rfl⟩, res_finalize_rec hW hx h⟩
  · intro fi hfi
    simp only [Agg.finalize] at hfi
    obtain ⟨p, hp, rfl⟩ := List.mem_map.mp hfi
    exact ⟨p, hp, fun g h => res_finalize_rec hW hx h⟩

/-! ## session aggregation: `Sess.processAgg`, `Sess.fileDone`, `Sess.finish`, `Sess.registerXorb` -/

/-- every chunk has at least one byte (what the chunker guarantees, C04) -/
def ChunksNE (cs : List DChunk) : Prop := ∀ c ∈ cs, c.data ≠ []

instance (cs : List DChunk) : Decidable (ChunksNE cs) := by unfold ChunksNE; infer_instance

theorem res_dataSize_pos {cs : List DChunk} (hne : ChunksNE cs) (h : cs ≠ []) : dataSize cs ≠ 0 := by
  cases cs with
  | nil => exact absurd rfl h
  | cons c rest =>
    have := hne c (by simp)
    have : 0 < c.data.length := List.length_pos_iff.mpr this
    simp only [dataSize, List.map_cons, List.sum_cons]; omega

/-- an aggregator whose pending files all satisfy the pending invariant for some finished file -/
def AggResOK (P : HashPrims) (W : List Xorb) (D : List Done) (a : Agg) : Prop :=
  ChunksNE a.chunks ∧ ∀ p ∈ a.pending, ∃ g ∈ D, PendOK P W a.chunks p g

/-- the finished file `g` has a good record among `files` or a good pending entry in `a` -/
def Covered (P : HashPrims) (W : List Xorb) (a : Agg) (files : List FileInfo) (g : Done) : Prop :=
  (∃ fi ∈ files, RecOK P W fi g) ∨ (∃ p ∈ a.pending, PendOK P W a.chunks p g)

theorem res_AggOK_empty (P : HashPrims) (W : List Xorb) (D : List Done) : AggResOK P W D Agg.empty :=
  ⟨by intro c hc; simp [Agg.empty] at hc, by intro p hp; simp [Agg.empty] at hp⟩

theorem res_AggOK_mono {P : HashPrims} {W : List Xorb} {D D' : List Done} {a : Agg} (h : AggResOK P W D a)
    (hs : ∀ g ∈ D, g ∈ D') : AggResOK P W D' a :=
  ⟨h.1, fun p hp => by obtain ⟨g, hg, hp'⟩ := h.2 p hp; exact ⟨g, hs g hg, hp'⟩⟩

theorem res_AggOK_merge {P : HashPrims} {W : List Xorb} {D : List Done} {a o : Agg} (ha : AggResOK P W D a) (ho : AggResOK P W D o) :
    AggResOK P W D (a.mergeIn o) := by
  refine ⟨?_, ?_⟩
  · intro c hc
    simp only [Agg.mergeIn] at hc
    rcases List.mem_append.mp hc with h | h
    · exact ha.1 c h
    · exact ho.1 c h
  · intro p' hp'
    rcases (res_mergeIn_pend (P := P) (W := W) a o).2.2 p' hp' with h | ⟨p, hp, rfl⟩
    · obtain ⟨g, hg, hok⟩ := ha.2 p' h
      exact ⟨g, hg, res_PendOK_append o.chunks hok⟩
    · obtain ⟨g, hg, hok⟩ := ho.2 p hp
      exact ⟨g, hg, res_PendOK_shift a.chunks hok⟩

theorem res_Covered_merge_left {P : HashPrims} {W : List Xorb} {a : Agg} (o : Agg) {files : List FileInfo} {g : Done}
    (h : Covered P W a files g) : Covered P W (a.mergeIn o) files g := by
  rcases h with h | ⟨p, hp, hok⟩
  · exact Or.inl h
  · exact Or.inr ⟨p, by simp only [Agg.mergeIn]; exact List.mem_append_left _ hp, res_PendOK_append o.chunks hok⟩

theorem res_Covered_merge_right {P : HashPrims} {W : List Xorb} (a : Agg) {o : Agg} {files : List FileInfo} {g : Done}
    (h : Covered P W o files g) : Covered P W (a.mergeIn o) files g := by
  rcases h with h | ⟨p, hp, hok⟩
  · exact Or.inl h
  · obtain ⟨p', hp', hok'⟩ := (res_mergeIn_pend (P := P) (W := W) a o).2.1 p hp g hok
    exact Or.inr ⟨p', hp', hok'⟩

theorem res_Covered_files_mono {P : HashPrims} {W : List Xorb} {a : Agg} {files : List FileInfo} (more : List FileInfo) {g : Done}
    (h : Covered P W a files g) : Covered P W a (files ++ more) g := by
  rcases h with ⟨fi, hfi, hok⟩ | h
  · exact Or.inl ⟨fi, List.mem_append_left _ hfi, hok⟩
  · exact Or.inr h

/-- after `a` is finalized into `files`, whatever it covered is covered by the records alone -/
theorem res_Covered_finalize {P : HashPrims} {W : List Xorb} (hW : StoreConsistent W) {a : Agg}
    (hx : a.chunks ≠ [] → mkXorb P a.chunks ∈ W ∧ (mkXorb P a.chunks).hash ≠ Hash.zero)
    (b : Agg) {files : List FileInfo} {g : Done} (h : Covered P W a files g) :
    Covered P W b (files ++ (a.finalize P).files) g := by
  rcases h with ⟨fi, hfi, hok⟩ | ⟨p, hp, hok⟩
  · exact Or.inl ⟨fi, List.mem_append_left _ hfi, hok⟩
  · obtain ⟨fi, hfi, hok'⟩ := (res_aggFinalize hW a hx).2.1 p hp g hok
    exact Or.inl ⟨fi, List.mem_append_right _ hfi, hok'⟩

/-- session state: pending files and emitted records are good, finished files are covered -/
structure SessOK (P : HashPrims) (W : List Xorb) (D : List Done) (s : Sess) : Prop where
  cur : AggResOK P W D s.cur
  files : ∀ fi ∈ s.files, ∃ g ∈ D, RecOK P W fi g
  covered : ∀ g ∈ D, Covered P W s.cur s.files g

theorem res_processAgg_fields (P : HashPrims) (s : Sess) (a : Agg) :
    (s.processAgg P a).cur = s.cur ∧ (s.processAgg P a).files = s.files ++ (a.finalize P).files ∧
    (s.processAgg P a).puts = (if dataSize a.chunks = 0 then s.puts else s.puts ++ [mkXorb P a.chunks]) ∧
    (s.processAgg P a).casRegistered =
      (if dataSize a.chunks = 0 then s.casRegistered else s.casRegistered ++ [(mkXorb P a.chunks).casInfo]) := by
  unfold Sess.processAgg
  have : (a.finalize P).xorb = mkXorb P a.chunks := rfl
  simp only [this]
  have : (mkXorb P a.chunks).chunks = a.chunks := rfl
  simp only [this]
  split <;> exact ⟨rfl, rfl, rfl, rfl⟩

theorem res_processAgg_hx {P : HashPrims} {W : List Xorb} (hZ : NoZeroName W) {s : Sess} {a : Agg} (hne : ChunksNE a.chunks)
    (hput : ∀ x ∈ (s.processAgg P a).puts, x ∈ W) :
    a.chunks ≠ [] → mkXorb P a.chunks ∈ W ∧ (mkXorb P a.chunks).hash ≠ Hash.zero := by
  intro h
  have hd := res_dataSize_pos hne h
  rw [(res_processAgg_fields P s a).2.2.1, if_neg hd] at hput
  have hm := hput (mkXorb P a.chunks) (by simp)
  exact ⟨hm, hZ _ hm h⟩

/-- cutting the aggregate `a` while `b` stays / becomes the current aggregate -/
theorem res_processAgg_ok {P : HashPrims} {W : List Xorb} (hW : StoreConsistent W) (hZ : NoZeroName W) {D : List Done}
    {s : Sess} {a : Agg} (ha : AggResOK P W D a) (hcur : AggResOK P W D s.cur)
    (hfiles : ∀ fi ∈ s.files, ∃ g ∈ D, RecOK P W fi g)
    (hcov : ∀ g ∈ D, Covered P W s.cur s.files g ∨ Covered P W a s.files g)
    (hput : ∀ x ∈ (s.processAgg P a).puts, x ∈ W) :
    SessOK P W D (s.processAgg P a) := by
  have hx := res_processAgg_hx hZ ha.1 hput
  obtain ⟨f1, f2, _, _⟩ := res_processAgg_fields P s a
  refine ⟨by rw [f1]; exact hcur, ?_, ?_⟩
  · intro fi hfi
    rw [f2] at hfi
    rcases List.mem_append.mp hfi with h | h
    · exact hfiles fi h
    · obtain ⟨p, hp, hrec⟩ := (res_aggFinalize hW a hx).2.2 fi h
      obtain ⟨g, hg, hok⟩ := ha.2 p hp
      exact ⟨g, hg, hrec g hok⟩
  · intro g hg
    rw [f1, f2]
    rcases hcov g hg with h | h
    · exact res_Covered_files_mono _ h
    · exact res_Covered_finalize hW hx s.cur h

theorem res_fileDone_puts_sub (P : HashPrims) (L : Limits) (s : Sess) (a : Agg) (m : Metrics) :
    ∀ x ∈ s.puts, x ∈ (s.fileDone P L a m).puts := by
  intro x hx
  unfold Sess.fileDone
  simp only []
  split
  · split
    · rw [(res_processAgg_fields P _ _).2.2.1]
      split
      · exact hx
      · exact List.mem_append_left _ hx
    · rw [(res_processAgg_fields P _ _).2.2.1]
      split
      · exact hx
      · exact List.mem_append_left _ hx
  · exact hx

/-- **`register_single_file_clean_completion`** keeps the session invariant, in all three branches
    (merge; cut the file's aggregate; swap and cut the old aggregate) -/
theorem res_fileDone_ok {P : HashPrims} {L : Limits} {W : List Xorb} (hW : StoreConsistent W) (hZ : NoZeroName W)
    {D : List Done} {s : Sess} {a : Agg} {m : Metrics} {g : Done}
    (hs : SessOK P W D s) (ha : AggResOK P W (D ++ [g]) a) (hg : Covered P W a [] g)
    (hput : ∀ x ∈ (s.fileDone P L a m).puts, x ∈ W) :
    SessOK P W (D ++ [g]) (s.fileDone P L a m) := by
  have hsub : ∀ g' ∈ D, g' ∈ D ++ [g] := fun g' h => List.mem_append_left _ h
  have hcur := res_AggOK_mono hs.cur hsub
  have hfiles : ∀ fi ∈ s.files, ∃ g' ∈ D ++ [g], RecOK P W fi g' := fun fi hfi => by
    obtain ⟨g', h1, h2⟩ := hs.files fi hfi
    exact ⟨g', hsub g' h1, h2⟩
  have hg' : Covered P W a s.files g := by
    rcases hg with ⟨fi, hfi, _⟩ | h
    · simp at hfi
    · exact Or.inr h
  unfold Sess.fileDone at hput ⊢
  simp only [] at hput ⊢
  split
  · split
    · -- swap: the old aggregate is cut, the file's aggregate becomes current
      rename_i h1 h2
      simp only [h1, h2, if_true] at hput
      have := res_processAgg_ok (P := P) (s := { s with cur := a }) (a := s.cur) hW hZ hcur ha hfiles
        (by
          intro g' hg'm
          rcases List.mem_append.mp hg'm with h | h
          · exact Or.inr (hs.covered g' h)
          · simp at h; subst h; exact Or.inl hg')
        hput
      exact ⟨this.cur, this.files, this.covered⟩
    · rename_i h1 h2
      simp only [h1, h2, if_true, if_false] at hput
      have := res_processAgg_ok (P := P) (s := s) (a := a) hW hZ ha hcur hfiles
        (by
          intro g' hg'm
          rcases List.mem_append.mp hg'm with h | h
          · exact Or.inl (hs.covered g' h)
          · simp at h; subst h; exact Or.inr hg')
        hput
      exact ⟨this.cur, this.files, this.covered⟩
  · refine ⟨res_AggOK_merge hcur ha, hfiles, ?_⟩
    intro g' hg'm
    rcases List.mem_append.mp hg'm with h | h
    · exact res_Covered_merge_left a (hs.covered g' h)
    · simp at h; subst h; exact res_Covered_merge_right s.cur hg'

/-- **`finalize_impl`**: after the last cut every finished file has a good record and nothing is pending -/
theorem res_finish_ok {P : HashPrims} {W : List Xorb} (hW : StoreConsistent W) (hZ : NoZeroName W) {D : List Done} {s : Sess}
    (hs : SessOK P W D s) (hput : ∀ x ∈ (s.finish P).puts, x ∈ W) :
    SessOK P W D (s.finish P) ∧ (s.finish P).cur = Agg.empty := by
  unfold Sess.finish at hput ⊢
  have := res_processAgg_ok (P := P) (s := { s with cur := Agg.empty }) (a := s.cur) hW hZ hs.cur
    (res_AggOK_empty P W D) hs.files (fun g hg => Or.inr (hs.covered g hg)) hput
  exact ⟨this, (res_processAgg_fields P _ _).1⟩

end Xet.Dedup
