/-
Resolution semantics and the central invariant of the upload pipeline (DESIGN.md Appendix A.2) over
the model `XetModel/Dedup.lean`.  Helper lemmas are prefixed `res_`.
-/
import XetModel.Dedup

set_option linter.unusedSimpArgs false

namespace Xet.Dedup

open Xet.Shard (Seg FileInfo CasInfo Chunk)

/-! ## list slices -/

/-- `l[a : b)` -/
def slice {α} (l : List α) (a b : Nat) : List α := (l.drop a).take (b - a)

theorem res_slice_length {α} (l : List α) (a b : Nat) (h : b ≤ l.length) : (slice l a b).length = b - a := by
  simp [slice]; omega

theorem res_slice_append_slice {α} (l : List α) (a b c : Nat) (h1 : a ≤ b) (h2 : b ≤ c) :
    slice l a b ++ slice l b c = slice l a c := by
  unfold slice
  have e : c - a = (b - a) + (c - b) := by omega
  rw [e, List.take_add, List.drop_drop]
  have : a + (b - a) = b := by omega
  rw [this]

theorem res_slice_append_left {α} (l m : List α) (a b : Nat) (h : b ≤ l.length) :
    slice (l ++ m) a b = slice l a b := by
  unfold slice
  by_cases hab : a ≤ b
  · rw [List.drop_append_of_le_length (by omega), List.take_append_of_le_length (by simp; omega)]
  · have : b - a = 0 := by omega
    simp [this]

theorem res_slice_shift {α} (l m : List α) (a b : Nat) :
    slice (l ++ m) (a + l.length) (b + l.length) = slice m a b := by
  unfold slice
  have : b + l.length - (a + l.length) = b - a := by omega
  rw [this, Nat.add_comm a, List.drop_length_add_append]

theorem res_slice_snoc {α} (l : List α) (c : α) (a : Nat) (h : a ≤ l.length) :
    slice (l ++ [c]) a (l.length + 1) = slice l a l.length ++ [c] := by
  unfold slice
  rw [List.drop_append_of_le_length h]
  have e1 : l.length + 1 - a = (l.drop a).length + 1 := by simp; omega
  have e2 : l.length - a = (l.drop a).length := by simp
  rw [e1, e2, List.take_length, List.take_of_length_le (by simp)]

theorem res_slice_one {α} (l : List α) (c : α) :
    slice (l ++ [c]) l.length (l.length + 1) = [c] := by
  simp [slice]

theorem res_slice_take_drop {α} (l : List α) (i n : Nat) : slice l i (i + n) = (l.drop i).take n := by
  simp [slice]

theorem res_dataSize_append (a b : List DChunk) : dataSize (a ++ b) = dataSize a + dataSize b := by
  simp [dataSize]

theorem res_dataSize_nil : dataSize [] = 0 := rfl

theorem res_dataSize_single (c : DChunk) : dataSize [c] = c.data.length := by simp [dataSize]

/-! ## stores and resolution -/

/-- the xorbs known to the world: earlier sessions, earlier files, xorbs cut so far -/
abbrev Store := List Xorb

/-- lookup by name (first match) -/
def storeFind (store : List Xorb) (h : Hash) : Option Xorb := store.find? fun x => x.hash == h

/-- chunks `[a, b)` of a chunk list; `none` when out of range or empty -/
def rangeOf (cs : List DChunk) (a b : Nat) : Option (List DChunk) :=
  if a < b ∧ b ≤ cs.length then some (slice cs a b) else none

/-- what a segment denotes: a zero-hash segment refers to the not-yet-cut data `loc`, any other to the
    store xorb of that name. -/
def resolveSeg (store : List Xorb) (loc : List DChunk) (s : Seg) : Option (List DChunk) :=
  if s.casHash = Hash.zero then rangeOf loc s.cstart s.cend
  else match storeFind store s.casHash with
    | some x => rangeOf x.chunks s.cstart s.cend
    | none => none

/-- concatenation over the segments (`none` if any segment does not resolve) -/
def resolveFile (store : List Xorb) (loc : List DChunk) : List Seg → Option (List DChunk)
  | [] => some []
  | s :: rest =>
    match resolveSeg store loc s, resolveFile store loc rest with
    | some a, some b => some (a ++ b)
    | _, _ => none

/-- equal name ⇒ equal content on the finite store (C06 collision-freeness, extraction form) -/
def StoreConsistent (W : List Xorb) : Prop := ∀ x ∈ W, ∀ y ∈ W, x.hash = y.hash → x.chunks = y.chunks

/-- no non-empty xorb of the store is named by the all-zero hash (the code uses the zero hash as the
    "not yet cut" marker; a non-empty xorb hashing to zero is a collision with that marker) -/
def NoZeroName (W : List Xorb) : Prop := ∀ x ∈ W, x.chunks ≠ [] → x.hash ≠ Hash.zero

/-- the non-empty xorbs of `cut` are in the store `W` -/
def CutIn (W : List Xorb) (cut : List Xorb) : Prop := ∀ x ∈ cut, x.chunks ≠ [] → x ∈ W

instance (W : List Xorb) : Decidable (StoreConsistent W) := by unfold StoreConsistent; infer_instance
instance (W : List Xorb) : Decidable (NoZeroName W) := by unfold NoZeroName; infer_instance

theorem res_rangeOf_some {cs : List DChunk} {a b : Nat} {r} (h : rangeOf cs a b = some r) :
    a < b ∧ b ≤ cs.length ∧ r = slice cs a b := by
  unfold rangeOf at h
  split at h
  · rename_i hc
    simp at h
    exact ⟨hc.1, hc.2, h.symm⟩
  · simp at h

theorem res_rangeOf_eq {cs : List DChunk} {a b : Nat} (h1 : a < b) (h2 : b ≤ cs.length) :
    rangeOf cs a b = some (slice cs a b) := by
  simp [rangeOf, h1, h2]

theorem res_storeFind_mem {W : List Xorb} {h : Hash} {x : Xorb} (hf : storeFind W h = some x) :
    x ∈ W ∧ x.hash = h := by
  unfold storeFind at hf
  have h1 := List.mem_of_find?_eq_some hf
  have h2 := List.find?_some hf
  simp at h2
  exact ⟨h1, h2⟩

theorem res_storeFind_of_mem {W : List Xorb} (hW : StoreConsistent W) {x : Xorb} (hx : x ∈ W) :
    storeFind W x.hash = some x := by
  unfold storeFind
  cases hf : W.find? (fun y => y.hash == x.hash) with
  | none =>
    rw [List.find?_eq_none] at hf
    have := hf x hx
    simp at this
  | some y =>
    have h1 := List.mem_of_find?_eq_some hf
    have h2 := List.find?_some hf
    simp at h2
    have := hW y h1 x hx h2
    cases x; cases y; simp_all

theorem res_resolveSeg_zero {W loc} {s : Seg} (h : s.casHash = Hash.zero) :
    resolveSeg W loc s = rangeOf loc s.cstart s.cend := by
  simp [resolveSeg, h]

theorem res_resolveSeg_nonzero {W loc} {s : Seg} (h : s.casHash ≠ Hash.zero) :
    resolveSeg W loc s = (match storeFind W s.casHash with
      | some x => rangeOf x.chunks s.cstart s.cend
      | none => none) := by
  simp [resolveSeg, h]

/-- a non-zero segment does not depend on the local data -/
theorem res_resolveSeg_loc {W loc loc'} {s : Seg} (h : s.casHash ≠ Hash.zero) :
    resolveSeg W loc s = resolveSeg W loc' s := by
  simp [resolveSeg, h]

theorem res_resolveSeg_some {W loc} {s : Seg} {r} (h : resolveSeg W loc s = some r) :
    s.cstart < s.cend ∧ r.length = s.cend - s.cstart := by
  unfold resolveSeg at h
  split at h
  · obtain ⟨h1, h2, h3⟩ := res_rangeOf_some h
    exact ⟨h1, by rw [h3, res_slice_length _ _ _ h2]⟩
  · split at h
    · obtain ⟨h1, h2, h3⟩ := res_rangeOf_some h
      exact ⟨h1, by rw [h3, res_slice_length _ _ _ h2]⟩
    · simp at h

/-- resolution is monotone in the store (a consistent store that contains the smaller one) -/
theorem res_resolveSeg_mono {st W : List Xorb} (hW : StoreConsistent W) (hsub : ∀ x ∈ st, x ∈ W)
    {loc} {s : Seg} {r} (h : resolveSeg st loc s = some r) : resolveSeg W loc s = some r := by
  unfold resolveSeg at h ⊢
  split
  · simpa [*] using h
  · rename_i hz
    simp only [hz, if_false] at h
    cases hf : storeFind st s.casHash with
    | none => simp [hf] at h
    | some x =>
      simp only [hf] at h
      obtain ⟨hx, hh⟩ := res_storeFind_mem hf
      have := res_storeFind_of_mem hW (hsub x hx)
      rw [hh] at this
      simp [this, h]

theorem res_resolveFile_nil (W loc) : resolveFile W loc [] = some [] := rfl

theorem res_resolveFile_cons (W loc) (s : Seg) (rest : List Seg) :
    resolveFile W loc (s :: rest) =
      (match resolveSeg W loc s, resolveFile W loc rest with
       | some a, some b => some (a ++ b)
       | _, _ => none) := rfl

theorem res_resolveFile_append (W loc) (a b : List Seg) :
    resolveFile W loc (a ++ b) =
      (match resolveFile W loc a, resolveFile W loc b with
       | some x, some y => some (x ++ y)
       | _, _ => none) := by
  induction a with
  | nil => simp [resolveFile]; cases resolveFile W loc b <;> rfl
  | cons s rest ih =>
    simp only [List.cons_append, resolveFile, ih]
    cases resolveSeg W loc s <;> cases resolveFile W loc rest <;> cases resolveFile W loc b <;> simp

theorem res_resolveFile_single (W loc) (s : Seg) :
    resolveFile W loc [s] = resolveSeg W loc s := by
  simp only [resolveFile]
  cases resolveSeg W loc s <;> simp

theorem res_resolveFile_snoc {W loc} {segs : List Seg} {s : Seg} {x y}
    (h1 : resolveFile W loc segs = some x) (h2 : resolveSeg W loc s = some y) :
    resolveFile W loc (segs ++ [s]) = some (x ++ y) := by
  rw [res_resolveFile_append, h1, res_resolveFile_single, h2]

/-- pointwise equal segment resolution gives equal file resolution -/
theorem res_resolveFile_congr {W loc W' loc'} {segs segs' : List Seg}
    (hl : segs.length = segs'.length)
    (h : ∀ i (h1 : i < segs.length) (h2 : i < segs'.length),
      resolveSeg W' loc' segs'[i] = resolveSeg W loc segs[i]) :
    resolveFile W' loc' segs' = resolveFile W loc segs := by
  induction segs generalizing segs' with
  | nil => cases segs' <;> simp_all [resolveFile]
  | cons s rest ih =>
    cases segs' with
    | nil => simp at hl
    | cons s' rest' =>
      have h0 := h 0 (by simp) (by simp)
      simp only [List.getElem_cons_zero] at h0
      have := ih (segs' := rest') (by simpa using hl) (fun i h1 h2 => by
        have := h (i+1) (by simp; omega) (by simp; omega)
        simpa using this)
      simp only [resolveFile, h0, this]

theorem res_resolveFile_map {W loc W' loc'} (f : Seg → Seg) (segs : List Seg)
    (h : ∀ s ∈ segs, resolveSeg W' loc' (f s) = resolveSeg W loc s) :
    resolveFile W' loc' (segs.map f) = resolveFile W loc segs := by
  induction segs with
  | nil => rfl
  | cons s rest ih =>
    simp only [List.map_cons, resolveFile, h s (by simp), ih (fun s hs => h s (by simp [hs]))]

/-! ## zero-hash segment indices, patching, `modifyLast` -/

/-- the indices (from `k`) of the zero-hash segments, ascending -/
def zeroIdx : Nat → List Seg → List Nat
  | _, [] => []
  | k, s :: rest => if s.casHash = Hash.zero then k :: zeroIdx (k + 1) rest else zeroIdx (k + 1) rest

/-- what `cut_new_xorb` / `DataAggregator::finalize` do to one segment when the internal references are
    exactly the zero-hash segments -/
def patch1 (h : Hash) (s : Seg) : Seg := if s.casHash = Hash.zero then { s with casHash := h } else s

theorem res_zeroIdx_append (k : Nat) (a b : List Seg) :
    zeroIdx k (a ++ b) = zeroIdx k a ++ zeroIdx (k + a.length) b := by
  induction a generalizing k with
  | nil => simp [zeroIdx]
  | cons s rest ih =>
    simp only [List.cons_append, zeroIdx, ih, List.length_cons]
    have : k + 1 + rest.length = k + (rest.length + 1) := by omega
    split <;> simp [this]

theorem res_zeroIdx_snoc (segs : List Seg) (s : Seg) :
    zeroIdx 0 (segs ++ [s]) = zeroIdx 0 segs ++ (if s.casHash = Hash.zero then [segs.length] else []) := by
  rw [res_zeroIdx_append]
  simp only [zeroIdx, Nat.zero_add]

theorem res_mem_zeroIdx (k i : Nat) (segs : List Seg) :
    i ∈ zeroIdx k segs ↔ k ≤ i ∧ ∃ s, segs[i - k]? = some s ∧ s.casHash = Hash.zero := by
  induction segs generalizing k with
  | nil => simp [zeroIdx]
  | cons s rest ih =>
    simp only [zeroIdx]
    by_cases hik : i = k
    · subst hik
      have hn : ¬ (i + 1 ≤ i) := by omega
      split <;> simp [ih, hn, *]
    · by_cases hlt : k ≤ i
      · have e : i - k = (i - (k + 1)) + 1 := by omega
        have h1 : k + 1 ≤ i := by omega
        split <;> simp [ih, hik, e, h1, hlt]
      · have h1 : ¬ (k + 1 ≤ i) := by omega
        split <;> simp [ih, hik, h1, hlt]

theorem res_zeroIdx_nil_iff (k : Nat) (segs : List Seg) :
    zeroIdx k segs = [] ↔ ∀ s ∈ segs, s.casHash ≠ Hash.zero := by
  induction segs generalizing k with
  | nil => simp [zeroIdx]
  | cons s rest ih =>
    simp only [zeroIdx]
    split <;> simp [ih, *]

theorem res_zeroIdx_ge (k : Nat) (segs : List Seg) : ∀ i ∈ zeroIdx k segs, k ≤ i := by
  intro i hi
  exact ((res_mem_zeroIdx k i segs).mp hi).1

theorem res_zeroIdx_sorted (k : Nat) (segs : List Seg) : (zeroIdx k segs).Pairwise (· < ·) := by
  induction segs generalizing k with
  | nil => simp [zeroIdx]
  | cons s rest ih =>
    simp only [zeroIdx]
    split
    · rw [List.pairwise_cons]
      exact ⟨fun i hi => by have := res_zeroIdx_ge (k + 1) rest i hi; omega, ih (k + 1)⟩
    · exact ih (k + 1)

/-- only the `casHash` fields matter -/
theorem res_zeroIdx_congr (k : Nat) (a b : List Seg) (h : a.map (·.casHash) = b.map (·.casHash)) :
    zeroIdx k a = zeroIdx k b := by
  induction a generalizing b k with
  | nil => cases b <;> simp_all [zeroIdx]
  | cons s rest ih =>
    cases b with
    | nil => simp at h
    | cons t rest' =>
      simp only [List.map_cons, List.cons.injEq] at h
      simp only [zeroIdx, h.1, ih (k + 1) rest' h.2]

theorem res_patchSegs_eq_map (segs : List Seg) (h : Hash) :
    patchSegs segs (zeroIdx 0 segs) h = segs.map (patch1 h) := by
  unfold patchSegs
  apply List.ext_getElem
  · simp
  · intro i h1 h2
    simp only [List.getElem_map, List.getElem_zipIdx, Nat.zero_add, patch1]
    simp only [List.length_map, List.length_zipIdx] at h1
    have hm : i ∈ zeroIdx 0 segs ↔ segs[i].casHash = Hash.zero := by
      rw [res_mem_zeroIdx]
      simp [h1]
    by_cases hz : segs[i].casHash = Hash.zero
    · simp [hz, hm.mpr hz]
    · have : i ∉ zeroIdx 0 segs := fun hc => hz (hm.mp hc)
      simp [hz, this]

theorem res_patchSegs_nil_refs (segs : List Seg) (h : Hash) : patchSegs segs [] h = segs := by
  unfold patchSegs
  apply List.ext_getElem
  · simp
  · intro i h1 h2
    simp

theorem res_modifyLast_snoc {α} (l : List α) (x : α) (f : α → α) : modifyLast (l ++ [x]) f = l ++ [f x] := by
  simp [modifyLast]

theorem res_getLast_snoc {α} {l : List α} {x : α} (h : l.getLast? = some x) : ∃ init, l = init ++ [x] :=
  List.getLast?_eq_some_iff.mp h

/-! ## the single-file invariant on the fields of `FD` -/

/-- a segment resolves and its recorded byte count is the size of what it resolves to -/
def SegGood (W : List Xorb) (loc : List DChunk) (s : Seg) : Prop :=
  ∃ r, resolveSeg W loc s = some r ∧ s.bytes = dataSize r

/-- `new_data_hash_lookup[h] = i → new_data[i].hash = h` -/
def LookupSound (lookup : List (Hash × Nat)) (newData : List DChunk) : Prop :=
  ∀ h i, lookupGet lookup h = some i → ∃ c, newData[i]? = some c ∧ c.hash = h

/-- the invariant on the fields `new_data`, `new_data_hash_lookup`, `file_info`,
    `internally_referencing_entries`, relative to the store `W` and the chunks consumed so far -/
structure InvF (W : List Xorb) (nd : List DChunk) (lk : List (Hash × Nat)) (fi : List Seg) (refs : List Nat)
    (consumed : List DChunk) : Prop where
  resolves : resolveFile W nd fi = some consumed
  segs : ∀ s ∈ fi, SegGood W nd s
  refs : refs = zeroIdx 0 fi
  lookup : LookupSound lk nd

theorem res_resolveFile_snoc_inv {W loc} {segs : List Seg} {s : Seg} {all}
    (h : resolveFile W loc (segs ++ [s]) = some all) :
    ∃ x y, resolveFile W loc segs = some x ∧ resolveSeg W loc s = some y ∧ all = x ++ y := by
  rw [res_resolveFile_append, res_resolveFile_single] at h
  cases h1 : resolveFile W loc segs <;> cases h2 : resolveSeg W loc s <;> simp [h1, h2] at h
  exact ⟨_, _, rfl, rfl, h.symm⟩

theorem res_rangeOf_append {cs : List DChunk} {a b c : Nat} {x y}
    (h1 : rangeOf cs a b = some x) (h2 : rangeOf cs b c = some y) : rangeOf cs a c = some (x ++ y) := by
  obtain ⟨p1, p2, p3⟩ := res_rangeOf_some h1
  obtain ⟨q1, q2, q3⟩ := res_rangeOf_some h2
  rw [res_rangeOf_eq (by omega) q2, p3, q3, res_slice_append_slice _ _ _ _ (by omega) (by omega)]

/-- continuing the last segment: slices of one list concatenate -/
theorem res_merge_seg {W loc} {last s : Seg} {rl r} (hc : last.casHash = s.casHash) (he : last.cend = s.cstart)
    (h1 : resolveSeg W loc last = some rl) (h2 : resolveSeg W loc s = some r) :
    resolveSeg W loc { last with bytes := last.bytes + s.bytes, cend := s.cend } = some (rl ++ r) := by
  unfold resolveSeg at h1 h2 ⊢
  simp only [hc] at h1 ⊢
  rw [← he] at h2
  split
  · rename_i hz
    simp only [hz, if_true] at h1 h2
    exact res_rangeOf_append h1 h2
  · rename_i hz
    simp only [hz, if_false] at h1 h2
    cases hf : storeFind W s.casHash with
    | none => simp [hf] at h1
    | some x =>
      simp only [hf] at h1 h2 ⊢
      exact res_rangeOf_append h1 h2

theorem res_InvF_merge {W nd lk init refs consumed} {last s : Seg} {r}
    (hI : InvF W nd lk (init ++ [last]) refs consumed)
    (hc : last.casHash = s.casHash) (he : last.cend = s.cstart)
    (hr : resolveSeg W nd s = some r) (hb : s.bytes = dataSize r) :
    InvF W nd lk (init ++ [{ last with bytes := last.bytes + s.bytes, cend := s.cend }]) refs (consumed ++ r) := by
  obtain ⟨x, rl, hx, hl, hall⟩ := res_resolveFile_snoc_inv hI.resolves
  have hm := res_merge_seg hc he hl hr
  refine ⟨?_, ?_, ?_, hI.lookup⟩
  · rw [res_resolveFile_snoc hx hm, hall, List.append_assoc]
  · intro t ht
    rcases List.mem_append.mp ht with ht | ht
    · exact hI.segs t (List.mem_append_left _ ht)
    · simp only [List.mem_singleton] at ht
      subst ht
      obtain ⟨rl', hl', hbl⟩ := hI.segs last (by simp)
      rw [hl] at hl'
      cases hl'
      exact ⟨_, hm, by simp [hbl, hb, res_dataSize_append]⟩
  · rw [hI.refs]
    apply res_zeroIdx_congr
    simp

theorem res_InvF_push {W nd lk fi refs consumed} {s : Seg} {r}
    (hI : InvF W nd lk fi refs consumed) (hr : resolveSeg W nd s = some r) (hb : s.bytes = dataSize r) :
    InvF W nd lk (fi ++ [s]) (if s.casHash == Hash.zero then refs ++ [fi.length] else refs) (consumed ++ r) := by
  refine ⟨res_resolveFile_snoc hI.resolves hr, ?_, ?_, hI.lookup⟩
  · intro t ht
    rcases List.mem_append.mp ht with ht | ht
    · exact hI.segs t ht
    · simp only [List.mem_singleton] at ht
      subst ht
      exact ⟨r, hr, hb⟩
  · rw [res_zeroIdx_snoc, hI.refs]
    by_cases hz : s.casHash = Hash.zero <;> simp [hz]

theorem res_resolveFile_congr_mem {W loc W' loc'} (segs : List Seg)
    (h : ∀ s ∈ segs, resolveSeg W' loc' s = resolveSeg W loc s) :
    resolveFile W' loc' segs = resolveFile W loc segs := by
  have := res_resolveFile_map (W := W) (loc := loc) (W' := W') (loc' := loc') id segs (by simpa using h)
  simpa using this

theorem res_rangeOf_append_left {cs m : List DChunk} {a b : Nat} {r} (h : rangeOf cs a b = some r) :
    rangeOf (cs ++ m) a b = some r := by
  obtain ⟨p1, p2, p3⟩ := res_rangeOf_some h
  rw [res_rangeOf_eq p1 (by simp; omega), res_slice_append_left _ _ _ _ p2, p3]

/-- appending to the local data does not disturb what already resolves -/
theorem res_resolveSeg_loc_append {W loc m} {s : Seg} {r} (h : resolveSeg W loc s = some r) :
    resolveSeg W (loc ++ m) s = some r := by
  unfold resolveSeg at h ⊢
  split
  · rename_i hz
    simp only [hz, if_true] at h
    exact res_rangeOf_append_left h
  · rename_i hz
    simpa only [hz, if_false] using h

theorem res_lookupGet_nil (h : Hash) : lookupGet [] h = none := rfl

theorem res_lookupGet_set (l : List (Hash × Nat)) (h h' : Hash) (i : Nat) :
    lookupGet (lookupSet l h i) h' = if h' = h then some i else lookupGet l h' := by
  induction l with
  | nil =>
    by_cases e : h' = h
    · subst e; simp [lookupGet, lookupSet]
    · have : ¬ h = h' := fun x => e x.symm
      simp [lookupGet, lookupSet, e, this]
  | cons e rest ih =>
    simp only [lookupSet]
    by_cases he : e.1 = h
    · by_cases e' : h' = h
      · subst e'; simp [lookupGet, he]
      · have : ¬ h = h' := fun x => e' x.symm
        simp [lookupGet, he, e', this]
    · have hne : (e.1 == h) = false := by simpa using he
      simp only [hne]
      by_cases e1 : e.1 = h'
      · have : ¬ h' = h := fun x => he (e1.trans x)
        simp [lookupGet, e1, this]
      · have hne' : (e.1 == h') = false := by simpa using e1
        have := ih
        simp only [lookupGet, List.find?_cons, hne', Bool.false_eq_true, if_false] at this ⊢
        exact this

theorem res_LookupOK_push {lk nd} (c : DChunk) (h : LookupSound lk nd) :
    LookupSound (lookupSet lk c.hash nd.length) (nd ++ [c]) := by
  intro h' i hi
  rw [res_lookupGet_set] at hi
  split at hi
  · rename_i e
    simp at hi
    subst hi
    exact ⟨c, by simp, e.symm⟩
  · obtain ⟨c', hc', hh⟩ := h h' i hi
    refine ⟨c', ?_, hh⟩
    have : i < nd.length := by
      rcases Nat.lt_or_ge i nd.length with hlt | hge
      · exact hlt
      · rw [List.getElem?_eq_none hge] at hc'; simp at hc'
    rw [List.getElem?_append_left this]
    exact hc'

/-- pushing a chunk onto `new_data` (and into the lookup) keeps the invariant for the same consumed list -/
theorem res_InvF_data {W nd lk fi refs consumed} (c : DChunk) (hI : InvF W nd lk fi refs consumed) :
    InvF W (nd ++ [c]) (lookupSet lk c.hash nd.length) fi refs consumed := by
  have hseg : ∀ s ∈ fi, resolveSeg W (nd ++ [c]) s = resolveSeg W nd s := by
    intro s hs
    obtain ⟨r, hr, _⟩ := hI.segs s hs
    rw [hr, res_resolveSeg_loc_append hr]
  refine ⟨?_, ?_, hI.refs, res_LookupOK_push c hI.lookup⟩
  · rw [res_resolveFile_congr_mem fi hseg, hI.resolves]
  · intro s hs
    obtain ⟨r, hr, hb⟩ := hI.segs s hs
    exact ⟨r, by rw [hseg s hs, hr], hb⟩

/-- the new chunk as a one-chunk zero-hash segment at the end of the extended `new_data` -/
theorem res_resolve_newChunk (W : List Xorb) (nd : List DChunk) (c : DChunk) :
    resolveSeg W (nd ++ [c]) (zeroSeg c.data.length nd.length (nd.length + 1)) = some [c] := by
  simp [resolveSeg, zeroSeg, rangeOf, res_slice_one]

/-! ### cutting a xorb -/

/-- patched segments resolve in the store exactly as the unpatched ones resolved locally, provided the
    xorb made of the local data is in the (consistent) store under a non-zero name -/
theorem res_patch1_resolve {P : HashPrims} {W : List Xorb} (hW : StoreConsistent W) {loc : List DChunk}
    (hx : loc ≠ [] → mkXorb P loc ∈ W ∧ (mkXorb P loc).hash ≠ Hash.zero) (s : Seg) :
    resolveSeg W [] (patch1 (mkXorb P loc).hash s) = resolveSeg W loc s := by
  unfold patch1
  split
  · rename_i hz
    by_cases hl : loc = []
    · subst hl
      have : (mkXorb P []).hash = Hash.zero := by simp [mkXorb, chunkLens, Merkle.casNodeHash]
      simp [this, resolveSeg, hz]
    · obtain ⟨hmem, hnz⟩ := hx hl
      have hf := res_storeFind_of_mem hW hmem
      simp only [resolveSeg, hz, if_true, hnz, if_false, hf]
      rfl
  · rename_i hz
    exact res_resolveSeg_loc hz

theorem res_InvF_cut {P : HashPrims} {W nd lk fi refs consumed} (hW : StoreConsistent W)
    (hI : InvF W nd lk fi refs consumed)
    (hx : nd ≠ [] → mkXorb P nd ∈ W ∧ (mkXorb P nd).hash ≠ Hash.zero) :
    InvF W [] [] (patchSegs fi refs (mkXorb P nd).hash) [] consumed := by
  rw [hI.refs, res_patchSegs_eq_map]
  have hseg := fun s (_ : s ∈ fi) => res_patch1_resolve (P := P) hW hx s
  refine ⟨?_, ?_, ?_, ?_⟩
  · rw [res_resolveFile_map _ fi hseg, hI.resolves]
  · intro t ht
    obtain ⟨s, hs, rfl⟩ := List.mem_map.mp ht
    obtain ⟨r, hr, hb⟩ := hI.segs s hs
    refine ⟨r, by rw [hseg s hs, hr], ?_⟩
    rw [← hb]; unfold patch1; split <;> rfl
  · symm
    rw [res_zeroIdx_nil_iff]
    intro t ht
    obtain ⟨s, hs, rfl⟩ := List.mem_map.mp ht
    unfold patch1
    split
    · rename_i hz
      obtain ⟨r, hr, _⟩ := hI.segs s hs
      rw [res_resolveSeg_zero hz] at hr
      obtain ⟨p1, p2, _⟩ := res_rangeOf_some hr
      have : nd ≠ [] := by intro e; subst e; simp at p2; omega
      exact (hx this).2
    · assumption
  · intro h i hi
    simp [res_lookupGet_nil] at hi

/-! ## the invariant on `FD` and the steps of `process_chunks` -/

/-- **the single-file invariant** relative to a store `W` (which in the applications is
    `store ++ fd.cut` or the final store of the session) -/
def InvW (W : List Xorb) (fd : FD) (consumed : List DChunk) : Prop :=
  InvF W fd.newData fd.lookup fd.fileInfo fd.internalRefs consumed ∧ ∀ c ∈ fd.newData, c ∈ consumed

theorem res_continues {fd : FD} {s : Seg} (h : continuesCurrent fd s = true) :
    ∃ init last, fd.fileInfo = init ++ [last] ∧ last.casHash = s.casHash ∧ last.cend = s.cstart := by
  unfold continuesCurrent at h
  split at h
  · rename_i last hl
    obtain ⟨init, hi⟩ := res_getLast_snoc hl
    simp at h
    exact ⟨init, last, hi, h.1, h.2⟩
  · simp at h

theorem res_addEntry_frame (fd : FD) (s : Seg) (n : Nat) :
    (addEntry fd s n).newData = fd.newData ∧ (addEntry fd s n).lookup = fd.lookup ∧
    (addEntry fd s n).cut = fd.cut ∧ (addEntry fd s n).chunkHashes = fd.chunkHashes ∧
    (addEntry fd s n).newXorbs = fd.newXorbs := by
  unfold addEntry; split <;> simp

theorem res_addEntry_inv {W fd consumed} {s : Seg} {n : Nat} {r} (hI : InvW W fd consumed)
    (hr : resolveSeg W fd.newData s = some r) (hb : s.bytes = dataSize r) :
    InvW W (addEntry fd s n) (consumed ++ r) := by
  have hfed : ∀ c ∈ fd.newData, c ∈ consumed ++ r := fun c hc => List.mem_append_left _ (hI.2 c hc)
  unfold addEntry
  split
  · rename_i hc
    obtain ⟨init, last, hfi, h1, h2⟩ := res_continues hc
    refine ⟨?_, hfed⟩
    show InvF W fd.newData fd.lookup (modifyLast fd.fileInfo _) fd.internalRefs _
    have := hI.1
    rw [hfi] at this
    rw [hfi, res_modifyLast_snoc]
    exact res_InvF_merge this h1 h2 hr hb
  · refine ⟨?_, hfed⟩
    exact res_InvF_push hI.1 hr hb

/-- the cut test in front of a new chunk -/
def cutIsDue (L : Limits) (fd : FD) (c : DChunk) : Prop :=
  dataSize fd.newData + c.data.length > L.maxXorbBytes ∨ fd.newData.length + 1 > L.maxXorbChunks

instance (L : Limits) (fd : FD) (c : DChunk) : Decidable (cutIsDue L fd c) := by unfold cutIsDue; infer_instance

/-- the state after the optional cut (metrics aside) -/
def preCut (P : HashPrims) (L : Limits) (fd : FD) (c : DChunk) : FD := if cutIsDue L fd c then cutXorb P fd else fd

/-- `fd` with the metrics of a new chunk counted (first statement of the "add new data" tail) -/
def countNew (fd : FD) (c : DChunk) : FD :=
  { fd with metrics := { fd.metrics with totalChunks := fd.metrics.totalChunks + 1, totalBytes := fd.metrics.totalBytes + c.data.length,
                                         newBytes := fd.metrics.newBytes + c.data.length, newChunks := fd.metrics.newChunks + 1 } }

/-- the tail of `addNewChunk` after the optional cut -/
def finishChunk (fd2 : FD) (c : DChunk) : FD :=
  let nb := c.data.length
  let extend := match fd2.fileInfo.getLast? with
    | some last => last.casHash == Hash.zero && last.cend == fd2.newData.length
    | none => false
  let fd3 :=
    if extend then
      { fd2 with fileInfo := modifyLast fd2.fileInfo (fun l => { l with bytes := l.bytes + nb, cend := l.cend + 1 }),
                 defrag := fd2.defrag.incLast 1 }
    else
      { fd2 with internalRefs := fd2.internalRefs ++ [fd2.fileInfo.length],
                 fileInfo := fd2.fileInfo ++ [zeroSeg nb fd2.newData.length (fd2.newData.length + 1)],
                 defrag := fd2.defrag.addRange 1 }
  { fd3 with lookup := lookupSet fd3.lookup c.hash fd3.newData.length, newData := fd3.newData ++ [c] }

theorem res_addNewChunk_eq (P : HashPrims) (L : Limits) (fd : FD) (c : DChunk) :
    addNewChunk P L fd c = finishChunk (preCut P L (countNew fd c) c) c := rfl

theorem res_finishChunk_fields (fd2 : FD) (c : DChunk) :
    (finishChunk fd2 c).newData = fd2.newData ++ [c] ∧
    (finishChunk fd2 c).lookup = lookupSet fd2.lookup c.hash fd2.newData.length ∧
    (finishChunk fd2 c).cut = fd2.cut ∧
    (finishChunk fd2 c).chunkHashes = fd2.chunkHashes ∧
    (finishChunk fd2 c).newXorbs = fd2.newXorbs ∧
    ((∃ init last, fd2.fileInfo = init ++ [last] ∧ last.casHash = Hash.zero ∧ last.cend = fd2.newData.length ∧
        (finishChunk fd2 c).fileInfo = init ++ [{ last with bytes := last.bytes + c.data.length, cend := last.cend + 1 }] ∧
        (finishChunk fd2 c).internalRefs = fd2.internalRefs) ∨
     ((finishChunk fd2 c).fileInfo = fd2.fileInfo ++ [zeroSeg c.data.length fd2.newData.length (fd2.newData.length + 1)] ∧
      (finishChunk fd2 c).internalRefs = fd2.internalRefs ++ [fd2.fileInfo.length])) := by
  unfold finishChunk
  cases hl : fd2.fileInfo.getLast? with
  | none => simp
  | some last =>
    obtain ⟨init, hi⟩ := res_getLast_snoc hl
    by_cases hext : (last.casHash == Hash.zero && last.cend == fd2.newData.length) = true
    · simp only [hext, if_true]
      have hext' := hext
      simp at hext'
      refine ⟨by simp, by simp, by simp, by simp, by simp, Or.inl ⟨init, last, hi, hext'.1, hext'.2, ?_, by simp⟩⟩
      simp [hi, res_modifyLast_snoc]
    · simp only [hext]
      simp

theorem res_preCut_count (P : HashPrims) (L : Limits) (fd : FD) (c : DChunk) :
    (preCut P L (countNew fd c) c).newData = (preCut P L fd c).newData ∧
    (preCut P L (countNew fd c) c).lookup = (preCut P L fd c).lookup ∧
    (preCut P L (countNew fd c) c).cut = (preCut P L fd c).cut ∧
    (preCut P L (countNew fd c) c).fileInfo = (preCut P L fd c).fileInfo ∧
    (preCut P L (countNew fd c) c).internalRefs = (preCut P L fd c).internalRefs ∧
    (preCut P L (countNew fd c) c).chunkHashes = (preCut P L fd c).chunkHashes ∧
    (preCut P L (countNew fd c) c).newXorbs = (preCut P L fd c).newXorbs := by
  unfold preCut
  by_cases h : cutIsDue L fd c
  · have h' : cutIsDue L (countNew fd c) c := h
    rw [if_pos h, if_pos h']
    exact ⟨rfl, rfl, rfl, rfl, rfl, rfl, rfl⟩
  · have h' : ¬ cutIsDue L (countNew fd c) c := h
    rw [if_neg h, if_neg h']
    exact ⟨rfl, rfl, rfl, rfl, rfl, rfl, rfl⟩

theorem res_cutXorb_fields (P : HashPrims) (fd : FD) :
    (cutXorb P fd).newData = [] ∧ (cutXorb P fd).lookup = [] ∧ (cutXorb P fd).internalRefs = [] ∧
    (cutXorb P fd).fileInfo = patchSegs fd.fileInfo fd.internalRefs (mkXorb P fd.newData).hash ∧
    (cutXorb P fd).cut = fd.cut ++ [mkXorb P fd.newData] ∧ (cutXorb P fd).chunkHashes = fd.chunkHashes ∧
    (cutXorb P fd).newXorbs = fd.newXorbs ++ [(mkXorb P fd.newData).hash] :=
  ⟨rfl, rfl, rfl, rfl, rfl, rfl, rfl⟩

theorem res_preCut_cut (P : HashPrims) (L : Limits) (fd : FD) (c : DChunk) :
    (preCut P L fd c).cut = if cutIsDue L fd c then fd.cut ++ [mkXorb P fd.newData] else fd.cut := by
  unfold preCut; split <;> rfl

theorem res_preCut_inv {P : HashPrims} {L : Limits} {W fd consumed} (c : DChunk) (hW : StoreConsistent W)
    (hZ : NoZeroName W) (hC : CutIn W (preCut P L fd c).cut) (hI : InvW W fd consumed) :
    InvW W (preCut P L fd c) consumed := by
  rw [res_preCut_cut] at hC
  unfold preCut
  split
  · rename_i hd
    simp only [hd, if_true] at hC
    have hx : fd.newData ≠ [] → mkXorb P fd.newData ∈ W ∧ (mkXorb P fd.newData).hash ≠ Hash.zero := by
      intro hne
      have hm : mkXorb P fd.newData ∈ W := hC _ (by simp) hne
      exact ⟨hm, hZ _ hm hne⟩
    exact ⟨res_InvF_cut hW hI.1 hx, by intro c hc; simp [cutXorb] at hc⟩
  · exact hI

theorem res_finishChunk_inv {W fd2 consumed} (c : DChunk) (hI : InvW W fd2 consumed) :
    InvW W (finishChunk fd2 c) (consumed ++ [c]) := by
  obtain ⟨h1, h2, _, _, _, h6⟩ := res_finishChunk_fields fd2 c
  have hD := res_InvF_data c hI.1
  have hr := res_resolve_newChunk W fd2.newData c
  have hb : (zeroSeg c.data.length fd2.newData.length (fd2.newData.length + 1)).bytes = dataSize [c] := by
    simp [zeroSeg, dataSize]
  refine ⟨?_, ?_⟩
  · rw [h1, h2]
    rcases h6 with ⟨init, last, hfi, hz, he, hfi', hrefs⟩ | ⟨hfi', hrefs⟩
    · rw [hfi', hrefs]
      rw [hfi] at hD
      have := res_InvF_merge hD (s := zeroSeg c.data.length fd2.newData.length (fd2.newData.length + 1))
        (by simp [zeroSeg, hz]) (by simp [zeroSeg, he]) hr hb
      simpa [zeroSeg, he] using this
    · rw [hfi', hrefs]
      have := res_InvF_push hD hr hb
      simpa [zeroSeg] using this
  · rw [h1]
    intro c' hc'
    rcases List.mem_append.mp hc' with h | h
    · exact List.mem_append_left _ (hI.2 c' h)
    · exact List.mem_append_right _ h

theorem res_InvW_congr {W fd fd' consumed} (h1 : fd'.newData = fd.newData) (h2 : fd'.lookup = fd.lookup)
    (h3 : fd'.fileInfo = fd.fileInfo) (h4 : fd'.internalRefs = fd.internalRefs) (hI : InvW W fd consumed) :
    InvW W fd' consumed := by
  unfold InvW at hI ⊢
  rw [h1, h2, h3, h4]; exact hI

theorem res_addNewChunk_cut (P : HashPrims) (L : Limits) (fd : FD) (c : DChunk) :
    (addNewChunk P L fd c).cut = (preCut P L fd c).cut := by
  rw [res_addNewChunk_eq, (res_finishChunk_fields _ c).2.2.1, (res_preCut_count P L fd c).2.2.1]

theorem res_addNewChunk_inv {P : HashPrims} {L : Limits} {W fd consumed} (c : DChunk) (hW : StoreConsistent W)
    (hZ : NoZeroName W) (hC : CutIn W (addNewChunk P L fd c).cut) (hI : InvW W fd consumed) :
    InvW W (addNewChunk P L fd c) (consumed ++ [c]) := by
  rw [res_addNewChunk_cut] at hC
  have h1 := res_preCut_inv c hW hZ hC hI
  obtain ⟨e1, e2, _, e4, e5, _⟩ := res_preCut_count P L fd c
  have h2 : InvW W (preCut P L (countNew fd c) c) consumed := res_InvW_congr e1 e2 e4 e5 h1
  rw [res_addNewChunk_eq]
  exact res_finishChunk_inv c h2

/-! ## the second loop of `process_chunks`: a generic induction principle -/

/-- all fields except `metrics` and `defrag` agree -/
def FDEq (a b : FD) : Prop :=
  a.newData = b.newData ∧ a.lookup = b.lookup ∧ a.fileInfo = b.fileInfo ∧ a.internalRefs = b.internalRefs ∧
  a.cut = b.cut ∧ a.chunkHashes = b.chunkHashes ∧ a.newXorbs = b.newXorbs

/-- the query the second loop evaluates at the head of the remaining chunks: the stored answer of the
    first loop, else the query against the local data -/
def loopQuery (fd : FD) (rem : List DChunk) (answers : Answers) : Option (Nat × Seg) :=
  match (answers.head?).join with
  | some a => some a
  | none => localQuery fd (rem.map (·.hash))

/-- metrics of an accepted run -/
def cntDedup (fd : FD) (n : Nat) (s : Seg) : FD :=
  { fd with metrics := { fd.metrics with dedupedChunks := fd.metrics.dedupedChunks + n, dedupedBytes := fd.metrics.dedupedBytes + s.bytes,
                                         totalChunks := fd.metrics.totalChunks + n, totalBytes := fd.metrics.totalBytes + s.bytes } }

/-- metrics of a rejected run -/
def cntPrevented (fd : FD) (c : DChunk) : FD :=
  { fd with metrics := { fd.metrics with preventedChunks := fd.metrics.preventedChunks + 1,
                                         preventedBytes := fd.metrics.preventedBytes + c.data.length } }

def setDefrag (fd : FD) (d : Defrag) : FD := { fd with defrag := d }

/-- one unfolding of `processLoop` -/
theorem res_processLoop_succ (P : HashPrims) (L : Limits) (allow : Defrag → Nat → Decision) (fuel : Nat) (fd : FD)
    (c : DChunk) (rest : List DChunk) (answers : Answers) :
    processLoop P L allow (fuel + 1) fd (c :: rest) answers =
      match loopQuery fd (c :: rest) answers with
      | some (n, s) =>
        if continuesCurrent fd s then
          processLoop P L allow fuel (addEntry (cntDedup fd n s) s n) ((c :: rest).drop n) (answers.drop n)
        else if (allow fd.defrag n).allow then
          processLoop P L allow fuel (addEntry (cntDedup (setDefrag fd (allow fd.defrag n).st) n s) s n)
            ((c :: rest).drop n) (answers.drop n)
        else
          processLoop P L allow fuel (addNewChunk P L (cntPrevented (setDefrag fd (allow fd.defrag n).st) c) c) rest
            (answers.drop 1)
      | none => processLoop P L allow fuel (addNewChunk P L fd c) rest (answers.drop 1) := rfl

theorem res_FDEq_refl (fd : FD) : FDEq fd fd := ⟨rfl, rfl, rfl, rfl, rfl, rfl, rfl⟩

/-- Induction principle for `processLoop`, for every defrag decision procedure `allow`: a predicate on
    (state, remaining chunks, remaining answers) that is kept by the two kinds of step — an accepted run
    (`addEntry`, consuming `n ≥ 1` chunks) and a chunk added as new data (`addNewChunk`) — holds at the
    end with no chunks remaining.  The steps are taken from states that differ from the tracked one in
    metrics and defrag state only (`FDEq`). -/
theorem res_loop_ind {P : HashPrims} {L : Limits} {allow : Defrag → Nat → Decision}
    (Q : FD → List DChunk → Answers → Prop)
    (hE : ∀ fd fd1 c rest answers n s, Q fd (c :: rest) answers → FDEq fd1 fd →
      loopQuery fd (c :: rest) answers = some (n, s) →
      1 ≤ n ∧ Q (addEntry fd1 s n) ((c :: rest).drop n) (answers.drop n))
    (hN : ∀ fd fd1 c rest answers, Q fd (c :: rest) answers → FDEq fd1 fd →
      Q (addNewChunk P L fd1 c) rest (answers.drop 1)) :
    ∀ fuel fd rem answers, rem.length ≤ fuel → Q fd rem answers →
      ∃ answers', Q (processLoop P L allow fuel fd rem answers) [] answers' := by
  intro fuel
  induction fuel with
  | zero =>
    intro fd rem answers hl hQ
    have : rem = [] := List.length_eq_zero_iff.mp (by omega)
    subst this
    exact ⟨answers, by simpa [processLoop] using hQ⟩
  | succ fuel ih =>
    intro fd rem answers hl hQ
    cases rem with
    | nil => exact ⟨answers, by simpa [processLoop] using hQ⟩
    | cons c rest =>
      have hlen : ∀ n, 1 ≤ n → ((c :: rest).drop n).length ≤ fuel := by
        intro n hn; simp at hl ⊢; omega
      have hl' : rest.length ≤ fuel := by simpa using hl
      rw [res_processLoop_succ]
      cases hq : loopQuery fd (c :: rest) answers with
      | none => exact ih _ _ _ hl' (hN fd fd c rest answers hQ (res_FDEq_refl fd))
      | some a =>
        obtain ⟨n, s⟩ := a
        simp only []
        split
        · obtain ⟨hn, hQ'⟩ := hE fd (cntDedup fd n s) c rest answers n s hQ ⟨rfl, rfl, rfl, rfl, rfl, rfl, rfl⟩ hq
          exact ih _ _ _ (hlen n hn) hQ'
        · split
          · obtain ⟨hn, hQ'⟩ := hE fd (cntDedup (setDefrag fd (allow fd.defrag n).st) n s) c rest answers n s hQ
              ⟨rfl, rfl, rfl, rfl, rfl, rfl, rfl⟩ hq
            exact ih _ _ _ (hlen n hn) hQ'
          · exact ih _ _ _ hl' (hN fd _ c rest answers hQ ⟨rfl, rfl, rfl, rfl, rfl, rfl, rfl⟩)

/-! ## the query against the local data -/

theorem res_slice_cons {α} {l : List α} {a b : Nat} {c : α} (h : l[a]? = some c) (hab : a < b) :
    slice l a b = c :: slice l (a + 1) b := by
  unfold slice
  have hlt : a < l.length := by
    rcases Nat.lt_or_ge a l.length with h1 | h1
    · exact h1
    · rw [List.getElem?_eq_none h1] at h; simp at h
  have hc : l[a] = c := by
    rw [List.getElem?_eq_getElem hlt] at h; simpa using h
  rw [List.drop_eq_getElem_cons hlt, hc]
  have : b - a = (b - (a + 1)) + 1 := by omega
  rw [this, List.take_succ_cons]

theorem res_slice_empty {α} (l : List α) (a : Nat) : slice l a a = [] := by simp [slice]

/-- the run found by `dedup_query_against_local_data` is a slice of `new_data` whose hashes are a
    prefix of the query, with the byte count of exactly that slice -/
theorem res_localRunEnd_spec (fd : FD) (hL : LookupSound fd.lookup fd.newData) (base : Nat) (hs : List Hash) :
    ∀ endIdx nb, endIdx ≤ fd.newData.length →
      endIdx ≤ (localRunEnd fd base endIdx nb hs).1 ∧
      (localRunEnd fd base endIdx nb hs).1 ≤ fd.newData.length ∧
      (localRunEnd fd base endIdx nb hs).1 - endIdx ≤ hs.length ∧
      (slice fd.newData endIdx (localRunEnd fd base endIdx nb hs).1).map (·.hash) =
        hs.take ((localRunEnd fd base endIdx nb hs).1 - endIdx) ∧
      (localRunEnd fd base endIdx nb hs).2 = nb + dataSize (slice fd.newData endIdx (localRunEnd fd base endIdx nb hs).1) := by
  induction hs with
  | nil => intro endIdx nb hle; simp [localRunEnd, res_slice_empty, dataSize, hle]
  | cons h rest ih =>
    intro endIdx nb hle
    unfold localRunEnd
    cases hg : lookupGet fd.lookup h with
    | none => simp [res_slice_empty, dataSize, hle]
    | some idx =>
      simp only []
      split
      · rename_i he
        subst he
        obtain ⟨c, hc, hh⟩ := hL h idx hg
        have hlt : idx < fd.newData.length := by
          rcases Nat.lt_or_ge idx fd.newData.length with h1 | h1
          · exact h1
          · rw [List.getElem?_eq_none h1] at hc; simp at hc
        have hnb : ((fd.newData[idx]?).map (·.data.length)).getD 0 = c.data.length := by simp [hc]
        rw [hnb]
        obtain ⟨i1, i2, i3, i4, i5⟩ := ih (idx + 1) (nb + c.data.length) hlt
        refine ⟨by omega, i2, by simp; omega, ?_, ?_⟩
        · rw [res_slice_cons hc (by omega)]
          have : (localRunEnd fd base (idx + 1) (nb + c.data.length) rest).1 - idx =
              ((localRunEnd fd base (idx + 1) (nb + c.data.length) rest).1 - (idx + 1)) + 1 := by omega
          rw [this, List.take_succ_cons, List.map_cons, i4, hh]
        · rw [i5, res_slice_cons hc (by omega)]
          simp [dataSize]; omega
      · simp [res_slice_empty, dataSize, hle]

theorem res_localQuery_spec {fd : FD} (hL : LookupSound fd.lookup fd.newData) {q : List Hash} {n : Nat} {s : Seg}
    (h : localQuery fd q = some (n, s)) :
    s.casHash = Hash.zero ∧ 1 ≤ n ∧ n ≤ q.length ∧ s.cend = s.cstart + n ∧ s.cend ≤ fd.newData.length ∧
    (slice fd.newData s.cstart s.cend).map (·.hash) = q.take n ∧
    s.bytes = dataSize (slice fd.newData s.cstart s.cend) := by
  unfold localQuery at h
  cases q with
  | nil => simp at h
  | cons q0 rest =>
    simp only [] at h
    cases hg : lookupGet fd.lookup q0 with
    | none => simp [hg] at h
    | some base =>
      simp only [hg] at h
      obtain ⟨c, hc, hh⟩ := hL q0 base hg
      have hlt : base < fd.newData.length := by
        rcases Nat.lt_or_ge base fd.newData.length with h1 | h1
        · exact h1
        · rw [List.getElem?_eq_none h1] at hc; simp at hc
      have hnb : ((fd.newData[base]?).map (·.data.length)).getD 0 = c.data.length := by simp [hc]
      rw [hnb] at h
      obtain ⟨i1, i2, i3, i4, i5⟩ := res_localRunEnd_spec fd hL base rest (base + 1) c.data.length hlt
      simp only [Option.some.injEq, Prod.mk.injEq] at h
      obtain ⟨hn, hs⟩ := h
      subst hn hs
      simp only [zeroSeg]
      refine ⟨trivial, by omega, by simp; omega, by omega, i2, ?_, ?_⟩
      · rw [res_slice_cons hc (by omega)]
        have : (localRunEnd fd base (base + 1) c.data.length rest).1 - base =
            ((localRunEnd fd base (base + 1) c.data.length rest).1 - (base + 1)) + 1 := by omega
        rw [this, List.take_succ_cons, List.map_cons, i4, hh]
      · rw [i5, res_slice_cons hc (by omega)]
        simp [dataSize]

/-! ## hash-determines-data on the finite set of chunks of one file (C05/C06 extraction form) -/

/-- on the list `l`, equal chunk hashes imply equal chunk data -/
def HashInj (l : List DChunk) : Prop := ∀ c ∈ l, ∀ c' ∈ l, c.hash = c'.hash → c.data = c'.data

instance (l : List DChunk) : Decidable (HashInj l) := by unfold HashInj; infer_instance

theorem res_eq_of_hash_eq {l : List DChunk} (hH : HashInj l) :
    ∀ (a b : List DChunk), (∀ c ∈ a, c ∈ l) → (∀ c ∈ b, c ∈ l) → a.map (·.hash) = b.map (·.hash) → a = b := by
  intro a
  induction a with
  | nil => intro b _ _ h; cases b <;> simp_all
  | cons x xs ih =>
    intro b ha hb h
    cases b with
    | nil => simp at h
    | cons y ys =>
      simp only [List.map_cons, List.cons.injEq] at h
      have hx := ha x (by simp)
      have hy := hb y (by simp)
      have hd := hH x hx y hy h.1
      have : x = y := by cases x; cases y; simp_all
      rw [this, ih ys (fun c hc => ha c (by simp [hc])) (fun c hc => hb c (by simp [hc])) h.2]

theorem res_HashInj_sub {l l' : List DChunk} (h : HashInj l) (hs : ∀ c ∈ l', c ∈ l) : HashInj l' :=
  fun c hc c' hc' e => h c (hs c hc) c' (hs c' hc') e

theorem res_slice_subset {α} (l : List α) (a b : Nat) : ∀ c ∈ slice l a b, c ∈ l := by
  intro c hc
  unfold slice at hc
  exact List.mem_of_mem_drop (List.mem_of_mem_take hc)

/-- the same principle without the progress obligation: the predicate holds of the result for whatever
    remains (used for frame properties that do not depend on legality of the answers) -/
theorem res_loop_ind_any {P : HashPrims} {L : Limits} {allow : Defrag → Nat → Decision}
    (Q : FD → List DChunk → Prop)
    (hE : ∀ fd fd1 c rest n s, Q fd (c :: rest) → FDEq fd1 fd → Q (addEntry fd1 s n) ((c :: rest).drop n))
    (hN : ∀ fd fd1 c rest, Q fd (c :: rest) → FDEq fd1 fd → Q (addNewChunk P L fd1 c) rest) :
    ∀ fuel fd rem answers, Q fd rem → ∃ rem', Q (processLoop P L allow fuel fd rem answers) rem' := by
  intro fuel
  induction fuel with
  | zero => intro fd rem answers hQ; exact ⟨rem, by simpa [processLoop] using hQ⟩
  | succ fuel ih =>
    intro fd rem answers hQ
    cases rem with
    | nil => exact ⟨[], by simpa [processLoop] using hQ⟩
    | cons c rest =>
      rw [res_processLoop_succ]
      cases hq : loopQuery fd (c :: rest) answers with
      | none => exact ih _ _ _ (hN fd fd c rest hQ (res_FDEq_refl fd))
      | some a =>
        obtain ⟨n, s⟩ := a
        simp only []
        split
        · exact ih _ _ _ (hE fd (cntDedup fd n s) c rest n s hQ ⟨rfl, rfl, rfl, rfl, rfl, rfl, rfl⟩)
        · split
          · exact ih _ _ _ (hE fd (cntDedup (setDefrag fd (allow fd.defrag n).st) n s) c rest n s hQ
              ⟨rfl, rfl, rfl, rfl, rfl, rfl, rfl⟩)
          · exact ih _ _ _ (hN fd _ c rest hQ ⟨rfl, rfl, rfl, rfl, rfl, rfl, rfl⟩)

/-! ## data-truthful oracle answers -/

/-- **Data truthfulness** of the answer `a = (n, seg)` stored at slot `i` of a call with chunks `cs`,
    w.r.t. the store: the run is non-empty and inside the call, the segment names a store xorb, and the
    referenced chunk records are exactly the chunks `cs[i : i+n)` (hashes *and* data), with the recorded
    byte count.  (Follows from hash truthfulness, C05, unless two chunk contents share a data hash:
    `truthful_hash_to_data`.) -/
def DataTruthful (store : List Xorb) (cs : List DChunk) (i : Nat) (a : Nat × Seg) : Prop :=
  1 ≤ a.1 ∧ i + a.1 ≤ cs.length ∧ a.2.casHash ≠ Hash.zero ∧
  resolveSeg store [] a.2 = some ((cs.drop i).take a.1) ∧ a.2.bytes = dataSize ((cs.drop i).take a.1)

instance (store : List Xorb) (cs : List DChunk) (i : Nat) (a : Nat × Seg) : Decidable (DataTruthful store cs i a) := by
  unfold DataTruthful; infer_instance

/-- slot `i` of the answers is empty or data-truthful -/
def SlotOK (store : List Xorb) (cs : List DChunk) (answers : Answers) (i : Nat) : Prop :=
  match answers[i]? with
  | some (some a) => DataTruthful store cs i a
  | _ => True

instance (store : List Xorb) (cs : List DChunk) (answers : Answers) (i : Nat) : Decidable (SlotOK store cs answers i) := by
  unfold SlotOK; split <;> infer_instance

/-- every stored answer of a call is data-truthful (decidable) -/
def LegalAnswers (store : List Xorb) (cs : List DChunk) (answers : Answers) : Prop :=
  ∀ i, i < answers.length → SlotOK store cs answers i

instance (store : List Xorb) (cs : List DChunk) (answers : Answers) : Decidable (LegalAnswers store cs answers) := by
  unfold LegalAnswers; infer_instance

theorem res_legal_at {store cs answers} (h : LegalAnswers store cs answers) {i : Nat} {a}
    (ha : answers[i]? = some (some a)) : DataTruthful store cs i a := by
  have hlt : i < answers.length := by
    rcases Nat.lt_or_ge i answers.length with h1 | h1
    · exact h1
    · rw [List.getElem?_eq_none h1] at ha; simp at ha
  have := h i hlt
  unfold SlotOK at this
  rw [ha] at this
  exact this

theorem res_legal_drop {store cs answers} (h : LegalAnswers store cs answers) (k : Nat) :
    LegalAnswers store (cs.drop k) (answers.drop k) := by
  intro i hi
  unfold SlotOK
  split
  · rename_i a ha
    rw [List.getElem?_drop] at ha
    obtain ⟨h1, h2, h3, h4, h5⟩ := res_legal_at h ha
    refine ⟨h1, by simp; omega, h3, ?_, ?_⟩
    · rw [List.drop_drop]; exact h4
    · rw [List.drop_drop]; exact h5
  · trivial

theorem res_legal_mono {st W : List Xorb} (hW : StoreConsistent W) (hsub : ∀ x ∈ st, x ∈ W) {cs answers}
    (h : LegalAnswers st cs answers) : LegalAnswers W cs answers := by
  intro i hi
  have := h i hi
  unfold SlotOK at this ⊢
  split
  · rename_i a ha
    rw [ha] at this
    obtain ⟨h1, h2, h3, h4, h5⟩ := this
    exact ⟨h1, h2, h3, res_resolveSeg_mono hW hsub h4, h5⟩
  · trivial

end Xet.Dedup
