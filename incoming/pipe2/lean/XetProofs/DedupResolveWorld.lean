/-
Histories of one upload session over the model `XetModel/Dedup.lean`: several files being cleaned with
arbitrarily interleaved `process_chunks` calls, completions in any order, then `finalize`; and the
session-wide invariant (DESIGN.md Appendix A.2, last two bullets).
-/
import XetProofs.DedupResolveSess

set_option linter.unusedSimpArgs false

namespace Xet.Dedup

open Xet.Shard (Seg FileInfo CasInfo Chunk)

/-! ## the history model -/

/-- events of a session.  A file is identified by a number and comes into being with its first event
    (`SingleFileCleaner::new` has no effect on the modelled state). -/
inductive Ev where
  /-- one `process_chunks` call of file `id` with its oracle inputs; the xorbs it cuts are handed to
      `UploadSessionDataManager::register_new_xorb` -/
  | call (id : Nat) (k : Call)
  /-- `SingleFileCleaner::finish` of file `id`: `FileDeduper::finalize(salt, sha)` then
      `register_single_file_clean_completion` -/
  | done (id : Nat) (salt : Bytes) (sha : Hash)

/-- a file being cleaned: its deduper and (ghost) the chunks fed so far -/
structure OpenFile where
  id : Nat
  fd : FD
  fed : List DChunk

structure World where
  sess : Sess
  files : List OpenFile
  done : List Done          -- ghost log of finished files, in completion order

def World.init : World := ⟨Sess.init, [], []⟩

def World.get (w : World) (id : Nat) : OpenFile :=
  (w.files.find? fun f => f.id == id).getD ⟨id, FD.init, []⟩

def World.others (w : World) (id : Nat) : List OpenFile := w.files.filter fun f => f.id != id

/-- mid-file xorbs of one call are registered in the order they were cut -/
def registerAll (s : Sess) (xs : List Xorb) : Sess := xs.foldl Sess.registerXorb s

def step (P : HashPrims) (L : Limits) (allow : Defrag → Nat → Decision) (w : World) : Ev → World
  | .call id k =>
    let f := w.get id
    let fd' := processChunks P L allow f.fd k.chunks k.answers k.gc k.gb
    { w with sess := registerAll w.sess (fd'.cut.drop f.fd.cut.length),
             files := ⟨id, fd', f.fed ++ k.chunks⟩ :: w.others id }
  | .done id salt sha =>
    let f := w.get id
    let fin := finalize P f.fd salt sha
    { sess := w.sess.fileDone P L fin.agg fin.metrics, files := w.others id,
      done := w.done ++ [⟨id, f.fed, salt, sha⟩] }

def run (P : HashPrims) (L : Limits) (allow : Defrag → Nat → Decision) : World → List Ev → World
  | w, [] => w
  | w, e :: es => run P L allow (step P L allow w e) es

/-- the session after the history and the final `finalize` -/
def finished (P : HashPrims) (L : Limits) (allow : Defrag → Nat → Decision) (w : World) (evs : List Ev) : World :=
  { run P L allow w evs with sess := (run P L allow w evs).sess.finish P }

/-- legality of one event in a world whose persistent store is `store`: the stored answers of a call are
    data-truthful w.r.t. what is known at that moment (the persistent store and the xorbs this session
    has handed over so far), chunk hashes determine chunk data on the chunks of this file, and every
    chunk has at least one byte (C04). -/
def LegalEv (store : List Xorb) (w : World) : Ev → Prop
  | .call id k => LegalAnswers (store ++ w.sess.puts) k.chunks k.answers ∧
      HashInj ((w.get id).fed ++ k.chunks) ∧ ChunksNE k.chunks
  | .done _ _ _ => True

def LegalHistory (P : HashPrims) (L : Limits) (allow : Defrag → Nat → Decision) (store : List Xorb) : World → List Ev → Prop
  | _, [] => True
  | w, e :: es => LegalEv store w e ∧ LegalHistory P L allow store (step P L allow w e) es

instance (store : List Xorb) (w : World) (e : Ev) : Decidable (LegalEv store w e) := by
  cases e <;> (simp only [LegalEv]; infer_instance)

def decLegalHistory (P : HashPrims) (L : Limits) (allow : Defrag → Nat → Decision) (store : List Xorb) :
    (w : World) → (evs : List Ev) → Decidable (LegalHistory P L allow store w evs)
  | _, [] => isTrue trivial
  | w, e :: es =>
    have := decLegalHistory P L allow store (step P L allow w e) es
    by simp only [LegalHistory]; infer_instance

instance (P : HashPrims) (L : Limits) (allow : Defrag → Nat → Decision) (store : List Xorb) (w : World) (evs : List Ev) :
    Decidable (LegalHistory P L allow store w evs) := decLegalHistory P L allow store w evs

/-! ## `registerAll` -/

theorem res_registerAll_fields (s : Sess) (xs : List Xorb) :
    (registerAll s xs).cur = s.cur ∧ (registerAll s xs).files = s.files ∧
    (registerAll s xs).puts = s.puts ++ xs.filter (fun x => dataSize x.chunks != 0) ∧
    (registerAll s xs).casRegistered = s.casRegistered ++ xs.map (·.casInfo) := by
  induction xs generalizing s with
  | nil => simp [registerAll]
  | cons x rest ih =>
    have := ih (s.registerXorb x)
    simp only [registerAll, List.foldl_cons] at this ⊢
    obtain ⟨h1, h2, h3, h4⟩ := this
    refine ⟨by rw [h1]; rfl, by rw [h2]; rfl, ?_, ?_⟩
    · rw [h3]
      simp only [Sess.registerXorb, List.filter_cons]
      by_cases hz : dataSize x.chunks = 0 <;> simp [hz]
    · rw [h4]
      simp [Sess.registerXorb]

/-! ## the session-wide invariant -/

/-- invariant of one file being cleaned, relative to the final store `W` -/
structure OpenOK (P : HashPrims) (W : List Xorb) (f : OpenFile) : Prop where
  inv : InvW W f.fd f.fed
  hashes : f.fd.chunkHashes = chunkLens f.fed
  cutIn : CutIn W f.fd.cut
  ne : FromQ (fun c => c.data ≠ []) f.fd
  named : CutNamed P f.fd.cut

structure WorldOK (P : HashPrims) (W : List Xorb) (w : World) : Prop where
  files : ∀ f ∈ w.files, OpenOK P W f
  sess : SessOK P W w.done w.sess

theorem res_OpenOK_init (P : HashPrims) (W : List Xorb) (id : Nat) : OpenOK P W ⟨id, FD.init, []⟩ := by
  have := res_ResolveInv_init W
  refine ⟨?_, rfl, ?_, ⟨?_, ?_⟩, ?_⟩
  · have h := this.1
    simpa [FD.init] using h
  · intro x hx; simp [FD.init] at hx
  · intro c hc; simp [FD.init] at hc
  · intro x hx; simp [FD.init] at hx
  · intro x hx; simp [FD.init] at hx

theorem res_get_ok {P : HashPrims} {W : List Xorb} {w : World} (h : ∀ f ∈ w.files, OpenOK P W f) (id : Nat) :
    OpenOK P W (w.get id) := by
  unfold World.get
  cases hf : w.files.find? (fun f => f.id == id) with
  | none => exact res_OpenOK_init P W id
  | some f => exact h f (List.mem_of_find?_eq_some hf)

theorem res_others_ok {P : HashPrims} {W : List Xorb} {w : World} (h : ∀ f ∈ w.files, OpenOK P W f) (id : Nat) :
    ∀ f ∈ w.others id, OpenOK P W f := by
  intro f hf
  exact h f (List.mem_filter.mp hf).1

theorem res_WorldOK_init (P : HashPrims) (W : List Xorb) : WorldOK P W World.init := by
  refine ⟨by intro f hf; simp [World.init] at hf, res_AggOK_empty P W [], ?_, ?_⟩
  · intro fi hfi; simp [World.init, Sess.init] at hfi
  · intro g hg; simp [World.init] at hg

theorem res_step_puts_sub (P : HashPrims) (L : Limits) (allow : Defrag → Nat → Decision) (w : World) (e : Ev) :
    ∀ x ∈ w.sess.puts, x ∈ (step P L allow w e).sess.puts := by
  intro x hx
  cases e with
  | call id k =>
    simp only [step]
    rw [(res_registerAll_fields _ _).2.2.1]
    exact List.mem_append_left _ hx
  | done id salt sha =>
    simp only [step]
    exact res_fileDone_puts_sub P L _ _ _ x hx

/-- **one event keeps the session-wide invariant**, provided what the session has handed over after the
    event is in the consistent store `W` -/
theorem res_step_ok {P : HashPrims} {L : Limits} {allow : Defrag → Nat → Decision} {store W : List Xorb}
    (hW : StoreConsistent W) (hZ : NoZeroName W) (hstore : ∀ x ∈ store, x ∈ W) {w : World} {e : Ev}
    (hw : WorldOK P W w) (hl : LegalEv store w e)
    (hput : ∀ x ∈ (step P L allow w e).sess.puts, x ∈ W) :
    WorldOK P W (step P L allow w e) := by
  cases e with
  | call id k =>
    obtain ⟨hA, hH, hNE⟩ := hl
    have hf := res_get_ok hw.files id
    simp only [step] at hput ⊢
    obtain ⟨ext, hext⟩ := res_processChunks_cut_prefix P L allow (w.get id).fd k.chunks k.answers k.gc k.gb
    have hdrop : (processChunks P L allow (w.get id).fd k.chunks k.answers k.gc k.gb).cut.drop (w.get id).fd.cut.length = ext := by
      rw [hext]; simp
    rw [hdrop] at hput ⊢
    obtain ⟨r1, r2, r3, _⟩ := res_registerAll_fields w.sess ext
    have hne' := res_processChunks_from (fun c => c.data ≠ []) P L allow (w.get id).fd k.chunks k.answers k.gc k.gb hNE hf.ne
    have hcut : CutIn W (processChunks P L allow (w.get id).fd k.chunks k.answers k.gc k.gb).cut := by
      intro x hx hxne
      rw [hext] at hx
      rcases List.mem_append.mp hx with h | h
      · exact hf.cutIn x h hxne
      · apply hput
        rw [r3]
        apply List.mem_append_right
        refine List.mem_filter.mpr ⟨h, ?_⟩
        have : dataSize x.chunks ≠ 0 := res_dataSize_pos (hne'.2 x (by rw [hext]; exact List.mem_append_right _ h)) hxne
        simpa using this
    have hsubW : ∀ x ∈ store ++ w.sess.puts, x ∈ W := by
      intro x hx
      rcases List.mem_append.mp hx with h | h
      · exact hstore x h
      · exact hput x (by rw [r3]; exact List.mem_append_left _ h)
    refine ⟨?_, ?_⟩
    · intro f hfm
      rcases List.mem_cons.mp hfm with rfl | h
      · exact ⟨res_processChunks_invW hW hZ hH (res_legal_mono hW hsubW hA) hf.inv hcut,
          by rw [res_processChunks_chunkHashes, hf.hashes, res_chunkLens_append], hcut, hne',
          res_processChunks_named P L allow _ _ _ _ _ hf.named⟩
      · exact res_others_ok hw.files id f h
    · exact ⟨by rw [r1]; exact hw.sess.cur, by rw [r2]; exact hw.sess.files, by rw [r1, r2]; exact hw.sess.covered⟩
  | done id salt sha =>
    have hf := res_get_ok hw.files id
    simp only [step] at hput ⊢
    obtain ⟨hc, p, hp, hok⟩ := res_finalize_pend (P := P) id salt sha hf.inv hf.hashes
    have hagg : AggResOK P W (w.done ++ [⟨id, (w.get id).fed, salt, sha⟩]) (finalize P (w.get id).fd salt sha).agg := by
      refine ⟨by rw [hc]; exact hf.ne.1, ?_⟩
      intro p' hp'
      rw [hp] at hp'
      simp only [List.mem_singleton] at hp'
      subst hp'
      exact ⟨_, List.mem_append_right _ (List.mem_singleton.mpr rfl), by rw [hc]; exact hok⟩
    have hcov : Covered P W (finalize P (w.get id).fd salt sha).agg [] ⟨id, (w.get id).fed, salt, sha⟩ :=
      Or.inr ⟨p, by rw [hp]; simp, by rw [hc]; exact hok⟩
    exact ⟨res_others_ok hw.files id, res_fileDone_ok hW hZ hw.sess hagg hcov hput⟩

theorem res_run_puts_sub (P : HashPrims) (L : Limits) (allow : Defrag → Nat → Decision) (evs : List Ev) (w : World) :
    ∀ x ∈ w.sess.puts, x ∈ (run P L allow w evs).sess.puts := by
  induction evs generalizing w with
  | nil => intro x hx; exact hx
  | cons e es ih =>
    intro x hx
    exact ih _ x (res_step_puts_sub P L allow w e x hx)

theorem res_finish_puts_sub (P : HashPrims) (s : Sess) : ∀ x ∈ s.puts, x ∈ (s.finish P).puts := by
  intro x hx
  unfold Sess.finish
  rw [(res_processAgg_fields P _ _).2.2.1]
  split
  · exact hx
  · exact List.mem_append_left _ hx

/-- **every history keeps the session-wide invariant** w.r.t. the final store -/
theorem res_run_ok {P : HashPrims} {L : Limits} {allow : Defrag → Nat → Decision} {store W : List Xorb}
    (hW : StoreConsistent W) (hZ : NoZeroName W) (hstore : ∀ x ∈ store, x ∈ W) (evs : List Ev) {w : World}
    (hw : WorldOK P W w) (hl : LegalHistory P L allow store w evs)
    (hput : ∀ x ∈ (run P L allow w evs).sess.puts, x ∈ W) :
    WorldOK P W (run P L allow w evs) := by
  induction evs generalizing w with
  | nil => exact hw
  | cons e es ih =>
    simp only [run] at hput ⊢
    have h1 := res_step_ok (P := P) (L := L) (allow := allow) hW hZ hstore hw hl.1
      (fun x hx => hput x (res_run_puts_sub P L allow es _ x hx))
    exact ih h1 hl.2 hput

/-- **after `finalize`**: every finished file has a record among `Sess.files` that resolves, in the final
    store, to exactly that file's chunks; every emitted record belongs to a finished file; nothing is
    pending. -/
theorem res_finished_ok {P : HashPrims} {L : Limits} {allow : Defrag → Nat → Decision} {store W : List Xorb}
    (hW : StoreConsistent W) (hZ : NoZeroName W) (hstore : ∀ x ∈ store, x ∈ W) (evs : List Ev)
    (hl : LegalHistory P L allow store World.init evs)
    (hput : ∀ x ∈ (finished P L allow World.init evs).sess.puts, x ∈ W) :
    (∀ g ∈ (finished P L allow World.init evs).done, ∃ fi ∈ (finished P L allow World.init evs).sess.files, RecOK P W fi g) ∧
    (∀ fi ∈ (finished P L allow World.init evs).sess.files, ∃ g ∈ (finished P L allow World.init evs).done, RecOK P W fi g) := by
  have hput' : ∀ x ∈ (run P L allow World.init evs).sess.puts, x ∈ W :=
    fun x hx => hput x (res_finish_puts_sub P _ x hx)
  have hrun := res_run_ok (P := P) (L := L) (allow := allow) hW hZ hstore evs (res_WorldOK_init P W) hl hput'
  obtain ⟨hfin, hempty⟩ := res_finish_ok hW hZ hrun.sess hput
  refine ⟨?_, hfin.files⟩
  intro g hg
  rcases hfin.covered g hg with h | ⟨p, hp, _⟩
  · exact h
  · have : (finished P L allow World.init evs).sess.cur = Agg.empty := hempty
    change p ∈ (finished P L allow World.init evs).sess.cur.pending at hp
    rw [this] at hp
    simp [Agg.empty] at hp

/-! ## hypothesis-free invariants of every history: recorded CAS info (C11), xorb names (C02) -/

/-- every xorb handed to `put` has its CAS info registered in the session shard -/
def SessRecorded (s : Sess) : Prop := ∀ x ∈ s.puts, x.casInfo ∈ s.casRegistered

/-- puts / casRegistered of `fileDone` are those of the old session, possibly extended by one
    `processAgg` of some aggregate -/
theorem res_fileDone_puts (P : HashPrims) (L : Limits) (s : Sess) (a : Agg) (m : Metrics) :
    ((s.fileDone P L a m).puts = s.puts ∧ (s.fileDone P L a m).casRegistered = s.casRegistered) ∨
    ∃ b : Agg, (s.fileDone P L a m).puts = (if dataSize b.chunks = 0 then s.puts else s.puts ++ [mkXorb P b.chunks]) ∧
      (s.fileDone P L a m).casRegistered =
        (if dataSize b.chunks = 0 then s.casRegistered else s.casRegistered ++ [(mkXorb P b.chunks).casInfo]) := by
  unfold Sess.fileDone
  simp only []
  split
  · split
    · exact Or.inr ⟨s.cur, (res_processAgg_fields P _ _).2.2.1, (res_processAgg_fields P _ _).2.2.2⟩
    · exact Or.inr ⟨a, (res_processAgg_fields P _ _).2.2.1, (res_processAgg_fields P _ _).2.2.2⟩
  · exact Or.inl ⟨rfl, rfl⟩

theorem res_recorded_ext {s s' : Sess} (h : SessRecorded s) (b : List DChunk) (P : HashPrims)
    (h1 : s'.puts = (if dataSize b = 0 then s.puts else s.puts ++ [mkXorb P b]))
    (h2 : s'.casRegistered = (if dataSize b = 0 then s.casRegistered else s.casRegistered ++ [(mkXorb P b).casInfo])) :
    SessRecorded s' := by
  intro x hx
  rw [h1] at hx
  rw [h2]
  split at hx
  · rename_i hz; rw [if_pos hz]; exact h x hx
  · rename_i hz
    rw [if_neg hz]
    rcases List.mem_append.mp hx with h' | h'
    · exact List.mem_append_left _ (h x h')
    · simp at h'; subst h'; simp

theorem res_recorded_step (P : HashPrims) (L : Limits) (allow : Defrag → Nat → Decision) (w : World) (e : Ev)
    (h : SessRecorded w.sess) : SessRecorded (step P L allow w e).sess := by
  cases e with
  | call id k =>
    simp only [step]
    obtain ⟨_, _, r3, r4⟩ := res_registerAll_fields w.sess
      ((processChunks P L allow (w.get id).fd k.chunks k.answers k.gc k.gb).cut.drop (w.get id).fd.cut.length)
    intro x hx
    rw [r3] at hx
    rw [r4]
    rcases List.mem_append.mp hx with h' | h'
    · exact List.mem_append_left _ (h x h')
    · exact List.mem_append_right _ (List.mem_map.mpr ⟨x, (List.mem_filter.mp h').1, rfl⟩)
  | done id salt sha =>
    simp only [step]
    rcases res_fileDone_puts P L w.sess (finalize P (w.get id).fd salt sha).agg (finalize P (w.get id).fd salt sha).metrics with
      ⟨h1, h2⟩ | ⟨b, h1, h2⟩
    · intro x hx; rw [h1] at hx; rw [h2]; exact h x hx
    · exact res_recorded_ext h b.chunks P h1 h2

theorem res_recorded_run (P : HashPrims) (L : Limits) (allow : Defrag → Nat → Decision) (evs : List Ev) (w : World)
    (h : SessRecorded w.sess) : SessRecorded (run P L allow w evs).sess := by
  induction evs generalizing w with
  | nil => exact h
  | cons e es ih => exact ih _ (res_recorded_step P L allow w e h)

theorem res_recorded_finished (P : HashPrims) (L : Limits) (allow : Defrag → Nat → Decision) (evs : List Ev) :
    SessRecorded (finished P L allow World.init evs).sess := by
  have h := res_recorded_run P L allow evs World.init (by intro x hx; simp [World.init, Sess.init] at hx)
  unfold finished Sess.finish
  exact res_recorded_ext (s := { (run P L allow World.init evs).sess with cur := Agg.empty }) h _ P
    (res_processAgg_fields P _ _).2.2.1 (res_processAgg_fields P _ _).2.2.2

/-- every xorb of every open file's log and every xorb handed to `put` is named by `cas_node_hash` -/
def WorldNamed (P : HashPrims) (w : World) : Prop :=
  (∀ f ∈ w.files, CutNamed P f.fd.cut) ∧ CutNamed P w.sess.puts

theorem res_named_step (P : HashPrims) (L : Limits) (allow : Defrag → Nat → Decision) (w : World) (e : Ev)
    (h : WorldNamed P w) : WorldNamed P (step P L allow w e) := by
  have hget : ∀ id, CutNamed P (w.get id).fd.cut := by
    intro id
    unfold World.get
    cases hf : w.files.find? (fun f => f.id == id) with
    | none => intro x hx; simp [FD.init] at hx
    | some f => exact h.1 f (List.mem_of_find?_eq_some hf)
  cases e with
  | call id k =>
    simp only [step]
    have hn := res_processChunks_named P L allow (w.get id).fd k.chunks k.answers k.gc k.gb (hget id)
    refine ⟨?_, ?_⟩
    · intro f hf
      rcases List.mem_cons.mp hf with rfl | h'
      · exact hn
      · exact h.1 f (List.mem_filter.mp h').1
    · rw [(res_registerAll_fields _ _).2.2.1]
      intro x hx
      rcases List.mem_append.mp hx with h' | h'
      · exact h.2 x h'
      · exact hn x (List.mem_of_mem_drop (List.mem_filter.mp h').1)
  | done id salt sha =>
    simp only [step]
    refine ⟨fun f hf => h.1 f (List.mem_filter.mp hf).1, ?_⟩
    rcases res_fileDone_puts P L w.sess (finalize P (w.get id).fd salt sha).agg (finalize P (w.get id).fd salt sha).metrics with
      ⟨h1, _⟩ | ⟨b, h1, _⟩
    · rw [h1]; exact h.2
    · rw [h1]
      split
      · exact h.2
      · intro x hx
        rcases List.mem_append.mp hx with h' | h'
        · exact h.2 x h'
        · simp at h'; subst h'; rfl

theorem res_named_run (P : HashPrims) (L : Limits) (allow : Defrag → Nat → Decision) (evs : List Ev) (w : World)
    (h : WorldNamed P w) : WorldNamed P (run P L allow w evs) := by
  induction evs generalizing w with
  | nil => exact h
  | cons e es ih => exact ih _ (res_named_step P L allow w e h)

theorem res_named_finished (P : HashPrims) (L : Limits) (allow : Defrag → Nat → Decision) (evs : List Ev) :
    CutNamed P (finished P L allow World.init evs).sess.puts := by
  have h := (res_named_run P L allow evs World.init
    ⟨by intro f hf; simp [World.init] at hf, by intro x hx; simp [World.init, Sess.init] at hx⟩).2
  unfold finished Sess.finish
  simp only []
  rw [(res_processAgg_fields P _ _).2.2.1]
  split
  · exact h
  · intro x hx
    rcases List.mem_append.mp hx with h' | h'
    · exact h x h'
    · simp at h'; subst h'; rfl

end Xet.Dedup
