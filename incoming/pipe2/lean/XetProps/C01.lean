/-
C01 — Upload then download returns every file byte-for-byte.

Model: `XetModel/Dedup.lean` (`FileDeduper::process_chunks` with its defrag decision and oracle answers,
`cut_new_xorb`, `finalize`, `DataAggregator::{merge_in, finalize}`, the session's
`register_single_file_clean_completion` / `process_aggregated_data_as_xorb` / `finalize_impl`).
Resolution semantics (`resolveSeg`, `resolveFile`), the invariant `ResolveInv` (DESIGN.md Appendix A.2) and
the history model (`Ev`, `step`, `run`, `finished`, `LegalHistory`) are in `XetProofs/DedupResolve*.lean`.

All theorems hold for every choice of hash primitives `P`, every `Limits` (including 0 and 1), every
defrag decision procedure `allow`, every persistent store, every interleaving of the files' calls and
completions, and every oracle answer that is *data-truthful* (`DataTruthful`; C05).  Collision freeness
is never assumed globally; it enters as explicit decidable hypotheses on the finite objects of the run:
`StoreConsistent` / `NoZeroName` on the final store (C06 extraction form) and `HashInj` on the chunks fed
to one file.  `ChunksNE` (every chunk has ≥ 1 byte) is what C04 proves of the chunker; it is needed
because `register_new_xorb_for_upload` skips a xorb of zero bytes.
-/
import XetProofs.DedupResolveWorld

set_option linter.unusedSimpArgs false

namespace Xet.Dedup

open Xet.Shard (Seg FileInfo CasInfo Chunk)

/-! ### the invariant (single file) -/

/-- `ResolveInv` holds of a fresh `FileDeduper`. -/
theorem C01_inv_init (store : List Xorb) : ResolveInv store FD.init [] := res_ResolveInv_init store

/-- **`ResolveInv` is preserved by `process_chunks`** for every `P`, `Limits`, every defrag decision procedure,
    every legal (data-truthful) answers.  Hypotheses in collision-extraction form: the store extended by
    the xorbs cut in this call binds no name to two contents and names no non-empty xorb zero; chunk
    hashes determine chunk data on the chunks of this file. -/
theorem C01_inv_step (P : HashPrims) (L : Limits) (allow : Defrag → Nat → Decision) (store : List Xorb)
    (fd : FD) (consumed chunks : List DChunk) (answers : Answers) (gc gb : Nat)
    (hW : StoreConsistent (store ++ (processChunks P L allow fd chunks answers gc gb).cut))
    (hZ : NoZeroName (store ++ (processChunks P L allow fd chunks answers gc gb).cut))
    (hH : HashInj (consumed ++ chunks)) (hA : LegalAnswers (store ++ fd.cut) chunks answers)
    (hI : ResolveInv store fd consumed) :
    ResolveInv store (processChunks P L allow fd chunks answers gc gb) (consumed ++ chunks) :=
  res_ResolveInv_processChunks hW hZ hH hA hI

/-- **`ResolveInv` after every sequence of calls** starting from a fresh deduper. -/
theorem C01_inv_calls (P : HashPrims) (L : Limits) (allow : Defrag → Nat → Decision) (store : List Xorb) (calls : List Call)
    (hW : StoreConsistent (store ++ (runCallSeq P L allow FD.init calls).cut))
    (hZ : NoZeroName (store ++ (runCallSeq P L allow FD.init calls).cut))
    (hH : HashInj (fedOf calls)) (hA : LegalCalls P L allow store FD.init calls) :
    ResolveInv store (runCallSeq P L allow FD.init calls) (fedOf calls) := by
  have := res_ResolveInv_runCallSeq (P := P) (L := L) (allow := allow) (store := store) calls (fd := FD.init) (consumed := [])
    hW hZ (by simpa using hH) hA (res_ResolveInv_init store)
  simpa using this

/-- what `ResolveInv` says, spelled out: with `W = store ++ fd.cut`,
    every segment resolves (`map … = all some`) and the concatenation is the consumed chunk list; the
    zero-hash segments are exactly the indices in `internalRefs` (ascending, in range) and satisfy
    `cstart < cend ≤ |newData|`; `lookup[h] = i → newData[i].hash = h`; each `seg.bytes` is the data size
    of what it resolves to; `cstart < cend` for all segments; `chunkHashes` lists the consumed chunks. -/
theorem C01_inv_spelled (store : List Xorb) (fd : FD) (consumed : List DChunk) (h : ResolveInv store fd consumed) :
    resolveFile (store ++ fd.cut) fd.newData fd.fileInfo = some consumed ∧
    (∀ s ∈ fd.fileInfo, ∃ r, resolveSeg (store ++ fd.cut) fd.newData s = some r ∧ s.bytes = dataSize r ∧ s.cstart < s.cend) ∧
    (∀ i, i ∈ fd.internalRefs ↔ ∃ s, fd.fileInfo[i]? = some s ∧ s.casHash = Hash.zero) ∧
    fd.internalRefs.Pairwise (· < ·) ∧
    (∀ s ∈ fd.fileInfo, s.casHash = Hash.zero → s.cstart < s.cend ∧ s.cend ≤ fd.newData.length) ∧
    (∀ hh i, lookupGet fd.lookup hh = some i → ∃ c, fd.newData[i]? = some c ∧ c.hash = hh) ∧
    fd.chunkHashes = chunkLens consumed := by
  obtain ⟨⟨hF, _⟩, hc⟩ := h
  refine ⟨hF.resolves, ?_, ?_, ?_, ?_, hF.lookup, hc⟩
  · intro s hs
    obtain ⟨r, hr, hb⟩ := hF.segs s hs
    exact ⟨r, hr, hb, (res_resolveSeg_some hr).1⟩
  · intro i
    rw [hF.refs, res_mem_zeroIdx]
    simp
  · rw [hF.refs]
    exact res_zeroIdx_sorted 0 fd.fileInfo
  · intro s hs hz
    obtain ⟨r, hr, _⟩ := hF.segs s hs
    rw [res_resolveSeg_zero hz] at hr
    obtain ⟨p1, p2, _⟩ := res_rangeOf_some hr
    exact ⟨p1, p2⟩

/-! ### the aggregator level -/

/-- `FileDeduper::finalize` hands over a pending (file, refs) pair that satisfies the pending invariant
    w.r.t. the remaining `new_data`. -/
theorem C01_finalize (P : HashPrims) (W : List Xorb) (fd : FD) (consumed : List DChunk) (id : Nat) (salt : Bytes) (sha : Hash)
    (hI : InvW W fd consumed) (hc : fd.chunkHashes = chunkLens consumed) :
    (finalize P fd salt sha).agg.chunks = fd.newData ∧
    ∃ p, (finalize P fd salt sha).agg.pending = [p] ∧ PendOK P W fd.newData p ⟨id, consumed, salt, sha⟩ :=
  res_finalize_pend id salt sha hI hc

/-- **`DataAggregator::merge_in` preserves the pending invariant on both sides**: the receiver's files
    are untouched (their zero-hash segments index a prefix of the merged chunk list), the merged-in files
    have exactly their zero-hash segments shifted by the receiver's chunk count; every pending entry of
    the result is one of these. -/
theorem C01_merge_in (P : HashPrims) (W : List Xorb) (a o : Agg) :
    (∀ p ∈ a.pending, ∀ g, PendOK P W a.chunks p g → PendOK P W (a.mergeIn o).chunks p g) ∧
    (∀ p ∈ o.pending, ∀ g, PendOK P W o.chunks p g →
      ∃ p' ∈ (a.mergeIn o).pending, PendOK P W (a.mergeIn o).chunks p' g) ∧
    (∀ p' ∈ (a.mergeIn o).pending, p' ∈ a.pending ∨
      ∃ p ∈ o.pending, p' = ({ p.1 with segs := shiftSegs p.1.segs a.chunks.length }, p.2)) :=
  res_mergeIn_pend a o

/-- **`DataAggregator::finalize`**: if the new xorb is in the consistent store under a non-zero name
    (hypothesis needed only when the aggregate holds chunks; a non-empty xorb named zero would be a
    collision with the "not yet cut" marker), every pending file becomes a record all of whose segments
    are non-zero and that resolves in the store to the same chunk list. -/
theorem C01_agg_finalize (P : HashPrims) (W : List Xorb) (hW : StoreConsistent W) (a : Agg)
    (hx : a.chunks ≠ [] → mkXorb P a.chunks ∈ W ∧ (mkXorb P a.chunks).hash ≠ Hash.zero) :
    (a.finalize P).xorb = mkXorb P a.chunks ∧
    (∀ p ∈ a.pending, ∀ g, PendOK P W a.chunks p g → ∃ fi ∈ (a.finalize P).files, RecOK P W fi g) ∧
    (∀ fi ∈ (a.finalize P).files, ∃ p ∈ a.pending, ∀ g, PendOK P W a.chunks p g → RecOK P W fi g) :=
  res_aggFinalize hW a hx

/-! ### download -/

/-- the bytes of a chunk list -/
def bytesOf (cs : List DChunk) : Bytes := (cs.map (·.data)).flatten

/-- full download of a file record from a store: concatenated data of the chunks its segments name -/
def download (W : List Xorb) (r : FileInfo) : Option Bytes := (resolveFile W [] r.segs).map bytesOf

/-- a ranged read walks the chunk data, skipping `skip` bytes and then taking `len` bytes
    (the reconstruction skips whole leading chunks, trims the first and last one) -/
def rangeBytes : List Bytes → Nat → Nat → Bytes
  | [], _, _ => []
  | d :: rest, skip, len =>
    if len = 0 then []
    else if d.length ≤ skip then rangeBytes rest (skip - d.length) len
    else (d.drop skip).take len ++ rangeBytes rest 0 (len - ((d.drop skip).take len).length)

/-- download of the byte range `[a, b)` -/
def downloadRange (W : List Xorb) (r : FileInfo) (a b : Nat) : Option Bytes :=
  (resolveFile W [] r.segs).map fun cs => rangeBytes (cs.map (·.data)) a (b - a)

theorem rangeBytes_eq (ds : List Bytes) (skip len : Nat) :
    rangeBytes ds skip len = (ds.flatten.drop skip).take len := by
  induction ds generalizing skip len with
  | nil => simp [rangeBytes]
  | cons d rest ih =>
    simp only [rangeBytes, List.flatten_cons]
    split
    · rename_i h; simp [h]
    · split
      · rename_i h
        rw [ih, List.drop_append, List.drop_of_length_le h]
        simp
      · rename_i h
        have hlt : skip < d.length := by omega
        rw [ih, List.drop_append_of_le_length (by omega), List.take_append]
        simp
        omega

/-- **C01 (statement).**  For every legal history of a session — any number of files, their
    `process_chunks` calls interleaved arbitrarily, completions in any order, then `finalize` — and the
    final store `store ++ everything the session handed to put`: every finished file `g` has a record in
    the session's shards carrying its pointer's file hash whose download is exactly the bytes fed in;
    and every record in the session's shards downloads to the bytes of a finished file with that hash. -/
def C01_roundtrip_statement : Prop :=
  ∀ (P : HashPrims) (L : Limits) (allow : Defrag → Nat → Decision) (store : List Xorb) (evs : List Ev),
    LegalHistory P L allow store World.init evs →
    StoreConsistent (store ++ (finished P L allow World.init evs).sess.puts) →
    NoZeroName (store ++ (finished P L allow World.init evs).sess.puts) →
    (∀ g ∈ (finished P L allow World.init evs).done, ∃ fi ∈ (finished P L allow World.init evs).sess.files,
      fi.hash = Merkle.fileNodeHash P (chunkLens g.chunks) g.salt ∧
      download (store ++ (finished P L allow World.init evs).sess.puts) fi = some (bytesOf g.chunks)) ∧
    (∀ fi ∈ (finished P L allow World.init evs).sess.files, ∃ g ∈ (finished P L allow World.init evs).done,
      fi.hash = Merkle.fileNodeHash P (chunkLens g.chunks) g.salt ∧
      download (store ++ (finished P L allow World.init evs).sess.puts) fi = some (bytesOf g.chunks))

theorem C01_roundtrip : C01_roundtrip_statement := by
  intro P L allow store evs hl hW hZ
  obtain ⟨h1, h2⟩ := res_finished_ok (P := P) (L := L) (allow := allow) hW hZ
    (fun x hx => List.mem_append_left _ hx) evs hl (fun x hx => List.mem_append_right _ hx)
  refine ⟨?_, ?_⟩
  · intro g hg
    obtain ⟨fi, hfi, hres, _, hm⟩ := h1 g hg
    exact ⟨fi, hfi, hm.1, by simp [download, hres]⟩
  · intro fi hfi
    obtain ⟨g, hg, hres, _, hm⟩ := h2 fi hfi
    exact ⟨g, hg, hm.1, by simp [download, hres]⟩

/-- **C01, byte ranges (statement).**  Under the same hypotheses, for every finished file and
    `a ≤ b ≤ |bytes|` the ranged download of its record is `bytes[a : b)`. -/
def C01_range_statement : Prop :=
  ∀ (P : HashPrims) (L : Limits) (allow : Defrag → Nat → Decision) (store : List Xorb) (evs : List Ev),
    LegalHistory P L allow store World.init evs →
    StoreConsistent (store ++ (finished P L allow World.init evs).sess.puts) →
    NoZeroName (store ++ (finished P L allow World.init evs).sess.puts) →
    ∀ g ∈ (finished P L allow World.init evs).done, ∃ fi ∈ (finished P L allow World.init evs).sess.files,
      fi.hash = Merkle.fileNodeHash P (chunkLens g.chunks) g.salt ∧
      ∀ a b, a ≤ b → b ≤ (bytesOf g.chunks).length →
        downloadRange (store ++ (finished P L allow World.init evs).sess.puts) fi a b =
          some (((bytesOf g.chunks).drop a).take (b - a))

theorem C01_range : C01_range_statement := by
  intro P L allow store evs hl hW hZ g hg
  obtain ⟨h1, _⟩ := res_finished_ok (P := P) (L := L) (allow := allow) hW hZ
    (fun x hx => List.mem_append_left _ hx) evs hl (fun x hx => List.mem_append_right _ hx)
  obtain ⟨fi, hfi, hres, _, hm⟩ := h1 g hg
  refine ⟨fi, hfi, hm.1, ?_⟩
  intro a b _ _
  simp [downloadRange, hres, rangeBytes_eq, bytesOf]

/-- a ranged download is the slice of the full download, for every record and store -/
theorem C01_range_is_slice (W : List Xorb) (r : FileInfo) (a b : Nat) :
    downloadRange W r a b = (download W r).map fun bs => (bs.drop a).take (b - a) := by
  unfold downloadRange download
  cases resolveFile W [] r.segs <;> simp [rangeBytes_eq, bytesOf]

/-! ### hash truthfulness ⇒ data truthfulness, unless a data-hash collision is exhibited -/

/-- what C05 establishes of an answer: the referenced chunk records carry the queried *hashes* -/
def HashTruthful (store : List Xorb) (cs : List DChunk) (i : Nat) (a : Nat × Seg) : Prop :=
  1 ≤ a.1 ∧ i + a.1 ≤ cs.length ∧ a.2.casHash ≠ Hash.zero ∧
  ∃ r, resolveSeg store [] a.2 = some r ∧ r.map (·.hash) = ((cs.drop i).take a.1).map (·.hash) ∧ a.2.bytes = dataSize r

theorem res_collision_of_ne : ∀ (a b : List DChunk), a.map (·.hash) = b.map (·.hash) → a ≠ b →
    ∃ c ∈ a, ∃ c' ∈ b, c.hash = c'.hash ∧ c.data ≠ c'.data := by
  intro a
  induction a with
  | nil => intro b h hne; cases b <;> simp_all
  | cons x xs ih =>
    intro b h hne
    cases b with
    | nil => simp at h
    | cons y ys =>
      simp only [List.map_cons, List.cons.injEq] at h
      by_cases hd : x.data = y.data
      · have hxy : x = y := by cases x; cases y; simp_all
        subst hxy
        have : xs ≠ ys := fun e => hne (by rw [e])
        obtain ⟨c, hc, c', hc', hh⟩ := ih ys h.2 this
        exact ⟨c, by simp [hc], c', by simp [hc'], hh⟩
      · exact ⟨x, by simp, y, by simp, h.1, hd⟩

/-- **collision extraction**: a hash-truthful answer is data-truthful, or two chunk records with equal
    hash and different data are exhibited (one in the store, one in the call). -/
theorem truthful_hash_to_data (store : List Xorb) (cs : List DChunk) (i : Nat) (a : Nat × Seg)
    (h : HashTruthful store cs i a) :
    DataTruthful store cs i a ∨ ∃ c c' : DChunk, c.hash = c'.hash ∧ c.data ≠ c'.data := by
  obtain ⟨h1, h2, h3, r, hr, hh, hb⟩ := h
  by_cases he : r = (cs.drop i).take a.1
  · subst he
    exact Or.inl ⟨h1, h2, h3, hr, hb⟩
  · obtain ⟨c, _, c', _, hc⟩ := res_collision_of_ne _ _ hh he
    exact Or.inr ⟨c, c', hc⟩

/-! ### Non-vacuity: a concrete history (small limits: 100 bytes, 2 chunks per xorb) with two files, one
store hit, one local self-reference, one mid-file cut and one merge with shift; every hypothesis of
`C01_roundtrip` is checked by evaluation. -/

section Example

/-- toy hash primitives (any functions will do: the theorems quantify over them) -/
def exP : HashPrims :=
  ⟨fun b => ⟨UInt64.ofNat (b.foldl (fun a x => a * 31 + x.toNat + 1) 7), 1, 2, 3⟩,
   fun b => ⟨UInt64.ofNat (b.foldl (fun a x => a * 33 + x.toNat + 1) 5), 4, 5, 6⟩,
   fun b => ⟨UInt64.ofNat b.length, 7, 8, 9⟩,
   fun k b => ⟨UInt64.ofNat (k.length + b.length), 10, 11, 12⟩⟩

def exChunk (n : Nat) : DChunk := ⟨exP.dataHash [UInt8.ofNat n, 1], [UInt8.ofNat n, 1]⟩

def exLim : Limits := ⟨100, 2⟩

/-- the persistent store: one xorb `[chunk 1, chunk 2]` of an earlier session -/
def exStore : List Xorb := [mkXorb exP [exChunk 1, exChunk 2]]

/-- file 1 is fed `[1, 3, 3, 4]` then `[5]`; file 2 is fed `[6]` in between.
    * chunk 1 is answered by the store (segment `[0,1)` of the old xorb);
    * the second chunk 3 is found in file 1's own new data (local self-reference);
    * feeding chunk 5 exceeds 2 chunks per xorb: the xorb `[3, 4]` is cut in the middle of file 1;
    * file 1 finishes first (its rest `[5]` becomes the session aggregate), then file 2 is merged in with
      shift 1; `finalize` cuts the xorb `[5, 6]`. -/
def exHistory : List Ev :=
  [.call 1 ⟨[exChunk 1, exChunk 3, exChunk 3, exChunk 4],
            [some (1, ⟨(mkXorb exP [exChunk 1, exChunk 2]).hash, 0, 2, 0, 1⟩), none, none, none], 0, 0⟩,
   .call 2 ⟨[exChunk 6], [none], 0, 0⟩,
   .call 1 ⟨[exChunk 5], [none], 0, 0⟩,
   .done 1 [1, 2, 3] Hash.zero,
   .done 2 [1, 2, 3] Hash.zero]

def exFinal : World := finished exP exLim Defrag.allowNext World.init exHistory

theorem ex_legal : LegalHistory exP exLim Defrag.allowNext exStore World.init exHistory := by decide +kernel
theorem ex_consistent : StoreConsistent (exStore ++ exFinal.sess.puts) := by decide +kernel
theorem ex_nozero : NoZeroName (exStore ++ exFinal.sess.puts) := by decide +kernel

/-- two xorbs are uploaded: `[3, 4]` (cut in the middle of file 1) and `[5, 6]` (the merged aggregate) -/
example : exFinal.sess.puts.map (·.chunks) = [[exChunk 3, exChunk 4], [exChunk 5, exChunk 6]] := by decide +kernel

/-- file 1's record: store hit, the new chunk 3, the self-reference extended by chunk 4, the tail in the
    aggregate xorb; file 2's record: its only segment was shifted by 1 in `merge_in`. -/
example : exFinal.sess.files.map (fun fi => fi.segs.map fun s => (s.casHash == (mkXorb exP [exChunk 1, exChunk 2]).hash, s.cstart, s.cend, s.bytes))
    = [[(true, 0, 1, 2), (false, 0, 1, 2), (false, 0, 2, 4), (false, 0, 1, 2)], [(false, 1, 2, 2)]] := by decide +kernel

example : exFinal.done.map (·.chunks) = [[exChunk 1, exChunk 3, exChunk 3, exChunk 4, exChunk 5], [exChunk 6]] := by decide +kernel

/-- the theorem applied to the example: both files download byte-for-byte -/
example : ∀ g ∈ exFinal.done, ∃ fi ∈ exFinal.sess.files,
    fi.hash = Merkle.fileNodeHash exP (chunkLens g.chunks) g.salt ∧
    download (exStore ++ exFinal.sess.puts) fi = some (bytesOf g.chunks) :=
  (C01_roundtrip exP exLim Defrag.allowNext exStore exHistory ex_legal ex_consistent ex_nozero).1

/-- and directly by evaluation -/
example : exFinal.sess.files.map (download (exStore ++ exFinal.sess.puts)) = exFinal.done.map (fun g => some (bytesOf g.chunks)) := by
  decide +kernel

end Example

end Xet.Dedup
