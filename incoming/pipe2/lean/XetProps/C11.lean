/-
C11 (first sentence) — Every chunk that a finalized session stored in a new xorb is recorded in that
session's shards.

Model: `XetModel/Dedup.lean` (`Sess.registerXorb` = `UploadSessionDataManager::register_new_xorb`,
`Sess.processAgg` = `process_aggregated_data_as_xorb` after the `fix:` commit for F1, `Sess.fileDone`,
`Sess.finish`); histories: `XetProofs/DedupResolveWorld.lean`.  No hypothesis at all: the theorems hold
for every history (legal or not), every limits, every hash primitives, every defrag decision procedure.
That a chunk recorded in a registered shard is then *found* by a later session is `C11_lookup_complete`
(shard lookup, C09/C11 of the shard slice), not this file.
-/
import XetProofs.DedupResolveWorld

namespace Xet.Dedup

open Xet.Shard (Seg FileInfo CasInfo Chunk)

theorem res_casEntries_hashes (pos : Nat) (cs : List DChunk) :
    (casEntries pos cs).map (·.hash) = cs.map (·.hash) := by
  induction cs generalizing pos with
  | nil => rfl
  | cons c rest ih => simp [casEntries, ih]

/-- **C11_recorded (statement).**  After every history of a session followed by `finalize`, every xorb
    handed to `put` — cut in the middle of a file (`register_new_xorb`) or from the session aggregate
    (`process_aggregated_data_as_xorb`, `finalize_impl`) — has its CAS info among the `add_cas_block`
    calls of the session. -/
def C11_recorded_statement : Prop :=
  ∀ (P : HashPrims) (L : Limits) (allow : Defrag → Nat → Decision) (evs : List Ev),
    ∀ x ∈ (finished P L allow World.init evs).sess.puts,
      x.casInfo ∈ (finished P L allow World.init evs).sess.casRegistered

theorem C11_recorded : C11_recorded_statement :=
  fun P L allow evs => res_recorded_finished P L allow evs

/-- the same at every moment of the session, not only after `finalize` -/
theorem C11_recorded_always (P : HashPrims) (L : Limits) (allow : Defrag → Nat → Decision) (evs : List Ev) :
    ∀ x ∈ (run P L allow World.init evs).sess.puts, x.casInfo ∈ (run P L allow World.init evs).sess.casRegistered :=
  res_recorded_run P L allow evs World.init (by intro x hx; simp [World.init, Sess.init] at hx)

/-- chunk-level reading: every chunk of every uploaded xorb appears, under the xorb's name and with
    its hash, in a CAS info block registered in the session's shard. -/
theorem C11_chunks_recorded (P : HashPrims) (L : Limits) (allow : Defrag → Nat → Decision) (evs : List Ev) :
    ∀ x ∈ (finished P L allow World.init evs).sess.puts, ∀ c ∈ x.chunks,
      ∃ ci ∈ (finished P L allow World.init evs).sess.casRegistered,
        ci.hash = x.hash ∧ ∃ e ∈ ci.chunks, e.hash = c.hash := by
  intro x hx c hc
  refine ⟨x.casInfo, C11_recorded P L allow evs x hx, rfl, ?_⟩
  have : c.hash ∈ (casEntries 0 x.chunks).map (·.hash) := by
    rw [res_casEntries_hashes]; exact List.mem_map.mpr ⟨c, hc, rfl⟩
  obtain ⟨e, he, heq⟩ := List.mem_map.mp this
  exact ⟨e, he, heq⟩

/-! ### non-vacuity: a history that puts two xorbs (one mid-file, one from the aggregate) -/

section Example

private def ex11P : HashPrims :=
  ⟨fun b => ⟨UInt64.ofNat (b.foldl (fun a x => a * 31 + x.toNat + 1) 7), 1, 2, 3⟩,
   fun b => ⟨UInt64.ofNat (b.foldl (fun a x => a * 33 + x.toNat + 1) 5), 4, 5, 6⟩,
   fun b => ⟨UInt64.ofNat b.length, 7, 8, 9⟩,
   fun k b => ⟨UInt64.ofNat (k.length + b.length), 10, 11, 12⟩⟩

private def ex11Chunk (n : Nat) : DChunk := ⟨ex11P.dataHash [UInt8.ofNat n, 1], [UInt8.ofNat n, 1]⟩

private def ex11History : List Ev :=
  [.call 1 ⟨[ex11Chunk 1, ex11Chunk 2, ex11Chunk 3], [none, none, none], 0, 0⟩, .done 1 [] Hash.zero]

example : ((finished ex11P ⟨100, 2⟩ Defrag.allowNext World.init ex11History).sess.puts.map (·.chunks.length)) = [2, 1] := by
  decide +kernel

end Example

end Xet.Dedup
