/-
C13 (disk part) — what the chunk cache reports equals what is on disk; re-opening the directory.

Model: `XetModel/Cache.lean`.  This file proves the two clauses that `XetProps/C13.lean` keeps as
statements (`C13_disk_full`, `C13_reopen_exact`), each in the strongest form that is true of the
model, and shows by witnesses why the extra hypotheses are needed:

 * `C13_disk_full_thm`      = `C13_disk_full` + "every file is shorter than 2^64 bytes"
                              (the model does not bound the length of a byte list, the length field
                              of an item is a `u64`);
 * `C13_reopen_exact_thm`   = `C13_reopen_exact` with the last clause restricted to keys the Rust type
                              `Key` can produce (32-byte hash + UTF-8 prefix: `ValidKey`) and with the
                              capacity test on the file's length; it proves more than was asked
                              (byte total within the capacity unconditionally, tracked entries have
                              their files, no entry twice);
 * `C13_disk_full_false`    : the statement as written in `C13.lean` is false in the model (one put of
                              2^64 data bytes, evaluated symbolically);
 * `C13_stale_entry_witness`: the hypothesis "every tracked entry has its file" of `C13_disk_full` is
                              not implied by "every entry was read": an entry nested behind an
                              earlier entry of its key is never the first match of a `get`;
 * `C13_reopen_exact_false` : the statement as written in `C13.lean` is false (a key shorter than
                              32 bytes, which `run` does not reject);
 * `C13_reopen_exact_len`   : the last clause in its original form (`it.len ≤ cap`) for valid keys
                              and files shorter than 2^64 bytes.

All theorems quantify over every CRC function, capacity, number of threads, interleaving
(`List Action`), oracle value and `read_dir` order.
-/
import XetProofs.CacheDiskScan
import XetProps.C13

namespace Xet.Cache

/-- **Reported totals = what is on disk, after read-back.**  Start from an empty cache directory
    with any capacity and any number of threads; run any interleaving of puts and gets (any
    eviction choices, any order of the deferred deletions, identical items inserted concurrently)
    to a quiescent point at which every tracked entry has its file (the state read-back is meant to
    establish: reading an entry whose file a racing deletion removed drops it, `C13_read_back_drops`;
    `C13_stale_entry_witness` shows an entry no read can reach).  If no file is 2^64 bytes or longer,
    then `num_items` is the number of files in the cache directory and `total_bytes` is the sum of
    their lengths.

    This is `C13_disk_full` with the hypothesis `hlen` added.  Without it the statement is not true
    of the model: `put` computes `len = (header_len + data.len()) as u64`; in the model a byte list
    can be 2^64 bytes long, the length field wraps and `total_bytes` (a sum of length fields) differs
    from the sum of the file lengths.  In Rust `data.len()` is a `usize`, so the case does not
    exist. -/
theorem C13_disk_full_thm (crc : Bytes → UInt32) (cap n : Nat) (as : List Action) (w : World)
    (hr : run crc true (World.fresh cap n) as = some w) (hq : quiescent w = true)
    (hback : ∀ k c, Tracked w.st k c → ∃ content, fileAt w.fs (itemPath k c.item) content)
    (hlen : ∀ p c, fileAt w.fs p c → c.length < 2 ^ 64) :
    w.st.numItems = (w.fs.filter fun e => match e.2 with | .file _ => true | .dir => false).length ∧
    w.st.totalBytes = ((w.fs.filter fun e => match e.2 with | .file _ => true | .dir => false).map
      fun e => match e.2 with | .file c => c.length | .dir => 0).sum := by
  have hd := diskInv_run crc cap n as w hr
  have hf := (C13_files_tracked crc cap n as w hr hq).1
  exact disk_count hd.nd hd.capi.1 hd.fs hf hback hlen

/-- `C13_disk_full` holds for every history in which no file reaches 2^64 bytes (restatement of
    `C13_disk_full_thm` in the shape of the definition) -/
theorem C13_disk_full_of_len
    (hlen : ∀ (crc : Bytes → UInt32) (cap n : Nat) (as : List Action) (w : World),
      run crc true (World.fresh cap n) as = some w → ∀ p c, fileAt w.fs p c → c.length < 2 ^ 64) :
    C13_disk_full :=
  fun crc cap n as w hr hq hback => C13_disk_full_thm crc cap n as w hr hq hback (hlen crc cap n as w hr)

/-- **In every reachable state**: no key is listed twice, no item is tracked twice under a key,
    the counters are exact, the byte total is within the capacity unless a single entry larger than
    the capacity is all that is tracked, and the cache directory contains nothing but prefix
    directories, key directories and item files the cache created (no path twice, every entry
    inside an existing directory, file lengths = length fields mod 2^64). -/
theorem C13_reachable_inv (crc : Bytes → UInt32) (cap n : Nat) (as : List Action) (w : World)
    (hr : run crc true (World.fresh cap n) as = some w) :
    ND w.st.items ∧ Exact w.st ∧ (w.st.totalBytes ≤ cap ∨ w.st.numItems ≤ 1) ∧ FsWF w.fs ∧ w.cap = cap := by
  have hd := diskInv_run crc cap n as w hr
  exact ⟨hd.nd, hd.capi.1, hd.capi.2, hd.fs, hd.cap_eq⟩

/-- **Re-opening.**  Take the directory a quiescent cache left behind (reached from an empty cache
    directory by any interleaving of puts and gets) and re-open it with the same capacity; let the
    scan enumerate the directories in any order (`order`).  Then in the new cache
    * the counters are exact (`num_items` = number of tracked entries, `total_bytes` = sum of their
      lengths), no key is listed twice and no item twice under a key;
    * `total_bytes ≤ capacity` (whether or not it was before: a file larger than the capacity is
      not loaded);
    * every file at the item path of a valid key (32-byte hash + UTF-8 prefix) that is not larger
      than the capacity and that the scan left on disk is tracked;
    * every tracked entry has its file, of the length its name says, not larger than the capacity;
    * the scan only removed files (every remaining file was there before). -/
theorem C13_reopen_exact_thm (crc : Bytes → UInt32) (cap n : Nat) (as : List Action) (w w' : World)
    (order : List Path)
    (hr : run crc true (World.fresh cap n) as = some w) (hq : quiescent w = true)
    (hl : orderLegal w.fs order = true) (hre : reopen true w w.fs cap order = some w') :
    (Exact w'.st ∧ ND w'.st.items) ∧ w'.st.totalBytes ≤ cap ∧
    (∀ k it c, ValidKey k → fileAt w'.fs (itemPath k it) c → c.length ≤ cap → TrackedItem w'.st k it) ∧
    (∀ k c, Tracked w'.st k c → ∃ content, fileAt w'.fs (itemPath k c.item) content ∧
      content.length = c.item.len.toNat ∧ content.length ≤ cap) ∧
    (∀ q c, fileAt w'.fs q c → fileAt w.fs q c) := by
  have hd := diskInv_run crc cap n as w hr
  have hf := (C13_files_tracked crc cap n as w hr hq).1
  unfold reopen at hre
  split at hre
  · cases hre
  · split at hre
    · cases hre
    · rename_i out hscan
      split at hre
      · cases hre
      · cases hre
        have hcap : 0 < cap := by
          rcases Nat.eq_zero_or_pos cap with e | e
          · subst e; simp [scan] at hscan
          · exact e
        have env := scanEnv_of_legal hd.fs (smallBound_of hf hd.capi) hcap hl
        obtain ⟨a, b, c, d, e, f⟩ := scan_main env hscan
        exact ⟨⟨a, c⟩, b, d, f, e⟩

/-- the last clause of `C13_reopen_exact` in its original form (capacity test on the length
    field of the name), for valid keys and files shorter than 2^64 bytes -/
theorem C13_reopen_exact_len (crc : Bytes → UInt32) (cap n : Nat) (as : List Action) (w w' : World)
    (order : List Path)
    (hr : run crc true (World.fresh cap n) as = some w) (hq : quiescent w = true)
    (hl : orderLegal w.fs order = true) (hre : reopen true w w.fs cap order = some w')
    (k : Key) (it : Item) (c : Bytes) (hv : ValidKey k) (hf : fileAt w'.fs (itemPath k it) c)
    (hlt : c.length < 2 ^ 64) (hle : it.len.toNat ≤ cap) : TrackedItem w'.st k it := by
  obtain ⟨_, _, h3, _, h5⟩ := C13_reopen_exact_thm crc cap n as w w' order hr hq hl hre
  have hd := diskInv_run crc cap n as w hr
  have := hd.fs.item_len_eq (h5 _ _ hf) hlt
  exact h3 k it c hv hf (by omega)

/-- what `C13_reopen_exact` claims, for valid keys: exact counters, byte total within the
    capacity if it was, every cache file of a valid key with `it.len ≤ cap` and fewer than 2^64
    bytes is tracked (corollary of the two theorems above, in the shape of the definition) -/
theorem C13_reopen_exact_valid (crc : Bytes → UInt32) (cap n : Nat) (as : List Action) (w w' : World)
    (order : List Path)
    (hr : run crc true (World.fresh cap n) as = some w) (hq : quiescent w = true)
    (hl : orderLegal w.fs order = true) (hre : reopen true w w.fs cap order = some w') :
    Exact w'.st ∧ (w.st.totalBytes ≤ cap → w'.st.totalBytes ≤ cap) ∧
    (∀ k it c, ValidKey k → c.length < 2 ^ 64 → fileAt w'.fs (itemPath k it) c → it.len.toNat ≤ cap →
      TrackedItem w'.st k it) := by
  obtain ⟨h1, h2, _⟩ := C13_reopen_exact_thm crc cap n as w w' order hr hq hl hre
  exact ⟨h1.1, fun _ => h2,
    fun k it c hv hlt hf hle => C13_reopen_exact_len crc cap n as w w' order hr hq hl hre k it c hv hf hlt hle⟩

/-! ### `C13_disk_full` as written is false: a file of 2^64 + 12 bytes -/

section Big
variable (D : Bytes)

/-- `put` of one chunk of `2^64` bytes (offsets `[0, 2^64]`) under the empty key -/
def bigOp : Op := .put [] ⟨0, 1⟩ [0, 18446744073709551616] D
def bigItem : Item := mkItem (fun _ => 0) ⟨0, 1⟩ [0, 18446744073709551616] D
def bigContent : Bytes := headerBytes [0, 18446744073709551616] ++ D
def bigW1 : World := ⟨CState.empty, [], 100, false, [.noMatch (bigOp D)]⟩
def bigFs : FS := [(itemPath [] (bigItem D), .file (bigContent D)), (keyPath [], .dir), ([prefixDirName []], .dir)]
def bigW2 : World := ⟨CState.empty, bigFs D, 100, false, [.written [] (bigItem D)]⟩
/-- the state after the put: one entry, `total_bytes = 12` -/
def bigW3 : World := ⟨⟨[([], [⟨bigItem D, 0⟩])], 1, 12, [0], 1⟩, bigFs D, 100, false, [.done .ok]⟩

theorem big_step1 (hD : D.length = 18446744073709551616) :
    step (fun _ => 0) true (World.fresh 100 1) (.start 0 (bigOp D)) = some (bigW1 D) := by
  simp [step, World.fresh, startSeg, bigOp, putArgsOk, strictlyIncreasing, findSeg, findMatch, getK, lookupK,
    CState.empty, Op.onMiss, Op.key, Op.range, setThread, hD, bigW1]

theorem big_step2 : step (fun _ => 0) true (bigW1 D) (.go 0 {}) = some (bigW2 D) := by
  simp [step, bigW1, segment, bigOp, writeItemFile, FS.mkdir, FS.get, FS.put, FS.erase, FS.isDir, keyPath, itemPath,
    prefixDirName, keyDirName, b64Encode, setThread, bigW2, bigFs, bigItem, bigContent]

/-- the length field wraps: `(12 + 2^64) as u64 = 12` -/
theorem bigItem_len (hD : D.length = 18446744073709551616) : (bigItem D).len.toNat = 12 := by
  simp [bigItem, mkItem, headerBytes_length, hD]

theorem big_step3 (hD : D.length = 18446744073709551616) :
    step (fun _ => 0) true (bigW2 D) (.go 0 {}) = some (bigW3 D) := by
  have hl := bigItem_len D hD
  simp [step, bigW2, segment, commit, getK, lookupK, CState.empty, subsumedIdx, removeSubsumed, afterRemove, setK,
    evictLoop, addItem, unlinkNext, setThread, bigW3, hl, cnt]

theorem big_run (hD : D.length = 18446744073709551616) :
    run (fun _ => 0) true (World.fresh 100 1) [.start 0 (bigOp D), .go 0 {}, .go 0 {}] = some (bigW3 D) := by
  simp [run, big_step1 D hD, big_step2 D, big_step3 D hD]

end Big

/-- **`C13_disk_full` (without a bound on file lengths) is false in the model**: after one `put` of
    `2^64` data bytes the cache tracks one entry with `total_bytes = 12` while the only file has
    `2^64 + 12` bytes.  (18446744073709551616 = 2^64.  The schedule is evaluated symbolically, for
    any byte list of that length.)  This is an artefact of modelling `&[u8]` by `List UInt8`; see
    `C13_disk_full_thm` for the statement with the bound. -/
theorem C13_disk_full_false : ¬ C13_disk_full := by
  intro h
  obtain ⟨D, hD⟩ : ∃ D : Bytes, D.length = 18446744073709551616 := ⟨List.replicate _ 0, List.length_replicate⟩
  have hback : ∀ k c, Tracked (bigW3 D).st k c → ∃ content, fileAt (bigW3 D).fs (itemPath k c.item) content := by
    intro k c ⟨v, hm, hc⟩
    simp only [bigW3, List.mem_singleton, Prod.mk.injEq] at hm
    obtain ⟨rfl, rfl⟩ := hm
    simp only [List.mem_singleton] at hc
    subst hc
    exact ⟨bigContent D, by simp [fileAt, bigW3, bigFs, FS.get]⟩
  have h1 := (h (fun _ => 0) 100 1 _ (bigW3 D) (big_run D hD) (by simp [quiescent, bigW3]) hback).2
  simp [bigW3, bigFs, bigContent, headerBytes_length, hD] at h1

/-! ### `C13_reopen_exact` as written is false: keys that Rust cannot produce -/

/-- `run` accepts any byte string as a key.  A key shorter than 32 bytes gets a key directory whose
    name decodes to fewer than 32 bytes; the scan skips it (F14 fix: it used to panic), so its files
    stay on disk untracked.  Witness: one `put` under the 3-byte key `[1,2,3]`, then re-open. -/
theorem C13_reopen_exact_false : ¬ C13_reopen_exact := by
  intro h
  have hsome : ((run (fun _ => 0) true (World.fresh 1000 1) [.start 0 f10Op, .go 0 {}, .go 0 {}]).bind
      fun w => reopen true w w.fs 1000 (w.fs.map Prod.fst)).isSome = true := by decide
  cases hrun : run (fun _ => 0) true (World.fresh 1000 1) [.start 0 f10Op, .go 0 {}, .go 0 {}] with
  | none => rw [hrun] at hsome; cases hsome
  | some w =>
    have hfacts : (run (fun _ => 0) true (World.fresh 1000 1) [.start 0 f10Op, .go 0 {}, .go 0 {}]).map
        (fun w => (quiescent w, orderLegal w.fs (w.fs.map Prod.fst))) = some (true, true) := by decide
    rw [hrun] at hfacts hsome
    simp only [Option.map_some, Option.some.injEq, Prod.mk.injEq] at hfacts
    simp only [Option.bind_some] at hsome
    cases hre : reopen true w w.fs 1000 (w.fs.map Prod.fst) with
    | none => rw [hre] at hsome; cases hsome
    | some w' =>
      have hafter : ((run (fun _ => 0) true (World.fresh 1000 1) [.start 0 f10Op, .go 0 {}, .go 0 {}]).bind
          fun w => reopen true w w.fs 1000 (w.fs.map Prod.fst)).map
          (fun w' => (w'.st.items, FS.get w'.fs (itemPath f10Key (mkItem (fun _ => 0) ⟨0, 1⟩ [0, 1] [7]))))
          = some ([], some (.file (headerBytes [0, 1] ++ [7]))) := by decide
      rw [hrun] at hafter
      simp only [Option.bind_some] at hafter
      rw [hre] at hafter
      simp only [Option.map_some, Option.some.injEq, Prod.mk.injEq] at hafter
      obtain ⟨_, _, h3⟩ := h (fun _ => 0) 1000 1 _ w w' _ hrun hfacts.1 hfacts.2 hre
      obtain ⟨c, ⟨v, hm, _⟩, _⟩ := h3 f10Key _ _ hafter.2 (by decide)
      rw [hafter.1] at hm
      cases hm

/-! ### Non-vacuity: three valid keys, identical items inserted concurrently, an eviction, a
read-back, a re-open -/

def exKA : Key := List.replicate 32 1
/-- hash `02…02`, prefix `"a"` -/
def exKB : Key := List.replicate 32 2 ++ [0x61]
def exKC : Key := List.replicate 32 3
def exPutA : Op := .put exKA ⟨0, 1⟩ [0, 1] [7]
def exPutB : Op := .put exKB ⟨0, 2⟩ [0, 1, 3] [8, 9, 10]
def exPutC : Op := .put exKC ⟨5, 6⟩ [0, 2] [1, 2]

/-- capacity 40, two threads: `A` (13 bytes); `B` (19 bytes) inserted by both threads at the same
    time; `C` (14 bytes), which has to evict (`A` is chosen); a `get` that reads `B` back -/
def exSchedule : List Action :=
  [.start 0 exPutA, .go 0 {}, .go 0 {},
   .start 0 exPutB, .start 1 exPutB, .go 0 {}, .go 1 {}, .go 0 {}, .go 1 {},
   .start 0 exPutC, .go 0 {}, .go 0 ⟨[(exKA, 0)], 0⟩, .go 0 {},
   .start 1 (.get exKB ⟨1, 2⟩), .go 1 {}]

example : ValidKey exKA ∧ ValidKey exKB ∧ ValidKey exKC := by decide

/-- the hypotheses of `C13_disk_full_thm` hold at the end of the schedule: quiescent, every
    tracked entry has its file; the `get` was a hit -/
example :
    (run (fun _ => 0) true (World.fresh 40 2) exSchedule).map
      (fun w => (quiescent w,
        w.st.items.all (fun e => e.2.all fun c => (FS.get w.fs (itemPath e.1 c.item)).isSome),
        w.threads[1]?))
      = some (true, true, some (.done (.hit [9, 10] [0, 2]))) := by
  decide

/-- … and so does its conclusion: 2 entries, 33 bytes = 2 files (+ 4 directories) of 19 + 14 bytes -/
example :
    (run (fun _ => 0) true (World.fresh 40 2) exSchedule).map
      (fun w => (w.st.numItems, w.st.totalBytes,
        (w.fs.filter fun e => match e.2 with | .file _ => true | .dir => false).length,
        ((w.fs.filter fun e => match e.2 with | .file _ => true | .dir => false).map
          fun e => match e.2 with | .file c => c.length | .dir => 0).sum,
        w.fs.length))
      = some (2, 33, 2, 33, 6) := by
  decide

/-- re-open of that directory with the same capacity, directory entries enumerated in reverse
    order of creation: the order is legal, the scan ends without a panic, counters exact and equal
    to the totals before, nothing removed from disk -/
example :
    ((run (fun _ => 0) true (World.fresh 40 2) exSchedule).bind fun w =>
      (reopen true w w.fs 40 (w.fs.map Prod.fst).reverse).map fun w' =>
        (orderLegal w.fs (w.fs.map Prod.fst).reverse, w'.st.numItems, cnt w'.st.items, w'.st.totalBytes,
         byt w'.st.items, w'.fs.length))
      = some (true, 2, 2, 33, 33, 6) := by
  decide

/-- … two keys (`B`, `C`) with one entry each -/
example :
    ((run (fun _ => 0) true (World.fresh 40 2) exSchedule).bind fun w =>
      (reopen true w w.fs 40 (w.fs.map Prod.fst).reverse).map fun w' =>
        w'.st.items.map fun e => (e.1, e.2.length))
      = some [(exKB, 1), (exKC, 1)] := by
  decide

/-! ### the hypothesis "every tracked entry has its file" cannot be replaced by "every entry was
read": a stale entry that no `get` can reach -/

def stX : Op := .put exKA ⟨0, 1⟩ [0, 20] (List.replicate 20 7)
def stZ : Op := .put exKC ⟨0, 1⟩ [0, 38] (List.replicate 38 5)
def stY : Op := .put exKA ⟨0, 2⟩ [0, 1, 2] [1, 2]

/-- capacity 80, three threads.  `X = A[0,1)` (32 bytes) is inserted; thread 1 inserts `Z` (50 bytes,
    other key), evicts `X` and is parked before it unlinks `X`'s file; thread 0 begins to insert `X`
    again (no match); thread 2 inserts `Y = A[0,2)`; thread 0 writes and commits `X` (evicting `Z`):
    `X` is now tracked *behind* `Y`, which covers it; thread 1 unlinks `X`'s file; thread 0 unlinks
    `Z`.  Finally thread 1 reads `A[0,1)`, the only range `X` can serve. -/
def stSchedule : List Action :=
  [.start 0 stX, .go 0 {}, .go 0 {},
   .start 1 stZ, .go 1 {}, .go 1 ⟨[(exKA, 0)], 0⟩,
   .start 0 stX,
   .start 2 stY, .go 2 {}, .go 2 {},
   .go 0 {}, .go 0 ⟨[(exKC, 0)], 0⟩,
   .go 1 {}, .go 0 {},
   .start 1 (.get exKA ⟨0, 1⟩), .go 1 {}]

/-- … the read is a hit served from `Y`; at the quiescent end the cache reports 2 entries / 50
    bytes, the directory holds 1 file of 18 bytes, and the entry `X` (second in the list of its
    key, no file) is still tracked: the `find_match` of any `get` it could serve returns `Y` first.
    So read-back alone does not establish the hypothesis `hback` of `C13_disk_full_thm`; the stale
    entry stays until it is evicted or subsumed (or the directory is re-opened:
    `C13_reopen_exact_thm`). -/
theorem C13_stale_entry_witness :
    (run (fun _ => 0) true (World.fresh 80 3) stSchedule).map
      (fun w => (quiescent w, w.st.numItems, w.st.totalBytes,
        (w.fs.filter fun e => match e.2 with | .file _ => true | .dir => false).length,
        w.threads[1]?))
      = some (true, 2, 50, 1, some (.done (.hit [1] [0, 1]))) ∧
    (run (fun _ => 0) true (World.fresh 80 3) stSchedule).map
      (fun w => w.st.items.map (fun e => e.2.map fun c =>
          (c.item.start, c.item.stop, (FS.get w.fs (itemPath e.1 c.item)).isSome)))
      = some [[(0, 2, true), (0, 1, false)]] := by
  decide

end Xet.Cache
