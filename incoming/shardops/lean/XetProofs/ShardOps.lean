/-
Helper lemmas for the shard set operations and directory consolidation (`XetModel/ShardOps.lean`), in file order:
  Part A   the two-way ordered merges `mergeFileLists` / `mergeCasLists`: membership, order, lookup (`unionFind`),
           difference = filter, fuel
  Part B   flag words and the `Merge` record (`mergeFiles`), well-formedness of the merged content (`mergedMem_wf`),
           `setOp` writes `serializeStable` of it
  Part C   `setOpBytes` on serialized well-formed shards
  Part E   `Covers` / `FileSrc` / `RecordsContained`, one group (`unionChain_spec`), `groupEnd`, `consolidateAux_spec`
           (`CStep`, `ConsSpec`, `GuardOK`)
  Part D   relation to the in-memory `MemShard.union` / `MemShard.difference` (`mergeFile`, fold characterisation,
           extensionality of strictly increasing lists)
  then     lookups in a difference, `compareFlagSuperset_spec`, `consolidate_spec` and its directory-level corollaries
Core Lean only; builds on `XetProofs/ShardFormat.lean` (C09 / C05 lemmas).
-/
import XetProofs.ShardFormat
import XetModel.ShardOps

namespace Xet.Shard

/-! ## Part A.0 — the three-way comparison and the flag words -/

theorem hashCmp_lt {a b : Hash} (h : hashLt a b = true) : hashCmp a b = .lt := by simp [hashCmp, h]

theorem hashCmp_self (a : Hash) : hashCmp a a = .eq := by simp [hashCmp, hashLt_irrefl]

theorem hashCmp_gt {a b : Hash} (h : hashLt b a = true) : hashCmp a b = .gt := by
  have h1 := hashLt_asymm h
  have h2 : a ≠ b := fun e => hashLt_ne h e.symm
  simp [hashCmp, h1, h2]

theorem findFile_none_of_lt {h : Hash} {l : List FileInfo} (hl : ∀ y ∈ l, hashLt h y.hash = true) : findFile h l = none :=
  findFile_none.mpr (fun y hy => (hashLt_ne (hl y hy)).symm)

theorem findCas_some {h : Hash} {cs : List CasInfo} {c : CasInfo} (hc : findCas h cs = some c) : c ∈ cs ∧ c.hash = h := by
  induction cs with
  | nil => simp [findCas] at hc
  | cons g rest ih =>
    simp only [findCas] at hc
    split at hc
    · rename_i hg; cases hc; exact ⟨List.mem_cons_self, hg⟩
    · exact ⟨List.mem_cons_of_mem _ (ih hc).1, (ih hc).2⟩

theorem findCas_none {h : Hash} {cs : List CasInfo} : findCas h cs = none ↔ ∀ c ∈ cs, c.hash ≠ h := by
  induction cs with
  | nil => simp [findCas]
  | cons g rest ih =>
    simp only [findCas]
    split
    · rename_i hg; simp [hg]
    · rename_i hg; simp [ih, hg]

theorem findCas_mem {cs : List CasInfo} (hs : cs.Pairwise (fun a b => hashLt a.hash b.hash = true)) {c : CasInfo}
    (hc : c ∈ cs) : findCas c.hash cs = some c := by
  induction cs with
  | nil => cases hc
  | cons g rest ih =>
    rw [List.pairwise_cons] at hs
    simp only [findCas]
    rcases List.mem_cons.mp hc with rfl | hc
    · simp
    · rw [if_neg (hashLt_ne (hs.1 c hc)), ih hs.2 hc]

theorem findCas_none_of_lt {h : Hash} {l : List CasInfo} (hl : ∀ y ∈ l, hashLt h y.hash = true) : findCas h l = none :=
  findCas_none.mpr (fun y hy => (hashLt_ne (hl y hy)).symm)

/-- the record `set_operation` writes for a file hash present in both inputs (`get_next_actions_for_file_info`):
    the first input's record if its flag word equals or includes the second's, the second's if that strictly
    includes the first's, and the rebuilt record `mergeFiles a b` (the `Merge` action) if the flag words are
    incomparable. -/
def unionPick (a b : FileInfo) : FileInfo :=
  match compareFlagSuperset a.flags b.flags with
  | .superA | .equal => a
  | .superB => b
  | .neither => mergeFiles a b

/-- lookup in the union, as a function of the lookups in the inputs -/
def unionFind (x y : Option FileInfo) : Option FileInfo :=
  match x, y with
  | some a, some b => some (unionPick a b)
  | some a, none => some a
  | none, y => y

def unionFindCas (x y : Option CasInfo) : Option CasInfo :=
  match x with
  | some a => some a
  | none => y

theorem mergeFiles_hash (a b : FileInfo) : (mergeFiles a b).hash = a.hash := rfl

theorem unionPick_hash (a b : FileInfo) (h : a.hash = b.hash) : (unionPick a b).hash = a.hash := by
  unfold unionPick; split <;> simp [h, mergeFiles_hash]

/-! ## Part A.1 — `mergeFileLists` -/

/-- `x` is a record of one of the inputs, or the `Merge` of two input records with equal hash and incomparable flags -/
def MergeMem (fa fb : List FileInfo) (x : FileInfo) : Prop :=
  x ∈ fa ∨ x ∈ fb ∨ ∃ a ∈ fa, ∃ b ∈ fb, a.hash = b.hash ∧ compareFlagSuperset a.flags b.flags = .neither ∧ x = mergeFiles a b

theorem MergeMem.mono {fa fb fa' fb' : List FileInfo} {x : FileInfo} (h : MergeMem fa fb x)
    (h1 : ∀ y ∈ fa, y ∈ fa') (h2 : ∀ y ∈ fb, y ∈ fb') : MergeMem fa' fb' x := by
  rcases h with h | h | ⟨a, ha, b, hb, h⟩
  · exact Or.inl (h1 x h)
  · exact Or.inr (Or.inl (h2 x h))
  · exact Or.inr (Or.inr ⟨a, h1 a ha, b, h2 b hb, h⟩)

theorem hashCmp_eq_iff {a b : Hash} : hashCmp a b = .eq → a = b := by
  intro hcmp
  unfold hashCmp at hcmp
  split at hcmp
  · cases hcmp
  · split at hcmp
    · assumption
    · cases hcmp

/-- every record of the merge output is a record of an input or the `Merge` of two input records with equal hash -/
theorem mem_mergeFileLists (op : SetOp) (fuel : Nat) (fa fb : List FileInfo) :
    ∀ x ∈ mergeFileLists op fuel fa fb, MergeMem fa fb x := by
  induction fuel generalizing fa fb with
  | zero => intro x hx; simp [mergeFileLists] at hx
  | succ fuel ih =>
    intro x hx
    have sub : ∀ {l : List FileInfo} {y z : FileInfo}, y ∈ l → y ∈ z :: l := fun h => List.mem_cons_of_mem _ h
    cases fa with
    | nil =>
      cases fb with
      | nil => simp [mergeFileLists] at hx
      | cons b bs =>
        simp only [mergeFileLists, List.mem_cons] at hx
        rcases hx with rfl | hx
        · exact Or.inr (Or.inl List.mem_cons_self)
        · exact (ih [] bs x hx).mono (fun y hy => hy) (fun y hy => sub hy)
    | cons a as =>
      cases fb with
      | nil =>
        simp only [mergeFileLists] at hx
        have key : x ∈ mergeFileLists op fuel as [] → MergeMem (a :: as) [] x := fun hx =>
          (ih as [] x hx).mono (fun y hy => sub hy) (fun y hy => hy)
        split at hx
        · rcases List.mem_cons.mp hx with rfl | hx
          · exact Or.inl List.mem_cons_self
          · exact key hx
        · exact key hx
      | cons b bs =>
        simp only [mergeFileLists] at hx
        have lift1 : x ∈ mergeFileLists op fuel as (b :: bs) → MergeMem (a :: as) (b :: bs) x := fun hx =>
          (ih _ _ x hx).mono (fun y hy => sub hy) (fun y hy => hy)
        have lift2 : x ∈ mergeFileLists op fuel (a :: as) bs → MergeMem (a :: as) (b :: bs) x := fun hx =>
          (ih _ _ x hx).mono (fun y hy => hy) (fun y hy => sub hy)
        have lift3 : x ∈ mergeFileLists op fuel as bs → MergeMem (a :: as) (b :: bs) x := fun hx =>
          (ih _ _ x hx).mono (fun y hy => sub hy) (fun y hy => sub hy)
        split at hx
        · split at hx
          · rcases List.mem_cons.mp hx with rfl | hx
            · exact Or.inl List.mem_cons_self
            · exact lift1 hx
          · exact lift1 hx
        · rcases List.mem_cons.mp hx with rfl | hx
          · exact Or.inr (Or.inl List.mem_cons_self)
          · exact lift2 hx
        · rename_i hcmp
          have hab : a.hash = b.hash := hashCmp_eq_iff hcmp
          split at hx
          · split at hx
            · rcases List.mem_cons.mp hx with rfl | hx
              · exact Or.inl List.mem_cons_self
              · exact lift3 hx
            · rcases List.mem_cons.mp hx with rfl | hx
              · exact Or.inl List.mem_cons_self
              · exact lift3 hx
            · rcases List.mem_cons.mp hx with rfl | hx
              · exact Or.inr (Or.inl List.mem_cons_self)
              · exact lift3 hx
            · rename_i hn
              rcases List.mem_cons.mp hx with rfl | hx
              · exact Or.inr (Or.inr ⟨a, List.mem_cons_self, b, List.mem_cons_self, hab, hn, rfl⟩)
              · exact lift3 hx
          · exact lift3 hx

theorem MergeMem.lt {fa fb : List FileInfo} {x : FileInfo} {h : Hash} (hm : MergeMem fa fb x)
    (h1 : ∀ y ∈ fa, hashLt h y.hash = true) (h2 : ∀ y ∈ fb, hashLt h y.hash = true) : hashLt h x.hash = true := by
  rcases hm with hm | hm | ⟨a, ha, b, _, _, _, rfl⟩
  · exact h1 x hm
  · exact h2 x hm
  · exact h1 a ha

/-! ### the defining equations, one per row of the action table -/

theorem findFile_cons (h : Hash) (f : FileInfo) (rest : List FileInfo) :
    findFile h (f :: rest) = if f.hash = h then some f else findFile h rest := rfl

theorem findCas_cons (h : Hash) (f : CasInfo) (rest : List CasInfo) :
    findCas h (f :: rest) = if f.hash = h then some f else findCas h rest := rfl

theorem mfl_u1 (n : Nat) (a : FileInfo) (as : List FileInfo) :
    mergeFileLists .union (n + 1) (a :: as) [] = a :: mergeFileLists .union n as [] := by simp [mergeFileLists]
theorem mfl_u2 (n : Nat) (b : FileInfo) (bs : List FileInfo) :
    mergeFileLists .union (n + 1) [] (b :: bs) = b :: mergeFileLists .union n [] bs := by simp [mergeFileLists]
theorem mfl_u3 (n : Nat) (a : FileInfo) (as : List FileInfo) (b : FileInfo) (bs : List FileInfo) (h : hashLt a.hash b.hash = true) :
    mergeFileLists .union (n + 1) (a :: as) (b :: bs) = a :: mergeFileLists .union n as (b :: bs) := by
  simp [mergeFileLists, hashCmp_lt h]
theorem mfl_u4 (n : Nat) (a : FileInfo) (as : List FileInfo) (b : FileInfo) (bs : List FileInfo) (h : hashLt b.hash a.hash = true) :
    mergeFileLists .union (n + 1) (a :: as) (b :: bs) = b :: mergeFileLists .union n (a :: as) bs := by
  simp [mergeFileLists, hashCmp_gt h]
theorem mfl_u5 (n : Nat) (a : FileInfo) (as : List FileInfo) (b : FileInfo) (bs : List FileInfo) (h : a.hash = b.hash) :
    mergeFileLists .union (n + 1) (a :: as) (b :: bs) = unionPick a b :: mergeFileLists .union n as bs := by
  simp only [mergeFileLists, h, hashCmp_self, if_true, unionPick]
  generalize compareFlagSuperset a.flags b.flags = s
  cases s <;> rfl

theorem mfl_d1 (n : Nat) (a : FileInfo) (as : List FileInfo) :
    mergeFileLists .difference (n + 1) (a :: as) [] = mergeFileLists .difference n as [] := by simp [mergeFileLists]
theorem mfl_d2 (n : Nat) (b : FileInfo) (bs : List FileInfo) :
    mergeFileLists .difference (n + 1) [] (b :: bs) = b :: mergeFileLists .difference n [] bs := by simp [mergeFileLists]
theorem mfl_d3 (n : Nat) (a : FileInfo) (as : List FileInfo) (b : FileInfo) (bs : List FileInfo) (h : hashLt a.hash b.hash = true) :
    mergeFileLists .difference (n + 1) (a :: as) (b :: bs) = mergeFileLists .difference n as (b :: bs) := by
  simp [mergeFileLists, hashCmp_lt h]
theorem mfl_d4 (n : Nat) (a : FileInfo) (as : List FileInfo) (b : FileInfo) (bs : List FileInfo) (h : hashLt b.hash a.hash = true) :
    mergeFileLists .difference (n + 1) (a :: as) (b :: bs) = b :: mergeFileLists .difference n (a :: as) bs := by
  simp [mergeFileLists, hashCmp_gt h]
theorem mfl_d5 (n : Nat) (a : FileInfo) (as : List FileInfo) (b : FileInfo) (bs : List FileInfo) (h : a.hash = b.hash) :
    mergeFileLists .difference (n + 1) (a :: as) (b :: bs) = mergeFileLists .difference n as bs := by
  simp [mergeFileLists, h, hashCmp_self]

/-- **union keeps the order**: the output of the file-section merge is strictly increasing -/
theorem mergeFileLists_union_sorted (n : Nat) (fa fb : List FileInfo)
    (ha : fa.Pairwise (fun a b => hashLt a.hash b.hash = true)) (hb : fb.Pairwise (fun a b => hashLt a.hash b.hash = true)) :
    (mergeFileLists .union n fa fb).Pairwise (fun a b => hashLt a.hash b.hash = true) := by
  induction n generalizing fa fb with
  | zero => simp [mergeFileLists]
  | succ n ih =>
    cases fa with
    | nil =>
      cases fb with
      | nil => simp [mergeFileLists]
      | cons b bs =>
        rw [mfl_u2]
        rw [List.pairwise_cons] at hb
        refine List.pairwise_cons.mpr ⟨fun x hx => ?_, ih _ _ ha hb.2⟩
        exact (mem_mergeFileLists _ _ _ _ x hx).lt (fun y hy => by cases hy) hb.1
    | cons a as =>
      have ha' := List.pairwise_cons.mp ha
      cases fb with
      | nil =>
        rw [mfl_u1]
        refine List.pairwise_cons.mpr ⟨fun x hx => ?_, ih _ _ ha'.2 hb⟩
        exact (mem_mergeFileLists _ _ _ _ x hx).lt ha'.1 (fun y hy => by cases hy)
      | cons b bs =>
        have hb' := List.pairwise_cons.mp hb
        rcases hashLt_trichotomy a.hash b.hash with hlt | heq | hgt
        · rw [mfl_u3 _ _ _ _ _ hlt]
          refine List.pairwise_cons.mpr ⟨fun x hx => ?_, ih _ _ ha'.2 hb⟩
          refine (mem_mergeFileLists _ _ _ _ x hx).lt ha'.1 (fun y hy => ?_)
          rcases List.mem_cons.mp hy with rfl | hy
          · exact hlt
          · exact hashLt_trans hlt (hb'.1 y hy)
        · rw [mfl_u5 _ _ _ _ _ heq]
          refine List.pairwise_cons.mpr ⟨fun x hx => ?_, ih _ _ ha'.2 hb'.2⟩
          rw [unionPick_hash a b heq]
          exact (mem_mergeFileLists _ _ _ _ x hx).lt ha'.1 (fun y hy => by rw [heq]; exact hb'.1 y hy)
        · rw [mfl_u4 _ _ _ _ _ hgt]
          refine List.pairwise_cons.mpr ⟨fun x hx => ?_, ih _ _ ha hb'.2⟩
          refine (mem_mergeFileLists _ _ _ _ x hx).lt (fun y hy => ?_) hb'.1
          rcases List.mem_cons.mp hy with rfl | hy
          · exact hgt
          · exact hashLt_trans hgt (ha'.1 y hy)

/-- **lookup in the union** (fuel `> |fa| + |fb|` suffices): for every hash, what the merged list holds is determined by
    what the two inputs hold — `unionFind`. -/
theorem findFile_union (n : Nat) (fa fb : List FileInfo)
    (ha : fa.Pairwise (fun a b => hashLt a.hash b.hash = true)) (hb : fb.Pairwise (fun a b => hashLt a.hash b.hash = true))
    (hf : fa.length + fb.length < n) (h : Hash) :
    findFile h (mergeFileLists .union n fa fb) = unionFind (findFile h fa) (findFile h fb) := by
  induction n generalizing fa fb with
  | zero => omega
  | succ n ih =>
    cases fa with
    | nil =>
      cases fb with
      | nil => simp [mergeFileLists, findFile, unionFind]
      | cons b bs =>
        rw [mfl_u2, findFile_cons, findFile_cons, ih _ _ ha (List.pairwise_cons.mp hb).2 (by simp at hf ⊢; omega)]
        split <;> rfl
    | cons a as =>
      have ha' := List.pairwise_cons.mp ha
      cases fb with
      | nil =>
        rw [mfl_u1, findFile_cons, findFile_cons, ih _ _ ha'.2 hb (by simp at hf ⊢; omega)]
        split <;> rfl
      | cons b bs =>
        have hb' := List.pairwise_cons.mp hb
        rcases hashLt_trichotomy a.hash b.hash with hlt | heq | hgt
        · rw [mfl_u3 _ _ _ _ _ hlt, findFile_cons, findFile_cons h a, ih _ _ ha'.2 hb (by simp at hf ⊢; omega)]
          split
          · rename_i e; subst e
            have : findFile a.hash (b :: bs) = none := findFile_none_of_lt (fun y hy => by
              rcases List.mem_cons.mp hy with rfl | hy
              · exact hlt
              · exact hashLt_trans hlt (hb'.1 y hy))
            rw [this]; rfl
          · rfl
        · rw [mfl_u5 _ _ _ _ _ heq, findFile_cons, findFile_cons h a, findFile_cons h b, unionPick_hash a b heq,
            ih _ _ ha'.2 hb'.2 (by simp at hf ⊢; omega)]
          by_cases e : a.hash = h
          · rw [if_pos e, if_pos e, if_pos (heq ▸ e)]; rfl
          · rw [if_neg e, if_neg e, if_neg (heq ▸ e)]
        · rw [mfl_u4 _ _ _ _ _ hgt, findFile_cons, findFile_cons h b, ih _ _ ha hb'.2 (by simp at hf ⊢; omega)]
          split
          · rename_i e; subst e
            have : findFile b.hash (a :: as) = none := findFile_none_of_lt (fun y hy => by
              rcases List.mem_cons.mp hy with rfl | hy
              · exact hgt
              · exact hashLt_trans hgt (ha'.1 y hy))
            rw [this]; rfl
          · rfl

/-- **difference**: the output is exactly the records of the second input whose hash is not in the first, in order
    (the same expression as `MDBInMemoryShard::difference`). -/
theorem mergeFileLists_difference (n : Nat) (fa fb : List FileInfo)
    (ha : fa.Pairwise (fun a b => hashLt a.hash b.hash = true)) (hb : fb.Pairwise (fun a b => hashLt a.hash b.hash = true))
    (hf : fa.length + fb.length < n) :
    mergeFileLists .difference n fa fb = fb.filter (fun f => (findFile f.hash fa).isNone) := by
  induction n generalizing fa fb with
  | zero => omega
  | succ n ih =>
    cases fa with
    | nil =>
      cases fb with
      | nil => simp [mergeFileLists]
      | cons b bs =>
        rw [mfl_d2, ih _ _ ha (List.pairwise_cons.mp hb).2 (by simp at hf ⊢; omega)]
        simp [findFile]
    | cons a as =>
      have ha' := List.pairwise_cons.mp ha
      cases fb with
      | nil => rw [mfl_d1, ih _ _ ha'.2 hb (by simp at hf ⊢; omega)]; rfl
      | cons b bs =>
        have hb' := List.pairwise_cons.mp hb
        rcases hashLt_trichotomy a.hash b.hash with hlt | heq | hgt
        · rw [mfl_d3 _ _ _ _ _ hlt, ih _ _ ha'.2 hb (by simp at hf ⊢; omega)]
          apply List.filter_congr
          intro y hy
          have : a.hash ≠ y.hash := by
            rcases List.mem_cons.mp hy with rfl | hy
            · exact hashLt_ne hlt
            · exact hashLt_ne (hashLt_trans hlt (hb'.1 y hy))
          rw [findFile_cons, if_neg this]
        · rw [mfl_d5 _ _ _ _ _ heq, ih _ _ ha'.2 hb'.2 (by simp at hf ⊢; omega)]
          rw [List.filter_cons, findFile_cons, if_pos heq]
          simp only [Option.isNone_some, Bool.false_eq_true, if_false]
          apply List.filter_congr
          intro y hy
          have : a.hash ≠ y.hash := by rw [heq]; exact hashLt_ne (hb'.1 y hy)
          rw [findFile_cons, if_neg this]
        · rw [mfl_d4 _ _ _ _ _ hgt, ih _ _ ha hb'.2 (by simp at hf ⊢; omega)]
          have : findFile b.hash (a :: as) = none := findFile_none_of_lt (fun y hy => by
            rcases List.mem_cons.mp hy with rfl | hy
            · exact hgt
            · exact hashLt_trans hgt (ha'.1 y hy))
          rw [List.filter_cons, this]
          simp

/-! ## Part A.2 — `mergeCasLists` (same merge without the flag rule: on equal hashes the first input's block is kept) -/

theorem mem_mergeCasLists (op : SetOp) (fuel : Nat) (ca cb : List CasInfo) :
    ∀ x ∈ mergeCasLists op fuel ca cb, x ∈ ca ∨ x ∈ cb := by
  induction fuel generalizing ca cb with
  | zero => intro x hx; simp [mergeCasLists] at hx
  | succ fuel ih =>
    intro x hx
    have sub : ∀ {l : List CasInfo} {y z : CasInfo}, y ∈ l → y ∈ z :: l := fun h => List.mem_cons_of_mem _ h
    cases ca with
    | nil =>
      cases cb with
      | nil => simp [mergeCasLists] at hx
      | cons b bs =>
        simp only [mergeCasLists, List.mem_cons] at hx
        rcases hx with rfl | hx
        · exact Or.inr List.mem_cons_self
        · exact (ih [] bs x hx).imp id sub
    | cons a as =>
      cases cb with
      | nil =>
        simp only [mergeCasLists] at hx
        split at hx
        · rcases List.mem_cons.mp hx with rfl | hx
          · exact Or.inl List.mem_cons_self
          · exact (ih as [] x hx).imp sub id
        · exact (ih as [] x hx).imp sub id
      | cons b bs =>
        simp only [mergeCasLists] at hx
        split at hx
        · split at hx
          · rcases List.mem_cons.mp hx with rfl | hx
            · exact Or.inl List.mem_cons_self
            · exact (ih _ _ x hx).imp sub id
          · exact (ih _ _ x hx).imp sub id
        · rcases List.mem_cons.mp hx with rfl | hx
          · exact Or.inr List.mem_cons_self
          · exact (ih _ _ x hx).imp id sub
        · split at hx
          · rcases List.mem_cons.mp hx with rfl | hx
            · exact Or.inl List.mem_cons_self
            · exact (ih _ _ x hx).imp sub sub
          · exact (ih _ _ x hx).imp sub sub

theorem mcl_u1 (n : Nat) (a : CasInfo) (as : List CasInfo) :
    mergeCasLists .union (n + 1) (a :: as) [] = a :: mergeCasLists .union n as [] := by simp [mergeCasLists]
theorem mcl_u2 (n : Nat) (b : CasInfo) (bs : List CasInfo) :
    mergeCasLists .union (n + 1) [] (b :: bs) = b :: mergeCasLists .union n [] bs := by simp [mergeCasLists]
theorem mcl_u3 (n : Nat) (a : CasInfo) (as : List CasInfo) (b : CasInfo) (bs : List CasInfo) (h : hashLt a.hash b.hash = true) :
    mergeCasLists .union (n + 1) (a :: as) (b :: bs) = a :: mergeCasLists .union n as (b :: bs) := by
  simp [mergeCasLists, hashCmp_lt h]
theorem mcl_u4 (n : Nat) (a : CasInfo) (as : List CasInfo) (b : CasInfo) (bs : List CasInfo) (h : hashLt b.hash a.hash = true) :
    mergeCasLists .union (n + 1) (a :: as) (b :: bs) = b :: mergeCasLists .union n (a :: as) bs := by
  simp [mergeCasLists, hashCmp_gt h]
theorem mcl_u5 (n : Nat) (a : CasInfo) (as : List CasInfo) (b : CasInfo) (bs : List CasInfo) (h : a.hash = b.hash) :
    mergeCasLists .union (n + 1) (a :: as) (b :: bs) = a :: mergeCasLists .union n as bs := by
  simp [mergeCasLists, h, hashCmp_self]

theorem mcl_d1 (n : Nat) (a : CasInfo) (as : List CasInfo) :
    mergeCasLists .difference (n + 1) (a :: as) [] = mergeCasLists .difference n as [] := by simp [mergeCasLists]
theorem mcl_d2 (n : Nat) (b : CasInfo) (bs : List CasInfo) :
    mergeCasLists .difference (n + 1) [] (b :: bs) = b :: mergeCasLists .difference n [] bs := by simp [mergeCasLists]
theorem mcl_d3 (n : Nat) (a : CasInfo) (as : List CasInfo) (b : CasInfo) (bs : List CasInfo) (h : hashLt a.hash b.hash = true) :
    mergeCasLists .difference (n + 1) (a :: as) (b :: bs) = mergeCasLists .difference n as (b :: bs) := by
  simp [mergeCasLists, hashCmp_lt h]
theorem mcl_d4 (n : Nat) (a : CasInfo) (as : List CasInfo) (b : CasInfo) (bs : List CasInfo) (h : hashLt b.hash a.hash = true) :
    mergeCasLists .difference (n + 1) (a :: as) (b :: bs) = b :: mergeCasLists .difference n (a :: as) bs := by
  simp [mergeCasLists, hashCmp_gt h]
theorem mcl_d5 (n : Nat) (a : CasInfo) (as : List CasInfo) (b : CasInfo) (bs : List CasInfo) (h : a.hash = b.hash) :
    mergeCasLists .difference (n + 1) (a :: as) (b :: bs) = mergeCasLists .difference n as bs := by
  simp [mergeCasLists, h, hashCmp_self]

theorem lt_of_mem_mergeCas {op : SetOp} {n : Nat} {ca cb : List CasInfo} {x : CasInfo} {h : Hash}
    (hx : x ∈ mergeCasLists op n ca cb)
    (h1 : ∀ y ∈ ca, hashLt h y.hash = true) (h2 : ∀ y ∈ cb, hashLt h y.hash = true) : hashLt h x.hash = true := by
  rcases mem_mergeCasLists _ _ _ _ x hx with hm | hm
  · exact h1 x hm
  · exact h2 x hm

theorem mergeCasLists_union_sorted (n : Nat) (ca cb : List CasInfo)
    (ha : ca.Pairwise (fun a b => hashLt a.hash b.hash = true)) (hb : cb.Pairwise (fun a b => hashLt a.hash b.hash = true)) :
    (mergeCasLists .union n ca cb).Pairwise (fun a b => hashLt a.hash b.hash = true) := by
  induction n generalizing ca cb with
  | zero => simp [mergeCasLists]
  | succ n ih =>
    cases ca with
    | nil =>
      cases cb with
      | nil => simp [mergeCasLists]
      | cons b bs =>
        rw [mcl_u2]
        rw [List.pairwise_cons] at hb
        refine List.pairwise_cons.mpr ⟨fun x hx => ?_, ih _ _ ha hb.2⟩
        exact lt_of_mem_mergeCas hx (fun y hy => by cases hy) hb.1
    | cons a as =>
      have ha' := List.pairwise_cons.mp ha
      cases cb with
      | nil =>
        rw [mcl_u1]
        refine List.pairwise_cons.mpr ⟨fun x hx => ?_, ih _ _ ha'.2 hb⟩
        exact lt_of_mem_mergeCas hx ha'.1 (fun y hy => by cases hy)
      | cons b bs =>
        have hb' := List.pairwise_cons.mp hb
        rcases hashLt_trichotomy a.hash b.hash with hlt | heq | hgt
        · rw [mcl_u3 _ _ _ _ _ hlt]
          refine List.pairwise_cons.mpr ⟨fun x hx => ?_, ih _ _ ha'.2 hb⟩
          refine lt_of_mem_mergeCas hx ha'.1 (fun y hy => ?_)
          rcases List.mem_cons.mp hy with rfl | hy
          · exact hlt
          · exact hashLt_trans hlt (hb'.1 y hy)
        · rw [mcl_u5 _ _ _ _ _ heq]
          refine List.pairwise_cons.mpr ⟨fun x hx => ?_, ih _ _ ha'.2 hb'.2⟩
          exact lt_of_mem_mergeCas hx ha'.1 (fun y hy => by rw [heq]; exact hb'.1 y hy)
        · rw [mcl_u4 _ _ _ _ _ hgt]
          refine List.pairwise_cons.mpr ⟨fun x hx => ?_, ih _ _ ha hb'.2⟩
          refine lt_of_mem_mergeCas hx (fun y hy => ?_) hb'.1
          rcases List.mem_cons.mp hy with rfl | hy
          · exact hgt
          · exact hashLt_trans hgt (ha'.1 y hy)

theorem findCas_union (n : Nat) (ca cb : List CasInfo)
    (ha : ca.Pairwise (fun a b => hashLt a.hash b.hash = true)) (hb : cb.Pairwise (fun a b => hashLt a.hash b.hash = true))
    (hf : ca.length + cb.length < n) (h : Hash) :
    findCas h (mergeCasLists .union n ca cb) = unionFindCas (findCas h ca) (findCas h cb) := by
  induction n generalizing ca cb with
  | zero => omega
  | succ n ih =>
    cases ca with
    | nil =>
      cases cb with
      | nil => simp [mergeCasLists, findCas, unionFindCas]
      | cons b bs =>
        rw [mcl_u2, findCas_cons, findCas_cons, ih _ _ ha (List.pairwise_cons.mp hb).2 (by simp at hf ⊢; omega)]
        split <;> rfl
    | cons a as =>
      have ha' := List.pairwise_cons.mp ha
      cases cb with
      | nil =>
        rw [mcl_u1, findCas_cons, findCas_cons, ih _ _ ha'.2 hb (by simp at hf ⊢; omega)]
        split <;> rfl
      | cons b bs =>
        have hb' := List.pairwise_cons.mp hb
        rcases hashLt_trichotomy a.hash b.hash with hlt | heq | hgt
        · rw [mcl_u3 _ _ _ _ _ hlt, findCas_cons, findCas_cons h a, ih _ _ ha'.2 hb (by simp at hf ⊢; omega)]
          split <;> rfl
        · rw [mcl_u5 _ _ _ _ _ heq, findCas_cons, findCas_cons h a, findCas_cons h b,
            ih _ _ ha'.2 hb'.2 (by simp at hf ⊢; omega)]
          by_cases e : a.hash = h
          · rw [if_pos e, if_pos e]; rfl
          · rw [if_neg e, if_neg e, if_neg (heq ▸ e)]
        · rw [mcl_u4 _ _ _ _ _ hgt, findCas_cons, findCas_cons h b, ih _ _ ha hb'.2 (by simp at hf ⊢; omega)]
          split
          · rename_i e; subst e
            have : findCas b.hash (a :: as) = none := findCas_none_of_lt (fun y hy => by
              rcases List.mem_cons.mp hy with rfl | hy
              · exact hgt
              · exact hashLt_trans hgt (ha'.1 y hy))
            rw [this]; rfl
          · rfl

theorem mergeCasLists_difference (n : Nat) (ca cb : List CasInfo)
    (ha : ca.Pairwise (fun a b => hashLt a.hash b.hash = true)) (hb : cb.Pairwise (fun a b => hashLt a.hash b.hash = true))
    (hf : ca.length + cb.length < n) :
    mergeCasLists .difference n ca cb = cb.filter (fun f => (findCas f.hash ca).isNone) := by
  induction n generalizing ca cb with
  | zero => omega
  | succ n ih =>
    cases ca with
    | nil =>
      cases cb with
      | nil => simp [mergeCasLists]
      | cons b bs =>
        rw [mcl_d2, ih _ _ ha (List.pairwise_cons.mp hb).2 (by simp at hf ⊢; omega)]
        simp [findCas]
    | cons a as =>
      have ha' := List.pairwise_cons.mp ha
      cases cb with
      | nil => rw [mcl_d1, ih _ _ ha'.2 hb (by simp at hf ⊢; omega)]; rfl
      | cons b bs =>
        have hb' := List.pairwise_cons.mp hb
        rcases hashLt_trichotomy a.hash b.hash with hlt | heq | hgt
        · rw [mcl_d3 _ _ _ _ _ hlt, ih _ _ ha'.2 hb (by simp at hf ⊢; omega)]
          apply List.filter_congr
          intro y hy
          have : a.hash ≠ y.hash := by
            rcases List.mem_cons.mp hy with rfl | hy
            · exact hashLt_ne hlt
            · exact hashLt_ne (hashLt_trans hlt (hb'.1 y hy))
          rw [findCas_cons, if_neg this]
        · rw [mcl_d5 _ _ _ _ _ heq, ih _ _ ha'.2 hb'.2 (by simp at hf ⊢; omega)]
          rw [List.filter_cons, findCas_cons, if_pos heq]
          simp only [Option.isNone_some, Bool.false_eq_true, if_false]
          apply List.filter_congr
          intro y hy
          have : a.hash ≠ y.hash := by rw [heq]; exact hashLt_ne (hb'.1 y hy)
          rw [findCas_cons, if_neg this]
        · rw [mcl_d4 _ _ _ _ _ hgt, ih _ _ ha hb'.2 (by simp at hf ⊢; omega)]
          have : findCas b.hash (a :: as) = none := findCas_none_of_lt (fun y hy => by
            rcases List.mem_cons.mp hy with rfl | hy
            · exact hgt
            · exact hashLt_trans hgt (ha'.1 y hy))
          rw [List.filter_cons, this]
          simp

/-! ## Part B.1 — flag words, the `Merge` record, well-formedness of the records written -/

theorem flagVerification_eq : flagVerification = 2 ^ 31 := by decide
theorem flagMetadataExt_eq : flagMetadataExt = 2 ^ 30 := by decide

theorem flagsInclude_bit {a b : Nat} (h : flagsInclude a b = true) (i : Nat) (hi : i < 32) :
    hasBit b (2 ^ i) = true → hasBit a (2 ^ i) = true := by
  unfold flagsInclude at h
  rw [List.all_eq_true] at h
  have := h i (List.mem_range.mpr hi)
  intro hb
  simpa [hb] using this

theorem compare_superA {a b : Nat} (h : compareFlagSuperset a b = .superA) : flagsInclude a b = true := by
  unfold compareFlagSuperset at h
  split at h
  · cases h
  · split at h
    · assumption
    · split at h <;> cases h

theorem compare_equal {a b : Nat} (h : compareFlagSuperset a b = .equal) : a = b := by
  unfold compareFlagSuperset at h
  split at h
  · assumption
  · split at h
    · cases h
    · split at h <;> cases h

theorem compare_superB {a b : Nat} (h : compareFlagSuperset a b = .superB) : flagsInclude b a = true := by
  unfold compareFlagSuperset at h
  split at h
  · cases h
  · split at h
    · cases h
    · split at h
      · assumption
      · cases h

theorem hasVerif_of_include {a b : FileInfo} (h : flagsInclude a.flags b.flags = true) :
    b.hasVerif = true → a.hasVerif = true := by
  unfold FileInfo.hasVerif; rw [flagVerification_eq]; exact flagsInclude_bit h 31 (by omega)

theorem hasMeta_of_include {a b : FileInfo} (h : flagsInclude a.flags b.flags = true) :
    b.hasMeta = true → a.hasMeta = true := by
  unfold FileInfo.hasMeta; rw [flagMetadataExt_eq]; exact flagsInclude_bit h 30 (by omega)

theorem mergeFiles_flags (a b : FileInfo) :
    (mergeFiles a b).flags = (if (a.hasVerif || b.hasVerif) = true then flagVerification else 0)
      + (if (a.hasMeta || b.hasMeta) = true then flagMetadataExt else 0) := rfl

theorem mergeFiles_hasVerif (a b : FileInfo) : (mergeFiles a b).hasVerif = (a.hasVerif || b.hasVerif) := by
  rw [FileInfo.hasVerif, mergeFiles_flags]
  cases (a.hasVerif || b.hasVerif) <;> cases (a.hasMeta || b.hasMeta) <;> decide

theorem mergeFiles_hasMeta (a b : FileInfo) : (mergeFiles a b).hasMeta = (a.hasMeta || b.hasMeta) := by
  rw [FileInfo.hasMeta, mergeFiles_flags]
  cases (a.hasVerif || b.hasVerif) <;> cases (a.hasMeta || b.hasMeta) <;> decide

theorem mergeFiles_flags_lt (a b : FileInfo) : (mergeFiles a b).flags < 4294967296 := by
  rw [mergeFiles_flags]
  cases (a.hasVerif || b.hasVerif) <;> cases (a.hasMeta || b.hasMeta) <;> decide

/-- `verify_same_file`: the code's documented assumption about two records of the same file -/
def SameFileSameSegments (fa fb : List FileInfo) : Prop :=
  ∀ a ∈ fa, ∀ b ∈ fb, a.hash = b.hash → a.numEntries = b.numEntries ∧ a.segs = b.segs

/-- the record rebuilt by the `Merge` action is well-formed **provided both headers carry the same entry count**
    (the verification entries copied from the second record are `b.num_entries` many, the header says
    `a.num_entries`) -/
theorem mergeFiles_wf {a b : FileInfo} (wa : a.WF) (wb : b.WF) (hn : a.numEntries = b.numEntries) : (mergeFiles a b).WF := by
  obtain ⟨a1, a2, a3, a4, a5, a6, a7, a8⟩ := wa
  obtain ⟨b1, b2, b3, b4, b5, b6, b7, b8⟩ := wb
  have hs : b.segs.length = a.segs.length := by omega
  have e : (mergeFiles a b).segs = a.segs := rfl
  refine ⟨a1, mergeFiles_flags_lt a b, a3, a4, (by show (0 : Nat) < 18446744073709551616; decide), a6, ?_, ?_⟩
  · rw [mergeFiles_hasVerif, e]
    show (if a.hasVerif = true then a.verif else if b.hasVerif = true then b.verif else []).length = _
    cases hva : a.hasVerif <;> cases hvb : b.hasVerif <;> simp [hva, hvb] at a7 b7 ⊢ <;> omega
  · rw [mergeFiles_hasMeta]
    show (if a.hasMeta = true then a.metaExt else if b.hasMeta = true then b.metaExt else none).isSome = _
    cases hma : a.hasMeta <;> cases hmb : b.hasMeta <;> simp [hma, hmb] at a8 b8 ⊢ <;> assumption

theorem mergeFiles_tailRecs_le {a b : FileInfo} (hs : a.segs.length = b.segs.length) :
    (mergeFiles a b).tailRecs ≤ a.tailRecs + b.tailRecs + 1 := by
  have e : (mergeFiles a b).segs = a.segs := rfl
  rw [FileInfo.tailRecs, mergeFiles_hasVerif, mergeFiles_hasMeta, FileInfo.tailRecs, FileInfo.tailRecs, e]
  cases a.hasVerif <;> cases b.hasVerif <;> cases a.hasMeta <;> cases b.hasMeta <;> simp <;> omega

theorem mergeFiles_numRecs_le {a b : FileInfo} (wa : a.WF) (wb : b.WF) (hn : a.numEntries = b.numEntries) :
    (mergeFiles a b).numRecs ≤ a.numRecs + b.numRecs := by
  have hs : a.segs.length = b.segs.length := by have := wa.2.2.1; have := wb.2.2.1; omega
  rw [FileInfo.numRecs_eq _ (mergeFiles_wf wa wb hn), FileInfo.numRecs_eq _ wa, FileInfo.numRecs_eq _ wb]
  have := mergeFiles_tailRecs_le hs
  omega

/-- what the well-formedness of the `Merge` output needs from `verify_same_file`: equal entry counts, and only for
    pairs that actually take the `Merge` branch (same hash, incomparable flag words) -/
def MergeEntriesAgree (fa fb : List FileInfo) : Prop :=
  ∀ a ∈ fa, ∀ b ∈ fb, a.hash = b.hash → compareFlagSuperset a.flags b.flags = .neither → a.numEntries = b.numEntries

theorem SameFileSameSegments.agree {fa fb : List FileInfo} (h : SameFileSameSegments fa fb) : MergeEntriesAgree fa fb :=
  fun a ha b hb hab _ => (h a ha b hb hab).1

theorem mergeMem_wf {fa fb : List FileInfo} (wa : ∀ f ∈ fa, f.WF) (wb : ∀ f ∈ fb, f.WF) (hs : MergeEntriesAgree fa fb)
    {x : FileInfo} (hx : MergeMem fa fb x) : x.WF := by
  rcases hx with h | h | ⟨a, ha, b, hb, hab, hn, rfl⟩
  · exact wa x h
  · exact wb x h
  · exact mergeFiles_wf (wa a ha) (wb b hb) (hs a ha b hb hab hn)

/-! ## Part B.2 — additive measures of the merged lists -/

theorem sumMap_filter_le {α} (g : α → Nat) (p : α → Bool) (l : List α) : sumMap g (l.filter p) ≤ sumMap g l := by
  induction l with
  | nil => simp [sumMap]
  | cons x xs ih =>
    rw [List.filter_cons]
    split
    · simp only [sumMap_cons]; omega
    · simp only [sumMap_cons]; omega

theorem unionPick_le (g : FileInfo → Nat) (a b : FileInfo)
    (h : compareFlagSuperset a.flags b.flags = .neither → g (mergeFiles a b) ≤ g a + g b) :
    g (unionPick a b) ≤ g a + g b := by
  unfold unionPick
  split
  · omega
  · omega
  · omega
  · rename_i hn; have := h hn; omega

theorem sumMap_mergeFileLists_union_le (g : FileInfo → Nat) (n : Nat) (fa fb : List FileInfo)
    (hg : ∀ a ∈ fa, ∀ b ∈ fb, a.hash = b.hash → compareFlagSuperset a.flags b.flags = .neither →
      g (mergeFiles a b) ≤ g a + g b) :
    sumMap g (mergeFileLists .union n fa fb) ≤ sumMap g fa + sumMap g fb := by
  induction n generalizing fa fb with
  | zero => simp [mergeFileLists, sumMap]
  | succ n ih =>
    cases fa with
    | nil =>
      cases fb with
      | nil => simp [mergeFileLists, sumMap]
      | cons b bs =>
        have := ih [] bs (fun a ha => by cases ha)
        rw [mfl_u2]; simp only [sumMap_cons, sumMap_nil] at this ⊢; omega
    | cons a as =>
      cases fb with
      | nil =>
        have := ih as [] (fun a _ b hb => by cases hb)
        rw [mfl_u1]; simp only [sumMap_cons, sumMap_nil] at this ⊢; omega
      | cons b bs =>
        rcases hashLt_trichotomy a.hash b.hash with hlt | heq | hgt
        · have := ih as (b :: bs) (fun x hx y hy => hg x (List.mem_cons_of_mem _ hx) y hy)
          rw [mfl_u3 _ _ _ _ _ hlt]; simp only [sumMap_cons] at this ⊢; omega
        · have := ih as bs (fun x hx y hy => hg x (List.mem_cons_of_mem _ hx) y (List.mem_cons_of_mem _ hy))
          have h2 := unionPick_le g a b (hg a List.mem_cons_self b List.mem_cons_self heq)
          rw [mfl_u5 _ _ _ _ _ heq]; simp only [sumMap_cons] at this ⊢; omega
        · have := ih (a :: as) bs (fun x hx y hy => hg x hx y (List.mem_cons_of_mem _ hy))
          rw [mfl_u4 _ _ _ _ _ hgt]; simp only [sumMap_cons] at this ⊢; omega

theorem sumMap_mergeCasLists_union_le (g : CasInfo → Nat) (n : Nat) (ca cb : List CasInfo) :
    sumMap g (mergeCasLists .union n ca cb) ≤ sumMap g ca + sumMap g cb := by
  induction n generalizing ca cb with
  | zero => simp [mergeCasLists, sumMap]
  | succ n ih =>
    cases ca with
    | nil =>
      cases cb with
      | nil => simp [mergeCasLists, sumMap]
      | cons b bs =>
        have := ih [] bs
        rw [mcl_u2]; simp only [sumMap_cons, sumMap_nil] at this ⊢; omega
    | cons a as =>
      cases cb with
      | nil =>
        have := ih as []
        rw [mcl_u1]; simp only [sumMap_cons, sumMap_nil] at this ⊢; omega
      | cons b bs =>
        rcases hashLt_trichotomy a.hash b.hash with hlt | heq | hgt
        · have := ih as (b :: bs)
          rw [mcl_u3 _ _ _ _ _ hlt]; simp only [sumMap_cons] at this ⊢; omega
        · have := ih as bs
          rw [mcl_u5 _ _ _ _ _ heq]; simp only [sumMap_cons] at this ⊢; omega
        · have := ih (a :: as) bs
          rw [mcl_u4 _ _ _ _ _ hgt]; simp only [sumMap_cons] at this ⊢; omega

/-! ## Part B.3 — `set_operation` writes the `serialize_from` layout of the merged content -/

theorem fileSectionOps_eq (idx : Nat) (fs : List FileInfo) (w : ∀ f ∈ fs, f.WF) : fileSectionOps idx fs = fileSection idx fs := by
  induction fs generalizing idx with
  | nil => rfl
  | cons f rest ih =>
    have wf := w f List.mem_cons_self
    have : fileRecCount f = f.numRecs := by rw [fileRecCount, FileInfo.numBytes_eq f wf, FileInfo.numRecs]
    simp only [fileSectionOps, fileSection, this, ih _ (fun x hx => w x (List.mem_cons_of_mem _ hx))]

theorem casSectionOps_eq (idx : Nat) (cs : List CasInfo) (w : ∀ c ∈ cs, c.numEntries = c.chunks.length) :
    casSectionOps idx cs = casSection idx cs := by
  induction cs generalizing idx with
  | nil => rfl
  | cons c rest ih =>
    simp only [casSectionOps, casSection, w c List.mem_cons_self, ih _ (fun x hx => w x (List.mem_cons_of_mem _ hx))]

/-- the content `set_operation` writes: the merged file and xorb lists (fuel as in `setOp`) -/
def mergedMem (op : SetOp) (fa fb : List FileInfo) (ca cb : List CasInfo) : Mem :=
  ⟨mergeFileLists op (fa.length + fb.length + 1) fa fb, mergeCasLists op (ca.length + cb.length + 1) ca cb⟩

theorem setOp_eq_serializeStable (op : SetOp) (fa fb : List FileInfo) (ca cb : List CasInfo)
    (wf : ∀ f ∈ (mergedMem op fa fb ca cb).files, f.WF)
    (wc : ∀ c ∈ (mergedMem op fa fb ca cb).cas, c.numEntries = c.chunks.length) :
    setOp op fa fb ca cb = serializeStable (mergedMem op fa fb ca cb) := by
  simp only [mergedMem] at wf wc
  simp only [setOp, serializeStable, serialize, mergedMem, fileSectionOps_eq _ _ wf, casSectionOps_eq _ _ wc,
    Mem.storedOnDisk, Mem.stored, Mem.materialized]

/-- **the merged content is well-formed** (so every C09 / C05 theorem applies to the output of `set_operation`).
    Needs: both inputs well-formed, equal entry counts for the pairs that take the `Merge` branch, and the record
    counts of the two inputs together below 2^32 (record indices in the lookup tables are `u32`). -/
theorem mergedMem_wf (op : SetOp) (ma mb : Mem) (wa : ma.WF) (wb : mb.WF) (hs : MergeEntriesAgree ma.files mb.files)
    (hsz : ma.fileRecs + mb.fileRecs < 4294967296) (hsc : ma.casRecs + mb.casRecs < 4294967296) :
    (mergedMem op ma.files mb.files ma.cas mb.cas).WF := by
  obtain ⟨a1, a2, a3, a4, a5, a6⟩ := wa
  obtain ⟨b1, b2, b3, b4, b5, b6⟩ := wb
  have hfw : ∀ f ∈ (mergedMem op ma.files mb.files ma.cas mb.cas).files, f.WF := fun f hf =>
    mergeMem_wf a3 b3 hs (mem_mergeFileLists _ _ _ _ f hf)
  have hcw : ∀ c ∈ (mergedMem op ma.files mb.files ma.cas mb.cas).cas, c.WF := fun c hc => by
    rcases mem_mergeCasLists _ _ _ _ c hc with h | h
    · exact a4 c h
    · exact b4 c h
  cases op with
  | union =>
    refine ⟨mergeFileLists_union_sorted _ _ _ a1 b1, mergeCasLists_union_sorted _ _ _ a2 b2, hfw, hcw, ?_, ?_⟩
    · have := sumMap_mergeFileLists_union_le FileInfo.numRecs (ma.files.length + mb.files.length + 1) ma.files mb.files
        (fun a ha b hb hab hn => mergeFiles_numRecs_le (a3 a ha) (b3 b hb) (hs a ha b hb hab hn))
      simp only [Mem.fileRecs, mergedMem] at hsz ⊢; omega
    · have := sumMap_mergeCasLists_union_le (fun c => 1 + c.chunks.length) (ma.cas.length + mb.cas.length + 1) ma.cas mb.cas
      simp only [Mem.casRecs, mergedMem] at hsc ⊢; omega
  | difference =>
    have e1 := mergeFileLists_difference (ma.files.length + mb.files.length + 1) ma.files mb.files a1 b1 (by omega)
    have e2 := mergeCasLists_difference (ma.cas.length + mb.cas.length + 1) ma.cas mb.cas a2 b2 (by omega)
    refine ⟨?_, ?_, hfw, hcw, ?_, ?_⟩
    · simp only [mergedMem, e1]; exact b1.filter _
    · simp only [mergedMem, e2]; exact b2.filter _
    · have := sumMap_filter_le FileInfo.numRecs (fun f => (findFile f.hash ma.files).isNone) mb.files
      simp only [Mem.fileRecs, mergedMem, e1] at hsz ⊢; omega
    · have := sumMap_filter_le (fun c => 1 + c.chunks.length) (fun f => (findCas f.hash ma.cas).isNone) mb.cas
      simp only [Mem.casRecs, mergedMem, e2] at hsc ⊢; omega

/-- `set_operation` writes exactly `serialize_from` of the merged content (byte for byte, chunk table stably sorted) -/
theorem setOp_serializeStable (op : SetOp) (ma mb : Mem) (wa : ma.WF) (wb : mb.WF) (hs : MergeEntriesAgree ma.files mb.files) :
    setOp op ma.files mb.files ma.cas mb.cas = serializeStable (mergedMem op ma.files mb.files ma.cas mb.cas) := by
  apply setOp_eq_serializeStable
  · exact fun f hf => mergeMem_wf wa.2.2.1 wb.2.2.1 hs (mem_mergeFileLists _ _ _ _ f hf)
  · intro c hc
    rcases mem_mergeCasLists _ _ _ _ c hc with h | h
    · exact (wa.2.2.2.1 c h).2.2.1
    · exact (wb.2.2.2.1 c h).2.2.1

/-! ## Part C — `setOpBytes`: the readers of `set_operation` on two serialized well-formed shards -/

theorem serialize_scan_fuel (m : Mem) (t : List (Nat × Nat × Nat)) (w : m.WF) :
    m.files.length < (serialize m t).bytes.length / recSize + 1 ∧ m.cas.length < (serialize m t).bytes.length / recSize + 1 := by
  have h1 := fileSection_bytes_length 0 m.files w.2.2.1
  have h2 := casSection_bytes_length 0 m.cas
  have h5 := w.files_le
  have h6 := m.cas_le
  have hl := serialize_length m t
  simp only [Mem.fileRecs, Mem.casRecs] at h5 h6
  simp only [serialize, h1, h2, headerSize, recSize] at hl ⊢
  omega

theorem setOpBytes_serialize (op : SetOp) (ma mb : Mem) (ta tb : List (Nat × Nat × Nat)) (wa : ma.WF) (wb : mb.WF)
    (hta : LegalChunkTable ma ta) (htb : LegalChunkTable mb tb) :
    setOpBytes op (serialize ma ta).bytes (serialize mb tb).bytes = .ok (setOp op ma.files mb.files ma.cas mb.cas) := by
  have la : ta.length < 4294967296 := by
    rw [legal_table_length ma ta hta]; have := ma.numChunks_le; have := wa.2.2.2.2.2; omega
  have lb : tb.length < 4294967296 := by
    rw [legal_table_length mb tb htb]; have := mb.numChunks_le; have := wb.2.2.2.2.2; omega
  have ea : (serialize ma ta).footer.fileInfoOff = headerSize := rfl
  have eb : (serialize mb tb).footer.fileInfoOff = headerSize := rfl
  obtain ⟨fa1, fa2⟩ := serialize_scan_fuel ma ta wa
  obtain ⟨fb1, fb2⟩ := serialize_scan_fuel mb tb wb
  simp only [setOpBytes, loadInfo_serialize ma ta wa la, loadInfo_serialize mb tb wb lb, ok_bind, ea, eb,
    readAllFiles_serialize ma ta wa _ fa1, readAllFiles_serialize mb tb wb _ fb1,
    readAllCas_serialize ma ta wa _ fa2, readAllCas_serialize mb tb wb _ fb2]

/-! ## Part E.1 — what a union keeps of each input record ("richer variant"), and where its records come from -/

/-- `x` carries everything the record `f` of the same file carries: same hash, entry count and segments, and the
    verification / metadata bits of `f` are set in `x` -/
def Covers (x f : FileInfo) : Prop :=
  x.hash = f.hash ∧ x.numEntries = f.numEntries ∧ x.segs = f.segs ∧
  (f.hasVerif = true → x.hasVerif = true) ∧ (f.hasMeta = true → x.hasMeta = true)

theorem Covers.refl (f : FileInfo) : Covers f f := ⟨rfl, rfl, rfl, id, id⟩

theorem Covers.trans {x y z : FileInfo} (h1 : Covers x y) (h2 : Covers y z) : Covers x z :=
  ⟨h1.1.trans h2.1, h1.2.1.trans h2.2.1, h1.2.2.1.trans h2.2.2.1, fun h => h1.2.2.2.1 (h2.2.2.2.1 h),
   fun h => h1.2.2.2.2 (h2.2.2.2.2 h)⟩

/-- the record kept for a file present in both inputs covers both input records (given `verify_same_file`) -/
theorem unionPick_covers {a b : FileInfo} (hh : a.hash = b.hash) (hs : a.numEntries = b.numEntries ∧ a.segs = b.segs) :
    Covers (unionPick a b) a ∧ Covers (unionPick a b) b := by
  unfold unionPick
  split
  · rename_i h
    exact ⟨Covers.refl a, hh, hs.1, hs.2, hasVerif_of_include (compare_superA h), hasMeta_of_include (compare_superA h)⟩
  · rename_i h
    have e := compare_equal h
    exact ⟨Covers.refl a, hh, hs.1, hs.2, by simp only [FileInfo.hasVerif, e]; exact id, by simp only [FileInfo.hasMeta, e]; exact id⟩
  · rename_i h
    exact ⟨⟨hh.symm, hs.1.symm, hs.2.symm, hasVerif_of_include (compare_superB h), hasMeta_of_include (compare_superB h)⟩,
      Covers.refl b⟩
  · refine ⟨⟨rfl, rfl, rfl, ?_, ?_⟩, ⟨hh, hs.1, hs.2, ?_, ?_⟩⟩ <;> intro h
    · rw [mergeFiles_hasVerif, h]; rfl
    · rw [mergeFiles_hasMeta, h]; rfl
    · rw [mergeFiles_hasVerif, h]; simp
    · rw [mergeFiles_hasMeta, h]; simp

/-- exact flags of the kept record: the verification / metadata bits are the bitwise OR of the two inputs' bits -/
theorem unionPick_bits (a b : FileInfo) :
    (unionPick a b).hasVerif = (a.hasVerif || b.hasVerif) ∧ (unionPick a b).hasMeta = (a.hasMeta || b.hasMeta) := by
  unfold unionPick
  split
  · rename_i h
    have h1 := hasVerif_of_include (a := a) (b := b) (compare_superA h)
    have h2 := hasMeta_of_include (a := a) (b := b) (compare_superA h)
    constructor
    · cases ha : a.hasVerif <;> cases hb : b.hasVerif <;> simp_all
    · cases ha : a.hasMeta <;> cases hb : b.hasMeta <;> simp_all
  · rename_i h
    have e := compare_equal h
    simp [FileInfo.hasVerif, FileInfo.hasMeta, e]
  · rename_i h
    have h1 := hasVerif_of_include (a := b) (b := a) (compare_superB h)
    have h2 := hasMeta_of_include (a := b) (b := a) (compare_superB h)
    constructor
    · cases ha : a.hasVerif <;> cases hb : b.hasVerif <;> simp_all
    · cases ha : a.hasMeta <;> cases hb : b.hasMeta <;> simp_all
  · exact ⟨mergeFiles_hasVerif a b, mergeFiles_hasMeta a b⟩

/-- nothing invented: `x`'s segments are those of a record of the same file in one of the shards `L`, its verification
    entries (if flagged) those of such a record that has them, and likewise its metadata extension -/
def FileSrc (L : List Mem) (x : FileInfo) : Prop :=
  (∃ m ∈ L, ∃ f ∈ m.files, f.hash = x.hash ∧ f.numEntries = x.numEntries ∧ f.segs = x.segs) ∧
  (x.hasVerif = true → ∃ m ∈ L, ∃ f ∈ m.files, f.hash = x.hash ∧ f.hasVerif = true ∧ f.verif = x.verif) ∧
  (x.hasMeta = true → ∃ m ∈ L, ∃ f ∈ m.files, f.hash = x.hash ∧ f.hasMeta = true ∧ f.metaExt = x.metaExt)

theorem FileSrc.of_mem {L : List Mem} {m : Mem} (hm : m ∈ L) {f : FileInfo} (hf : f ∈ m.files) : FileSrc L f :=
  ⟨⟨m, hm, f, hf, rfl, rfl, rfl⟩, fun h => ⟨m, hm, f, hf, rfl, h, rfl⟩, fun h => ⟨m, hm, f, hf, rfl, h, rfl⟩⟩

theorem FileSrc.mono {L L' : List Mem} {x : FileInfo} (h : FileSrc L x) (hl : ∀ m ∈ L, m ∈ L') : FileSrc L' x := by
  obtain ⟨⟨m, hm, r⟩, h2, h3⟩ := h
  refine ⟨⟨m, hl m hm, r⟩, fun hv => ?_, fun hv => ?_⟩
  · obtain ⟨m, hm, r⟩ := h2 hv; exact ⟨m, hl m hm, r⟩
  · obtain ⟨m, hm, r⟩ := h3 hv; exact ⟨m, hl m hm, r⟩

theorem mergeFiles_src {L : List Mem} {a b : FileInfo} (hh : a.hash = b.hash) (sa : FileSrc L a) (sb : FileSrc L b) :
    FileSrc L (mergeFiles a b) := by
  obtain ⟨a1, a2, a3⟩ := sa
  obtain ⟨b1, b2, b3⟩ := sb
  refine ⟨a1, fun hv => ?_, fun hv => ?_⟩
  · rw [mergeFiles_hasVerif] at hv
    cases ha : a.hasVerif with
    | true =>
      obtain ⟨m, hm, f, hf, r1, r2, r3⟩ := a2 ha
      exact ⟨m, hm, f, hf, r1, r2, by rw [r3]; simp [mergeFiles, ha]⟩
    | false =>
      have hb : b.hasVerif = true := by simpa [ha] using hv
      obtain ⟨m, hm, f, hf, r1, r2, r3⟩ := b2 hb
      exact ⟨m, hm, f, hf, by rw [r1, mergeFiles_hash, hh], r2, by rw [r3]; simp [mergeFiles, ha, hb]⟩
  · rw [mergeFiles_hasMeta] at hv
    cases ha : a.hasMeta with
    | true =>
      obtain ⟨m, hm, f, hf, r1, r2, r3⟩ := a3 ha
      exact ⟨m, hm, f, hf, r1, r2, by rw [r3]; simp [mergeFiles, ha]⟩
    | false =>
      have hb : b.hasMeta = true := by simpa [ha] using hv
      obtain ⟨m, hm, f, hf, r1, r2, r3⟩ := b3 hb
      exact ⟨m, hm, f, hf, by rw [r1, mergeFiles_hash, hh], r2, by rw [r3]; simp [mergeFiles, ha, hb]⟩

theorem mergeMem_src {L : List Mem} {fa fb : List FileInfo} (sa : ∀ f ∈ fa, FileSrc L f) (sb : ∀ f ∈ fb, FileSrc L f)
    {x : FileInfo} (hx : MergeMem fa fb x) : FileSrc L x := by
  rcases hx with h | h | ⟨a, ha, b, hb, hab, _, rfl⟩
  · exact sa x h
  · exact sb x h
  · exact mergeFiles_src hab (sa a ha) (sb b hb)

/-- the shard `q` holds a record covering every file record of `m`, and a block for every xorb hash of `m` -/
def RecordsContained (m q : Mem) : Prop :=
  (∀ f ∈ m.files, ∃ x ∈ q.files, Covers x f) ∧ (∀ c ∈ m.cas, ∃ c' ∈ q.cas, c'.hash = c.hash)

theorem RecordsContained.refl (m : Mem) : RecordsContained m m :=
  ⟨fun f hf => ⟨f, hf, Covers.refl f⟩, fun c hc => ⟨c, hc, rfl⟩⟩

theorem RecordsContained.trans {a b c : Mem} (h1 : RecordsContained a b) (h2 : RecordsContained b c) : RecordsContained a c := by
  constructor
  · intro f hf
    obtain ⟨x, hx, c1⟩ := h1.1 f hf
    obtain ⟨y, hy, c2⟩ := h2.1 x hx
    exact ⟨y, hy, c2.trans c1⟩
  · intro f hf
    obtain ⟨x, hx, c1⟩ := h1.2 f hf
    obtain ⟨y, hy, c2⟩ := h2.2 x hx
    exact ⟨y, hy, c2.trans c1⟩

/-- `shard_set_union` on the parsed level -/
def unionMem (a b : Mem) : Mem := mergedMem .union a.files b.files a.cas b.cas

theorem unionMem_contains (a b : Mem) (wa : a.WF) (wb : b.WF) (hs : SameFileSameSegments a.files b.files) :
    RecordsContained a (unionMem a b) ∧ RecordsContained b (unionMem a b) := by
  have hF := findFile_union (a.files.length + b.files.length + 1) a.files b.files wa.1 wb.1 (by omega)
  have hC := findCas_union (a.cas.length + b.cas.length + 1) a.cas b.cas wa.2.1 wb.2.1 (by omega)
  refine ⟨⟨fun f hf => ?_, fun c hc => ?_⟩, ⟨fun f hf => ?_, fun c hc => ?_⟩⟩
  · have h := hF f.hash
    rw [findFile_mem wa.1 hf] at h
    cases hb : findFile f.hash b.files with
    | none => rw [hb] at h; exact ⟨f, (findFile_some h).1, Covers.refl f⟩
    | some g =>
      rw [hb] at h
      obtain ⟨hg, hgh⟩ := findFile_some hb
      exact ⟨_, (findFile_some h).1, (unionPick_covers hgh.symm (hs f hf g hg hgh.symm)).1⟩
  · have h := hC c.hash
    rw [findCas_mem wa.2.1 hc] at h
    exact ⟨c, (findCas_some h).1, rfl⟩
  · have h := hF f.hash
    rw [findFile_mem wb.1 hf] at h
    cases ha : findFile f.hash a.files with
    | none => rw [ha] at h; exact ⟨f, (findFile_some h).1, Covers.refl f⟩
    | some g =>
      rw [ha] at h
      obtain ⟨hg, hgh⟩ := findFile_some ha
      exact ⟨_, (findFile_some h).1, (unionPick_covers hgh (hs g hg f hf hgh)).2⟩
  · have h := hC c.hash
    rw [findCas_mem wb.2.1 hc] at h
    cases ha : findCas c.hash a.cas with
    | none => rw [ha] at h; exact ⟨c, (findCas_some h).1, rfl⟩
    | some g =>
      rw [ha] at h
      exact ⟨g, (findCas_some h).1, (findCas_some ha).2⟩

/-! ## Part E.2 — a chain of unions (`unionChain`: one consolidation group) -/

/-- the code's assumption for a whole directory: any two records of the same file agree on entry count and segments -/
def DirCompat (L : List Mem) : Prop := ∀ m1 ∈ L, ∀ m2 ∈ L, SameFileSameSegments m1.files m2.files

/-- invariant of the running union inside a group -/
structure ChainInv (L : List Mem) (acc : Mem) : Prop where
  wf : acc.WF
  src : ∀ x ∈ acc.files, FileSrc L x
  cas : ∀ c ∈ acc.cas, ∃ m ∈ L, c ∈ m.cas

theorem ChainInv.of_mem {L : List Mem} {m : Mem} (hm : m ∈ L) (w : m.WF) : ChainInv L m :=
  ⟨w, fun _ hx => FileSrc.of_mem hm hx, fun _ hc => ⟨m, hm, hc⟩⟩

theorem ChainInv.same {L : List Mem} {acc b : Mem} (hc : DirCompat L) (hi : ChainInv L acc) (hb : b ∈ L) :
    SameFileSameSegments acc.files b.files := by
  intro x hx g hg hxg
  obtain ⟨⟨m, hm, f, hf, r1, r2, r3⟩, _, _⟩ := hi.src x hx
  have := hc m hm b hb f hf g hg (r1.trans hxg)
  exact ⟨r2.symm.trans this.1, r3.symm.trans this.2⟩

theorem unionMem_recs_le (a b : Mem) (wa : a.WF) (wb : b.WF) (hs : MergeEntriesAgree a.files b.files) :
    (unionMem a b).fileRecs ≤ a.fileRecs + b.fileRecs ∧ (unionMem a b).casRecs ≤ a.casRecs + b.casRecs := by
  constructor
  · exact sumMap_mergeFileLists_union_le FileInfo.numRecs (a.files.length + b.files.length + 1) a.files b.files
      (fun x hx y hy hxy hn => mergeFiles_numRecs_le (wa.2.2.1 x hx) (wb.2.2.1 y hy) (hs x hx y hy hxy hn))
  · exact sumMap_mergeCasLists_union_le (fun c => 1 + c.chunks.length) (a.cas.length + b.cas.length + 1) a.cas b.cas

theorem ChainInv.step {L : List Mem} {acc b : Mem} (hc : DirCompat L) (hi : ChainInv L acc) (hb : b ∈ L) (wb : b.WF)
    (hsz : acc.fileRecs + b.fileRecs < 4294967296) (hsc : acc.casRecs + b.casRecs < 4294967296) :
    ChainInv L (unionMem acc b) := by
  have hs := hi.same hc hb
  refine ⟨mergedMem_wf .union acc b hi.wf wb hs.agree hsz hsc, fun x hx => ?_, fun c hc' => ?_⟩
  · exact mergeMem_src hi.src (fun f hf => FileSrc.of_mem hb hf) (mem_mergeFileLists _ _ _ _ x hx)
  · rcases mem_mergeCasLists _ _ _ _ c hc' with h | h
    · exact hi.cas c h
    · exact ⟨b, hb, h⟩

def chainMem (m0 : Mem) (ms : List Mem) : Mem := ms.foldl unionMem m0

/-- a directory entry `s` is a valid shard file with content `m` -/
def Holds (s : DirShard) (m : Mem) : Prop := m.WF ∧ ∃ t, LegalChunkTable m t ∧ s.bytes = (serialize m t).bytes

theorem unionChain_spec (L : List Mem) (hc : DirCompat L) (group : List (DirShard × Mem)) (acc : Mem)
    (t : List (Nat × Nat × Nat)) (hi : ChainInv L acc) (ht : LegalChunkTable acc t)
    (hg : ∀ p ∈ group, p.2 ∈ L ∧ Holds p.1 p.2)
    (hsz : acc.fileRecs + sumMap (fun p => p.2.fileRecs) group < 4294967296)
    (hsc : acc.casRecs + sumMap (fun p => p.2.casRecs) group < 4294967296) :
    ∃ t', LegalChunkTable (chainMem acc (group.map (·.2))) t' ∧
      unionChain (serialize acc t).bytes (group.map (·.1)) = .ok (serialize (chainMem acc (group.map (·.2))) t').bytes ∧
      ChainInv L (chainMem acc (group.map (·.2))) ∧ RecordsContained acc (chainMem acc (group.map (·.2))) ∧
      ∀ p ∈ group, RecordsContained p.2 (chainMem acc (group.map (·.2))) := by
  induction group generalizing acc t with
  | nil => exact ⟨t, ht, rfl, hi, RecordsContained.refl _, fun p hp => by cases hp⟩
  | cons p rest ih =>
    obtain ⟨hpL, wp, tp, htp, hbytes⟩ := hg p List.mem_cons_self
    simp only [sumMap_cons] at hsz hsc
    have hs := hi.same hc hpL
    have hstep := hi.step hc hpL wp (by omega) (by omega)
    have hle := unionMem_recs_le acc p.2 hi.wf wp hs.agree
    have hrun : setOpBytes .union (serialize acc t).bytes p.1.bytes = .ok (serializeStable (unionMem acc p.2)) := by
      rw [hbytes, setOpBytes_serialize .union acc p.2 t tp hi.wf wp ht htp, setOp_serializeStable .union acc p.2 hi.wf wp hs.agree]
      rfl
    obtain ⟨t', h1, h2, h3, h4, h5⟩ := ih (unionMem acc p.2) _ hstep (serializeStable_legal _)
      (fun q hq => hg q (List.mem_cons_of_mem _ hq)) (by omega) (by omega)
    obtain ⟨c1, c2⟩ := unionMem_contains acc p.2 hi.wf wp hs
    refine ⟨t', h1, ?_, h3, c1.trans h4, fun q hq => ?_⟩
    · simp only [List.map_cons, unionChain, hrun]
      exact h2
    · rcases List.mem_cons.mp hq with rfl | hq
      · exact c2.trans h4
      · exact h5 q hq

/-! ## Part E.3 — `groupEnd` -/

theorem groupEnd_idx (target cur : Nat) (sizes : List Nat) (idx : Nat) :
    groupEnd target cur sizes idx = idx + groupEnd target cur sizes 0 := by
  induction sizes generalizing cur idx with
  | nil => simp [groupEnd]
  | cons sz rest ih =>
    simp only [groupEnd]
    split
    · simp
    · rw [ih (cur + sz) (idx + 1), ih (cur + sz) (0 + 1)]; omega

/-- the group following a head of size `cur` is the **maximal** prefix of the followers whose running total
    (head included) stays strictly below the target -/
theorem groupEnd_spec (target cur : Nat) (sizes : List Nat) :
    groupEnd target cur sizes 0 ≤ sizes.length ∧
    (∀ j, j < groupEnd target cur sizes 0 → cur + (sizes.take (j + 1)).sum < target) ∧
    (groupEnd target cur sizes 0 < sizes.length → target ≤ cur + (sizes.take (groupEnd target cur sizes 0 + 1)).sum) := by
  induction sizes generalizing cur with
  | nil => simp [groupEnd]
  | cons sz rest ih =>
    simp only [groupEnd]
    split
    · rename_i h
      refine ⟨by simp, fun j hj => by omega, fun _ => ?_⟩
      simp; omega
    · rename_i h
      obtain ⟨i1, i2, i3⟩ := ih (cur + sz)
      rw [groupEnd_idx]
      refine ⟨by simp; omega, fun j hj => ?_, fun hl => ?_⟩
      · cases j with
        | zero => simp; omega
        | succ j =>
          have := i2 j (by omega)
          simp only [List.take_succ_cons, List.sum_cons]; omega
      · have := i3 (by simp at hl; omega)
        rw [show 0 + 1 + groupEnd target (cur + sz) rest 0 + 1 = (groupEnd target (cur + sz) rest 0 + 1) + 1 by omega]
        simp only [List.take_succ_cons, List.sum_cons]; omega

/-! ## Part E.4 — `consolidate_shards_in_directory` -/

/-- one round of the consolidation loop: the directory entries it consumed (a head and the followers grouped with it),
    the shard it returns (with its content), the file names it deleted, and whether the returned shard was newly
    written -/
structure CStep where
  inputs : List (DirShard × Mem)
  shard : DirShard
  mem : Mem
  removed : List Hash
  written : Bool

/-- the `finished_shard_hashes` guard, in the order of events: a round deletes no file whose name is the name of a
    shard returned in this or an earlier round (`fh` = names returned before the first listed round) -/
def GuardOK : List Hash → List CStep → Prop
  | _, [] => True
  | fh, st :: rest => (∀ r ∈ st.removed, r ∉ st.shard.name :: fh) ∧ GuardOK (st.shard.name :: fh) rest

theorem sumMap_take_drop {α} (g : α → Nat) (l : List α) (n : Nat) : sumMap g (l.take n) + sumMap g (l.drop n) = sumMap g l := by
  rw [← sumMap_append, List.take_append_drop]

/-- what `consolidateAux` returns, relative to the accumulators it was started with -/
structure ConsSpec (P : HashPrims) (L : List Mem) (dir : List (DirShard × Mem)) (fh : List Hash)
    (acc c : Consolidated) (steps : List CStep) : Prop where
  /-- the rounds consume the directory in order, each entry exactly once -/
  parts : dir = steps.flatMap (·.inputs)
  finished : c.finished = acc.finished ++ steps.map (·.shard)
  removed : c.removed = acc.removed ++ steps.flatMap (·.removed)
  written : c.written = acc.written ++ (steps.filter (·.written)).map (·.shard)
  /-- every returned shard is a valid shard file with the content `st.mem` -/
  holds : ∀ st ∈ steps, Holds st.shard st.mem
  /-- a round that writes nothing returns its single input unchanged and deletes nothing -/
  kept : ∀ st ∈ steps, st.written = false → st.inputs = [(st.shard, st.mem)] ∧ st.removed = []
  /-- a written shard is named by the hash of its content, and merges at least two inputs -/
  named : ∀ st ∈ steps, st.written = true → st.shard.name = P.dataHash st.shard.bytes ∧ 2 ≤ st.inputs.length
  /-- only names of the round's own inputs are deleted -/
  removedIn : ∀ st ∈ steps, ∀ r ∈ st.removed, ∃ p ∈ st.inputs, p.1.name = r
  /-- the returned shard holds the records of every input of its round -/
  covered : ∀ st ∈ steps, ∀ p ∈ st.inputs, RecordsContained p.2 st.mem
  /-- and nothing else -/
  src : ∀ st ∈ steps, (∀ x ∈ st.mem.files, FileSrc (st.inputs.map (·.2)) x) ∧
      (∀ x ∈ st.mem.cas, ∃ m ∈ st.inputs.map (·.2), x ∈ m.cas)
  guard : GuardOK fh steps

theorem consolidateAux_spec (P : HashPrims) (target : Nat) (L : List Mem) (hc : DirCompat L) (fuel : Nat)
    (dir : List (DirShard × Mem)) (fh : List Hash) (acc : Consolidated)
    (hd : ∀ p ∈ dir, p.2 ∈ L ∧ Holds p.1 p.2) (hfuel : dir.length < fuel)
    (hsz : sumMap (fun p => p.2.fileRecs) dir < 4294967296) (hsc : sumMap (fun p => p.2.casRecs) dir < 4294967296) :
    ∃ c steps, consolidateAux P target fuel (dir.map (·.1)) fh acc = .ok c ∧ ConsSpec P L dir fh acc c steps := by
  induction fuel generalizing dir fh acc with
  | zero => omega
  | succ fuel ih =>
    cases dir with
    | nil =>
      exact ⟨acc, [], by simp [consolidateAux], ⟨by simp, by simp, by simp, by simp, by simp, by simp, by simp, by simp,
        by simp, by simp, trivial⟩⟩
    | cons p rest =>
      obtain ⟨hpL, wp, tp, htp, hbytes⟩ := hd p List.mem_cons_self
      have hd' : ∀ q ∈ rest, q.2 ∈ L ∧ Holds q.1 q.2 := fun q hq => hd q (List.mem_cons_of_mem _ hq)
      simp only [sumMap_cons] at hsz hsc
      simp only [List.map_cons, consolidateAux]
      generalize hn : groupEnd target p.1.bytes.length (List.map (fun x => x.bytes.length) (List.map (fun x => x.1) rest)) 0 = n
      by_cases h0 : n = 0
      · rw [if_pos h0]
        obtain ⟨c, steps, hrun, sp⟩ := ih rest (p.1.name :: fh) { acc with finished := acc.finished ++ [p.1] } hd'
          (by simp at hfuel; omega) (by omega) (by omega)
        refine ⟨c, ⟨[p], p.1, p.2, [], false⟩ :: steps, hrun, ?_⟩
        constructor
        · rw [List.flatMap_cons, ← sp.parts]; rfl
        · rw [sp.finished]; simp
        · rw [sp.removed]; simp
        · rw [sp.written]; simp
        · intro st hst
          rcases List.mem_cons.mp hst with rfl | hst
          · exact ⟨wp, tp, htp, hbytes⟩
          · exact sp.holds st hst
        · intro st hst hw
          rcases List.mem_cons.mp hst with rfl | hst
          · exact ⟨rfl, rfl⟩
          · exact sp.kept st hst hw
        · intro st hst hw
          rcases List.mem_cons.mp hst with rfl | hst
          · cases hw
          · exact sp.named st hst hw
        · intro st hst r hr
          rcases List.mem_cons.mp hst with rfl | hst
          · cases hr
          · exact sp.removedIn st hst r hr
        · intro st hst q hq
          rcases List.mem_cons.mp hst with rfl | hst
          · rcases List.mem_cons.mp hq with rfl | hq
            · exact RecordsContained.refl _
            · cases hq
          · exact sp.covered st hst q hq
        · intro st hst
          rcases List.mem_cons.mp hst with rfl | hst
          · exact ⟨fun x hx => FileSrc.of_mem (List.mem_cons_self) hx, fun x hx => ⟨p.2, List.mem_cons_self, hx⟩⟩
          · exact sp.src st hst
        · exact ⟨fun r hr => (by cases hr), sp.guard⟩
      · rw [if_neg h0]
        have hnle : n ≤ rest.length := by
          have := (groupEnd_spec target p.1.bytes.length (List.map (fun x => x.bytes.length) (List.map (fun x => x.1) rest))).1
          rw [hn] at this; simpa using this
        have e1 : List.take n (List.map (fun x => x.1) rest) = (rest.take n).map (·.1) := by rw [List.map_take]
        have e2 : List.drop n (List.map (fun x => x.1) rest) = (rest.drop n).map (·.1) := by rw [List.map_drop]
        have hsum1 := sumMap_take_drop (fun p : DirShard × Mem => p.2.fileRecs) rest n
        have hsum2 := sumMap_take_drop (fun p : DirShard × Mem => p.2.casRecs) rest n
        have hcG : DirCompat ((p :: rest.take n).map (·.2)) := by
          intro m1 h1 m2 h2
          have sub : ∀ m ∈ (p :: rest.take n).map (·.2), m ∈ L := by
            intro m hm
            obtain ⟨q, hq, rfl⟩ := List.mem_map.mp hm
            rcases List.mem_cons.mp hq with rfl | hq
            · exact hpL
            · exact (hd' q (List.mem_of_mem_take hq)).1
          exact hc m1 (sub m1 h1) m2 (sub m2 h2)
        obtain ⟨t', l1, l2, l3, l4, l5⟩ := unionChain_spec ((p :: rest.take n).map (·.2)) hcG (rest.take n) p.2 tp
          (ChainInv.of_mem List.mem_cons_self wp) htp
          (fun q hq => ⟨List.mem_cons_of_mem _ (List.mem_map.mpr ⟨q, hq, rfl⟩), (hd' q (List.mem_of_mem_take hq)).2⟩)
          (by omega) (by omega)
        rw [e1, e2, hbytes, l2]
        simp only []
        generalize hM : chainMem p.2 (List.map (fun x => x.2) (List.take n rest)) = M at l1 l2 l3 l4 l5 ⊢
        generalize hnew : (serialize M t').bytes = merged
        generalize hrem : List.filter (fun h => !(P.dataHash merged :: fh).contains h)
          (p.1.name :: List.map (fun x => x.name) (List.map (fun x => x.1) (List.take n rest))) = toRemove
        obtain ⟨c, steps, hrun, sp⟩ := ih (rest.drop n) (P.dataHash merged :: fh)
          { finished := acc.finished ++ [⟨P.dataHash merged, merged⟩], removed := acc.removed ++ toRemove,
            written := acc.written ++ [⟨P.dataHash merged, merged⟩] }
          (fun q hq => hd' q (List.mem_of_mem_drop hq)) (by simp at hfuel ⊢; omega) (by omega) (by omega)
        refine ⟨c, ⟨p :: rest.take n, ⟨P.dataHash merged, merged⟩, M, toRemove, true⟩ :: steps, hrun, ?_⟩
        constructor
        · rw [List.flatMap_cons, ← sp.parts]; simp
        · rw [sp.finished]; simp
        · rw [sp.removed]; simp
        · rw [sp.written]; simp
        · intro st hst
          rcases List.mem_cons.mp hst with rfl | hst
          · exact ⟨l3.wf, t', l1, hnew.symm⟩
          · exact sp.holds st hst
        · intro st hst hw
          rcases List.mem_cons.mp hst with rfl | hst
          · cases hw
          · exact sp.kept st hst hw
        · intro st hst hw
          rcases List.mem_cons.mp hst with rfl | hst
          · refine ⟨rfl, ?_⟩
            simp only [List.length_cons, List.length_take]; omega
          · exact sp.named st hst hw
        · intro st hst r hr
          rcases List.mem_cons.mp hst with rfl | hst
          · simp only [] at hr
            rw [← hrem] at hr
            have hr' := (List.mem_filter.mp hr).1
            simp only [List.map_map, List.mem_cons, List.mem_map, Function.comp] at hr'
            rcases hr' with rfl | ⟨q, hq, rfl⟩
            · exact ⟨p, List.mem_cons_self, rfl⟩
            · exact ⟨q, List.mem_cons_of_mem _ hq, rfl⟩
          · exact sp.removedIn st hst r hr
        · intro st hst q hq
          rcases List.mem_cons.mp hst with rfl | hst
          · rcases List.mem_cons.mp hq with rfl | hq
            · exact l4
            · exact l5 q hq
          · exact sp.covered st hst q hq
        · intro st hst
          rcases List.mem_cons.mp hst with rfl | hst
          · exact ⟨l3.src, l3.cas⟩
          · exact sp.src st hst
        · refine ⟨fun r hr => ?_, sp.guard⟩
          simp only [] at hr ⊢
          rw [← hrem] at hr
          have := (List.mem_filter.mp hr).2
          simpa using this

/-! ## Part D — relation to the in-memory operations `MDBInMemoryShard::{union, difference}` -/

theorem flagVerification_num : flagVerification = 2147483648 := rfl
theorem flagMetadataExt_num : flagMetadataExt = 1073741824 := rfl

theorem hasBit_add31 {f : Nat} (h : hasBit f flagVerification = false) :
    hasBit (f + flagVerification) flagVerification = true := by
  simp only [hasBit, beq_eq_false_iff_ne, beq_iff_eq, flagVerification_num] at *; omega
theorem hasBit_add31_30 (f : Nat) : hasBit (f + flagVerification) flagMetadataExt = hasBit f flagMetadataExt := by
  simp only [hasBit, flagVerification_num, flagMetadataExt_num]; congr 1; omega
theorem hasBit_add30 {f : Nat} (h : hasBit f flagMetadataExt = false) :
    hasBit (f + flagMetadataExt) flagMetadataExt = true := by
  simp only [hasBit, beq_eq_false_iff_ne, beq_iff_eq, flagMetadataExt_num] at *; omega
theorem hasBit_add30_31 {f : Nat} (h : hasBit f flagMetadataExt = false) :
    hasBit (f + flagMetadataExt) flagVerification = hasBit f flagVerification := by
  simp only [hasBit, beq_eq_false_iff_ne, flagVerification_num, flagMetadataExt_num] at *; congr 1; omega

theorem mergeFile_hash (a b : FileInfo) : (mergeFile a b).hash = a.hash := by
  unfold mergeFile; simp only []; split <;> split <;> rfl

theorem mergeFile_segs (a b : FileInfo) : (mergeFile a b).segs = a.segs ∧ (mergeFile a b).numEntries = a.numEntries := by
  unfold mergeFile; simp only []; split <;> split <;> exact ⟨rfl, rfl⟩

/-- `merge_from` sets exactly the OR of the two records' verification / metadata bits -/
theorem mergeFile_bits (a b : FileInfo) :
    (mergeFile a b).hasVerif = (a.hasVerif || b.hasVerif) ∧ (mergeFile a b).hasMeta = (a.hasMeta || b.hasMeta) := by
  unfold mergeFile
  simp only [FileInfo.hasVerif, FileInfo.hasMeta]
  rcases Bool.eq_false_or_eq_true (hasBit a.flags flagVerification) with hva | hva <;>
  rcases Bool.eq_false_or_eq_true (hasBit b.flags flagVerification) with hvb | hvb <;>
  rcases Bool.eq_false_or_eq_true (hasBit a.flags flagMetadataExt) with hma | hma <;>
  rcases Bool.eq_false_or_eq_true (hasBit b.flags flagMetadataExt) with hmb | hmb <;>
    simp [*, hasBit_add31, hasBit_add31_30, hasBit_add30, hasBit_add30_31]

theorem findFile_insertFile (h : Hash) (f : FileInfo) (l : List FileInfo) :
    findFile h (insertFile f l) = if f.hash = h then some f else findFile h l := by
  induction l with
  | nil => simp [insertFile, findFile]
  | cons g rest ih =>
    simp only [insertFile]
    split
    · rw [findFile_cons]
    · split
      · rename_i heq
        rw [findFile_cons, findFile_cons]
        split
        · rfl
        · rename_i hne; rw [if_neg (by rw [← heq]; exact hne)]
      · rename_i hne
        rw [findFile_cons, ih, findFile_cons]
        by_cases hg : g.hash = h
        · rw [if_pos hg, if_pos hg, if_neg (by rw [← hg]; exact hne)]
        · rw [if_neg hg, if_neg hg]

theorem findCas_insertCas (h : Hash) (f : CasInfo) (l : List CasInfo) :
    findCas h (insertCas f l) = if f.hash = h then some f else findCas h l := by
  induction l with
  | nil => simp [insertCas, findCas]
  | cons g rest ih =>
    simp only [insertCas]
    split
    · rw [findCas_cons]
    · split
      · rename_i heq
        rw [findCas_cons, findCas_cons]
        split
        · rfl
        · rename_i hne; rw [if_neg (by rw [← heq]; exact hne)]
      · rename_i hne
        rw [findCas_cons, ih, findCas_cons]
        by_cases hg : g.hash = h
        · rw [if_pos hg, if_pos hg, if_neg (by rw [← hg]; exact hne)]
        · rw [if_neg hg, if_neg hg]

/-- lookup in `MDBInMemoryShard::union`, as a function of the lookups in the operands:
    `merge_from` of the first operand's record with the second's when both hold the file -/
def memUnionFind (x y : Option FileInfo) : Option FileInfo :=
  match y with
  | some y => some (match x with | some x => mergeFile x y | none => y)
  | none => x

def memUnionFindCas (x y : Option CasInfo) : Option CasInfo :=
  match y with
  | some y => some y
  | none => x

/-- one iteration of the file loop of `MDBInMemoryShard::union` -/
def memUnionStep (acc : List FileInfo) (v : FileInfo) : List FileInfo :=
  match findFile v.hash acc with
  | some old => insertFile (mergeFile old v) acc
  | none => insertFile v acc

theorem findFile_memUnionStep (h : Hash) (acc : List FileInfo) (v : FileInfo) :
    findFile h (memUnionStep acc v) = if v.hash = h then memUnionFind (findFile v.hash acc) (some v) else findFile h acc := by
  unfold memUnionStep
  cases ho : findFile v.hash acc with
  | none => simp only [findFile_insertFile]; rfl
  | some old =>
    simp only [findFile_insertFile, mergeFile_hash, (findFile_some ho).2]; rfl

theorem memUnionStep_sorted (acc : List FileInfo) (v : FileInfo)
    (h : acc.Pairwise (fun a b => hashLt a.hash b.hash = true)) :
    (memUnionStep acc v).Pairwise (fun a b => hashLt a.hash b.hash = true) := by
  unfold memUnionStep; split <;> exact insertFile_sorted _ _ h

theorem findFile_foldl_memUnion (h : Hash) (bs acc : List FileInfo)
    (hb : bs.Pairwise (fun a b => hashLt a.hash b.hash = true)) :
    findFile h (bs.foldl memUnionStep acc) = memUnionFind (findFile h acc) (findFile h bs) := by
  induction bs generalizing acc with
  | nil => rfl
  | cons v rest ih =>
    rw [List.pairwise_cons] at hb
    rw [List.foldl_cons, ih _ hb.2, findFile_memUnionStep, findFile_cons]
    by_cases e : v.hash = h
    · subst e
      rw [if_pos rfl, if_pos rfl, findFile_none_of_lt hb.1]
      rfl
    · rw [if_neg e, if_neg e]

theorem foldl_memUnion_sorted (bs acc : List FileInfo) (h : acc.Pairwise (fun a b => hashLt a.hash b.hash = true)) :
    (bs.foldl memUnionStep acc).Pairwise (fun a b => hashLt a.hash b.hash = true) := by
  induction bs generalizing acc with
  | nil => exact h
  | cons v rest ih => exact ih _ (memUnionStep_sorted acc v h)

theorem findCas_foldl_insert (h : Hash) (bs acc : List CasInfo)
    (hb : bs.Pairwise (fun a b => hashLt a.hash b.hash = true)) :
    findCas h (bs.foldl (fun acc c => insertCas c acc) acc) = memUnionFindCas (findCas h acc) (findCas h bs) := by
  induction bs generalizing acc with
  | nil => rfl
  | cons v rest ih =>
    rw [List.pairwise_cons] at hb
    rw [List.foldl_cons, ih _ hb.2, findCas_insertCas, findCas_cons]
    by_cases e : v.hash = h
    · subst e
      rw [if_pos rfl, if_pos rfl, findCas_none_of_lt hb.1]
      rfl
    · rw [if_neg e, if_neg e]

theorem foldl_insertCas_sorted (bs acc : List CasInfo) (h : acc.Pairwise (fun a b => hashLt a.hash b.hash = true)) :
    (bs.foldl (fun acc c => insertCas c acc) acc).Pairwise (fun a b => hashLt a.hash b.hash = true) := by
  induction bs generalizing acc with
  | nil => exact h
  | cons v rest ih => exact ih _ (insertCas_sorted v acc h)

theorem MemShard.union_files (a b : MemShard) : (a.union b).mem.files = b.mem.files.foldl memUnionStep a.mem.files := rfl
theorem MemShard.union_cas (a b : MemShard) :
    (a.union b).mem.cas = b.mem.cas.foldl (fun acc c => insertCas c acc) a.mem.cas := rfl

/-- two strictly increasing lists with the same lookup function are equal -/
theorem files_ext {l1 l2 : List FileInfo} (h1 : l1.Pairwise (fun a b => hashLt a.hash b.hash = true))
    (h2 : l2.Pairwise (fun a b => hashLt a.hash b.hash = true)) (he : ∀ h, findFile h l1 = findFile h l2) : l1 = l2 := by
  induction l1 generalizing l2 with
  | nil =>
    cases l2 with
    | nil => rfl
    | cons b bs => have := he b.hash; simp [findFile] at this
  | cons a as ih =>
    cases l2 with
    | nil => have := he a.hash; simp [findFile] at this
    | cons b bs =>
      have p1 := List.pairwise_cons.mp h1
      have p2 := List.pairwise_cons.mp h2
      have hab : a.hash = b.hash := by
        rcases hashLt_trichotomy a.hash b.hash with hlt | heq | hgt
        · have := he a.hash
          rw [findFile_cons, if_pos rfl, findFile_none_of_lt (fun y hy => by
            rcases List.mem_cons.mp hy with rfl | hy
            · exact hlt
            · exact hashLt_trans hlt (p2.1 y hy))] at this
          cases this
        · exact heq
        · have := he b.hash
          rw [findFile_cons b.hash b, if_pos rfl, findFile_none_of_lt (fun y hy => by
            rcases List.mem_cons.mp hy with rfl | hy
            · exact hgt
            · exact hashLt_trans hgt (p1.1 y hy))] at this
          cases this
      have e : a = b := by
        have := he a.hash
        rw [findFile_cons, if_pos rfl, findFile_cons, if_pos hab.symm] at this
        exact Option.some.inj this
      subst e
      congr 1
      apply ih p1.2 p2.2
      intro h
      have := he h
      rw [findFile_cons, findFile_cons] at this
      by_cases e : a.hash = h
      · subst e
        rw [findFile_none_of_lt p1.1, findFile_none_of_lt p2.1]
      · rwa [if_neg e, if_neg e] at this

theorem cas_ext {l1 l2 : List CasInfo} (h1 : l1.Pairwise (fun a b => hashLt a.hash b.hash = true))
    (h2 : l2.Pairwise (fun a b => hashLt a.hash b.hash = true)) (he : ∀ h, findCas h l1 = findCas h l2) : l1 = l2 := by
  induction l1 generalizing l2 with
  | nil =>
    cases l2 with
    | nil => rfl
    | cons b bs => have := he b.hash; simp [findCas] at this
  | cons a as ih =>
    cases l2 with
    | nil => have := he a.hash; simp [findCas] at this
    | cons b bs =>
      have p1 := List.pairwise_cons.mp h1
      have p2 := List.pairwise_cons.mp h2
      have hab : a.hash = b.hash := by
        rcases hashLt_trichotomy a.hash b.hash with hlt | heq | hgt
        · have := he a.hash
          rw [findCas_cons, if_pos rfl, findCas_none_of_lt (fun y hy => by
            rcases List.mem_cons.mp hy with rfl | hy
            · exact hlt
            · exact hashLt_trans hlt (p2.1 y hy))] at this
          cases this
        · exact heq
        · have := he b.hash
          rw [findCas_cons b.hash b, if_pos rfl, findCas_none_of_lt (fun y hy => by
            rcases List.mem_cons.mp hy with rfl | hy
            · exact hgt
            · exact hashLt_trans hgt (p1.1 y hy))] at this
          cases this
      have e : a = b := by
        have := he a.hash
        rw [findCas_cons, if_pos rfl, findCas_cons, if_pos hab.symm] at this
        exact Option.some.inj this
      subst e
      congr 1
      apply ih p1.2 p2.2
      intro h
      have := he h
      rw [findCas_cons, findCas_cons] at this
      by_cases e : a.hash = h
      · subst e
        rw [findCas_none_of_lt p1.1, findCas_none_of_lt p2.1]
      · rwa [if_neg e, if_neg e] at this

/-- when the first record's flag word equals or includes the second's, `merge_from` changes nothing — the same record
    `set_operation` keeps -/
theorem mergeFile_eq_of_include {a b : FileInfo}
    (h : compareFlagSuperset a.flags b.flags = .superA ∨ compareFlagSuperset a.flags b.flags = .equal) :
    mergeFile a b = a ∧ unionPick a b = a := by
  have hv : b.hasVerif = true → a.hasVerif = true := by
    rcases h with h | h
    · exact hasVerif_of_include (compare_superA h)
    · simp only [FileInfo.hasVerif, compare_equal h]; exact id
  have hm : b.hasMeta = true → a.hasMeta = true := by
    rcases h with h | h
    · exact hasMeta_of_include (compare_superA h)
    · simp only [FileInfo.hasMeta, compare_equal h]; exact id
  constructor
  · unfold mergeFile
    have c1 : (a.hasVerif != b.hasVerif && b.hasVerif) = false := by
      cases hb : b.hasVerif
      · simp
      · simp [hv hb]
    have c2 : (a.hasMeta != b.hasMeta && b.hasMeta) = false := by
      cases hb : b.hasMeta
      · simp
      · simp [hm hb]
    simp [c1, c2]
  · unfold unionPick
    rcases h with h | h <;> rw [h]

/-! ## lookups in a difference, the comparison of flag words, top-level `consolidate` -/

theorem findFile_filter_key (h : Hash) (l : List FileInfo) (p : Hash → Bool) :
    findFile h (l.filter (fun f => p f.hash)) = if p h = true then findFile h l else none := by
  induction l with
  | nil => simp [findFile]
  | cons f rest ih =>
    rw [List.filter_cons]
    by_cases e : f.hash = h
    · subst e
      cases hp : p f.hash with
      | true => simp [findFile]
      | false =>
        rw [if_neg (by simp), ih, hp]; simp
    · split
      · rw [findFile_cons, findFile_cons, if_neg e, if_neg e, ih]
      · rw [findFile_cons, if_neg e, ih]

theorem findCas_filter_key (h : Hash) (l : List CasInfo) (p : Hash → Bool) :
    findCas h (l.filter (fun f => p f.hash)) = if p h = true then findCas h l else none := by
  induction l with
  | nil => simp [findCas]
  | cons f rest ih =>
    rw [List.filter_cons]
    by_cases e : f.hash = h
    · subst e
      cases hp : p f.hash with
      | true => simp [findCas]
      | false =>
        rw [if_neg (by simp), ih, hp]; simp
    · split
      · rw [findCas_cons, findCas_cons, if_neg e, if_neg e, ih]
      · rw [findCas_cons, if_neg e, ih]

theorem flagsInclude_iff (a b : Nat) :
    flagsInclude a b = true ↔ ∀ i, i < 32 → hasBit b (2 ^ i) = true → hasBit a (2 ^ i) = true := by
  unfold flagsInclude
  rw [List.all_eq_true]
  constructor
  · intro h i hi hb
    have := h i (List.mem_range.mpr hi)
    simpa [hb] using this
  · intro h i hi
    have := h i (List.mem_range.mp hi)
    cases hb : hasBit b (2 ^ i) with
    | false => simp
    | true => simp [this hb]

theorem compareFlagSuperset_spec (a b : Nat) :
    (compareFlagSuperset a b = .equal ↔ a = b) ∧
    (compareFlagSuperset a b = .superA ↔ a ≠ b ∧ flagsInclude a b = true) ∧
    (compareFlagSuperset a b = .superB ↔ a ≠ b ∧ flagsInclude a b = false ∧ flagsInclude b a = true) ∧
    (compareFlagSuperset a b = .neither ↔ a ≠ b ∧ flagsInclude a b = false ∧ flagsInclude b a = false) := by
  unfold compareFlagSuperset
  by_cases e : a = b
  · simp [e]
  · cases flagsInclude a b <;> cases flagsInclude b a <;> simp [e]

theorem consolidate_spec (P : HashPrims) (target : Nat) (dir : List (DirShard × Mem))
    (hd : ∀ p ∈ dir, Holds p.1 p.2) (hc : DirCompat (dir.map (·.2)))
    (hsz : sumMap (fun p => p.2.fileRecs) dir < 4294967296) (hsc : sumMap (fun p => p.2.casRecs) dir < 4294967296) :
    ∃ c steps, consolidate P target (dir.map (·.1)) = .ok c ∧ ConsSpec P (dir.map (·.2)) dir [] ⟨[], [], []⟩ c steps := by
  have := consolidateAux_spec P target (dir.map (·.2)) hc (dir.length + 1) dir [] ⟨[], [], []⟩
    (fun p hp => ⟨List.mem_map.mpr ⟨p, hp, rfl⟩, hd p hp⟩) (by omega) hsz hsc
  simpa [consolidate] using this

/-! ### the difference needs neither `verify_same_file` nor a size bound (its content is a sub-list of the second input) -/

theorem mergedMem_difference (ma mb : Mem) (wa : ma.WF) (wb : mb.WF) :
    mergedMem .difference ma.files mb.files ma.cas mb.cas =
      ⟨mb.files.filter (fun f => (findFile f.hash ma.files).isNone), mb.cas.filter (fun c => (findCas c.hash ma.cas).isNone)⟩ := by
  simp only [mergedMem, mergeFileLists_difference _ _ _ wa.1 wb.1 (Nat.lt_succ_self _),
    mergeCasLists_difference _ _ _ wa.2.1 wb.2.1 (Nat.lt_succ_self _)]

theorem mergedMem_difference_wf (ma mb : Mem) (wa : ma.WF) (wb : mb.WF) :
    (mergedMem .difference ma.files mb.files ma.cas mb.cas).WF := by
  rw [mergedMem_difference ma mb wa wb]
  obtain ⟨b1, b2, b3, b4, b5, b6⟩ := wb
  refine ⟨b1.filter _, b2.filter _, fun f hf => b3 f (List.mem_filter.mp hf).1, fun c hc => b4 c (List.mem_filter.mp hc).1, ?_, ?_⟩
  · have := sumMap_filter_le FileInfo.numRecs (fun f => (findFile f.hash ma.files).isNone) mb.files
    simp only [Mem.fileRecs] at b5 ⊢; omega
  · have := sumMap_filter_le (fun c => 1 + c.chunks.length) (fun f => (findCas f.hash ma.cas).isNone) mb.cas
    simp only [Mem.casRecs] at b6 ⊢; omega

theorem setOp_difference_serializeStable (ma mb : Mem) (wa : ma.WF) (wb : mb.WF) :
    setOp .difference ma.files mb.files ma.cas mb.cas = serializeStable (mergedMem .difference ma.files mb.files ma.cas mb.cas) := by
  have w := mergedMem_difference_wf ma mb wa wb
  exact setOp_eq_serializeStable _ _ _ _ _ w.2.2.1 (fun c hc => (w.2.2.2.1 c hc).2.2.1)

/-! ### consequences for the directory after consolidation -/

theorem flatMap_key_unique {α β γ} (L : List α) (f : α → List β) (g : β → γ) (hn : ((L.flatMap f).map g).Nodup)
    {a b : α} (ha : a ∈ L) (hb : b ∈ L) {x y : β} (hx : x ∈ f a) (hy : y ∈ f b) (e : g x = g y) : a = b := by
  induction L with
  | nil => cases ha
  | cons c L' ih =>
    rw [List.flatMap_cons, List.map_append, List.nodup_append] at hn
    obtain ⟨_, n2, n3⟩ := hn
    have inTail : ∀ {d : α} {z : β}, d ∈ L' → z ∈ f d → g z ∈ (L'.flatMap f).map g := fun hd hz =>
      List.mem_map.mpr ⟨_, List.mem_flatMap.mpr ⟨_, hd, hz⟩, rfl⟩
    rcases List.mem_cons.mp ha with rfl | ha' <;> rcases List.mem_cons.mp hb with rfl | hb'
    · rfl
    · exact absurd e (n3 _ (List.mem_map.mpr ⟨x, hx, rfl⟩) _ (inTail hb' hy))
    · exact absurd e.symm (n3 _ (List.mem_map.mpr ⟨y, hy, rfl⟩) _ (inTail ha' hx))
    · exact ih n2 ha' hb'

/-- every directory entry belongs to a round, whose returned shard holds its records -/
theorem ConsSpec.input_covered {P L dir fh acc c steps} (sp : ConsSpec P L dir fh acc c steps) :
    ∀ p ∈ dir, ∃ st ∈ steps, p ∈ st.inputs ∧ RecordsContained p.2 st.mem := by
  intro p hp
  rw [sp.parts] at hp
  obtain ⟨st, hst, hin⟩ := List.mem_flatMap.mp hp
  exact ⟨st, hst, hin, sp.covered st hst p hin⟩

/-- with distinct file names in the directory: a name on the deletion list is the name of an input of a *merging*
    round only — a shard returned unchanged is never deleted, and a deleted entry's records are in the shard written
    by its round -/
theorem ConsSpec.removed_merged {P L dir fh acc c steps} (sp : ConsSpec P L dir fh acc c steps)
    (hn : (dir.map (·.1.name)).Nodup) :
    (∀ st ∈ steps, st.written = false → ∀ st' ∈ steps, st.shard.name ∉ st'.removed) ∧
    (∀ p ∈ dir, ∀ st' ∈ steps, p.1.name ∈ st'.removed →
      st'.written = true ∧ p ∈ st'.inputs ∧ RecordsContained p.2 st'.mem) := by
  rw [sp.parts] at hn
  have written_of_removed : ∀ st' ∈ steps, ∀ r ∈ st'.removed, st'.written = true := by
    intro st' hst' r hr
    cases hw : st'.written with
    | true => rfl
    | false => rw [(sp.kept st' hst' hw).2] at hr; cases hr
  constructor
  · intro st hst hw st' hst' hr
    obtain ⟨q, hq, hqn⟩ := sp.removedIn st' hst' _ hr
    have hin : (st.shard, st.mem) ∈ st.inputs := by rw [(sp.kept st hst hw).1]; exact List.mem_cons_self
    have e := flatMap_key_unique steps (·.inputs) (·.1.name) hn hst' hst hq hin hqn
    subst e
    have := written_of_removed st' hst' _ hr
    rw [hw] at this; cases this
  · intro p hp st' hst' hr
    obtain ⟨q, hq, hqn⟩ := sp.removedIn st' hst' _ hr
    obtain ⟨st, hst, hin, _⟩ := sp.input_covered p hp
    have e := flatMap_key_unique steps (·.inputs) (·.1.name) hn hst' hst hq hin hqn
    subst e
    exact ⟨written_of_removed st' hst' _ hr, hin, sp.covered st' hst' p hin⟩

theorem findFile_isSome_iff {h : Hash} {l : List FileInfo} : (findFile h l).isSome = true ↔ ∃ f ∈ l, f.hash = h := by
  cases hf : findFile h l with
  | none =>
    have := findFile_none.mp hf
    simp only [Option.isSome_none, Bool.false_eq_true, false_iff]
    rintro ⟨f, hf', e⟩; exact this f hf' e
  | some x => simp only [Option.isSome_some, true_iff]; exact ⟨x, findFile_some hf⟩

theorem findCas_isSome_iff {h : Hash} {l : List CasInfo} : (findCas h l).isSome = true ↔ ∃ f ∈ l, f.hash = h := by
  cases hf : findCas h l with
  | none =>
    have := findCas_none.mp hf
    simp only [Option.isSome_none, Bool.false_eq_true, false_iff]
    rintro ⟨f, hf', e⟩; exact this f hf' e
  | some x => simp only [Option.isSome_some, true_iff]; exact ⟨x, findCas_some hf⟩

/-- the set of retrievable keys is preserved: a file hash (xorb hash) is held by some directory entry iff it is held by
    some returned shard -/
theorem ConsSpec.keys {P L dir fh acc c steps} (sp : ConsSpec P L dir fh acc c steps) (h : Hash) :
    ((∃ p ∈ dir, (findFile h p.2.files).isSome = true) ↔ (∃ st ∈ steps, (findFile h st.mem.files).isSome = true)) ∧
    ((∃ p ∈ dir, (findCas h p.2.cas).isSome = true) ↔ (∃ st ∈ steps, (findCas h st.mem.cas).isSome = true)) := by
  constructor
  · constructor
    · rintro ⟨p, hp, hs⟩
      obtain ⟨f, hf, e⟩ := findFile_isSome_iff.mp hs
      obtain ⟨st, hst, _, hc⟩ := sp.input_covered p hp
      obtain ⟨x, hx, cov⟩ := hc.1 f hf
      exact ⟨st, hst, findFile_isSome_iff.mpr ⟨x, hx, cov.1.trans e⟩⟩
    · rintro ⟨st, hst, hs⟩
      obtain ⟨x, hx, e⟩ := findFile_isSome_iff.mp hs
      obtain ⟨⟨m, hm, f, hf, e', _⟩, _, _⟩ := (sp.src st hst).1 x hx
      obtain ⟨q, hq, rfl⟩ := List.mem_map.mp hm
      refine ⟨q, ?_, findFile_isSome_iff.mpr ⟨f, hf, e'.trans e⟩⟩
      rw [sp.parts]; exact List.mem_flatMap.mpr ⟨st, hst, hq⟩
  · constructor
    · rintro ⟨p, hp, hs⟩
      obtain ⟨f, hf, e⟩ := findCas_isSome_iff.mp hs
      obtain ⟨st, hst, _, hc⟩ := sp.input_covered p hp
      obtain ⟨x, hx, cov⟩ := hc.2 f hf
      exact ⟨st, hst, findCas_isSome_iff.mpr ⟨x, hx, cov.trans e⟩⟩
    · rintro ⟨st, hst, hs⟩
      obtain ⟨x, hx, e⟩ := findCas_isSome_iff.mp hs
      obtain ⟨m, hm, hxm⟩ := (sp.src st hst).2 x hx
      obtain ⟨q, hq, rfl⟩ := List.mem_map.mp hm
      refine ⟨q, ?_, findCas_isSome_iff.mpr ⟨x, hxm, e⟩⟩
      rw [sp.parts]; exact List.mem_flatMap.mpr ⟨st, hst, hq⟩

end Xet.Shard
