//! Correspondence harness: runs the real xet-core crates in-process on generated inputs, writes the
//! operation stream (`ops.txt` + `blob.bin`) for the Lean model driver and the implementation's
//! canonicalised answers (`impl.out`), and evaluates property monitors directly on the implementation.
mod ctx;
mod rng;
mod suites;

use ctx::{Ctx, Tier};

fn main() {
    let args: Vec<String> = std::env::args().collect();
    if args.len() < 2 {
        eprintln!("usage: xetharness <suite> --seed S --tier quick|thorough --out DIR [--replay FILE]");
        std::process::exit(2);
    }
    let suite = args[1].clone();
    let mut seed = 1u64;
    let mut tier = Tier::Quick;
    let mut out = std::path::PathBuf::from("run").join(&suite);
    let mut replay: Option<String> = None;
    let mut i = 2;
    while i < args.len() {
        match args[i].as_str() {
            "--seed" => { seed = args[i + 1].parse().expect("seed"); i += 2; }
            "--tier" => { tier = if args[i + 1] == "thorough" { Tier::Thorough } else { Tier::Quick }; i += 2; }
            "--out" => { out = args[i + 1].clone().into(); i += 2; }
            "--replay" => { replay = Some(args[i + 1].clone()); i += 2; }
            _ => { eprintln!("unknown arg {}", args[i]); std::process::exit(2); }
        }
    }
    std::fs::create_dir_all(&out).unwrap();
    let mut ctx = Ctx::new(seed, tier, out, replay);
    std::panic::set_hook(Box::new(|info| {
        ctx::note_panic(info);
        eprintln!("harness panic: {info}");
    }));
    let r = std::panic::catch_unwind(std::panic::AssertUnwindSafe(|| suites::run(&suite, &mut ctx)));
    match r {
        Ok(true) => {}
        Ok(false) => {
            eprintln!("unknown suite {suite}");
            std::process::exit(2);
        }
        Err(_) => {
            // A panic raised inside the implementation (first panic location outside the harness sources) on a generated
            // history is reported as a concrete failing history of the property under check; a panic in the harness
            // itself stays a broken run (exit 101).
            match ctx::first_panic() {
                Some((loc, msg)) if !loc.contains("harness/src") && !loc.contains("/rustc/") => {
                    let tier_s = if matches!(ctx.tier, Tier::Quick) { "quick" } else { "thorough" };
                    let replay = format!("{{\"suite\":{},\"seed\":{},\"tier\":\"{}\",\"panic_at\":{}}}", ctx::json_str(&suite), ctx.seed, tier_s, ctx::json_str(&loc));
                    ctx.fail("*", "implementation-panic", format!("the implementation panicked at {loc}: {msg} (suite {suite}, seed {}, after {} operations)", ctx.seed, ctx.ops_count), replay);
                }
                _ => std::process::exit(101),
            }
        }
    }
    ctx.finish();
}
