//! Correspondence harness: runs the real xet-core crates in-process on generated inputs, writes the
//! operation stream (`ops.txt` + `blob.bin`) for the Lean model driver and the implementation's
//! canonicalised answers (`impl.out`), and evaluates property monitors directly on the implementation.
mod ctx;
mod rng;
mod suites;

use ctx::{Ctx, Tier};

fn main() {
    let args: Vec<String> = std::env::args().collect();
    if args.len() < 2 {
        eprintln!("usage: xetharness <suite> --seed S --tier quick|thorough --out DIR [--replay FILE]");
        std::process::exit(2);
    }
    let suite = args[1].clone();
    let mut seed = 1u64;
    let mut tier = Tier::Quick;
    let mut out = std::path::PathBuf::from("run").join(&suite);
    let mut replay: Option<String> = None;
    let mut i = 2;
    while i < args.len() {
        match args[i].as_str() {
            "--seed" => { seed = args[i + 1].parse().expect("seed"); i += 2; }
            "--tier" => { tier = if args[i + 1] == "thorough" { Tier::Thorough } else { Tier::Quick }; i += 2; }
            "--out" => { out = args[i + 1].clone().into(); i += 2; }
            "--replay" => { replay = Some(args[i + 1].clone()); i += 2; }
            _ => { eprintln!("unknown arg {}", args[i]); std::process::exit(2); }
        }
    }
    std::fs::create_dir_all(&out).unwrap();
    let mut ctx = Ctx::new(seed, tier, out, replay);
    let ok = suites::run(&suite, &mut ctx);
    if !ok {
        eprintln!("unknown suite {suite}");
        std::process::exit(2);
    }
    ctx.finish();
}
