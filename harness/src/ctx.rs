use std::collections::BTreeMap;
use std::io::Write;
use std::path::PathBuf;

use crate::rng::Rng;

#[derive(Clone, Copy, PartialEq, Eq, Debug)]
pub enum Tier { Quick, Thorough }

pub struct Ctx {
    pub seed: u64,
    pub tier: Tier,
    pub out: PathBuf,
    pub replay: Option<String>,
    pub rng: Rng,
    ops: std::io::BufWriter<std::fs::File>,
    imp: std::io::BufWriter<std::fs::File>,
    blob: Vec<u8>,
    pub stats: BTreeMap<String, u64>,
    pub monitor_fails: Vec<(String, String, String, String)>, // (property, key, description, replay-json)
    pub samples: Vec<String>,
    pub ops_count: u64,
    pub distinct: std::collections::BTreeSet<u64>,
    pub nontrivial: u64,
}

impl Ctx {
    pub fn new(seed: u64, tier: Tier, out: PathBuf, replay: Option<String>) -> Self {
        let ops = std::io::BufWriter::new(std::fs::File::create(out.join("ops.txt")).unwrap());
        let imp = std::io::BufWriter::new(std::fs::File::create(out.join("impl.out")).unwrap());
        Ctx { seed, tier, out, replay, rng: Rng::new(seed), ops, imp, blob: Vec::new(), stats: BTreeMap::new(),
              monitor_fails: Vec::new(), samples: Vec::new(), ops_count: 0, distinct: Default::default(), nontrivial: 0 }
    }
    pub fn quick(&self) -> bool { self.tier == Tier::Quick }
    /// append bytes to the side blob; returns (offset, len)
    pub fn blob(&mut self, data: &[u8]) -> (usize, usize) {
        let off = self.blob.len();
        self.blob.extend_from_slice(data);
        (off, data.len())
    }
    /// one request line for the model driver and the implementation's canonical answer to it
    pub fn op(&mut self, line: &str, answer: &str) {
        debug_assert!(!line.contains('\n') && !answer.contains('\n'));
        writeln!(self.ops, "{line}").unwrap();
        writeln!(self.imp, "{answer}").unwrap();
        self.ops_count += 1;
        if self.samples.len() < 3 {
            let mut l = line.to_string(); l.truncate(300);
            let mut a = answer.to_string(); a.truncate(300);
            self.samples.push(format!("{l} -> {a}"));
        }
    }
    pub fn stat(&mut self, key: &str) { *self.stats.entry(key.to_string()).or_insert(0) += 1; }
    pub fn stat_add(&mut self, key: &str, n: u64) { *self.stats.entry(key.to_string()).or_insert(0) += n; }
    /// record a case fingerprint; `nontrivial` by the suite's stated rule
    pub fn case(&mut self, fingerprint: u64, nontrivial: bool) {
        if self.distinct.insert(fingerprint) && nontrivial { self.nontrivial += 1; }
    }
    /// a property monitor failed on the implementation
    /// `key` names the failure class (stable; KNOWN_FINDINGS.json matches on it), `desc` the concrete instance
    pub fn fail(&mut self, property: &str, key: &str, desc: String, replay_json: String) {
        if self.monitor_fails.len() < 50 {
            // also kept on disk at once: if the process dies later where nothing can be caught, the check still gets them
            use std::io::Write as _;
            if let Ok(mut f) = std::fs::OpenOptions::new().create(true).append(true).open(self.out.join("fails.jsonl")) {
                let _ = writeln!(f, "{{\"property\": {}, \"key\": {}, \"desc\": {}, \"replay\": {}}}", json_str(property), json_str(key), json_str(&desc), replay_json.replace('\n', " "));
            }
            self.monitor_fails.push((property.to_string(), key.to_string(), desc, replay_json));
        }
    }
    /// Leave a note naming the input the implementation is about to be run on.  If the process then dies of something no
    /// `catch_unwind` can intercept (an allocation failure abort, a stack overflow, a kill), the check finds the note and reports
    /// that input as the concrete failing one.  `crumb_clear` removes the note once the call has returned.
    pub fn crumb(&self, property: &str, desc: &str, replay_json: &str) {
        let _ = std::fs::write(self.out.join("crumb.json"), format!("{{\"property\": {}, \"desc\": {}, \"replay\": {}}}", json_str(property), json_str(desc), replay_json));
    }
    pub fn crumb_clear(&self) { let _ = std::fs::remove_file(self.out.join("crumb.json")); }
    pub fn finish(mut self) {
        self.ops.flush().unwrap();
        self.imp.flush().unwrap();
        std::fs::write(self.out.join("blob.bin"), &self.blob).unwrap();
        let mut s = String::from("{\n");
        s += &format!("  \"seed\": {},\n  \"ops\": {},\n  \"distinct_cases\": {},\n  \"distinct_nontrivial\": {},\n",
                      self.seed, self.ops_count, self.distinct.len(), self.nontrivial);
        s += "  \"stats\": {";
        s += &self.stats.iter().map(|(k, v)| format!("{}: {}", json_str(k), v)).collect::<Vec<_>>().join(", ");
        s += "},\n  \"samples\": [";
        s += &self.samples.iter().map(|x| json_str(x)).collect::<Vec<_>>().join(", ");
        s += "],\n  \"monitor_fails\": [";
        s += &self.monitor_fails.iter().map(|(p, k, d, r)| format!("{{\"property\": {}, \"key\": {}, \"desc\": {}, \"replay\": {}}}", json_str(p), json_str(k), json_str(d), r)).collect::<Vec<_>>().join(", ");
        s += "]\n}\n";
        std::fs::write(self.out.join("stats.json"), s).unwrap();
    }
}

static FIRST_PANIC: std::sync::Mutex<Option<(String, String)>> = std::sync::Mutex::new(None);
/// remember the first panic that was not expected by a suite (location, message)
pub fn note_panic(info: &std::panic::PanicHookInfo<'_>) {
    let loc = info.location().map(|l| format!("{}:{}:{}", l.file(), l.line(), l.column())).unwrap_or_default();
    let msg = if let Some(s) = info.payload().downcast_ref::<&str>() { s.to_string() } else if let Some(s) = info.payload().downcast_ref::<String>() { s.clone() } else { String::new() };
    if let Ok(mut g) = FIRST_PANIC.lock() { if g.is_none() { *g = Some((loc, msg)); } }
}
pub fn first_panic() -> Option<(String, String)> { FIRST_PANIC.lock().ok().and_then(|g| g.clone()) }

pub fn json_str(s: &str) -> String {
    let mut o = String::from("\"");
    for c in s.chars() {
        match c {
            '"' => o += "\\\"",
            '\\' => o += "\\\\",
            '\n' => o += "\\n",
            c if (c as u32) < 0x20 => o += &format!("\\u{:04x}", c as u32),
            c => o.push(c),
        }
    }
    o + "\""
}

pub fn fnv(data: &[u8]) -> u64 {
    let mut h = 0xcbf29ce484222325u64;
    for b in data { h ^= *b as u64; h = h.wrapping_mul(0x100000001b3); }
    h
}

pub fn join<T: std::fmt::Display>(xs: &[T]) -> String {
    xs.iter().map(|x| x.to_string()).collect::<Vec<_>>().join(",")
}

/// Re-run this binary as child processes, one per configuration (the xet-core limits are `lazy_static`s read
/// from `HF_XET_*` environment variables once per process).  Each child writes its own part directory.
pub fn run_children(ctx: &Ctx, child_suite: &str, configs: &[Vec<(String, String)>]) {
    let exe = std::env::current_exe().unwrap();
    let mut handles = Vec::new();
    for (i, env) in configs.iter().enumerate() {
        let out = ctx.out.join(format!("part-{i:03}"));
        std::fs::create_dir_all(&out).unwrap();
        let mut cmd = std::process::Command::new(&exe);
        cmd.arg(child_suite).arg("--seed").arg((ctx.seed.wrapping_mul(1000) + i as u64).to_string())
            .arg("--tier").arg(if ctx.quick() { "quick" } else { "thorough" }).arg("--out").arg(&out);
        for (k, v) in env { cmd.env(k, v); }
        handles.push((i, cmd.spawn().expect("spawn child")));
        if handles.len() >= 8 {
            let (j, mut h) = handles.remove(0);
            let st = h.wait().unwrap();
            if !st.success() { eprintln!("child part {j} of {child_suite} failed: {st}"); std::process::exit(3); }
        }
    }
    for (j, mut h) in handles {
        let st = h.wait().unwrap();
        if !st.success() { eprintln!("child part {j} of {child_suite} failed: {st}"); std::process::exit(3); }
    }
}
