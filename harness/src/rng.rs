//! One PRNG state; every random choice of a run derives from it (splitmix64 seeding + xoshiro256**).
#[derive(Clone)]
pub struct Rng { s: [u64; 4] }

fn splitmix(x: &mut u64) -> u64 {
    *x = x.wrapping_add(0x9E3779B97F4A7C15);
    let mut z = *x;
    z = (z ^ (z >> 30)).wrapping_mul(0xBF58476D1CE4E5B9);
    z = (z ^ (z >> 27)).wrapping_mul(0x94D049BB133111EB);
    z ^ (z >> 31)
}

impl Rng {
    pub fn new(seed: u64) -> Self {
        let mut x = seed;
        Rng { s: [splitmix(&mut x), splitmix(&mut x), splitmix(&mut x), splitmix(&mut x)] }
    }
    pub fn fork(&mut self, tag: u64) -> Rng { Rng::new(self.next() ^ tag.wrapping_mul(0xD1342543DE82EF95)) }
    pub fn next(&mut self) -> u64 {
        let r = self.s[1].wrapping_mul(5).rotate_left(7).wrapping_mul(9);
        let t = self.s[1] << 17;
        self.s[2] ^= self.s[0];
        self.s[3] ^= self.s[1];
        self.s[1] ^= self.s[2];
        self.s[0] ^= self.s[3];
        self.s[2] ^= t;
        self.s[3] = self.s[3].rotate_left(45);
        r
    }
    /// uniform in [0, n)
    pub fn below(&mut self, n: u64) -> u64 { if n == 0 { 0 } else { self.next() % n } }
    pub fn range(&mut self, lo: u64, hi_incl: u64) -> u64 { lo + self.below(hi_incl - lo + 1) }
    pub fn chance(&mut self, num: u64, den: u64) -> bool { self.below(den) < num }
    pub fn pick<'a, T>(&mut self, xs: &'a [T]) -> &'a T { &xs[self.below(xs.len() as u64) as usize] }
    pub fn fill(&mut self, buf: &mut [u8]) {
        for c in buf.chunks_mut(8) {
            let v = self.next().to_le_bytes();
            c.copy_from_slice(&v[..c.len()]);
        }
    }
    pub fn bytes(&mut self, n: usize) -> Vec<u8> { let mut v = vec![0u8; n]; self.fill(&mut v); v }
}
