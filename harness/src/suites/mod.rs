use crate::ctx::Ctx;
pub mod chunker;
pub mod crash;
pub mod hashes;
pub mod bg4;
pub mod xorb;
pub mod shard;
pub mod shard_ops;
pub mod shard_stream;
pub mod manager;
pub mod pointer;
pub mod deduper;
pub mod session;
pub mod session_faults;
pub mod session_conc;
pub mod cache_seq;
pub mod cache_conc;
pub mod reconstruct;
pub mod singleflight;
pub mod interp_search;

pub fn run(suite: &str, ctx: &mut Ctx) -> bool {
    match suite {
        "chunker" => chunker::run(ctx),
        "hashes" => hashes::run(ctx),
        "bg4" => bg4::run(ctx),
        "shard" => shard::run(ctx),
        "shard_ops" => shard_ops::run_ops(ctx),
        "keyed" => shard_ops::run_keyed(ctx),
        "manager" => manager::run_parent(ctx),
        "manager-child" => manager::run_child(ctx),
        "singleflight" => singleflight::run(ctx),
        "reconstruct" => reconstruct::run(ctx),
        "cache_seq" => cache_seq::run(ctx),
        "cache_conc" => cache_conc::run(ctx),
        "session_faults" => session_faults::run_parent(ctx),
        "session_faults-child" => session_faults::run_child(ctx),
        "session_conc" => session_conc::run_parent(ctx),
        "session_conc-child" => session_conc::run_child(ctx),
        "session" => session::run_parent(ctx),
        "session-child" => session::run_child(ctx),
        "deduper" => deduper::run_parent(ctx),
        "deduper-child" => deduper::run_child(ctx),
        "interp_search" => interp_search::run(ctx),
        "xorb" => xorb::run_roundtrip(ctx),
        "xorb_validate" => xorb::run_validate(ctx),
        "xorb_validate-child" => xorb::run_validate_child(ctx),
        "pointer" => pointer::run(ctx),
        "shard_stream" => shard_stream::run(ctx),
        "shard_stream-child" => shard_stream::run_child(ctx),
        "crash" => crash::run_parent(ctx),
        "crash-child" => crash::run_child(ctx),
        _ => return false,
    }
    true
}
