use crate::ctx::Ctx;
pub mod chunker;
pub mod hashes;

pub fn run(suite: &str, ctx: &mut Ctx) -> bool {
    match suite {
        "chunker" => chunker::run(ctx),
        "hashes" => hashes::run(ctx),
        _ => return false,
    }
    true
}
