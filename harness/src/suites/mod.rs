use crate::ctx::Ctx;
pub mod chunker;

pub fn run(suite: &str, ctx: &mut Ctx) -> bool {
    match suite {
        "chunker" => chunker::run(ctx),
        _ => return false,
    }
    true
}
