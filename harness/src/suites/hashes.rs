//! Suite `hashes` (C06): every hash the Rust code computes is recomputed by the Lean model with the
//! independent Lean BLAKE3; producer route (`cas_node_hash`) vs validator route (`add_file`+`finalize`);
//! hex parsing; `HashedWrite` under short inner writes.
use std::io::Write;

use merkledb::aggregate_hashes::{cas_node_hash, file_node_hash};
use merkledb::prelude::MerkleDBHighLevelMethodsV1;
use merkledb::{Chunk, MerkleMemDB};
use merklehash::{compute_data_hash, compute_internal_node_hash, DataHash, HashedWrite, MerkleHash};

use crate::ctx::{fnv, join, Ctx};
use crate::rng::Rng;

pub fn rand_hash(rng: &mut Rng) -> MerkleHash {
    MerkleHash::from([rng.next(), rng.next(), rng.next(), rng.next()])
}

fn validator_route(chunks: &[(MerkleHash, usize)]) -> MerkleHash {
    let cs: Vec<Chunk> = chunks.iter().map(|(h, l)| Chunk { hash: *h, length: *l }).collect();
    let mut db = MerkleMemDB::default();
    let mut staging = db.start_insertion_staging();
    db.add_file(&mut staging, &cs);
    let ret = db.finalize(staging);
    *ret.hash()
}

pub fn fmt_chunks(chunks: &[(MerkleHash, usize)]) -> String {
    chunks.iter().map(|(h, l)| format!("{}:{}", h.hex(), l)).collect::<Vec<_>>().join(",")
}

/// chunk lists with controlled `hash[3] % 4` patterns, repeated hashes, extreme lengths
fn gen_chunk_list(rng: &mut Rng, n: usize) -> Vec<(MerkleHash, usize)> {
    let pattern = rng.below(6);
    let len_kind = rng.below(5);
    let mut out: Vec<(MerkleHash, usize)> = Vec::with_capacity(n);
    for i in 0..n {
        let mut h = rand_hash(rng);
        let w3 = h[3];
        h[3] = match pattern {
            0 => w3,                                   // random
            1 => w3 & !3,                              // always cut-eligible
            2 => w3 | 1,                               // never cut-eligible
            3 => if i % 2 == 0 { w3 & !3 } else { w3 | 1 },
            4 => if i % 7 == 6 { w3 & !3 } else { w3 | 2 },
            _ => w3,
        };
        let len = match len_kind {
            0 => rng.below(200_000) as usize,
            1 => 0,
            2 => u32::MAX as usize,
            3 => rng.below(3) as usize,
            _ => 1usize << rng.below(40),
        };
        // repeats: same hash same length / same hash different length / zero hash
        if !out.is_empty() && rng.chance(1, 8) {
            let j = rng.below(out.len() as u64) as usize;
            let (ph, pl) = out[j];
            if rng.chance(1, 2) { out.push((ph, pl)); } else { out.push((ph, len)); }
            continue;
        }
        if rng.chance(1, 60) { out.push((MerkleHash::default(), len)); continue; }
        out.push((h, len));
    }
    out
}

struct ShortWriter { data: Vec<u8>, accepts: Vec<usize>, i: usize, log: Vec<usize> }
impl Write for ShortWriter {
    fn write(&mut self, buf: &[u8]) -> std::io::Result<usize> {
        let a = self.accepts[self.i % self.accepts.len()].max(1);
        self.i += 1;
        let n = a.min(buf.len());
        self.data.extend_from_slice(&buf[..n]);
        self.log.push(a);
        Ok(n)
    }
    fn flush(&mut self) -> std::io::Result<()> { Ok(()) }
}

/// inner writer driven by an event list: 0 = transient error (nothing consumed), n = accept up to n bytes
struct FlakyWriter { data: Vec<u8>, events: Vec<usize>, i: usize, log: Vec<usize> }
impl Write for FlakyWriter {
    fn write(&mut self, buf: &[u8]) -> std::io::Result<usize> {
        let e = self.events[self.i % self.events.len()];
        self.i += 1;
        self.log.push(e);
        if e == 0 { return Err(std::io::Error::new(if self.i % 2 == 0 { std::io::ErrorKind::WouldBlock } else { std::io::ErrorKind::TimedOut }, "transient")); }
        let n = e.min(buf.len());
        self.data.extend_from_slice(&buf[..n]);
        Ok(n)
    }
    fn flush(&mut self) -> std::io::Result<()> { Ok(()) }
}

pub fn run(ctx: &mut Ctx) {
    let scale = if ctx.quick() { 1 } else { 12 };
    // ---- byte-string hashes around every BLAKE3 block / chunk / tree boundary
    let mut lens: Vec<usize> = vec![0, 1, 2, 31, 32, 33, 63, 64, 65, 127, 128, 129, 1023, 1024, 1025, 2047, 2048, 2049, 3071, 3072, 3073,
                                    4095, 4096, 4097, 5119, 5120, 7168, 8191, 8192, 8193, 16384, 16385, 65535, 65536, 65537, 131072];
    let mut rng = ctx.rng.fork(1);
    for _ in 0..(40 * scale) { lens.push(rng.below(300_000) as usize); }
    if !ctx.quick() { lens.extend([1 << 20, (1 << 20) + 1, 3 << 20]); }
    for (i, l) in lens.iter().enumerate() {
        let data = if i % 5 == 4 { vec![(i % 251) as u8; *l] } else { rng.bytes(*l) };
        let (off, len) = ctx.blob(&data);
        ctx.op(&format!("hash.data {off} {len}"), &compute_data_hash(&data).hex());
        ctx.op(&format!("hash.internal {off} {len}"), &compute_internal_node_hash(&data).hex());
        ctx.stat("bytes_hash_cases");
        ctx.case(fnv(&data) ^ 0x11, *l > 1024);
    }

    // ---- aggregate hashes
    let mut sizes: Vec<usize> = vec![0, 1, 2, 3, 4, 5, 8, 9, 10, 11, 17, 18, 19, 27, 28, 64, 100];
    for _ in 0..(60 * scale) { sizes.push(rng.range(1, 400) as usize); }
    for _ in 0..(3 * scale) { sizes.push(rng.range(1000, 5000) as usize); }
    for (ci, n) in sizes.iter().enumerate() {
        let mut r = ctx.rng.fork(1000 + ci as u64);
        let chunks = gen_chunk_list(&mut r, *n);
        let cas = cas_node_hash(&chunks);
        let val = validator_route(&chunks);
        let cl = fmt_chunks(&chunks);
        let replay = format!("{{\"suite\":\"hashes\",\"seed\":{},\"chunk_list_case\":{},\"n\":{}}}", ctx.seed, ci, n);
        ctx.op(&format!("hash.cas {cl}"), &format!("cas={} val={}", cas.hex(), val.hex()));
        if cas != val {
            ctx.fail("C06", "route-disagreement", format!("cas_node_hash != validator route for chunk list case {ci} (n={n})"), replay.clone());
        }
        let salt_kind = r.below(3);
        let salt: [u8; 32] = match salt_kind { 0 => [0u8; 32], 1 => [0xff; 32], _ => { let mut s = [0u8; 32]; r.fill(&mut s); s } };
        let fh = file_node_hash(&chunks, &salt).unwrap();
        let salt_hex: String = salt.iter().map(|b| format!("{b:02x}")).collect();
        ctx.op(&format!("hash.file {salt_hex} {cl}"), &fh.hex());
        let hs: Vec<MerkleHash> = chunks.iter().map(|c| c.0).collect();
        let hl = hs.iter().map(|h| h.hex()).collect::<Vec<_>>().join(",");
        ctx.op(&format!("hash.range {hl}"), &mdb_shard_range_hash(&hs).hex());
        ctx.stat(&format!("chunk_list_size_{}", if *n == 0 { "0" } else if *n < 10 { "1-9" } else if *n < 100 { "10-99" } else if *n < 1000 { "100-999" } else { "1000+" }));

        // sensitivity monitor on the implementation: single edits change the aggregate hash
        // (only for lists whose equal hashes carry equal lengths and without the zero hash: the memo DB
        //  makes `[(h,5),(h,7)]` and `[(h,5),(h,5)]` hash alike — documented in DESIGN.md C06)
        let functional = {
            let mut m = std::collections::HashMap::new();
            chunks.iter().all(|(h, l)| *h != MerkleHash::default() && *m.entry(*h).or_insert(*l) == *l)
        };
        if functional && *n >= 1 && *n <= 400 {
            for e in 0..4 {
                let mut c2 = chunks.clone();
                let i = r.below(c2.len() as u64) as usize;
                let what = match e {
                    0 => { c2[i].0 = rand_hash(&mut r); "change-hash" }
                    1 => { if c2.len() < 2 { continue; } let j = (i + 1 + r.below(c2.len() as u64 - 1) as usize) % c2.len(); if c2[i] == c2[j] { continue; } c2.swap(i, j); "reorder" }
                    2 => { c2.insert(i, (rand_hash(&mut r), r.below(1000) as usize)); "insert" }
                    _ => { if c2.len() < 2 { continue; } c2.remove(i); "drop" }
                };
                if c2 == chunks { continue; }
                if cas_node_hash(&c2) == cas {
                    ctx.fail("C06", "insensitive", format!("{what} at {i} did not change cas_node_hash (list case {ci})"), replay.clone());
                }
                ctx.stat("sensitivity_edits");
            }
        }
        ctx.case(fnv(cl.as_bytes()), *n >= 3);
    }

    // ---- C03: different salts give different file hashes — also for the empty file?
    {
        let a = file_node_hash(&[], &[0u8; 32]).unwrap();
        let b = file_node_hash(&[], &[7u8; 32]).unwrap();
        if a == b { ctx.fail("C03", "empty-file-hash-ignores-salt", format!("file_node_hash of the empty file is {} under every salt", a.hex()), "{\"suite\":\"hashes\",\"input\":\"empty chunk list, salts 00.. and 07..\"}".into()); }
        let one = [(rand_hash(&mut rng), 5usize)];
        if file_node_hash(&one, &[0u8; 32]).unwrap() == file_node_hash(&one, &[7u8; 32]).unwrap() { ctx.fail("C03", "salt-ignored", "file hash of a non-empty file does not depend on the salt".into(), "null".into()); }
    }

    // ---- hmac
    for _ in 0..(30 * scale) {
        let h = rand_hash(&mut rng);
        let k = match rng.below(4) { 0 => MerkleHash::default(), _ => rand_hash(&mut rng) };
        ctx.op(&format!("hash.hmac {} {}", h.hex(), k.hex()), &h.hmac(k).hex());
        ctx.stat("hmac_cases");
    }

    // ---- hex parse: round trip + malformed
    for i in 0..(120 * scale) {
        let h = rand_hash(&mut rng);
        let mut t = h.hex();
        let kind = i % 8;
        match kind {
            0 | 1 => {}
            2 => { t = t.to_uppercase(); }
            3 => { t.pop(); }
            4 => { t.push('0'); }
            5 => { let p = rng.below(64) as usize; t.replace_range(p..p + 1, "g"); }
            6 => { let p = rng.below(64) as usize; t.replace_range(p..p + 1, "+"); }
            _ => { t = String::new(); }
        }
        let ans = match DataHash::from_hex(&t) { Ok(x) => format!("ok {}", x.hex()), Err(_) => "err".into() };
        if kind <= 1 && ans != format!("ok {}", h.hex()) {
            ctx.fail("C06", "hex-roundtrip", format!("from_hex(hex(h)) != h for {t}"), "null".into());
        }
        let b = h.base64();
        if DataHash::from_base64(&b).ok() != Some(h) { ctx.fail("C06", "base64-roundtrip", format!("from_base64(base64(h)) != h for {b}"), "null".into()); }
        // base64 text form against the model (encode; decode of valid, truncated, padded, non-canonical, foreign-alphabet texts)
        ctx.op(&format!("hash.b64 {}", h.hex()), &b);
        let mut bt = b.clone();
        let bkind = (i / 8) % 10;
        match bkind {
            0 | 1 => {}
            2 => { bt.pop(); }
            3 => { bt.push('='); }
            4 => { bt.push('A'); }
            5 => { // the last character carries 4 payload bits and 2 bits that must be zero: set one of them
                let last = bt.pop().unwrap(); let alphabet = "ABCDEFGHIJKLMNOPQRSTUVWXYZabcdefghijklmnopqrstuvwxyz0123456789-_";
                let v = alphabet.find(last).unwrap(); bt.push(alphabet.as_bytes()[v | (1 + rng.below(3) as usize)] as char); }
            6 => { let p = rng.below(43) as usize; bt.replace_range(p..p + 1, "+"); }      // standard alphabet, not url-safe
            7 => { let p = rng.below(43) as usize; bt.replace_range(p..p + 1, "/"); }
            8 => { let p = rng.below(43) as usize; bt.replace_range(p..p + 1, "="); }
            _ => { let p = rng.below(43) as usize; let c = ["-", "_", "A", "z", "9"][rng.below(5) as usize]; bt.replace_range(p..p + 1, c); }   // another valid text
        }
        let bans = match DataHash::from_base64(&bt) { Ok(x) => format!("ok {}", x.hex()), Err(_) => "err".into() };
        if bkind <= 1 && bans != format!("ok {}", h.hex()) { ctx.fail("C06", "base64-roundtrip", format!("from_base64({bt}) = {bans}, expected {}", h.hex()), "null".into()); }
        if !bt.is_empty() { ctx.op(&format!("hash.fromb64 {bt}"), &bans); ctx.stat(&format!("b64_kind_{bkind}_{}", if bans == "err" { "err" } else { "ok" })); }
        if t.contains(' ') { continue; }
        ctx.op(&format!("hex.parse {t}"), &ans);
        ctx.stat(&format!("hex_kind_{kind}"));
    }

    // ---- HashedWrite with short inner writes
    for i in 0..(40 * scale) {
        let len = rng.below(5000) as usize;
        let data = rng.bytes(len);
        let accepts: Vec<usize> = if i % 4 == 0 { vec![usize::MAX / 2] } else { (0..rng.range(1, 6)).map(|_| rng.range(1, 700) as usize).collect() };
        let mut hw = HashedWrite::new(ShortWriter { data: vec![], accepts: accepts.clone(), i: 0, log: vec![] });
        hw.write_all(&data).unwrap();
        let h = hw.hash();
        let inner = hw.into_inner();
        let short = inner.log.iter().zip(0..).any(|(a, _)| *a < len);
        let (off, l) = ctx.blob(&data);
        let acc_log: Vec<usize> = inner.log.iter().map(|a| (*a).min(1 << 40)).collect();
        ctx.op(&format!("hashedwrite {off} {l} 1 {}", if acc_log.is_empty() { "-".into() } else { join(&acc_log) }), &format!("hash={} written={}", h.hex(), inner.data.len()));
        if inner.data != data { ctx.fail("C06", "hashedwrite-data", "HashedWrite did not pass the bytes through".into(), "null".into()); }
        if h != compute_data_hash(&data) {
            ctx.fail("C06", "hashedwrite-short-inner-write",
                     format!("HashedWrite::hash() != compute_data_hash(bytes written) when the inner writer accepts {:?} bytes per call (len {len})", &accepts),
                     format!("{{\"suite\":\"hashes\",\"seed\":{},\"hashedwrite_case\":{},\"len\":{},\"accepts\":[{}]}}", ctx.seed, i, len, join(&accepts)));
        }
        ctx.stat(if short { "hashedwrite_short" } else { "hashedwrite_full" });
    }
    // ---- HashedWrite over an inner writer with transient errors; the caller presents the rest again (Write::write contract:
    //      an error means nothing of that call was consumed)
    for i in 0..(40 * scale) {
        let len = rng.range(1, 5000) as usize;
        let data = rng.bytes(len);
        let mut events: Vec<usize> = (0..rng.range(2, 8)).map(|_| if rng.chance(1, 3) { 0 } else { rng.range(1, 900) as usize }).collect();
        if i % 3 == 0 { let p = rng.range(1, events.len() as u64 - 1) as usize; events[p - 1] = rng.range(1, 200) as usize; events[p] = 0; }
        if events.iter().all(|e| *e == 0) { events.push(rng.range(1, 900) as usize); }
        let mut hw = HashedWrite::new(FlakyWriter { data: vec![], events: events.clone(), i: 0, log: vec![] });
        let mut rest = &data[..];
        let mut guard = 0;
        while !rest.is_empty() && guard < 100_000 {
            guard += 1;
            match hw.write(rest) { Ok(0) => break, Ok(n) => rest = &rest[n..], Err(_) => continue }
        }
        let h = hw.hash();
        let inner = hw.into_inner();
        let (off, l) = ctx.blob(&data);
        ctx.op(&format!("hashedwrite.retry {off} {l} {}", join(&inner.log)), &format!("hash={} written={}", h.hex(), inner.data.len()));
        let mid_buffer_error = inner.log.windows(2).any(|w| w[0] != 0 && w[1] == 0);
        ctx.stat(if mid_buffer_error { "hashedwrite_retry_error_after_partial_progress" } else { "hashedwrite_retry_other" });
        let replay = format!("{{\"suite\":\"hashes\",\"seed\":{},\"hashedwrite_retry_case\":{},\"len\":{},\"events\":[{}]}}", ctx.seed, i, len, join(&events));
        if h != compute_data_hash(&inner.data) {
            ctx.fail("C06", "hashedwrite-transient-error", format!("HashedWrite::hash() != compute_data_hash(bytes that reached the inner writer) when the inner writer behaves as {:?} (0 = transient error, n = accepts n bytes) and the caller re-presents the rest (len {len})", &events), replay.clone());
        }
        if inner.data != data {
            ctx.fail("C06", "hashedwrite-transient-error-data", format!("HashedWrite over an inner writer behaving as {:?} delivered {} bytes that are not the {} bytes written", &events, inner.data.len(), len), replay);
        }
    }
}

fn mdb_shard_range_hash(hs: &[MerkleHash]) -> MerkleHash {
    mdb_shard::chunk_verification::range_hash_from_chunks(hs)
}
