//! Suite `reconstruct` (C17): the REAL `cas_client::RemoteClient::reconstruct_file_to_writer` and
//! `reconstruct_file_to_writer_parallel` against a loop-back `httpmock` server that serves serialized
//! chunk ranges (`cas_object::serialize_chunk`) of non-constant data.  Plans: 1..many terms, repeated
//! xorbs and repeated identical terms, fetch ranges exact / enlarged / merged / whole-xorb, differing
//! chunk and term sizes; byte ranges of every start/end class; both writers; chunk cache off / cold /
//! warm (real `DiskCache` under $TMPDIR).  Every (plan, range, writer, cache mode) is one request line;
//! the model driver (`recon.run`) recomputes `ok rep=<returned> len=<bytes> h=<data hash>`.
//! Monitors on the implementation: output == slice of the term data held by the harness, returned
//! length == bytes written == requested length, sequential == parallel, off == cold == warm.
//!
//! Sections: (1) well-formed plans x range classes x 2 writers x 3 cache modes (request lines + monitors);
//! (2) partly-warm and evicting (4 KiB) cache, monitor only; (3) ill-formed plans and scope edges, cache off
//! (request lines: the model must reject / panic / answer exactly as the code); (4) stress of the plan shape
//! exposing the chunk-cache put race (finding F15); (5) fetch ranges of one xorb sharing one URL (finding F14:
//! the single-flight group is keyed by the URL alone).  (4) and (5) are monitor-only with stable keys
//! `cache-put-race-io-error`, `shared-url-singleflight-mixes-ranges`, `shared-url-singleflight-silent-wrong-bytes`.
use std::collections::HashMap;
use std::path::PathBuf;
use std::sync::Arc;
use std::time::Duration;

use cas_client::{CacheConfig, FileProvider, OutputProvider, RemoteClient};
use cas_object::CompressionScheme;
use cas_types::{CASReconstructionFetchInfo, CASReconstructionTerm, ChunkRange, FileRange, HexMerkleHash, HttpRange};
use httpmock::prelude::*;
use httpmock::Mock;
use merklehash::{compute_data_hash, MerkleHash};
use xet_threadpool::ThreadPool;

use crate::ctx::{fnv, join, Ctx};
use crate::rng::Rng;

struct Xorb {
    hash: [u64; 4],
    chunks: Vec<Vec<u8>>,
    /// serialized chunk stream and the byte offset of every chunk boundary in it (n+1 entries)
    ser: Vec<u8>,
    ser_off: Vec<u32>,
}

#[derive(Clone, Debug)]
struct TermSpec { xorb: usize, s: u32, e: u32 }

#[derive(Clone, Debug)]
struct FetchSpec { xorb: usize, s: u32, e: u32, url_path: String }

#[allow(dead_code)]
struct PlanSpec {
    id: usize,
    xorbs: Vec<Xorb>,
    terms: Vec<TermSpec>,
    fetch: Vec<FetchSpec>, // in `Vec` order per xorb
    shared_url: bool,
    delay_ms: u64,
}

#[derive(Clone, Copy, PartialEq, Eq, Debug)]
enum Writer { Seq, Par }
#[derive(Clone, Copy, PartialEq, Eq, Debug)]
enum CacheMode { Off, Cold, Warm }

#[derive(Clone, Debug, PartialEq, Eq)]
enum Outcome { Ok { reported: u64, bytes: Vec<u8> }, Reject(String), Panic }

impl Outcome {
    fn canon(&self) -> String {
        match self {
            Outcome::Ok { reported, bytes } => format!("ok rep={} len={} h={}", reported, bytes.len(), compute_data_hash(bytes).hex()),
            Outcome::Reject(_) => "reject".into(),
            Outcome::Panic => "panic".into(),
        }
    }
}

fn gen_chunk(rng: &mut Rng, len: usize) -> Vec<u8> {
    match rng.below(4) {
        0 => rng.bytes(len),                                              // incompressible
        1 => { let pl = 1 + rng.below(7) as usize; let p = rng.bytes(pl); (0..len).map(|i| p[i % p.len()].wrapping_add((i / 97) as u8)).collect() } // compressible, non-constant
        2 => { let a = rng.next(); (0..len).map(|i| ((a as usize).wrapping_add(i * i) >> 3) as u8).collect() }
        _ => { let mut v = rng.bytes(len); for i in (0..len).step_by(3) { v[i] = 0; } v }
    }
}

fn gen_xorb(rng: &mut Rng, big: bool) -> Xorb {
    let n = 1 + rng.below(if big { 24 } else { 9 }) as usize;
    let size_kind = rng.below(4);
    let mut chunks = Vec::new();
    for _ in 0..n {
        let len = match size_kind {
            0 => 1 + rng.below(8),                 // tiny chunks (1-byte chunks included)
            1 => 1 + rng.below(300),
            2 => if rng.chance(1, 3) { 1 + rng.below(5) } else { 500 + rng.below(if big { 20000 } else { 3000 }) }, // differing sizes
            _ => 64 + rng.below(1500),
        } as usize;
        chunks.push(gen_chunk(rng, len));
    }
    let scheme = match rng.below(3) { 0 => Some(CompressionScheme::None), 1 => Some(CompressionScheme::LZ4), _ => None };
    let mut ser = Vec::new();
    let mut ser_off = vec![0u32];
    for c in &chunks {
        cas_object::serialize_chunk(c, &mut ser, scheme).expect("serialize_chunk");
        ser_off.push(ser.len() as u32);
    }
    let hash = [rng.next(), rng.next(), rng.next(), rng.next()];
    Xorb { hash, chunks, ser, ser_off }
}

fn gen_plan(rng: &mut Rng, id: usize, big: bool, shared_url: bool) -> PlanSpec {
    let nx = 1 + rng.below(4) as usize;
    let xorbs: Vec<Xorb> = (0..nx).map(|_| gen_xorb(rng, big)).collect();
    // every 16th plan has more terms than one window of concurrent range gets (NUM_CONCURRENT_RANGE_GETS = 16; 100 in
    // high-performance mode: every 160th plan), so that per-window bookkeeping of the writers is exercised in the quick tier too
    let many = !shared_url && id % 16 == 5;
    let nt = if many && id % 160 == 21 { 101 + rng.below(40) as usize } else if many { 17 + rng.below(36) as usize }
             else { (match rng.below(6) { 0 => 1, 1 => 2, 2 => 3, _ => 1 + rng.below(if big { 40 } else { 9 }) }) as usize };
    let mut terms: Vec<TermSpec> = Vec::new();
    for _ in 0..nt {
        // repeated xorb / repeated identical term / fresh
        if !terms.is_empty() && rng.chance(1, 6) {
            let t = rng.pick(&terms).clone();
            terms.push(t);
            continue;
        }
        let xorb = if !terms.is_empty() && rng.chance(1, 2) { rng.pick(&terms).xorb } else { rng.below(nx as u64) as usize };
        let n = xorbs[xorb].chunks.len() as u64;
        let s = rng.below(n);
        let e = if rng.chance(1, 4) { s + 1 } else { rng.range(s + 1, n) };
        terms.push(TermSpec { xorb, s: s as u32, e: e as u32 });
    }
    // fetch info: every term gets a containing fetch range; styles exact / enlarged / merged hull / whole xorb
    let mut fetch: Vec<FetchSpec> = Vec::new();
    let style = rng.below(5);
    for x in 0..nx {
        let n = xorbs[x].chunks.len() as u32;
        let mine: Vec<&TermSpec> = terms.iter().filter(|t| t.xorb == x).collect();
        if mine.is_empty() { continue; }
        let mut ranges: Vec<(u32, u32)> = Vec::new();
        match style {
            0 => for t in &mine { ranges.push((t.s, t.e)); },
            1 => for t in &mine {
                let s = t.s - rng.below(t.s as u64 + 1) as u32;
                let e = t.e + rng.below((n - t.e) as u64 + 1) as u32;
                ranges.push((s, e));
            },
            2 => ranges.push((mine.iter().map(|t| t.s).min().unwrap(), mine.iter().map(|t| t.e).max().unwrap())),
            3 => ranges.push((0, n)),
            _ => for t in &mine {
                match rng.below(3) {
                    0 => ranges.push((t.s, t.e)),
                    1 => ranges.push((t.s.saturating_sub(1), (t.e + 1).min(n))),
                    _ => ranges.push((0, n)),
                }
            },
        }
        ranges.dedup();
        let mut seen: Vec<(u32, u32)> = Vec::new();
        for r in ranges { if !seen.contains(&r) { seen.push(r); } }
        // sometimes an extra fetch range that contains no term, placed first
        if rng.chance(1, 5) && n >= 2 {
            let s = rng.below(n as u64 - 1) as u32;
            let r = (s, s + 1);
            if !seen.contains(&r) && !mine.iter().any(|t| r.0 <= t.s && t.e <= r.1) { seen.insert(0, r); }
        }
        // Vec order: shuffled
        for i in (1..seen.len()).rev() { let j = rng.below(i as u64 + 1) as usize; seen.swap(i, j); }
        for (s, e) in seen {
            let url_path = if shared_url { format!("/p{id}/x{x}") } else { format!("/p{id}/x{x}/{s}-{e}") };
            fetch.push(FetchSpec { xorb: x, s, e, url_path });
        }
    }
    let delay_ms = if rng.chance(1, 6) { 1 + rng.below(4) } else { 0 };
    PlanSpec { id, xorbs, terms, fetch, shared_url, delay_ms }
}

/// engineered for the shared-URL class: one xorb of equal-sized chunks, terms of equal chunk count with
/// exact fetch ranges, so that data of the wrong range passes the `unpacked_length` check
fn gen_equal_plan(rng: &mut Rng, id: usize) -> PlanSpec {
    let csize = 1 + rng.below(64) as usize;
    let k = 1 + rng.below(3) as u32;
    let nt = 2 + rng.below(5) as u32;
    let chunks: Vec<Vec<u8>> = (0..k * nt).map(|_| rng.bytes(csize)).collect();
    let mut ser = Vec::new();
    let mut ser_off = vec![0u32];
    for c in &chunks {
        cas_object::serialize_chunk(c, &mut ser, Some(CompressionScheme::None)).expect("serialize_chunk");
        ser_off.push(ser.len() as u32);
    }
    let xorb = Xorb { hash: [rng.next(), rng.next(), rng.next(), rng.next()], chunks, ser, ser_off };
    let terms: Vec<TermSpec> = (0..nt).map(|i| TermSpec { xorb: 0, s: i * k, e: (i + 1) * k }).collect();
    let fetch = terms.iter().map(|t| FetchSpec { xorb: 0, s: t.s, e: t.e, url_path: format!("/p{id}/x0") }).collect();
    PlanSpec { id, xorbs: vec![xorb], terms, fetch, shared_url: true, delay_ms: 2 }
}

impl PlanSpec {
    fn term_bytes(&self, t: &TermSpec) -> Vec<u8> {
        self.xorbs[t.xorb].chunks[t.s as usize..t.e as usize].concat()
    }
    fn url_range(&self, f: &FetchSpec) -> HttpRange {
        let x = &self.xorbs[f.xorb];
        HttpRange { start: x.ser_off[f.s as usize], end: x.ser_off[f.e as usize] - 1 }
    }
    fn register<'a>(&self, server: &'a MockServer, rng: &mut Rng) -> Vec<Mock<'a>> {
        let mut mocks = Vec::new();
        for f in &self.fetch {
            let x = &self.xorbs[f.xorb];
            let ur = self.url_range(f);
            let body = x.ser[ur.start as usize..=ur.end as usize].to_vec();
            let path = f.url_path.clone();
            let delay = if self.delay_ms > 0 { rng.below(self.delay_ms + 1) } else { 0 };
            let hdr = format!("bytes={}-{}", ur.start, ur.end);
            mocks.push(server.mock(|when, then| {
                when.method(GET).path(path).header("range", hdr);
                let t = then.status(206).body(body);
                if delay > 0 { t.delay(Duration::from_millis(delay)); }
            }));
        }
        mocks
    }
    /// the request-line part that describes the plan's store and fetch info (shared by its cases)
    fn blob_desc(&self, ctx: &mut Ctx) -> String {
        let mut parts = Vec::new();
        for x in &self.xorbs {
            let all: Vec<u8> = x.chunks.concat();
            let (off, _) = ctx.blob(&all);
            parts.push(format!("{}:{}", off, x.chunks.iter().map(|c| c.len().to_string()).collect::<Vec<_>>().join("+")));
        }
        let fetch = self.fetch.iter().map(|f| format!("{}:{}:{}", f.xorb, f.s, f.e)).collect::<Vec<_>>().join(",");
        format!("fetch={} xorbs={}", fetch, parts.join(";"))
    }
}

/// the arguments of one call: a sub-list of the plan's terms (what the server returns for the range)
#[derive(Clone, Debug)]
struct CallSpec {
    first: usize,
    last_excl: usize,
    offset: u64,
    range: Option<(u64, u64)>,
    /// per-term declared `unpacked_length` adjustment and overrides used by the reject section
    len_delta: Vec<i64>,
    drop_fetch_of_term: Option<usize>,
    /// number of terms after the last one overlapping the range (the loop must write nothing for them)
    extra_tail: usize,
    class: &'static str,
}

/// which `RemoteClient` a call goes through.  Building a client costs ~0.2 s (three reqwest clients),
/// so the suite keeps three long-lived ones and makes a cache "cold" by salting the xorb hashes
/// (the cache key) of the call instead of using a new directory.
#[derive(Clone)]
enum Via { Off, SharedCache, TinyCache, Fresh(PathBuf, u64) }

struct Env<'a> {
    pool: Arc<ThreadPool>,
    server: &'a MockServer,
    tmp: PathBuf,
    counter: u64,
    client_off: Arc<RemoteClient>,
    client_cache: Arc<RemoteClient>,
    client_tiny: Arc<RemoteClient>,
}

impl<'a> Env<'a> {
    fn fresh_path(&mut self, tag: &str) -> PathBuf {
        self.counter += 1;
        self.tmp.join(format!("{}_{}", tag, self.counter))
    }
}

fn salted(h: &[u64; 4], salt: u64) -> HexMerkleHash {
    MerkleHash::from([h[0] ^ salt, h[1], h[2], h[3].wrapping_add(salt)]).into()
}

fn new_client(pool: &Arc<ThreadPool>, cache: Option<(PathBuf, u64)>) -> Arc<RemoteClient> {
    let cache_config = cache.map(|(d, cap)| CacheConfig { cache_directory: d, cache_size: cap });
    Arc::new(RemoteClient::new(pool.clone(), "http://127.0.0.1:9", None, &None, &cache_config, PathBuf::new(), false))
}

fn build_args(plan: &PlanSpec, call: &CallSpec, server: &MockServer, salt: u64)
    -> (Vec<CASReconstructionTerm>, HashMap<HexMerkleHash, Vec<CASReconstructionFetchInfo>>) {
    let mut terms = Vec::new();
    for (k, t) in plan.terms[call.first..call.last_excl].iter().enumerate() {
        let real = plan.term_bytes(t).len() as i64;
        terms.push(CASReconstructionTerm {
            hash: salted(&plan.xorbs[t.xorb].hash, salt),
            unpacked_length: (real + call.len_delta.get(k).copied().unwrap_or(0)) as u32,
            range: ChunkRange { start: t.s, end: t.e },
        });
    }
    let mut fi: HashMap<HexMerkleHash, Vec<CASReconstructionFetchInfo>> = HashMap::new();
    for f in &plan.fetch {
        if let Some(k) = call.drop_fetch_of_term {
            let t = &plan.terms[call.first + k];
            if f.xorb == t.xorb && f.s <= t.s && t.e <= f.e { continue; }
        }
        fi.entry(salted(&plan.xorbs[f.xorb].hash, salt)).or_default().push(CASReconstructionFetchInfo {
            range: ChunkRange { start: f.s, end: f.e },
            url: server.url(&f.url_path),
            url_range: plan.url_range(f),
        });
    }
    (terms, fi)
}

fn run_call(env: &mut Env, plan: &PlanSpec, call: &CallSpec, writer: Writer, via: &Via, salt: u64) -> Outcome {
    let (terms, fi) = build_args(plan, call, env.server, salt);
    let client = match via {
        Via::Off => env.client_off.clone(),
        Via::SharedCache => env.client_cache.clone(),
        Via::TinyCache => env.client_tiny.clone(),
        Via::Fresh(d, cap) => new_client(&env.pool, Some((d.clone(), *cap))),
    };
    let out_path = env.fresh_path("out");
    let provider = OutputProvider::File(FileProvider::new(out_path.clone()));
    let offset = call.offset;
    let range = call.range.map(|(s, e)| FileRange { start: s, end: e });
    let res = env.pool.external_run_async_task(async move {
        let fi = Arc::new(fi);
        match writer {
            Writer::Seq => client.reconstruct_file_to_writer(terms, fi, offset, range, &provider, None).await,
            Writer::Par => client.reconstruct_file_to_writer_parallel(terms, fi, offset, range, &provider, None).await,
        }
    });
    let outcome = match res {
        Ok(Ok(n)) => Outcome::Ok { reported: n, bytes: std::fs::read(&out_path).unwrap_or_default() },
        Ok(Err(e)) => Outcome::Reject(format!("{e:?}").chars().take(120).collect()),
        Err(_) => Outcome::Panic,
    };
    let _ = std::fs::remove_file(&out_path);
    outcome
}

fn is_cache_put_race(o: &Outcome) -> bool {
    // observed: `NotFound` (a file another put just removed) and `DirectoryNotEmpty` (eviction removing a
    // key directory another put is writing into)
    matches!(o, Outcome::Reject(e) if e.starts_with("ChunkCache(IO(") && (e.contains("NotFound") || e.contains("DirectoryNotEmpty")))
}

fn hits(mocks: &[Mock]) -> usize { mocks.iter().map(|m| m.hits()).sum() }

fn line_for(plan: &PlanSpec, desc: &str, call: &CallSpec, writer: Writer, cache: CacheMode, order: &[usize]) -> String {
    let terms = plan.terms[call.first..call.last_excl].iter().enumerate().map(|(k, t)| {
        let real = plan.term_bytes(t).len() as i64;
        format!("{}:{}:{}:{}", t.xorb, t.s, t.e, real + call.len_delta.get(k).copied().unwrap_or(0))
    }).collect::<Vec<_>>().join(",");
    let desc = match call.drop_fetch_of_term {
        None => desc.to_string(),
        Some(k) => {
            // rebuild the fetch= part without the dropped ranges
            let t = &plan.terms[call.first + k];
            let fetch = plan.fetch.iter().filter(|f| !(f.xorb == t.xorb && f.s <= t.s && t.e <= f.e))
                .map(|f| format!("{}:{}:{}", f.xorb, f.s, f.e)).collect::<Vec<_>>().join(",");
            let xorbs = desc.split(' ').find(|p| p.starts_with("xorbs=")).unwrap();
            format!("fetch={} {}", fetch, xorbs)
        }
    };
    let w = match writer { Writer::Seq => "seq", Writer::Par => "par" };
    let c = match cache { CacheMode::Off => "off", CacheMode::Cold => "cold", CacheMode::Warm => "warm" };
    let range = match call.range { None => "none".to_string(), Some((s, e)) => format!("{s}-{e}") };
    let mut l = format!("recon.run w={w} c={c} off={} range={range} terms={terms} {desc}", call.offset);
    if writer == Writer::Par { l += &format!(" order={}", join(order)); }
    l
}

/// calls (sub-plans) for the byte-range classes of one plan
fn gen_calls(plan: &PlanSpec, rng: &mut Rng, n_random: usize) -> Vec<CallSpec> {
    let lens: Vec<u64> = plan.terms.iter().map(|t| plan.term_bytes(t).len() as u64).collect();
    let mut starts = vec![0u64];
    for l in &lens { starts.push(starts.last().unwrap() + l); }
    let total = *starts.last().unwrap();
    let nt = plan.terms.len();
    let mk = |a: u64, b: u64, extra_tail: bool, class: &'static str| -> CallSpec {
        // terms overlapping [a,b): the server's answer; optionally all following terms as well
        let first = (0..nt).find(|&i| starts[i + 1] > a).unwrap();
        let last = (0..nt).rev().find(|&i| starts[i] < b).unwrap_or(first).max(first);
        CallSpec { first, last_excl: if extra_tail { nt } else { last + 1 }, offset: a - starts[first], range: Some((a, b)),
                   len_delta: vec![], drop_fetch_of_term: None, extra_tail: if extra_tail { nt - last - 1 } else { 0 }, class }
    };
    let mut calls = vec![CallSpec { first: 0, last_excl: nt, offset: 0, range: None, len_delta: vec![], drop_fetch_of_term: None, extra_tail: 0, class: "whole-norange" }];
    let mut classes: Vec<u64> = (0..11).collect();
    for i in (1..classes.len()).rev() { let j = rng.below(i as u64 + 1) as usize; classes.swap(i, j); }
    for k in classes.into_iter().take(n_random) {
        let tail = rng.chance(1, 3);
        let c = match k {
            0 => mk(0, total, false, "whole-explicit"),
            1 => { let p = rng.below(total); mk(p, p + 1, tail, "single-byte") }
            2 => mk(0, 1, tail, "first-byte"),
            3 => mk(total - 1, total, false, "last-byte"),
            4 => { let a = rng.below(total); let b = rng.range(a + 1, total); mk(a, b, tail, "random") }
            5 => { let b = rng.range(1, total); mk(0, b, tail, "prefix") }
            6 => { let a = rng.below(total); mk(a, total, false, "suffix-end-eq-len") }
            7 => { // start and end on term boundaries
                let i = rng.below(nt as u64) as usize; let j = rng.range(i as u64 + 1, nt as u64) as usize;
                mk(starts[i], starts[j], tail, "boundary-aligned") }
            8 => { // strictly inside one term when it has >= 3 bytes
                let i = rng.below(nt as u64) as usize;
                if lens[i] >= 3 { let a = starts[i] + 1 + rng.below(lens[i] - 2); let b = rng.range(a + 1, starts[i + 1] - 1); mk(a, b, tail, "inside-one-term") }
                else { mk(starts[i], starts[i + 1], tail, "one-whole-term") } }
            9 => { // mid-term start in one term, mid-term end in a later term
                if nt >= 2 {
                    let i = rng.below(nt as u64 - 1) as usize; let j = rng.range(i as u64 + 1, nt as u64 - 1) as usize;
                    let a = starts[i] + rng.below(lens[i]); let b = starts[j] + 1 + rng.below(lens[j]);
                    mk(a, b.min(total), tail, "mid-start-mid-end")
                } else { let a = rng.below(total); mk(a, rng.range(a + 1, total), tail, "random") } }
            _ => { // last byte of a term .. first byte of the next
                if nt >= 2 { let i = 1 + rng.below(nt as u64 - 1) as usize; mk(starts[i] - 1, starts[i] + 1, tail, "straddle-boundary") }
                else { mk(0, total, false, "whole-explicit") } }
        };
        calls.push(c);
    }
    calls
}

pub fn run(ctx: &mut Ctx) {
    let quick = ctx.quick();
    let tmp_root = PathBuf::from(std::env::var("TMPDIR").unwrap_or_else(|_| "/tmp".into()))
        .join(format!("xv_recon_{}_{}", std::process::id(), ctx.seed));
    std::fs::create_dir_all(&tmp_root).unwrap();
    let server = MockServer::start();
    let pool = Arc::new(ThreadPool::new().expect("threadpool"));
    let big_cap: u64 = 1 << 30;
    let client_off = new_client(&pool, None);
    let client_cache = new_client(&pool, Some((tmp_root.join("cache_shared"), big_cap)));
    let client_tiny = new_client(&pool, Some((tmp_root.join("cache_tiny"), 4096)));
    let mut env = Env { pool, server: &server, tmp: tmp_root.clone(), counter: 0, client_off, client_cache, client_tiny };
    // panics inside the reject section are expected outcomes; keep stderr readable
    let prev_hook = std::panic::take_hook();
    std::panic::set_hook(Box::new(|_| {}));

    let n_plans = if quick { 160 } else { 1600 };
    let n_ranges = if quick { 4 } else { 7 };

    for pi in 0..n_plans {
        let mut rng = ctx.rng.fork(0xC17_0000 + pi as u64);
        let big = !quick && pi % 10 == 0;
        let plan = gen_plan(&mut rng, pi, big, false);
        let mut mocks = plan.register(&server, &mut rng);
        let desc = plan.blob_desc(ctx);
        let all: Vec<u8> = plan.terms.iter().flat_map(|t| plan.term_bytes(t)).collect();
        let mut starts = vec![0u64];
        for t in &plan.terms { starts.push(starts.last().unwrap() + plan.term_bytes(t).len() as u64); }

        ctx.stat(&format!("plan_terms_{}", match plan.terms.len() { 1 => "1", 2 => "2", 3..=5 => "3-5", 6..=12 => "6-12", 13..=16 => "13-16", 17..=100 => "17-100", _ => "101+" }));
        let repeated_xorb = (0..plan.terms.len()).any(|i| (0..i).any(|j| plan.terms[i].xorb == plan.terms[j].xorb));
        let repeated_term = (0..plan.terms.len()).any(|i| (0..i).any(|j| plan.terms[i].xorb == plan.terms[j].xorb && plan.terms[i].s == plan.terms[j].s && plan.terms[i].e == plan.terms[j].e));
        let larger_fetch = plan.terms.iter().any(|t| plan.fetch.iter().any(|f| f.xorb == t.xorb && f.s <= t.s && t.e <= f.e && (f.s, f.e) != (t.s, t.e)));
        if repeated_xorb { ctx.stat("plans_with_repeated_xorb"); }
        if repeated_term { ctx.stat("plans_with_repeated_identical_term"); }
        if larger_fetch { ctx.stat("plans_with_fetch_range_larger_than_term"); }
        if plan.delay_ms > 0 { ctx.stat("plans_with_response_delays"); }
        ctx.stat_add("file_bytes_total", all.len() as u64);

        for (ci, call) in gen_calls(&plan, &mut rng, n_ranges).iter().enumerate() {
            ctx.stat(&format!("range_class_{}", call.class));
            if call.extra_tail > 0 { ctx.stat("calls_with_trailing_extra_terms"); }
            let (a, b) = call.range.unwrap_or((0, all.len() as u64));
            let want = &all[a as usize..b as usize];
            let nterms = call.last_excl - call.first;
            let mut results: Vec<(Writer, CacheMode, Outcome)> = Vec::new();
            for writer in [Writer::Seq, Writer::Par] {
                let mut order: Vec<usize> = (0..nterms).collect();
                for i in (1..order.len()).rev() { let j = rng.below(i as u64 + 1) as usize; order.swap(i, j); }
                // cold = a cache that has never seen these xorb hashes (fresh salt), warm = the same again.
                // A few cases per run instead use a fresh directory and a fresh client per run, so that the
                // warm run re-loads the cache directory from disk (unverified items, checksum path).
                let reload_from_disk = pi % 16 == 3 && ci == 1;
                let cache_dir = env.fresh_path("cache");
                env.counter += 1;
                let mut salt = env.counter.wrapping_mul(0x9E37_79B9_7F4A_7C15);
                if reload_from_disk { ctx.stat("cold_warm_pairs_reloading_cache_from_disk"); }
                for mode in [CacheMode::Off, CacheMode::Cold, CacheMode::Warm] {
                    let h0 = hits(&mocks);
                    let via = match mode {
                        CacheMode::Off => Via::Off,
                        _ if reload_from_disk => Via::Fresh(cache_dir.clone(), big_cap),
                        _ => Via::SharedCache,
                    };
                    let mut out = run_call(&mut env, &plan, call, writer, &via, salt);
                    // Known flaky defect (see INTEGRATION.md, F15): with a cache, concurrent `put`s of the same xorb
                    // can fail with IO NotFound / DirectoryNotEmpty and `get_one_term` propagates the error.  It is reported through
                    // the monitor under its own key; the request line gets the answer of a retry so that the
                    // model/implementation diff stays deterministic.
                    let mut retries = 0;
                    while mode != CacheMode::Off && retries < 3 && is_cache_put_race(&out) {
                        ctx.stat("cache_put_race_failures_in_main_runs");
                        ctx.fail("C17", "cache-put-race-io-error", format!("plan {pi} call {ci} ({}) {:?}/{:?}: {}", call.class, writer, mode, match &out { Outcome::Reject(e) => e.clone(), o => o.canon() }),
                            format!("{{\"suite\":\"reconstruct\",\"seed\":{},\"plan\":{},\"call\":{},\"writer\":\"{:?}\",\"cache\":\"{:?}\"}}", ctx.seed, pi, ci, writer, mode));
                        retries += 1;
                        if mode == CacheMode::Cold && !reload_from_disk {
                            // keep the retried run cold: new cache keys (the warm run then uses them too)
                            env.counter += 1;
                            salt = env.counter.wrapping_mul(0x9E37_79B9_7F4A_7C15);
                        }
                        out = run_call(&mut env, &plan, call, writer, &via, salt);
                    }
                    let h1 = hits(&mocks);
                    if mode == CacheMode::Warm { if h1 == h0 { ctx.stat("warm_runs_without_http") } else { ctx.stat("warm_runs_with_http") } }
                    if mode == CacheMode::Cold { ctx.stat_add("cold_http_requests", (h1 - h0) as u64); }
                    let line = line_for(&plan, &desc, call, writer, mode, &order);
                    ctx.op(&line, &out.canon());
                    let replay = format!("{{\"suite\":\"reconstruct\",\"seed\":{},\"plan\":{},\"call\":{},\"class\":\"{}\",\"writer\":\"{:?}\",\"cache\":\"{:?}\",\"terms\":\"{}\",\"fetch\":\"{}\",\"offset\":{},\"range\":\"{:?}\"}}",
                        ctx.seed, pi, ci, call.class, writer, mode,
                        plan.terms[call.first..call.last_excl].iter().map(|t| format!("{}:{}-{}", t.xorb, t.s, t.e)).collect::<Vec<_>>().join(","),
                        plan.fetch.iter().map(|f| format!("{}:{}-{}", f.xorb, f.s, f.e)).collect::<Vec<_>>().join(","),
                        call.offset, call.range);
                    match &out {
                        Outcome::Ok { reported, bytes } => {
                            if bytes.as_slice() != want {
                                let first_diff = bytes.iter().zip(want.iter()).position(|(x, y)| x != y);
                                ctx.fail("C17", "output-not-requested-slice", format!("plan {pi} call {ci} ({}) {:?}/{:?}: output ({} bytes) != requested slice ({} bytes), first difference at {:?}", call.class, writer, mode, bytes.len(), want.len(), first_diff), replay.clone());
                            }
                            if *reported != bytes.len() as u64 || *reported != b - a {
                                ctx.fail("C17", "reported-length-ne-written", format!("plan {pi} call {ci} ({}) {:?}/{:?}: returned {} but wrote {} bytes, requested {}", call.class, writer, mode, reported, bytes.len(), b - a), replay.clone());
                            }
                        }
                        Outcome::Reject(e) => ctx.fail("C17", "wellformed-plan-rejected", format!("plan {pi} call {ci} ({}) {:?}/{:?}: error {e}", call.class, writer, mode), replay.clone()),
                        Outcome::Panic => ctx.fail("C17", "wellformed-plan-panicked", format!("plan {pi} call {ci} ({}) {:?}/{:?}: panic", call.class, writer, mode), replay.clone()),
                    }
                    results.push((writer, mode, out));
                    ctx.stat("runs");
                }
                if reload_from_disk { let _ = std::fs::remove_dir_all(&cache_dir); }
            }
            // sequential == parallel, off == cold == warm
            let base = results[0].2.clone();
            for (w, m, o) in &results {
                if *o != base {
                    ctx.fail("C17", if *w == Writer::Seq { "cache-mode-changes-output" } else { "writers-or-cache-modes-disagree" },
                        format!("plan {pi} call {ci} ({}): {:?}/{:?} gives {} but Seq/Off gives {}", call.class, w, m, o.canon(), base.canon()),
                        format!("{{\"suite\":\"reconstruct\",\"seed\":{},\"plan\":{},\"call\":{}}}", ctx.seed, pi, ci));
                }
            }
            let mid_start = call.offset > 0;
            let mid_end = !starts.contains(&b);
            if mid_start { ctx.stat("calls_mid_term_start"); }
            if mid_end { ctx.stat("calls_mid_term_end"); }
            ctx.case(fnv(format!("{:?}{:?}{}", plan.terms, call, all.len()).as_bytes()) ^ fnv(&all[..all.len().min(64)]), nterms >= 2 && (mid_start || mid_end));
        }

        // ---- a cache that is only partly warm, and a cache too small to hold the data (evicting):
        //      monitor-only (no request line: the model's answer does not depend on the cache content)
        if pi % 3 == 0 {
            let calls = gen_calls(&plan, &mut rng, 2);
            let tiny = pi % 6 == 0;
            let via = if tiny { Via::TinyCache } else { Via::SharedCache };
            env.counter += 1;
            let salt = env.counter.wrapping_mul(0x9E37_79B9_7F4A_7C15);
            for call in calls.iter().rev() {
                for writer in [Writer::Par, Writer::Seq] {
                    let (a, b) = call.range.unwrap_or((0, all.len() as u64));
                    let out = run_call(&mut env, &plan, call, writer, &via, salt);
                    ctx.stat(if !tiny { "partly_warm_runs" } else { "tiny_cache_runs" });
                    let good = matches!(&out, Outcome::Ok { reported, bytes } if bytes.as_slice() == &all[a as usize..b as usize] && *reported == b - a);
                    if is_cache_put_race(&out) {
                        ctx.stat("cache_put_race_failures_in_extra_cache_runs");
                        ctx.fail("C17", "cache-put-race-io-error", format!("plan {pi} ({}) {:?} tiny={tiny}: {}", call.class, writer, match &out { Outcome::Reject(e) => e.clone(), o => o.canon() }),
                            format!("{{\"suite\":\"reconstruct\",\"seed\":{},\"plan\":{},\"extra\":\"tiny cache {}\"}}", ctx.seed, pi, tiny));
                    } else if !good {
                        ctx.fail("C17", if !tiny { "partly-warm-cache-wrong-output" } else { "evicting-cache-wrong-output" },
                            format!("plan {pi} ({}) {:?}: {}", call.class, writer, match &out { Outcome::Reject(e) => e.clone(), o => o.canon() }),
                            format!("{{\"suite\":\"reconstruct\",\"seed\":{},\"plan\":{},\"extra\":\"tiny cache {}\"}}", ctx.seed, pi, tiny));
                    }
                }
            }
        }

        // ---- ill-formed plans and scope edges (cache off): the model must answer exactly as the code does
        if pi % 4 == 0 {
            let nt = plan.terms.len();
            let len0 = plan.term_bytes(&plan.terms[0]).len() as u64;
            let whole = CallSpec { first: 0, last_excl: nt, offset: 0, range: None, len_delta: vec![], drop_fetch_of_term: None, extra_tail: 0, class: "edge" };
            let mut edge_calls: Vec<CallSpec> = Vec::new();
            // declared unpacked_length wrong for one term
            let k = rng.below(nt as u64) as usize;
            let mut d = vec![0i64; nt]; d[k] = if rng.chance(1, 2) { 1 } else { -1 };
            edge_calls.push(CallSpec { len_delta: d, class: "edge-unpacked-length-wrong", ..whole.clone() });
            // no fetch range contains one term
            edge_calls.push(CallSpec { drop_fetch_of_term: Some(rng.below(nt as u64) as usize), class: "edge-no-containing-fetch-range", ..whole.clone() });
            // offset beyond the first term (dev-profile panic in both writers)
            edge_calls.push(CallSpec { offset: len0 + 1 + rng.below(3), range: Some((0, 1)), class: "edge-offset-beyond-first-term", ..whole.clone() });
            // offset == first term length: accepted by the arithmetic (the server guarantees <)
            if (all.len() as u64) > len0 {
                edge_calls.push(CallSpec { offset: len0, range: Some((len0, all.len() as u64)), class: "edge-offset-eq-first-term-len", ..whole.clone() });
            }
            // no byte range but a non-zero offset: the sequential writer returns more than it wrote (scope note)
            if len0 >= 2 {
                edge_calls.push(CallSpec { offset: 1 + rng.below(len0 - 1), range: None, class: "edge-norange-with-offset", ..whole.clone() });
            }
            // empty request
            edge_calls.push(CallSpec { offset: rng.below(len0), range: Some((5, 5)), class: "edge-empty-range", ..whole.clone() });
            for call in &edge_calls {
                for writer in [Writer::Seq, Writer::Par] {
                    let nterms = call.last_excl - call.first;
                    let order: Vec<usize> = (0..nterms).rev().collect();
                    let out = run_call(&mut env, &plan, call, writer, &Via::Off, 0);
                    ctx.op(&line_for(&plan, &desc, call, writer, CacheMode::Off, &order), &out.canon());
                    ctx.stat(&format!("{}_{}", call.class, match &out { Outcome::Ok { .. } => "ok", Outcome::Reject(_) => "reject", Outcome::Panic => "panic" }));
                    if call.class == "edge-norange-with-offset" {
                        if let Outcome::Ok { reported, bytes } = &out {
                            if *reported != bytes.len() as u64 { ctx.stat(&format!("scope_note_norange_offset_returned_ne_written_{:?}", writer)); }
                            if bytes.as_slice() != &all[call.offset as usize..] { ctx.fail("C17", "norange-offset-wrong-bytes", format!("plan {pi} {:?}", writer), "{}".into()); }
                        }
                    }
                }
            }
        }
        for m in mocks.iter_mut() { m.delete(); }
    }

    // ---- stress of the plan shape that exposes the cache-put race: a term twice plus a fetch range of the
    //      same xorb that encompasses it, parallel writer, cold cache.  Monitor-only.
    {
        let mut rng = ctx.rng.fork(0xC17_7000);
        let mut plan = gen_equal_plan(&mut rng, 2_000_000);
        for f in plan.fetch.iter_mut() { f.url_path = format!("/p2000000/x0/{}-{}", f.s, f.e); }
        let n = plan.xorbs[0].chunks.len() as u32;
        let t0 = plan.terms[1].clone();
        plan.terms = vec![t0.clone(), t0.clone(), TermSpec { xorb: 0, s: 0, e: n }, t0.clone()];
        plan.fetch = vec![FetchSpec { xorb: 0, s: t0.s, e: t0.e, url_path: format!("/p2000000/x0/{}-{}", t0.s, t0.e) },
                          FetchSpec { xorb: 0, s: 0, e: n, url_path: format!("/p2000000/x0/0-{n}") }];
        plan.delay_ms = 0;
        let mut mocks = plan.register(&server, &mut rng);
        let all: Vec<u8> = plan.terms.iter().flat_map(|t| plan.term_bytes(t)).collect();
        let whole = CallSpec { first: 0, last_excl: plan.terms.len(), offset: 0, range: None, len_delta: vec![], drop_fetch_of_term: None, extra_tail: 0, class: "put-race-stress" };
        let rounds = if quick { 150 } else { 1500 };
        for r in 0..rounds {
            env.counter += 1;
            let salt = env.counter.wrapping_mul(0x9E37_79B9_7F4A_7C15);
            let writer = if r % 4 == 3 { Writer::Seq } else { Writer::Par };
            let out = run_call(&mut env, &plan, &whole, writer, &Via::SharedCache, salt);
            ctx.stat("cache_put_race_stress_runs");
            let good = matches!(&out, Outcome::Ok { reported, bytes } if bytes == &all && *reported == all.len() as u64);
            if is_cache_put_race(&out) {
                ctx.stat("cache_put_race_stress_failures");
                ctx.fail("C17", "cache-put-race-io-error", format!("stress round {r} {:?}: terms [a,a,whole,a] of one xorb, fetch ranges [a, whole], cold cache: {}", writer, match &out { Outcome::Reject(e) => e.clone(), o => o.canon() }),
                    format!("{{\"suite\":\"reconstruct\",\"seed\":{},\"stress_round\":{}}}", ctx.seed, r));
            } else if !good {
                ctx.fail("C17", "put-race-stress-wrong-output", format!("stress round {r} {:?}: {}", writer, match &out { Outcome::Reject(e) => e.clone(), o => o.canon() }), "{}".into());
            }
        }
        for m in mocks.iter_mut() { m.delete(); }
    }

    // ---- one URL per xorb (S3 style: the byte range is only in the Range header).  The client's
    //      single-flight group is keyed by the URL alone.  Monitor-only.
    let n_shared = if quick { 25 } else { 200 };
    for si in 0..n_shared {
        let pi = 1_000_000 + si;
        let mut rng = ctx.rng.fork(0xC17_5000 + si as u64);
        let engineered = si % 4 == 0;
        let plan = if engineered { gen_equal_plan(&mut rng, pi) } else { gen_plan(&mut rng, pi, false, true) };
        let mut mocks = plan.register(&server, &mut rng);
        let all: Vec<u8> = plan.terms.iter().flat_map(|t| plan.term_bytes(t)).collect();
        let multi = (0..plan.xorbs.len()).any(|x| plan.fetch.iter().filter(|f| f.xorb == x).count() >= 2);
        let whole = CallSpec { first: 0, last_excl: plan.terms.len(), offset: 0, range: None, len_delta: vec![], drop_fetch_of_term: None, extra_tail: 0, class: "shared-url" };
        for writer in [Writer::Seq, Writer::Par] {
            let out = run_call(&mut env, &plan, &whole, writer, &Via::Off, 0);
            ctx.stat(if multi { "shared_url_runs_multi_range_xorb" } else { "shared_url_runs_single_range" });
            let good = matches!(&out, Outcome::Ok { reported, bytes } if bytes == &all && *reported == all.len() as u64);
            if !good {
                ctx.stat("shared_url_failures");
                let silent = matches!(&out, Outcome::Ok { .. });
                if silent { ctx.stat("shared_url_failures_silent_wrong_bytes"); }
                ctx.fail("C17", if silent { "shared-url-singleflight-silent-wrong-bytes" } else { "shared-url-singleflight-mixes-ranges" },
                    format!("plan {pi} {:?}: fetch ranges of one xorb share a URL (differ only in url_range): {}", writer, match &out { Outcome::Reject(e) => format!("error {e}"), Outcome::Panic => "panic".into(), Outcome::Ok { reported, bytes } => format!("returned {} wrote {} bytes, correct={}", reported, bytes.len(), bytes == &all) }),
                    format!("{{\"suite\":\"reconstruct\",\"seed\":{},\"shared_url_plan\":{},\"terms\":\"{}\",\"fetch\":\"{}\"}}", ctx.seed, si,
                        plan.terms.iter().map(|t| format!("{}:{}-{}", t.xorb, t.s, t.e)).collect::<Vec<_>>().join(","),
                        plan.fetch.iter().map(|f| format!("{}:{}-{}", f.xorb, f.s, f.e)).collect::<Vec<_>>().join(",")));
            }
        }
        for m in mocks.iter_mut() { m.delete(); }
    }

    // ---- two files at once through one client (what `download_async` does with the files of one call): both plans contain the
    //      same term X[s,e), file 1 inside the fetch range [s-a, e), file 2 inside [s, e+b) (different neighbours of a shared run
    //      of chunks).  Each output must be the term's bytes whatever the other download does.  Monitor-only.
    let n_pairs = if quick { 24 } else { 200 };
    for qi in 0..n_pairs {
        let pi = 2_000_000 + qi;
        let mut rng = ctx.rng.fork(0xC17_6000 + qi as u64);
        let equal = qi % 2 == 0;
        let csize = 1 + rng.below(200) as usize;
        let n = rng.range(4, 12) as u32;
        let chunks: Vec<Vec<u8>> = (0..n).map(|_| { let l = if equal { csize } else { 1 + rng.below(400) as usize }; rng.bytes(l) }).collect();
        let hash = [rng.next(), rng.next(), rng.next(), rng.next()];
        let mk_xorb = |chunks: &Vec<Vec<u8>>| { let mut ser = Vec::new(); let mut ser_off = vec![0u32]; for c in chunks { cas_object::serialize_chunk(c, &mut ser, Some(CompressionScheme::None)).expect("serialize_chunk"); ser_off.push(ser.len() as u32); } Xorb { hash, chunks: chunks.clone(), ser, ser_off } };
        let s = rng.range(1, n as u64 - 2) as u32; let e = rng.range(s as u64 + 1, n as u64 - 1) as u32;
        let a = rng.range(1, s as u64) as u32; let b = rng.range(1, (n - e) as u64) as u32;
        let (f1, f2) = if equal && rng.chance(1, 2) { let k = a.min(b); ((s - k, e), (s, e + k)) } else { ((s - a, e), (s, e + b)) };
        let mk_plan = |id: usize, f: (u32, u32), tag: &str| PlanSpec { id, xorbs: vec![mk_xorb(&chunks)], terms: vec![TermSpec { xorb: 0, s, e }],
            fetch: vec![FetchSpec { xorb: 0, s: f.0, e: f.1, url_path: format!("/q{id}/{tag}") }], shared_url: false, delay_ms: 0 };
        let (p1, p2) = (mk_plan(pi, f1, "a"), mk_plan(pi, f2, "b"));
        let want = p1.term_bytes(&p1.terms[0]);
        let mut mocks = Vec::new();
        for p in [&p1, &p2] {
            let f = &p.fetch[0]; let ur = p.url_range(f);
            let body = p.xorbs[0].ser[ur.start as usize..=ur.end as usize].to_vec();
            let (path, hdr) = (f.url_path.clone(), format!("bytes={}-{}", ur.start, ur.end));
            mocks.push(server.mock(|when, then| { when.method(GET).path(path).header("range", hdr); then.status(206).body(body).delay(Duration::from_millis(25)); }));
        }
        let whole = CallSpec { first: 0, last_excl: 1, offset: 0, range: None, len_delta: vec![], drop_fetch_of_term: None, extra_tail: 0, class: "two-files-at-once" };
        for (writer, cached) in [(Writer::Seq, false), (Writer::Par, false), (Writer::Seq, true), (Writer::Par, true)] {
            let salt = 0x7000_0000 + (qi as u64) * 8 + (writer == Writer::Par) as u64 * 2 + cached as u64;
            let client = if cached { env.client_cache.clone() } else { env.client_off.clone() };
            let (t1, fi1) = build_args(&p1, &whole, env.server, salt);
            let (t2, fi2) = build_args(&p2, &whole, env.server, salt);
            let (o1, o2) = (env.fresh_path("two_a"), env.fresh_path("two_b"));
            let (pr1, pr2) = (OutputProvider::File(FileProvider::new(o1.clone())), OutputProvider::File(FileProvider::new(o2.clone())));
            let (c1, c2) = (client.clone(), client.clone());
            let res = env.pool.external_run_async_task(async move {
                let (fi1, fi2) = (Arc::new(fi1), Arc::new(fi2));
                let d1 = async { match writer { Writer::Seq => c1.reconstruct_file_to_writer(t1, fi1, 0, None, &pr1, None).await, Writer::Par => c1.reconstruct_file_to_writer_parallel(t1, fi1, 0, None, &pr1, None).await } };
                let d2 = async { match writer { Writer::Seq => c2.reconstruct_file_to_writer(t2, fi2, 0, None, &pr2, None).await, Writer::Par => c2.reconstruct_file_to_writer_parallel(t2, fi2, 0, None, &pr2, None).await } };
                tokio::join!(d1, d2)
            });
            let replay = format!("{{\"suite\":\"reconstruct\",\"seed\":{},\"two_files_pair\":{qi},\"xorb_chunks\":{n},\"equal_chunk_sizes\":{equal},\"term\":\"0:{s}-{e}\",\"fetch_file1\":\"{}-{}\",\"fetch_file2\":\"{}-{}\",\"writer\":\"{writer:?}\",\"cache\":{cached}}}", ctx.seed, f1.0, f1.1, f2.0, f2.1);
            match res {
                Err(_) => ctx.fail("C17", "two-files-at-once-panic", format!("pair {qi} {writer:?}: downloading two files that share a term through one client panicked"), replay),
                Ok((r1, r2)) => {
                    for (which, r, path) in [(1, r1, &o1), (2, r2, &o2)] {
                        let got = std::fs::read(path).unwrap_or_default();
                        match r {
                            Ok(nrep) if got == want && nrep as usize == want.len() => {}
                            Ok(nrep) => { ctx.fail("C17", "two-files-at-once-wrong-bytes", format!("pair {qi} {writer:?} cache={cached}: file {which} (term 0:[{s},{e}) inside fetch range {:?}) downloaded while the other file (same term inside {:?}) was being downloaded through the same client: reported {nrep} bytes, wrote {} bytes, {} (expected the {} bytes of the term)", if which == 1 { f1 } else { f2 }, if which == 1 { f2 } else { f1 }, got.len(), if got == want { "content right".to_string() } else { format!("content differs from byte {:?}", got.iter().zip(want.iter()).position(|(x, y)| x != y)) }, want.len()), replay.clone()); }
                            Err(e) => { ctx.fail("C17", "two-files-at-once-error", format!("pair {qi} {writer:?} cache={cached}: file {which} failed while the other file sharing its term was downloaded through the same client: {}", format!("{e:?}").chars().take(160).collect::<String>()), replay.clone()); }
                        }
                    }
                    ctx.stat("two_files_at_once_runs");
                }
            }
            let _ = std::fs::remove_file(&o1); let _ = std::fs::remove_file(&o2);
        }
        for m in mocks.iter_mut() { m.delete(); }
    }

    // ---- many terms under a modest open-file limit ("1..many terms"): 600 terms through both writers while the process may open
    //      only ~150 more descriptors than it already holds (a usual soft limit is 256 or 1024; the writers need a handful at a time)
    for round in 0..(if quick { 1 } else { 4 }) {
        let mut rng = ctx.rng.fork(0xC17_7000 + round as u64);
        let pi = 3_000_000 + round;
        let x = gen_xorb(&mut rng, false);
        let n = x.chunks.len() as u32;
        let nterms = 600 + rng.below(200) as usize;
        let terms: Vec<TermSpec> = (0..nterms).map(|_| { let s = rng.below(n as u64) as u32; let e = rng.range(s as u64 + 1, n as u64) as u32; TermSpec { xorb: 0, s, e } }).collect();
        let plan = PlanSpec { id: pi, xorbs: vec![x], terms, fetch: vec![FetchSpec { xorb: 0, s: 0, e: n, url_path: format!("/m{pi}/x0") }], shared_url: false, delay_ms: 0 };
        let mut mocks = plan.register(&server, &mut rng);
        let all: Vec<u8> = plan.terms.iter().flat_map(|t| plan.term_bytes(t)).collect();
        let whole = CallSpec { first: 0, last_excl: plan.terms.len(), offset: 0, range: None, len_delta: vec![], drop_fetch_of_term: None, extra_tail: 0, class: "many-terms" };
        let open_now = std::fs::read_dir("/proc/self/fd").map(|d| d.count()).unwrap_or(64) as u64;
        let mut old = libc::rlimit { rlim_cur: 0, rlim_max: 0 };
        unsafe { libc::getrlimit(libc::RLIMIT_NOFILE, &mut old); }
        let limited = libc::rlimit { rlim_cur: (open_now + 150).min(old.rlim_max), rlim_max: old.rlim_max };
        for writer in [Writer::Seq, Writer::Par] {
            unsafe { libc::setrlimit(libc::RLIMIT_NOFILE, &limited); }
            let out = run_call(&mut env, &plan, &whole, writer, &Via::Off, 0x7700_0000 + round as u64);
            unsafe { libc::setrlimit(libc::RLIMIT_NOFILE, &old); }
            let replay = format!("{{\"suite\":\"reconstruct\",\"seed\":{},\"many_terms_round\":{round},\"terms\":{nterms},\"xorb_chunks\":{n},\"writer\":\"{writer:?}\",\"open_file_limit\":{},\"descriptors_open_before\":{open_now}}}", ctx.seed, limited.rlim_cur);
            match &out {
                Outcome::Ok { reported, bytes } if bytes == &all && *reported == all.len() as u64 => {}
                o => ctx.fail("C17", "many-terms-plan-fails", format!("a well-formed plan of {nterms} terms over one xorb, {writer:?} writer, file output, {} descriptors available beyond those already open: {}", limited.rlim_cur - open_now, match o { Outcome::Reject(e) => format!("error {e}"), Outcome::Panic => "panic".into(), Outcome::Ok { reported, bytes } => format!("reported {reported}, wrote {} bytes, expected {}", bytes.len(), all.len()) }), replay),
            }
            ctx.stat("many_terms_runs_under_descriptor_limit");
        }
        for m in mocks.iter_mut() { m.delete(); }
    }

    // ---- thorough tier: a file of more than 4 GiB (u32 arithmetic on lengths must not be involved anywhere): 513 terms, each the
    // whole of one 8 MiB xorb, served warm from the chunk cache after the first fetch; the 4 GiB output is checked by length and by
    // sampled positions, not read into memory; monitors only (the list-based model is not run on 4 GiB)
    if !quick {
        let mut rng = ctx.rng.fork(0xC17_9000);
        let chunks: Vec<Vec<u8>> = (0..64).map(|_| rng.bytes(128 * 1024)).collect();
        let mut ser = Vec::new(); let mut ser_off = vec![0u32];
        for c in &chunks { cas_object::serialize_chunk(c, &mut ser, Some(CompressionScheme::None)).expect("serialize_chunk"); ser_off.push(ser.len() as u32); }
        let xorb = Xorb { hash: [rng.next(), rng.next(), rng.next(), rng.next()], chunks, ser, ser_off };
        let nterms = 513usize;
        let plan = PlanSpec { id: 9_000_000, xorbs: vec![xorb], terms: (0..nterms).map(|_| TermSpec { xorb: 0, s: 0, e: 64 }).collect(),
                              fetch: vec![FetchSpec { xorb: 0, s: 0, e: 64, url_path: "/huge/x0".into() }], shared_url: false, delay_ms: 0 };
        let mut mocks = plan.register(&server, &mut rng);
        let term: Vec<u8> = plan.term_bytes(&plan.terms[0]);
        let total: u64 = term.len() as u64 * nterms as u64;
        let whole = CallSpec { first: 0, last_excl: nterms, offset: 0, range: None, len_delta: vec![], drop_fetch_of_term: None, extra_tail: 0, class: "huge-total" };
        for writer in [Writer::Seq, Writer::Par] {
            let (terms, fi) = build_args(&plan, &whole, env.server, 0);
            let client = new_client(&env.pool, Some((tmp_root.join(format!("cache_huge_{writer:?}")), 1 << 28)));
            let out_path = env.fresh_path("huge");
            let provider = OutputProvider::File(FileProvider::new(out_path.clone()));
            let res = env.pool.external_run_async_task(async move {
                let fi = Arc::new(fi);
                match writer {
                    Writer::Seq => client.reconstruct_file_to_writer(terms, fi, 0, None, &provider, None).await,
                    Writer::Par => client.reconstruct_file_to_writer_parallel(terms, fi, 0, None, &provider, None).await,
                }
            });
            let flen = std::fs::metadata(&out_path).map(|m| m.len()).unwrap_or(0);
            let replay = format!("{{\"suite\":\"reconstruct\",\"seed\":{},\"huge_total\":\"{nterms} terms of {} bytes, writer {writer:?}\"}}", ctx.seed, term.len());
            match res {
                Ok(Ok(n)) => {
                    let mut bad = None;
                    if n != total || flen != total { bad = Some(format!("reported {n} bytes, output file has {flen} bytes, the plan describes {total} bytes")); }
                    else {
                        use std::io::{Read, Seek, SeekFrom};
                        let mut f = std::fs::File::open(&out_path).unwrap();
                        for _ in 0..200 {
                            let pos = rng.below(total - 4096); let mut buf = [0u8; 4096];
                            f.seek(SeekFrom::Start(pos)).unwrap(); f.read_exact(&mut buf).unwrap();
                            let ok = (0..4096u64).all(|i| buf[i as usize] == term[((pos + i) % term.len() as u64) as usize]);
                            if !ok { bad = Some(format!("bytes at offset {pos} differ from the concatenated term data")); break; }
                        }
                    }
                    if let Some(b) = bad { ctx.fail("C17", "huge-file-wrong-output", format!("{writer:?} writer, whole file of {total} bytes: {b}"), replay); }
                }
                Ok(Err(e)) => ctx.fail("C17", "huge-file-error", format!("{writer:?} writer failed on a whole file of {total} bytes: {e:?}"), replay),
                Err(_) => ctx.fail("C17", "huge-file-panic", format!("{writer:?} writer panicked on a whole file of {total} bytes"), replay),
            }
            ctx.stat("huge_total_runs");
            let _ = std::fs::remove_file(&out_path);
            let _ = std::fs::remove_dir_all(tmp_root.join(format!("cache_huge_{writer:?}")));
        }
        for m in mocks.iter_mut() { m.delete(); }
    }

    std::panic::set_hook(prev_hook);
    let _ = std::fs::remove_dir_all(&tmp_root);
}
