//! Suite `deduper` (C01/C02/C03/C14/C15 at the FileDeduper / DataAggregator level): drives the real
//! `FileDeduper` with a scripted `DeduplicationDataInterface` (truthful but adversarial answers from a
//! store of known xorbs), under several limit configurations (one child process each), and compares
//! segments, internal references, xorbs cut, metrics, file hash, verification and aggregation with the model.
use std::collections::BTreeMap;
use std::sync::{Arc, Mutex};

use deduplication::constants::{MAX_XORB_BYTES, MAX_XORB_CHUNKS};
use deduplication::{Chunk, DataAggregator, DeduplicationDataInterface, DeduplicationMetrics, FileDeduper, RawXorbData};
use mdb_shard::file_structs::{FileDataSequenceEntry, FileMetadataExt, MDBFileInfo};
use merklehash::MerkleHash;

use crate::ctx::{fnv, run_children, Ctx};
use crate::rng::Rng;
use crate::suites::hashes::rand_hash;

pub fn run_parent(ctx: &mut Ctx) {
    let mut cfgs: Vec<Vec<(String, String)>> = Vec::new();
    let list: &[(usize, usize)] = if ctx.quick() { &[(64 << 20, 8192), (400, 6), (300, 1), (1000, 3), (100_000, 16), (250, 2)] }
                                  else { &[(64 << 20, 8192), (400, 6), (300, 1), (1000, 3), (100_000, 16), (250, 2), (5000, 8), (600, 64), (129, 1000), (2000, 5), (64 << 20, 2), (3000, 128)] };
    for (b, c) in list { cfgs.push(vec![("HF_XET_MAX_XORB_BYTES".into(), b.to_string()), ("HF_XET_MAX_XORB_CHUNKS".into(), c.to_string())]); }
    run_children(ctx, "deduper-child", &cfgs);
}

#[derive(Default)]
struct Shared {
    /// known xorbs: what earlier sessions / files registered (hash -> chunk (hash,len) list)
    store: Vec<(MerkleHash, Vec<(MerkleHash, usize)>)>,
    /// shards that "arrive" through global dedup between the two passes
    late: Vec<(MerkleHash, Vec<(MerkleHash, usize)>)>,
    rng: Option<Rng>,
    /// log of the current process_chunks call: (pass, query_len, answer)
    log: Vec<(u8, usize, Option<(usize, FileDataSequenceEntry)>)>,
    pass: u8,
    global_registered: usize,
    xorbs: Vec<RawXorbData>,
    want_second_pass: bool,
    /// answer every query with the longest truthful run and never miss (pattern 5: C11 "covered" histories)
    honest: bool,
}

struct Scripted(Arc<Mutex<Shared>>);

fn find_answer(sh: &mut Shared, q: &[MerkleHash]) -> Option<(usize, FileDataSequenceEntry)> {
    let rng = sh.rng.as_mut().unwrap();
    // all truthful candidate positions of q[0]
    let mut cands: Vec<(usize, usize)> = Vec::new();
    for (xi, (_, chunks)) in sh.store.iter().enumerate() { for (ci, (h, _)) in chunks.iter().enumerate() { if *h == q[0] { cands.push((xi, ci)); } } }
    if cands.is_empty() { return None; }
    if sh.honest {
        let run_len = |xi: usize, ci: usize| { let chunks = &sh.store[xi].1; let mut n = 0; while ci + n < chunks.len() && n < q.len() && chunks[ci + n].0 == q[n] { n += 1; } n };
        let (xi, ci) = *cands.iter().max_by_key(|(xi, ci)| run_len(*xi, *ci)).unwrap();
        let n = run_len(xi, ci);
        let (xh, chunks) = &sh.store[xi];
        let bytes: usize = chunks[ci..ci + n].iter().map(|c| c.1).sum();
        return Some((n, FileDataSequenceEntry::new(*xh, bytes, ci, ci + n)));
    }
    if rng.chance(1, 12) { return None; }                                   // a miss is always allowed
    let (xi, ci) = cands[rng.below(cands.len() as u64) as usize];          // any duplicate
    let (xh, chunks) = &sh.store[xi];
    let mut n = 0;
    while ci + n < chunks.len() && n < q.len() && chunks[ci + n].0 == q[n] { n += 1; }
    if n > 1 && rng.chance(1, 5) { n = rng.range(1, n as u64) as usize; }   // a shorter truthful run
    let bytes: usize = chunks[ci..ci + n].iter().map(|c| c.1).sum();
    Some((n, FileDataSequenceEntry::new(*xh, bytes, ci, ci + n)))
}

#[async_trait::async_trait]
impl DeduplicationDataInterface for Scripted {
    type ErrorType = String;
    async fn chunk_hash_dedup_query(&self, q: &[MerkleHash]) -> Result<Option<(usize, FileDataSequenceEntry)>, String> {
        let mut sh = self.0.lock().unwrap();
        let a = find_answer(&mut sh, q);
        let pass = sh.pass;
        sh.log.push((pass, q.len(), a.clone()));
        Ok(a)
    }
    async fn register_global_dedup_query(&mut self, _h: MerkleHash) -> Result<(), String> { self.0.lock().unwrap().global_registered += 1; Ok(()) }
    async fn complete_global_dedup_queries(&mut self) -> Result<bool, String> {
        let mut sh = self.0.lock().unwrap();
        if sh.pass == 0 && sh.want_second_pass && !sh.late.is_empty() {
            let late = std::mem::take(&mut sh.late);
            sh.store.extend(late);
            sh.pass = 1;
            Ok(true)
        } else { Ok(false) }
    }
    async fn register_new_xorb(&mut self, xorb: RawXorbData) -> Result<(), String> {
        let mut sh = self.0.lock().unwrap();
        // a xorb cut by this file becomes known to later queries (as the session shard would make it)
        let entry = (xorb.hash(), xorb.cas_info.chunks.iter().map(|c| (c.chunk_hash, c.unpacked_segment_bytes as usize)).collect());
        sh.store.push(entry);
        sh.xorbs.push(xorb);
        Ok(())
    }
}

fn seg_str(s: &FileDataSequenceEntry) -> String { format!("{}:{}:{}:{}:{}", s.cas_hash.hex(), s.cas_flags, s.unpacked_segment_bytes, s.chunk_index_start, s.chunk_index_end) }
fn segs_str(l: &[FileDataSequenceEntry]) -> String { l.iter().map(seg_str).collect::<Vec<_>>().join(",") }
fn metrics_str(m: &DeduplicationMetrics) -> String {
    format!("{},{},{},{},{},{},{},{},{},{}", m.total_bytes, m.deduped_bytes, m.new_bytes, m.deduped_bytes_by_global_dedup, m.defrag_prevented_dedup_bytes,
            m.total_chunks, m.deduped_chunks, m.new_chunks, m.deduped_chunks_by_global_dedup, m.defrag_prevented_dedup_chunks)
}
fn xorb_str(x: &RawXorbData) -> String { format!("{}:{}:{}", x.hash().hex(), x.data.len(), x.num_bytes()) }
pub fn file_info_str(f: &MDBFileInfo) -> String {
    format!("{}:{}:{}[{}][{}][{}]", f.metadata.file_hash.hex(), f.metadata.file_flags, f.metadata.num_entries, segs_str(&f.segments),
            f.verification.iter().map(|v| v.range_hash.hex()).collect::<Vec<_>>().join(","), f.metadata_ext.as_ref().map(|m| m.sha256.hex()).unwrap_or("-".into()))
}

struct FileRun { line: String, agg: DataAggregator, hash: MerkleHash, metrics: DeduplicationMetrics, total_fed: usize, xorbs: Vec<RawXorbData>, chunks: Vec<(MerkleHash, usize)>, answer: String,
                 /// every `deduped_blocks` slot the second loop consulted held an answer of at least 8 chunks (C11_repeat_free_real_estimator)
                 covered8: bool,
                 /// `dedup.firstpass` operations (request, what the implementation did) of the first calls of the file
                 firstpass: Vec<(String, String)> }

/// build one file out of fresh chunks and chunks of known xorbs, feed it in blocks, log everything
fn run_file(rt: &tokio::runtime::Runtime, rng: &mut Rng, shared: &Arc<Mutex<Shared>>, pattern: u64) -> FileRun {
    let nchunks = match rng.below(8) { 0 => 0, 1 => 1, 2 => rng.range(2, 6), 3 | 4 => rng.range(6, 40), _ => rng.range(40, 700) } as usize;
    // compose the chunk sequence
    let mut chunks: Vec<Chunk> = Vec::new();
    let store_snapshot: Vec<Vec<(MerkleHash, usize)>> = { let sh = shared.lock().unwrap(); sh.store.iter().chain(sh.late.iter()).map(|x| x.1.clone()).collect() };
    let mk = |h: MerkleHash, len: usize| Chunk { hash: h, data: Arc::from(vec![0u8; len]) };
    while chunks.len() < nchunks {
        let r = rng.below(10);
        let old_run = |rng: &mut Rng, maxn: usize| -> Vec<Chunk> {
            if store_snapshot.is_empty() { return vec![]; }
            let x = rng.pick(&store_snapshot); if x.is_empty() { return vec![]; }
            let s = rng.below(x.len() as u64) as usize; let n = (rng.range(1, maxn as u64) as usize).min(x.len() - s);
            x[s..s + n].iter().map(|(h, l)| mk(*h, *l)).collect()
        };
        match pattern {
            0 => { chunks.push(mk(rand_hash(rng), rng.range(1, 50) as usize)); }                                   // all fresh
            1 => { if r < 5 { chunks.extend(old_run(rng, 30)); } else { chunks.push(mk(rand_hash(rng), rng.range(1, 50) as usize)); } }
            2 => { // heavily fragmented: 1 old chunk, 1..3 fresh, repeated (drives the fragmentation estimator)
                chunks.extend(old_run(rng, 1)); for _ in 0..rng.range(1, 3) { chunks.push(mk(rand_hash(rng), rng.range(1, 50) as usize)); } }
            3 => { // self-repetition: repeat earlier chunks of this very file
                if !chunks.is_empty() && r < 6 { let s = rng.below(chunks.len() as u64) as usize; let n = (rng.range(1, 12) as usize).min(chunks.len() - s); let rep: Vec<Chunk> = chunks[s..s + n].to_vec(); chunks.extend(rep); }
                else { chunks.push(mk(rand_hash(rng), rng.range(1, 50) as usize)); } }
            5 => { // only content the store knows, in runs of at least 8 chunks (fed in one call, answered honestly)
                let long: Vec<&Vec<(MerkleHash, usize)>> = store_snapshot.iter().filter(|x| x.len() >= 8).collect();
                if long.is_empty() { break; }
                let x = *rng.pick(&long); let s = rng.below((x.len() - 7) as u64) as usize; let n = rng.range(8, (x.len() - s) as u64) as usize;
                chunks.extend(x[s..s + n].iter().map(|(h, l)| mk(*h, *l))); }
            _ => { if r < 3 { chunks.extend(old_run(rng, 60)); } else if r < 5 && !chunks.is_empty() { let c = chunks[rng.below(chunks.len() as u64) as usize].clone(); chunks.push(c); } else { chunks.push(mk(rand_hash(rng), rng.range(1, 50) as usize)); } }
        }
        if chunks.len() > nchunks + 80 { break; }
    }
    let salt: [u8; 32] = if rng.chance(1, 3) { [0u8; 32] } else { let mut s = [0u8; 32]; rng.fill(&mut s); s };
    let sha = rand_hash(rng);
    { let mut sh = shared.lock().unwrap(); sh.xorbs.clear(); }
    let mut fd = FileDeduper::new(Scripted(shared.clone()));
    let mut calls = Vec::new();
    let mut pos = 0;
    let mut total_fed = 0;
    let mut covered8 = true;
    let mut firstpass: Vec<(String, String)> = Vec::new();
    shared.lock().unwrap().honest = pattern == 5;
    while pos < chunks.len() {
        let n = if pattern == 5 { chunks.len() } else { (match rng.below(4) { 0 => 1, 1 => rng.range(1, 5), _ => rng.range(1, 300) } as usize).min(chunks.len() - pos) };
        let block = &chunks[pos..pos + n];
        { let mut sh = shared.lock().unwrap(); sh.log.clear(); sh.pass = 0; sh.want_second_pass = sh.rng.as_mut().unwrap().chance(1, 3); }
        rt.block_on(fd.process_chunks(block)).unwrap();
        // reconstruct `deduped_blocks` from the query log
        let sh = shared.lock().unwrap();
        let mut answers = Vec::new();
        let (mut gc, mut gb) = (0usize, 0usize);
        for (pass, qlen, a) in sh.log.iter() {
            if let Some((k, fse)) = a {
                answers.push(format!("{}:{}:{}", n - qlen, k, seg_str(fse)));
                if *pass == 1 { gc += k; gb += fse.unpacked_segment_bytes as usize; }
            }
        }
        // the first loop as the implementation ran it: per pass the positions it asked about and what it was told
        if firstpass.len() < 4 {
            let tok = |pass: u8| -> (String, String) {
                let l: Vec<(usize, Option<usize>)> = sh.log.iter().filter(|e| e.0 == pass).map(|(_, qlen, a)| (n - qlen, a.as_ref().map(|x| x.0))).collect();
                (if l.is_empty() { "-".to_string() } else { l.iter().map(|(p, k)| match k { Some(k) => format!("{p}:{k}"), None => format!("{p}:-") }).collect::<Vec<_>>().join(",") },
                 l.iter().map(|(p, _)| p.to_string()).collect::<Vec<_>>().join(","))
            };
            let (p0, a0) = tok(0);
            let two = sh.log.iter().any(|e| e.0 == 1) || sh.pass == 1;
            let mut slots: BTreeMap<usize, usize> = BTreeMap::new();
            for (_, qlen, a) in sh.log.iter() { if let Some((k, _)) = a { slots.insert(n - qlen, *k); } }
            let slots_s = slots.iter().map(|(p, k)| format!("{p}:{k}")).collect::<Vec<_>>().join(",");
            if two { let (p1, a1) = tok(1); firstpass.push((format!("dedup.firstpass n={n} p0={p0} p1={p1}"), format!("slots={slots_s} asked0={a0} asked1={a1}"))); }
            else { firstpass.push((format!("dedup.firstpass n={n} p0={p0}"), format!("slots={slots_s} asked0={a0}"))); }
        }
        // follow the second loop: from slot 0, an answer of k chunks leads to slot + k
        { let mut at: BTreeMap<usize, usize> = BTreeMap::new();
          for (_, qlen, a) in sh.log.iter() { if let Some((k, _)) = a { at.insert(n - qlen, *k); } }
          let mut p = 0; while p < n { match at.get(&p) { Some(k) if *k >= 8 => p += *k, _ => { covered8 = false; break; } } } }
        drop(sh);
        let cs = block.iter().map(|c| format!("{}:{}", c.hash.hex(), c.data.len())).collect::<Vec<_>>().join(",");
        calls.push(format!("{cs}@{}@{gc}@{gb}", if answers.is_empty() { "-".to_string() } else { answers.join(";") }));
        total_fed += block.iter().map(|c| c.data.len()).sum::<usize>();
        pos += n;
    }
    shared.lock().unwrap().honest = false;
    let xorbs: Vec<RawXorbData> = std::mem::take(&mut shared.lock().unwrap().xorbs);
    let (fh, agg, metrics, new_xorbs) = fd.finalize(salt, Some(FileMetadataExt::new(sha)));
    let fi = &agg.pending_file_info[0];
    let salt_hex: String = salt.iter().map(|b| format!("{b:02x}")).collect();
    let line = format!("{salt_hex}/{}/{}", sha.hex(), if calls.is_empty() { "-".into() } else { calls.join("|") });
    let answer = format!("fh={} segs={} refs={} m={} cut={} nx={} rest={}:{}", fh.hex(), segs_str(&fi.0.segments), crate::ctx::join(&fi.1), metrics_str(&metrics),
                         xorbs.iter().map(xorb_str).collect::<Vec<_>>().join(","), new_xorbs.iter().map(|h| h.hex()).collect::<Vec<_>>().join(","), agg.num_chunks(), agg.num_bytes());
    FileRun { line, agg, hash: fh, metrics, total_fed, xorbs, chunks: chunks.iter().map(|c| (c.hash, c.data.len())).collect(), answer, covered8, firstpass }
}

pub fn run_child(ctx: &mut Ctx) {
    let (maxb, maxc) = (*MAX_XORB_BYTES, *MAX_XORB_CHUNKS);
    let rt = tokio::runtime::Builder::new_current_thread().build().unwrap();
    let nfiles = if ctx.quick() { 70 } else { 900 };
    let shared = Arc::new(Mutex::new(Shared { rng: Some(ctx.rng.fork(5)), ..Default::default() }));
    let mut group: Vec<FileRun> = Vec::new();
    for fno in 0..nfiles {
        let mut rng = ctx.rng.fork(20_000 + fno);
        // now and then reset the store (a new "world"), or plant late shards for the global-dedup second pass
        if fno % 25 == 0 { let mut sh = shared.lock().unwrap(); sh.store.clear(); sh.late.clear(); for _ in 0..rng.below(4) { let n = rng.range(1, 60) as usize; let cs: Vec<(MerkleHash, usize)> = (0..n).map(|_| (rand_hash(&mut rng), rng.range(1, 50) as usize)).collect(); sh.store.push((rand_hash(&mut rng), cs)); } }
        if rng.chance(1, 4) { let mut sh = shared.lock().unwrap(); let n = rng.range(1, 40) as usize; let cs: Vec<(MerkleHash, usize)> = (0..n).map(|_| (rand_hash(&mut rng), rng.range(1, 50) as usize)).collect(); sh.late.push((rand_hash(&mut rng), cs)); }
        let pattern = rng.below(6);
        let world: BTreeMap<MerkleHash, Vec<(MerkleHash, usize)>> = { let sh = shared.lock().unwrap(); sh.store.iter().chain(sh.late.iter()).cloned().collect() };
        let fr = run_file(&rt, &mut rng, &shared, pattern);
        let replay = format!("{{\"suite\":\"deduper\",\"seed\":{},\"file\":{},\"maxb\":{},\"maxc\":{},\"pattern\":{}}}", ctx.seed, fno, maxb, maxc, pattern);

        for (req, ans) in &fr.firstpass { ctx.op(req, ans); ctx.stat(if req.contains(" p1=") { "firstpass_ops_two_passes" } else { "firstpass_ops_one_pass" }); }
        // ---- monitors on the implementation
        let m = &fr.metrics;
        // C11 (C11_repeat_free_real_estimator): every consulted slot answered with a run of >= 8 chunks => nothing is stored again
        if fr.covered8 && fr.total_fed > 0 {
            ctx.stat("files_fully_answered_with_runs_of_8_or_more");
            if m.new_bytes != 0 || m.new_chunks != 0 || !fr.xorbs.is_empty() || fr.agg.num_chunks() != 0 {
                ctx.fail("C11", "answered-long-runs-stored-again", format!("every chunk of file {fno} ({} chunks, {} bytes) was answered by a lookup with a run of at least 8 chunks, yet new_bytes = {}, new_chunks = {}, {} xorbs cut, {} chunks left for the session xorb", fr.chunks.len(), fr.total_fed, m.new_bytes, m.new_chunks, fr.xorbs.len(), fr.agg.num_chunks()), replay.clone());
            }
        }
        if m.total_bytes != fr.total_fed { ctx.fail("C14", "metrics-double-count", format!("total_bytes {} != bytes fed {} (file {fno}, limits {maxb}/{maxc})", m.total_bytes, fr.total_fed), replay.clone()); }
        if m.new_bytes + m.deduped_bytes != m.total_bytes || m.new_chunks + m.deduped_chunks != m.total_chunks { ctx.fail("C14", "new-plus-deduped", format!("new + deduped != total (file {fno})"), replay.clone()); }
        if m.defrag_prevented_dedup_bytes > m.new_bytes || m.defrag_prevented_dedup_chunks > m.new_chunks { ctx.fail("C14", "prevented-exceeds-new", format!("withheld bytes {} > new bytes {} (file {fno})", m.defrag_prevented_dedup_bytes, m.new_bytes), replay.clone()); }
        for x in &fr.xorbs {
            if x.data.is_empty() || x.data.len() > maxc || x.num_bytes() > maxb || x.num_bytes() == 0 { ctx.fail("C15", "xorb-limits", format!("mid-file xorb with {} chunks / {} bytes violates limits {maxc}/{maxb} (file {fno})", x.data.len(), x.num_bytes()), replay.clone()); }
        }
        if fr.agg.num_chunks() > maxc || fr.agg.num_bytes() > maxb { ctx.fail("C15", "aggregate-limits", format!("remaining data exceeds limits (file {fno})"), replay.clone()); }
        // every segment resolves to the right chunk hashes (C01 at the hash level): walk the segments
        {
            let fi = &fr.agg.pending_file_info[0].0;
            let mut known: BTreeMap<MerkleHash, Vec<(MerkleHash, usize)>> = world.clone();
            for x in &fr.xorbs { known.insert(x.hash(), x.cas_info.chunks.iter().map(|c| (c.chunk_hash, c.unpacked_segment_bytes as usize)).collect()); }
            let rest: Vec<(MerkleHash, usize)> = fr.agg.chunks.iter().map(|c| (c.hash, c.data.len())).collect();
            let mut rebuilt: Vec<(MerkleHash, usize)> = Vec::new();
            let mut ok = true;
            for (si, s) in fi.segments.iter().enumerate() {
                let src: Option<&Vec<(MerkleHash, usize)>> = if s.cas_hash == MerkleHash::default() { Some(&rest) } else { known.get(&s.cas_hash) };
                let is_ref = fr.agg.pending_file_info[0].1.contains(&si);
                if (s.cas_hash == MerkleHash::default()) != is_ref { ok = false; break; }
                match src { Some(v) if (s.chunk_index_end as usize) <= v.len() && s.chunk_index_start < s.chunk_index_end => {
                        let sl = &v[s.chunk_index_start as usize..s.chunk_index_end as usize];
                        if sl.iter().map(|c| c.1).sum::<usize>() != s.unpacked_segment_bytes as usize { ok = false; break; }
                        rebuilt.extend_from_slice(sl); }
                    _ => { ok = false; break; } }
            }
            if !ok || rebuilt != fr.chunks { ctx.fail("C01", "segments-do-not-resolve", format!("file segments do not resolve to the file's chunk sequence (file {fno}, limits {maxb}/{maxc})"), replay.clone()); }
        }

        // ---- dedup.file op (includes DataAggregator::finalize of this file alone)
        let line = fr.line.clone();
        let answer = fr.answer.clone();
        let hash = fr.hash;
        // finalize a clone-equivalent: re-run is impossible (consumed), so aggregate in groups below and finalize there;
        // for the single-file op we finalize a *copy* built by merging into an empty aggregator
        let mut solo = DataAggregator::default();
        let fr_chunks = fr.agg.num_chunks();
        group.push(fr);
        let last = group.pop().unwrap();
        // we need the aggregator twice (solo finalize and group merge): rebuild the group entry from a second identical run is not
        // possible, so alternate: even files are finalized solo, odd files go to the group
        if fno % 2 == 0 {
            solo.merge_in(last.agg);
            let (x, files) = solo.finalize();
            ctx.op(&format!("dedup.file maxb={maxb} maxc={maxc} file={line}"), &format!("{answer} agg={} files={}", xorb_str(&x), files.iter().map(file_info_str).collect::<Vec<_>>().join(" ")));
            for f in &files { if f.segments.iter().any(|s| s.cas_hash == MerkleHash::default()) && x.num_bytes() > 0 { ctx.fail("C15", "unresolved-xorb-reference", format!("file record with a zero xorb hash after finalize (file {fno})"), replay.clone()); } }
        } else {
            group.push(FileRun { agg: last.agg, ..FileRun { line: line.clone(), agg: DataAggregator::default(), hash, metrics: last.metrics, total_fed: last.total_fed, xorbs: vec![], chunks: vec![], answer: String::new(), covered8: false, firstpass: vec![] } });
        }
        let _ = fr_chunks;
        // ---- dedup.multi: greedy aggregation of the collected odd files
        if group.len() >= 5 || (fno + 1 == nfiles && !group.is_empty()) {
            let lines: Vec<String> = group.iter().map(|g| g.line.clone()).collect();
            let mut cur = DataAggregator::default();
            let mut outs = Vec::new();
            for g in group.drain(..) {
                if cur.num_bytes() + g.agg.num_bytes() > maxb || cur.num_chunks() + g.agg.num_chunks() > maxc {
                    let (x, files) = std::mem::take(&mut cur).finalize();
                    outs.push(format!("{}<{}>", xorb_str(&x), files.iter().map(file_info_str).collect::<Vec<_>>().join(" ")));
                    cur = g.agg;
                } else { cur.merge_in(g.agg); }
            }
            let (x, files) = cur.finalize();
            outs.push(format!("{}<{}>", xorb_str(&x), files.iter().map(file_info_str).collect::<Vec<_>>().join(" ")));
            ctx.op(&format!("dedup.multi maxb={maxb} maxc={maxc} files={}", lines.join("#")), &outs.join(" ; "));
            ctx.stat("multi_ops");
        }
        ctx.stat(&format!("pattern_{}", ["fresh", "mixed", "fragmented", "self_repeat", "long_old_runs", "known_runs_of_8_or_more"][pattern as usize]));
        ctx.stat_add("prevented_chunks", m_prevented(&group, &ctx.stats));
        ctx.case(fnv(line.as_bytes()), line.len() > 200);
    }
}

fn m_prevented(_g: &[FileRun], _s: &BTreeMap<String, u64>) -> u64 { 0 }
