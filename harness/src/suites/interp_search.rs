//! Suite `interp_search` (C09): the real `mdb_shard::interpolation_search::search_on_sorted_u64s` on generated
//! sorted tables vs the Lean model `Xet.InterpSearch.search` (driver prefix `search.`).
//!
//! Compared per query: the returned values *in the order written* and the entry offsets of every
//! `reader.seek` (i.e. the whole probe sequence, which also pins the model's emulation of the f64 probe
//! computation and the constants READ_WINDOW_SIZE / EXPECTED_MAX_NUM_DUPLICATES).
//! Monitors on the implementation (C09): result ⊆ values stored under the key (as multisets); all of them
//! when their number is < capacity, exactly `capacity` otherwise; no panic, no io error; every byte read
//! lies inside the table region (the table is embedded between filler bytes like in a shard file).
use std::io::{Read, Seek, SeekFrom};
use std::panic::{catch_unwind, AssertUnwindSafe};

use mdb_shard::interpolation_search::search_on_sorted_u64s;

use crate::ctx::{fnv, join, Ctx};
use crate::rng::Rng;

/// `Read + Seek` over a byte slice that logs every seek target and the byte range touched by reads.
struct LogReader<'a> {
    data: &'a [u8],
    pos: u64,
    seeks: Vec<u64>,
    min_read: u64,
    max_read_end: u64,
    bytes_read: u64,
}

impl<'a> LogReader<'a> {
    fn new(data: &'a [u8]) -> Self {
        LogReader { data, pos: 0, seeks: Vec::new(), min_read: u64::MAX, max_read_end: 0, bytes_read: 0 }
    }
}

impl Read for LogReader<'_> {
    fn read(&mut self, buf: &mut [u8]) -> std::io::Result<usize> {
        let len = self.data.len() as u64;
        if self.pos >= len || buf.is_empty() {
            return Ok(0);
        }
        let n = (buf.len() as u64).min(len - self.pos) as usize;
        let p = self.pos as usize;
        buf[..n].copy_from_slice(&self.data[p..p + n]);
        self.min_read = self.min_read.min(self.pos);
        self.max_read_end = self.max_read_end.max(self.pos + n as u64);
        self.bytes_read += n as u64;
        self.pos += n as u64;
        Ok(n)
    }
}

impl Seek for LogReader<'_> {
    fn seek(&mut self, to: SeekFrom) -> std::io::Result<u64> {
        let np = match to {
            SeekFrom::Start(p) => p as i128,
            SeekFrom::Current(d) => self.pos as i128 + d as i128,
            SeekFrom::End(d) => self.data.len() as i128 + d as i128,
        };
        if np < 0 || np > u64::MAX as i128 {
            return Err(std::io::Error::new(std::io::ErrorKind::InvalidInput, "seek out of range"));
        }
        self.pos = np as u64;
        self.seeks.push(self.pos);
        Ok(self.pos)
    }
}

fn rd_u32<R: Read>(r: &mut R) -> std::io::Result<u32> {
    let mut b = [0u8; 4];
    r.read_exact(&mut b)?;
    Ok(u32::from_le_bytes(b))
}
fn rd_u64<R: Read>(r: &mut R) -> std::io::Result<u64> {
    let mut b = [0u8; 8];
    r.read_exact(&mut b)?;
    Ok(u64::from_le_bytes(b))
}

const KINDS: &[&str] = &["uniform", "clustered", "extremes", "dups1to9", "allequal", "dense", "geometric", "stairs"];

/// sorted keys of one of the named distributions
fn gen_keys(rng: &mut Rng, kind: usize, n: usize) -> Vec<u64> {
    let mut ks: Vec<u64> = Vec::with_capacity(n);
    match kind {
        0 => { for _ in 0..n { ks.push(rng.next()); } }
        1 => {
            // all keys inside one 2^-20 slice of the key space (2^44 wide)
            let base = rng.next() & !((1u64 << 44) - 1);
            for _ in 0..n { ks.push(base | (rng.next() & ((1u64 << 44) - 1))); }
        }
        2 => {
            // 0 / u64::MAX / u64::MAX-1 (each possibly several times) around random middle keys
            for _ in 0..n {
                ks.push(match rng.below(8) { 0 => 0, 1 => u64::MAX, 2 => u64::MAX - 1, 3 => 1, _ => rng.next() });
            }
        }
        3 => {
            // runs of 1..9 equal keys
            while ks.len() < n {
                let k = rng.next();
                let run = rng.range(1, 9) as usize;
                for _ in 0..run.min(n - ks.len()) { ks.push(k); }
            }
        }
        4 => {
            let k = match rng.below(4) { 0 => 0, 1 => u64::MAX, 2 => u64::MAX - 1, _ => rng.next() };
            ks.resize(n, k);
        }
        5 => {
            // small dense range: long runs (up to hundreds) of equal keys, neighbours differ by 1
            let span = rng.range(1, (n as u64 / 3).max(2));
            let base = match rng.below(3) { 0 => 0, 1 => u64::MAX - span, _ => rng.next() >> 1 };
            for _ in 0..n { ks.push(base + rng.below(span + 1)); }
        }
        6 => {
            // geometric: uniformly random bit length -- interpolation guesses badly, many iterations
            for _ in 0..n { let b = rng.below(65); ks.push(if b == 0 { 0 } else { rng.next() >> (64 - b) }); }
        }
        _ => {
            // stairs: a few huge plateaus plus a sprinkling of singletons between them
            let plateaus = rng.range(1, 5);
            let pv: Vec<u64> = (0..plateaus).map(|_| rng.next()).collect();
            for _ in 0..n { ks.push(if rng.chance(9, 10) { *rng.pick(&pv) } else { rng.next() }); }
        }
    }
    ks.sort_unstable();
    ks
}

fn gen_size(rng: &mut Rng, quick: bool) -> usize {
    match rng.below(12) {
        0 => rng.below(4) as usize,                      // 0..3
        1 => rng.range(4, 12) as usize,
        2 => rng.range(250, 262) as usize,               // around READ_WINDOW_SIZE: loop entered iff n >= 256
        3 => *rng.pick(&[255usize, 256, 257, 258, 511, 512, 513, 768, 1024]),
        4 | 5 => rng.range(257, 1200) as usize,
        6 | 7 | 8 => rng.range(1000, 4000) as usize,
        9 => 4000,
        _ => if quick || rng.chance(3, 4) { rng.range(13, 4000) as usize } else { rng.range(4000, 40000) as usize },
    }
}

struct TableCase {
    keys: Vec<u64>,
    vals: Vec<u64>,
    vs: usize,
    rs: u64,
    buf: Vec<u8>,
    blob_off: usize,
}

fn build_table(ctx: &mut Ctx, rng: &mut Rng, keys: Vec<u64>, vs: usize) -> TableCase {
    let n = keys.len();
    // distinct values (odd multiplier is a bijection), so multiset checks are sharp
    let salt = rng.next() | 1;
    let vals: Vec<u64> = (0..n as u64).map(|i| {
        let v = (i + 1).wrapping_mul(salt);
        if vs == 4 { (i as u32 + 1).wrapping_mul(salt as u32) as u64 } else { v }
    }).collect();
    let mut table = Vec::with_capacity(n * (8 + vs));
    for i in 0..n {
        table.extend_from_slice(&keys[i].to_le_bytes());
        table.extend_from_slice(&vals[i].to_le_bytes()[..vs]);
    }
    let rs = match rng.below(3) { 0 => 0, 1 => rng.range(1, 200), _ => 48 };
    // filler before and after: looks like more records with keys equal to the neighbours, so an
    // out-of-table read would not fail but silently produce plausible data
    let mut buf = Vec::with_capacity(rs as usize + table.len() + 64);
    let first = keys.first().copied().unwrap_or(0);
    let last = keys.last().copied().unwrap_or(u64::MAX);
    while buf.len() < rs as usize { buf.extend_from_slice(&first.to_le_bytes()); }
    buf.truncate(rs as usize);
    buf.extend_from_slice(&table);
    for _ in 0..4 { buf.extend_from_slice(&last.to_le_bytes()); buf.extend_from_slice(&0xEEEE_EEEE_EEEE_EEEEu64.to_le_bytes()[..vs]); }
    let (blob_off, _) = ctx.blob(&table);
    TableCase { keys, vals, vs, rs, buf, blob_off }
}

/// query keys for a table: present ones (first, last, random, inside runs), absent neighbours, extremes, random
fn gen_queries(rng: &mut Rng, keys: &[u64], want: usize) -> Vec<u64> {
    let mut qs: Vec<u64> = vec![0, 1, u64::MAX, u64::MAX - 1];
    let n = keys.len();
    if n > 0 {
        let mut pos = vec![0usize, n - 1, n / 2];
        for _ in 0..want { pos.push(rng.below(n as u64) as usize); }
        for p in pos {
            let k = keys[p];
            qs.push(k);
            qs.push(k.wrapping_sub(1));
            qs.push(k.wrapping_add(1));
        }
        // midpoints between neighbours (absent unless equal/adjacent)
        for _ in 0..want / 2 {
            let p = rng.below(n as u64) as usize;
            if p + 1 < n { qs.push(keys[p] + (keys[p + 1] - keys[p]) / 2); }
        }
    }
    for _ in 0..want / 2 { qs.push(rng.next()); }
    qs.sort_unstable();
    qs.dedup();
    // shuffle so that one request line mixes low/high/present/absent keys
    for i in (1..qs.len()).rev() { let j = rng.below(i as u64 + 1) as usize; qs.swap(i, j); }
    qs
}

struct Outcome {
    answer: String,
    loop_iters: usize,
}

/// one call of the real function + monitors
fn run_query(ctx: &mut Ctx, tc: &TableCase, key: u64, cap: usize, replay: &str) -> Outcome {
    let n = tc.keys.len();
    let pair = (8 + tc.vs) as u64;
    let r = catch_unwind(AssertUnwindSafe(|| {
        let mut rd = LogReader::new(&tc.buf);
        let res: std::io::Result<Vec<u64>> = if tc.vs == 4 {
            let mut dest = vec![0u32; cap];
            search_on_sorted_u64s(&mut rd, tc.rs, n as u64, key, rd_u32::<LogReader>, &mut dest)
                .map(|c| dest[..c.min(cap)].iter().map(|v| *v as u64).chain(std::iter::repeat(u64::MAX).take(c.saturating_sub(cap))).collect())
        } else {
            let mut dest = vec![0u64; cap];
            search_on_sorted_u64s(&mut rd, tc.rs, n as u64, key, rd_u64::<LogReader>, &mut dest)
                .map(|c| dest[..c.min(cap)].iter().copied().chain(std::iter::repeat(u64::MAX).take(c.saturating_sub(cap))).collect())
        };
        (res, rd.seeks, rd.min_read, rd.max_read_end)
    }));
    let (res, seeks, min_read, max_read_end) = match r {
        Err(_) => {
            ctx.stat("outcome.panic");
            ctx.fail("C09", "search-panic", format!("search_on_sorted_u64s panicked: n={n} key={key} cap={cap}"), replay.to_string());
            return Outcome { answer: "panic".into(), loop_iters: 0 };
        }
        Ok(x) => x,
    };
    let got = match res {
        Err(e) => {
            ctx.stat("outcome.error");
            ctx.fail("C09", "search-io-error", format!("search_on_sorted_u64s returned io error {:?}: n={n} key={key} cap={cap}", e.kind()), replay.to_string());
            return Outcome { answer: "error".into(), loop_iters: 0 };
        }
        Ok(v) => v,
    };
    ctx.stat("outcome.ok");

    // ---- monitors on the implementation
    let lo = tc.keys.partition_point(|k| *k < key);
    let hi = tc.keys.partition_point(|k| *k <= key);
    let count = hi - lo;
    let mut expected: Vec<u64> = tc.vals[lo..hi].to_vec();
    expected.sort_unstable();
    let mut sorted_got = got.clone();
    sorted_got.sort_unstable();
    if got.len() > cap {
        ctx.fail("C09", "search-count-exceeds-capacity", format!("returned {} > capacity {cap}: n={n} key={key}", got.len()), replay.to_string());
    }
    // multiset inclusion
    let mut it = expected.iter().peekable();
    let mut included = true;
    for g in &sorted_got {
        while let Some(e) = it.peek() { if *e < g { it.next(); } else { break; } }
        match it.peek() { Some(e) if *e == g => { it.next(); } _ => { included = false; break; } }
    }
    if !included {
        ctx.fail("C09", "search-foreign-value", format!("result contains a value not stored under the key (or twice): n={n} key={key} cap={cap} got={:?}", &got[..got.len().min(10)]), replay.to_string());
    }
    if count < cap && sorted_got != expected {
        ctx.fail("C09", "search-incomplete", format!("{} values stored under the key, capacity {cap}, but {} returned: n={n} key={key}", count, got.len()), replay.to_string());
    }
    if count >= cap && got.len() != cap {
        ctx.fail("C09", "search-not-full", format!("{} values stored under the key, capacity {cap}, but {} returned: n={n} key={key}", count, got.len()), replay.to_string());
    }
    // reads inside the table region
    let t_lo = tc.rs;
    let t_hi = tc.rs + n as u64 * pair;
    if max_read_end > 0 && (min_read < t_lo || max_read_end > t_hi) {
        ctx.fail("C09", "search-read-outside-table", format!("bytes [{min_read},{max_read_end}) read, table is [{t_lo},{t_hi}): n={n} key={key} cap={cap}"), replay.to_string());
    }
    // distribution of branches taken (inferred from the probe sequence)
    let iters = seeks.len().saturating_sub(1);
    for s in &seeks[..iters] {
        if *s >= t_lo && (*s - t_lo) % pair == 0 && ((*s - t_lo) / pair) < n as u64 {
            let pk = tc.keys[((*s - t_lo) / pair) as usize];
            ctx.stat(match key.cmp(&pk) { std::cmp::Ordering::Less => "branch.less", std::cmp::Ordering::Equal => "branch.equal", std::cmp::Ordering::Greater => "branch.greater" });
        }
    }
    ctx.stat(match iters { 0 => "iters.0", 1 => "iters.1", 2 => "iters.2", 3..=5 => "iters.3-5", 6..=15 => "iters.6-15", _ => "iters.16+" });
    ctx.stat(if count == 0 { "query.absent" } else if count < cap { "query.present.count<cap" } else { "query.present.count>=cap" });
    ctx.stat(match count { 0 => "dups.0", 1 => "dups.1", 2..=7 => "dups.2-7", 8..=9 => "dups.8-9", _ => "dups.10+" });

    let seek_txt: Vec<String> = seeks.iter().map(|s| {
        if *s >= t_lo && (*s - t_lo) % pair == 0 { ((*s - t_lo) / pair).to_string() } else { format!("x{s}") }
    }).collect();
    Outcome { answer: format!("{}|{}", join(&got), seek_txt.join(",")), loop_iters: iters }
}

fn run_table(ctx: &mut Ctx, rng: &mut Rng, case_no: u64, kind_name: &str, keys: Vec<u64>, nq: usize, lines: usize) {
    let vs = if rng.chance(2, 3) { 4 } else { 8 };
    let n = keys.len();
    let tc = build_table(ctx, rng, keys, vs);
    ctx.stat(&format!("table.kind.{kind_name}"));
    ctx.stat(match n { 0 => "table.n.0", 1..=12 => "table.n.1-12", 13..=255 => "table.n.13-255", 256..=1023 => "table.n.256-1023", 1024..=4000 => "table.n.1024-4000", _ => "table.n.4001+" });
    ctx.stat(if vs == 4 { "table.value.u32" } else { "table.value.u64" });
    let table_fp = fnv(&tc.buf);
    for line_no in 0..lines {
        let cap = match rng.below(6) { 0 => 1, 1 => 8, _ => rng.range(1, 10) as usize };
        let qs = gen_queries(rng, &tc.keys, nq);
        let replay = format!("{{\"suite\":\"interp_search\",\"seed\":{},\"case\":{},\"kind\":\"{}\",\"n\":{},\"vs\":{},\"rs\":{},\"cap\":{},\"line\":{}}}",
                             ctx.seed, case_no, kind_name, n, vs, tc.rs, cap, line_no);
        let mut answers = Vec::with_capacity(qs.len());
        for k in &qs {
            let o = run_query(ctx, &tc, *k, cap, &replay);
            let mut fp = Vec::with_capacity(24);
            fp.extend_from_slice(&table_fp.to_le_bytes());
            fp.extend_from_slice(&k.to_le_bytes());
            fp.extend_from_slice(&(cap as u64).to_le_bytes());
            // non-trivial = the interpolation loop ran at least once
            ctx.case(fnv(&fp), o.loop_iters >= 1);
            answers.push(o.answer);
        }
        ctx.op(&format!("search.run off={} n={} vs={} rs={} cap={} keys={}", tc.blob_off, n, vs, tc.rs, cap, join(&qs)), &answers.join(";"));
    }
}

/// textual copy of the closure `compute_probe_location` (checks only the model's f64 emulation; the
/// real closure is exercised through the seek sequences above)
fn probe_copy(lo: u64, lo_key: u64, hi: u64, hi_key: u64, key: u64) -> u64 {
    (lo + ((key - lo_key) as f64 / (hi_key - lo_key) as f64 * (hi - lo) as f64).floor() as u64).max(lo + 1).min(hi - 1)
}

fn gen_u64_edge(rng: &mut Rng) -> u64 {
    match rng.below(8) {
        0 => 0,
        1 => u64::MAX,
        2 => u64::MAX - rng.below(3000),
        3 => rng.below(3000),
        4 => (1u64 << rng.below(64)).wrapping_add(rng.below(5)).wrapping_sub(2),           // around powers of two
        5 => ((1u64 << 53) + rng.below(64)).wrapping_mul(1 << rng.below(11)),               // ties of the 53-bit rounding
        6 => rng.next() >> rng.below(64),
        _ => rng.next(),
    }
}

pub fn run(ctx: &mut Ctx) {
    let prev_hook = std::panic::take_hook();
    std::panic::set_hook(Box::new(|_| {}));
    let quick = ctx.quick();

    // ---- A. exhaustive small tables (with the production window these reach only the final scan)
    {
        let alphabet: [u64; 4] = [0, 5, u64::MAX - 1, u64::MAX];
        let mut case_no = 1_000_000u64;
        for n in 0..=5usize {
            let mut idx = vec![0usize; n];
            loop {
                case_no += 1;
                let keys: Vec<u64> = idx.iter().map(|i| alphabet[*i]).collect();
                let mut rng = ctx.rng.fork(case_no);
                run_table(ctx, &mut rng, case_no, "exhaustive-small", keys, 0, 1);
                // next non-decreasing index vector
                let mut p = n;
                while p > 0 && idx[p - 1] == alphabet.len() - 1 { p -= 1; }
                if p == 0 { break; }
                let v = idx[p - 1] + 1;
                for q in p - 1..n { idx[q] = v; }
            }
        }
    }

    // ---- B. generated tables
    let tables = if quick { 1000 } else { 6000 };
    for case_no in 1..=tables as u64 {
        let mut rng = ctx.rng.fork(case_no);
        let kind = rng.below(KINDS.len() as u64) as usize;
        let n = gen_size(&mut rng, quick);
        let keys = gen_keys(&mut rng, kind, n);
        let lines = if n >= 256 { 3 } else { 1 };
        run_table(ctx, &mut rng, case_no, KINDS[kind], keys, 12, lines);
    }

    // ---- C. engineered: every run length 1..=9 of one key at the start / middle / end of big tables, capacity 1..=10
    for (ci, run) in (1..=9usize).enumerate() {
        for place in 0..3 {
            let case_no = 2_000_000 + (ci * 3 + place) as u64;
            let mut rng = ctx.rng.fork(case_no);
            let n = rng.range(600, 4000) as usize;
            let mut keys = gen_keys(&mut rng, 0, n - run);
            let special = match place { 0 => 0u64, 1 => keys[keys.len() / 2] | 1, _ => u64::MAX };
            for _ in 0..run { keys.push(special); }
            keys.sort_unstable();
            let tc = build_table(ctx, &mut rng, keys, 4);
            ctx.stat("table.kind.engineered-run");
            let table_fp = fnv(&tc.buf);
            for cap in 1..=10usize {
                let qs = vec![special, special.wrapping_sub(1), special.wrapping_add(1)];
                let replay = format!("{{\"suite\":\"interp_search\",\"seed\":{},\"case\":{},\"kind\":\"engineered-run\",\"run\":{},\"place\":{},\"n\":{},\"cap\":{}}}",
                                     ctx.seed, case_no, run, place, n, cap);
                let mut answers = Vec::new();
                for k in &qs {
                    let o = run_query(ctx, &tc, *k, cap, &replay);
                    let mut fp = Vec::with_capacity(24);
                    fp.extend_from_slice(&table_fp.to_le_bytes());
                    fp.extend_from_slice(&k.to_le_bytes());
                    fp.extend_from_slice(&(cap as u64).to_le_bytes());
                    ctx.case(fnv(&fp), o.loop_iters >= 1);
                    answers.push(o.answer);
                }
                ctx.op(&format!("search.run off={} n={} vs=4 rs={} cap={} keys={}", tc.blob_off, n, tc.rs, cap, join(&qs)), &answers.join(";"));
            }
        }
    }

    // ---- D. the f64 probe computation at rounding edges (model's integer emulation vs hardware floats)
    let probes = if quick { 4000 } else { 40000 };
    let mut rng = ctx.rng.fork(3_000_000);
    for _ in 0..probes {
        let mut ks = [gen_u64_edge(&mut rng), gen_u64_edge(&mut rng), gen_u64_edge(&mut rng)];
        ks.sort_unstable();
        let (lo_key, key, hi_key) = (ks[0], ks[1], ks[2]);
        let lo = match rng.below(3) { 0 => 0, 1 => rng.below(5000), _ => rng.next() >> 24 };
        let width = match rng.below(4) { 0 => 1 + rng.below(3), 1 => 1 + rng.below(5000), 2 => (1u64 << 53) + rng.below(4000), _ => 1 + (rng.next() >> rng.range(8, 63)) };
        let hi = lo + width;
        let v = probe_copy(lo, lo_key, hi, hi_key, key);
        ctx.stat(if hi_key == lo_key { "probe.degenerate-0/0" } else if key == lo_key { "probe.key=lo_key" } else if key == hi_key { "probe.key=hi_key" } else { "probe.interior" });
        ctx.op(&format!("search.probe lo={lo} lokey={lo_key} hi={hi} hikey={hi_key} key={key}"), &v.to_string());
    }

    std::panic::set_hook(prev_hook);
}
