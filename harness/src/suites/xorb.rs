//! Suites `xorb` (C07: serialization round trip, range reads, decoders) and `xorb_validate`
//! (C08: validators and footer parser on valid objects and on mutations).
use std::io::Cursor;

use cas_object::byte_grouping::bg4::bg4_split;
use cas_object::error::CasObjectError;
use cas_object::{lz4_compress_from_slice, CasObject, CompressionScheme};
use merkledb::aggregate_hashes::cas_node_hash;
use merklehash::{compute_data_hash, MerkleHash};

use crate::ctx::{fnv, join, Ctx};
use crate::rng::Rng;

pub fn err_name(e: &CasObjectError) -> &'static str {
    match e {
        CasObjectError::FormatError(_) => "format",
        CasObjectError::InternalIOError(e) if e.kind() == std::io::ErrorKind::UnexpectedEof => "eof",
        CasObjectError::InternalIOError(_) => "io",
        CasObjectError::CompressionError(_) => "io",
        CasObjectError::InvalidArguments => "invalid-args",
        CasObjectError::InvalidRange => "invalid-range",
        _ => "other",
    }
}

fn fnv_u32s(xs: &[u32]) -> u64 {
    let mut v = Vec::with_capacity(xs.len() * 4);
    for x in xs { v.extend_from_slice(&x.to_le_bytes()); }
    fnv(&v)
}

pub fn info_digest(c: &CasObject) -> String {
    let mut hb = Vec::new();
    for h in &c.info.chunk_hashes { hb.extend_from_slice(h.as_bytes()); }
    format!("n={} il={} cas={} hs={} b={} u={} bv={} ho={} bo={}", c.info.num_chunks, c.info_length, c.info.cashash.hex(), fnv(&hb),
            fnv_u32s(&c.info.chunk_boundary_offsets), fnv_u32s(&c.info.unpacked_chunk_offsets), c.info.boundaries_version,
            c.info.hashes_section_offset_from_end, c.info.boundary_section_offset_from_end)
}

fn bytes_res(r: Result<Vec<u8>, CasObjectError>) -> String {
    match r { Ok(b) => format!("ok:{}:{}", b.len(), fnv(&b)), Err(e) => format!("err:{}", err_name(&e)) }
}
fn nat_res(r: Result<u32, CasObjectError>) -> String {
    match r { Ok(n) => format!("ok:{n}"), Err(e) => format!("err:{}", err_name(&e)) }
}
fn chunks_res(r: Result<(Vec<u8>, Vec<u32>), CasObjectError>, consumed: Option<usize>) -> String {
    match r {
        Ok((d, idx)) => format!("ok:{}:{}:{}:{}", d.len(), fnv(&d), consumed.map(|c| c.to_string()).unwrap_or("?".into()), fnv_u32s(&idx)),
        Err(e) => format!("err:{}", err_name(&e)),
    }
}

fn catch<T>(f: impl FnOnce() -> T) -> Result<T, ()> {
    std::panic::catch_unwind(std::panic::AssertUnwindSafe(f)).map_err(|_| ())
}

pub fn gen_chunk(rng: &mut Rng, kind: u64, len: usize) -> Vec<u8> {
    match kind {
        0 => rng.bytes(len),
        1 => vec![0u8; len],
        2 => { let words = [b"the ".as_ref(), b"quick ", b"brown ", b"fox ", b"jumps ", b"over ", b"lazy ", b"dog\n"]; let mut v = Vec::with_capacity(len + 8); while v.len() < len { v.extend_from_slice(words[rng.below(8) as usize]); } v.truncate(len); v }
        3 => { // smooth f32 sequence: BG4-friendly
            let mut v = Vec::with_capacity(len + 4); let mut x = (rng.below(1000) as f32) * 0.001; while v.len() < len { x += 0.000_37; v.extend_from_slice(&x.to_le_bytes()); } v.truncate(len); v }
        4 => { // 16-bit pattern
            let mut v = Vec::with_capacity(len + 2); let mut x: u16 = rng.below(65536) as u16; while v.len() < len { x = x.wrapping_add(3); v.extend_from_slice(&x.to_le_bytes()); } v.truncate(len); v }
        _ => { let mut v = rng.bytes(len); for i in 0..len { if i % 3 == 0 { v[i] = 7; } } v }
    }
}

pub struct Built { pub data: Vec<u8>, pub lens: Vec<usize>, pub hash: MerkleHash, pub cb: Vec<(MerkleHash, u32)>, pub obj: Vec<u8>, pub cas: CasObject, pub schemes: Vec<CompressionScheme> }

pub fn build(chunks: &[Vec<u8>], scheme: Option<CompressionScheme>) -> Built {
    let mut data = Vec::new();
    let mut cb = Vec::new();
    let mut hl = Vec::new();
    for c in chunks {
        data.extend_from_slice(c);
        let h = compute_data_hash(c);
        cb.push((h, data.len() as u32));
        hl.push((h, c.len()));
    }
    let hash = cas_node_hash(&hl);
    let mut cur = Cursor::new(Vec::new());
    let (cas, n) = CasObject::serialize(&mut cur, &hash, &data, &cb, scheme).unwrap();
    let obj = cur.into_inner();
    assert_eq!(n, obj.len());
    let schemes = chunks.iter().map(|c| scheme.unwrap_or_else(|| CompressionScheme::choose_from_data(c))).collect();
    Built { data, lens: chunks.iter().map(|c| c.len()).collect(), hash, cb, obj, cas, schemes }
}

fn scheme_code(s: CompressionScheme) -> u8 { s as u8 }

fn rt() -> tokio::runtime::Runtime { tokio::runtime::Builder::new_current_thread().build().unwrap() }

/// A chunk that plain LZ4 shrinks while byte-grouping + LZ4 does not (so the BG4 writer takes its incompressible fallback although
/// the data is compressible): a short random block, a gap of `gap` random bytes, the block again — the repeat is found by LZ4, but
/// after the 4-way byte split the two copies (an odd distance apart) land in different groups in pieces too short to pay.
pub fn bg4_hostile_chunk(rng: &mut Rng) -> Option<Vec<u8>> {
    for _ in 0..400 {
        let l = rng.range(24, 200) as usize; let gap = rng.range(0, 40) as usize;
        let reps = rng.range(2, 4) as usize;
        let block = rng.bytes(l);
        let mut c = Vec::new();
        for r in 0..reps { c.extend_from_slice(&block); if r + 1 < reps { let g = rng.bytes(gap | 1); c.extend_from_slice(&g); } }
        let plain = lz4_compress_from_slice(&c).ok()?;
        let grouped = lz4_compress_from_slice(&bg4_split(&c)).ok()?;
        if plain.len() < c.len() && grouped.len() >= c.len() { return Some(c); }
    }
    None
}

pub fn run_roundtrip(ctx: &mut Ctx) {
    let ncases = if ctx.quick() { 60 } else { 700 };
    let rt = rt();
    // ---- full-size xorbs of incompressible data (monitor only: 64 MiB are not sent through the model): the largest legal xorb,
    //      MAX_XORB_BYTES of data in maximum-size chunks, stored / on the LZ4 fallback path, so that the SERIALIZED form is longer
    //      than MAX_XORB_BYTES by the chunk headers
    {
        let mut rng = ctx.rng.fork(6999);
        let max_bytes = *deduplication::constants::MAX_XORB_BYTES;
        let max_chunk = *deduplication::constants::TARGET_CHUNK_SIZE * *deduplication::constants::MAXIMUM_CHUNK_MULTIPLIER;
        let kinds: Vec<u64> = if ctx.quick() { vec![ctx.seed % 2] } else { vec![0, 1, 2] };
        for kind in kinds {
            let (clen, n) = match kind { 0 | 1 => (max_chunk, max_bytes / max_chunk), _ => (max_chunk / 2, 2 * (max_bytes / max_chunk)) };
            if n == 0 || n > *deduplication::constants::MAX_XORB_CHUNKS || n * clen > (80 << 20) { continue; }
            let chunks: Vec<Vec<u8>> = (0..n).map(|_| rng.bytes(clen)).collect();
            let scheme = if kind == 0 { Some(CompressionScheme::None) } else { Some(CompressionScheme::LZ4) };
            let b = build(&chunks, scheme);
            let replay = format!("{{\"suite\":\"xorb\",\"seed\":{},\"full_xorb_kind\":{},\"n\":{},\"chunk_len\":{},\"data\":\"random bytes\"}}", ctx.seed, kind, n, clen);
            ctx.stat("full_size_incompressible_xorbs");
            match CasObject::deserialize(&mut Cursor::new(&b.obj)) {
                Err(e) => ctx.fail("C07", "deserialize-valid", format!("CasObject::deserialize rejects a full-size xorb that serialize_given_info just wrote ({n} chunks of {clen} bytes): {e:?}"), replay.clone()),
                Ok(cas) => {
                    match cas.get_all_bytes(&mut Cursor::new(&b.obj)) {
                        Ok(g) if g == b.data => {}
                        Ok(_) => ctx.fail("C07", "all-bytes-roundtrip", format!("get_all_bytes != input for a full-size xorb ({n} chunks of {clen} incompressible bytes, serialized {} bytes)", b.obj.len()), replay.clone()),
                        Err(e) => ctx.fail("C07", "all-bytes-roundtrip", format!("get_all_bytes fails on a full-size valid xorb ({n} chunks of {clen} incompressible bytes, serialized {} bytes): {e:?}", b.obj.len()), replay.clone()),
                    }
                    for (i, j) in [(0u32, n as u32), (1, n as u32), (0, n as u32 - 1), (n as u32 / 2, n as u32)] {
                        let want = &b.data[i as usize * clen..j as usize * clen];
                        match cas.get_bytes_by_chunk_range(&mut Cursor::new(&b.obj), i, j) { Ok(g) if g == want => {}, r => ctx.fail("C07", "range-roundtrip", format!("get_bytes_by_chunk_range({i},{j}) of a full-size valid xorb ({n} chunks of {clen} incompressible bytes) != input slice: {}", match r { Ok(g) => format!("{} bytes", g.len()), Err(e) => format!("{e:?}") }), replay.clone()) }
                    }
                    let clen_ser = *cas.info.chunk_boundary_offsets.last().unwrap() as usize;
                    let mut w = Vec::new();
                    match cas_object::deserialize_chunks_to_writer(&mut Cursor::new(&b.obj[..clen_ser]), &mut w) { Ok(_) if w == b.data => {}, _ => ctx.fail("C07", "decoder-output", format!("decoder output != input for a full-size xorb ({n} chunks)"), replay.clone()) }
                }
            }
        }
    }
    for case_no in 0..ncases {
        let mut rng = ctx.rng.fork(7000 + case_no);
        // the first cases of a run are many-chunk xorbs of tiny chunks: chunk counts around the powers of two, around the
        // footer parser's preallocation cap (9/8 of 1024) and up to the configured maximum number of chunks per xorb
        let many = case_no < if ctx.quick() { 4 } else { 24 };
        let n = if many {
            let maxn = *deduplication::constants::MAX_XORB_CHUNKS;
            let base = *rng.pick(&[1024usize, 1152, 2048, 4096, 8192]);
            let cand = match case_no % 4 { 0 => (base + rng.below(3) as usize).saturating_sub(1), 1 => rng.range(1153, 2100) as usize, 2 => rng.range(2100, 8192) as usize, _ => maxn - rng.below(2) as usize };
            cand.clamp(1, maxn)
        } else {
            match rng.below(10) { 0 => 1, 1 => 2, 2 | 3 => rng.range(3, 9) as usize, 4 | 5 | 6 => rng.range(10, 60) as usize, _ => rng.range(61, if ctx.quick() { 200 } else { 1500 }) as usize }
        };
        let big = n <= 40;
        let mut chunks = Vec::new();
        for i in 0..n {
            let len = match rng.below(8) {
                _ if many => 1 + (i % 9),
                0 => 1 + (i % 9),
                1 => rng.range(1, 70) as usize,
                2 if big => 131072 - rng.below(4) as usize,
                3 if big => rng.range(60_000, 131_072) as usize,
                _ => rng.range(1, if big { 20_000 } else { 3000 }) as usize,
            };
            let kind = rng.below(6);
            chunks.push(gen_chunk(&mut rng, kind, len));
        }
        let scheme_kind = rng.below(4);
        // under byte grouping (forced or by automatic selection) one or two chunks are compressible for plain LZ4 only: the
        // BG4 writer's incompressible fallback on data that is NOT incompressible
        if scheme_kind >= 2 && !many { for _ in 0..rng.range(1, 2) { if let Some(c) = bg4_hostile_chunk(&mut rng) { let k = rng.below(chunks.len() as u64) as usize; chunks[k] = c; ctx.stat("bg4_hostile_chunks"); } } }
        let scheme = match scheme_kind { 0 => Some(CompressionScheme::None), 1 => Some(CompressionScheme::LZ4), 2 => Some(CompressionScheme::ByteGrouping4LZ4), _ => None };
        let b = build(&chunks, scheme);
        let replay = format!("{{\"suite\":\"xorb\",\"seed\":{},\"case\":{},\"n\":{},\"scheme\":{}}}", ctx.seed, case_no, n, scheme_kind);

        // ---- xorb.ser: the model re-serializes from the chunk data with the encoder oracle
        let (off, _) = ctx.blob(&b.data);
        let mut codec = Vec::new();
        let mut pos = off;
        let mut fallback = 0;
        for (c, s) in chunks.iter().zip(b.schemes.iter()) {
            match s {
                CompressionScheme::None => {}
                CompressionScheme::LZ4 => { let out = lz4_compress_from_slice(c).unwrap(); if out.len() >= c.len() { fallback += 1; } let (oo, ol) = ctx.blob(&out); codec.push(format!("{}:{}:{}:{}", pos, c.len(), oo, ol)); }
                CompressionScheme::ByteGrouping4LZ4 => { let sp = bg4_split(c); let out = lz4_compress_from_slice(&sp).unwrap(); if out.len() >= c.len() { fallback += 1; } let (io, il) = ctx.blob(&sp); let (oo, ol) = ctx.blob(&out); codec.push(format!("{io}:{il}:{oo}:{ol}")); }
            }
            pos += c.len();
        }
        let schemes: Vec<u8> = b.schemes.iter().map(|s| scheme_code(*s)).collect();
        ctx.op(&format!("xorb.ser hash={} off={} lens={} schemes={} codec={}", b.hash.hex(), off, join(&b.lens), join(&schemes), if codec.is_empty() { "-".into() } else { codec.join(";") }),
               &format!("len={} fnv={} miss=0 {}", b.obj.len(), fnv(&b.obj), info_digest(&b.cas)));

        // ---- xorb.read: footer + range reads
        let (ooff, olen) = ctx.blob(&b.obj);
        let cas = match CasObject::deserialize(&mut Cursor::new(&b.obj)) {
            Ok(c) => c,
            Err(e) => {
                ctx.fail("C07", "deserialize-valid", format!("CasObject::deserialize rejects a xorb that serialize_given_info just wrote ({n} chunks, case {case_no}): {e:?}"), replay.clone());
                continue;
            }
        };
        let mut ranges: Vec<(u32, u32)> = Vec::new();
        if n <= 8 { for i in 0..=n as u32 { for j in 0..=(n as u32 + 1) { ranges.push((i, j)); } } }
        else { for _ in 0..12 { let i = rng.below(n as u64) as u32; let j = rng.range(i as u64, n as u64 + 1) as u32; ranges.push((i, j)); } ranges.push((0, n as u32)); ranges.push((n as u32 - 1, n as u32)); ranges.push((0, 1)); ranges.push((3, 2)); }
        let mut parts = Vec::new();
        let mut offs = vec![0usize];
        for l in &b.lens { offs.push(offs.last().unwrap() + l); }
        for (i, j) in &ranges {
            let off_s = match cas.get_byte_offset(*i, *j) { Ok((a, bb)) => format!("{a}:{bb}"), Err(e) => format!("err:{}", err_name(&e)) };
            let got = cas.get_bytes_by_chunk_range(&mut Cursor::new(&b.obj), *i, *j);
            if i < j && *j as usize <= n {
                let want = &b.data[offs[*i as usize]..offs[*j as usize]];
                match &got { Ok(g) if g == want => {}, _ => ctx.fail("C07", "range-roundtrip", format!("get_bytes_by_chunk_range({i},{j}) != input slice (case {case_no})"), replay.clone()) }
                if cas.uncompressed_range_length(*i, *j).ok() != Some(want.len() as u32) { ctx.fail("C07", "range-length", format!("uncompressed_range_length({i},{j}) wrong (case {case_no})"), replay.clone()); }
            }
            let ul = catch(|| cas.uncompressed_range_length(*i, *j)).map(nat_res).unwrap_or("err:panic".into());
            let cl = catch(|| cas.uncompressed_chunk_length(*i)).map(nat_res).unwrap_or("err:panic".into());
            parts.push(format!("[{i}-{j} off={off_s} bytes={} ulen={ul} clen={cl}]", bytes_res(got)));
        }
        let all = cas.get_all_bytes(&mut Cursor::new(&b.obj));
        if all.as_ref().ok() != Some(&b.data) { ctx.fail("C07", "all-bytes-roundtrip", format!("get_all_bytes != input (case {case_no})"), replay.clone()); }
        let expect_unpacked: Vec<u32> = offs[1..].iter().map(|x| *x as u32).collect();
        if cas.info.unpacked_chunk_offsets != expect_unpacked { ctx.fail("C07", "unpacked-offsets", format!("unpacked offsets differ from input (case {case_no})"), replay.clone()); }
        let rs = ranges.iter().map(|(i, j)| format!("{i}-{j}")).collect::<Vec<_>>().join(";");
        ctx.op(&format!("xorb.read off={ooff} len={olen} ranges={rs}"), &format!("deser=ok {} all={} {}", info_digest(&cas), bytes_res(all), parts.join(" ")));

        // ---- xorb.decoders on the chunk region
        let clen = *cas.info.chunk_boundary_offsets.last().unwrap() as usize;
        let region = &b.obj[..clen];
        let mut w = Vec::new();
        let sync = cas_object::deserialize_chunks_to_writer(&mut Cursor::new(region), &mut w);
        let (sync_r, sync_c) = match sync { Ok((c, idx)) => (Ok((w, idx)), Some(c)), Err(e) => (Err(e), None) };
        let mut w2 = Vec::new();
        let asy = rt.block_on(cas_object::deserialize_async::deserialize_chunks_to_writer_from_async_read(&mut &region[..], &mut w2));
        let (asy_r, asy_c) = match asy { Ok((c, idx)) => (Ok((w2, idx)), Some(c)), Err(e) => (Err(e), None) };
        // stream decoder over randomly sized pieces
        let mut pieces: Vec<Result<bytes::Bytes, std::io::Error>> = Vec::new();
        let mut p = 0; while p < region.len() { let k = (rng.range(1, 5000) as usize).min(region.len() - p); pieces.push(Ok(bytes::Bytes::copy_from_slice(&region[p..p + k]))); p += k; }
        let st = rt.block_on(cas_object::deserialize_async::deserialize_chunks_from_stream(futures::stream::iter(pieces)));
        let sync_s = chunks_res(sync_r, sync_c);
        let asy_s = chunks_res(asy_r, asy_c);
        let st_s = chunks_res(st, asy_c);
        if sync_s != asy_s || asy_s != st_s { ctx.fail("C07", "decoders-disagree", format!("sync/async/stream chunk decoders disagree on a valid chunk stream (case {case_no}): {sync_s} | {asy_s} | {st_s}"), replay.clone()); }
        let mut want_idx = vec![0u32]; want_idx.extend(expect_unpacked.iter());
        if sync_s != format!("ok:{}:{}:{}:{}", b.data.len(), fnv(&b.data), clen, fnv_u32s(&want_idx)) { ctx.fail("C07", "decoder-output", format!("decoder output != input (case {case_no})"), replay.clone()); }
        ctx.op(&format!("xorb.decoders off={ooff} len={clen}"), &format!("sync={sync_s} async={asy_s}"));

        ctx.stat(&format!("scheme_{}", ["none", "lz4", "bg4lz4", "auto"][scheme_kind as usize]));
        ctx.stat(&format!("nchunks_{}", if n == 1 { "1" } else if n < 10 { "2-9" } else if n < 100 { "10-99" } else if n <= 1024 { "100-1024" } else { "1025+" }));
        ctx.stat_add("fallback_chunks", fallback);
        ctx.stat_add("chunks", n as u64);
        ctx.stat_add("bg4_chunks", b.schemes.iter().filter(|s| **s == CompressionScheme::ByteGrouping4LZ4).count() as u64);
        for l in &b.lens { ctx.stat(&format!("len_mod4_{}", l % 4)); }
        ctx.case(fnv(&b.obj), n >= 2);
    }
}

// ------------------------------------------------------------------------------------------------

thread_local! { static FOOTER_MISMATCH: std::cell::RefCell<Option<String>> = const { std::cell::RefCell::new(None) }; }

fn verdict_seek(obj: &[u8], h: &MerkleHash) -> String {
    match catch(|| CasObject::validate_cas_object(&mut Cursor::new(obj), h)) {
        Err(()) => "error:panic".into(),
        Ok(Ok(Some(c))) => { if let Some(m) = footer_mismatch(obj, &c) { FOOTER_MISMATCH.with(|f| *f.borrow_mut() = Some(format!("seekable: {m}"))); } format!("accept gb=- {}", info_digest(&c)) }
        Ok(Ok(None)) => "reject".into(),
        Ok(Err(e)) => format!("error:{}", err_name(&e)),
    }
}

fn verdict_stream(rt: &tokio::runtime::Runtime, obj: &[u8], h: &MerkleHash) -> String {
    match catch(|| rt.block_on(cas_object::validate_cas_object_from_async_read(&mut futures::io::Cursor::new(obj), h))) {
        Err(()) => "error:panic".into(),
        Ok(Ok(Some((c, gb)))) => { if let Some(m) = footer_mismatch(obj, &c) { FOOTER_MISMATCH.with(|f| *f.borrow_mut() = Some(format!("streaming: {m}"))); } format!("accept gb={} {}", gb.map(|g| g.to_string()).unwrap_or("-".into()), info_digest(&c)) }
        Ok(Ok(None)) => "reject".into(),
        Ok(Err(e)) => format!("error:{}", err_name(&e)),
    }
}

/// independent recomputation for the soundness monitor: walk the chunk region by hand
fn independent_root(obj: &[u8], nchunks_hint: Option<usize>) -> Option<(MerkleHash, usize)> {
    let mut pos = 0usize;
    let mut hl = Vec::new();
    loop {
        if let Some(n) = nchunks_hint { if hl.len() == n { break; } }
        if pos + 8 > obj.len() { break; }
        if &obj[pos..pos + 7] == b"XETBLOB" { break; }
        let clen = obj[pos + 1] as usize | (obj[pos + 2] as usize) << 8 | (obj[pos + 3] as usize) << 16;
        let scheme = obj[pos + 4];
        let ulen = obj[pos + 5] as usize | (obj[pos + 6] as usize) << 8 | (obj[pos + 7] as usize) << 16;
        if pos + 8 + clen > obj.len() { return None; }
        let payload = &obj[pos + 8..pos + 8 + clen];
        let data = match scheme {
            0 => payload.to_vec(),
            1 => cas_object::lz4_decompress_from_slice(payload).ok()?,
            2 => cas_object::bg4_lz4_decompress_from_slice(payload).ok()?,
            _ => return None,
        };
        if data.len() != ulen { return None; }
        hl.push((compute_data_hash(&data), data.len()));
        pos += 8 + clen;
    }
    if hl.is_empty() { return None; }
    Some((cas_node_hash(&hl), pos))
}

/// what the chunk region says, recomputed by hand: (chunk hashes, boundary offsets, unpacked offsets)
fn independent_tables(obj: &[u8], nchunks: usize) -> Option<(Vec<MerkleHash>, Vec<u32>, Vec<u32>)> {
    let (mut pos, mut upos) = (0usize, 0usize);
    let (mut hs, mut bs, mut us) = (Vec::new(), Vec::new(), Vec::new());
    for _ in 0..nchunks {
        if pos + 8 > obj.len() { return None; }
        let clen = obj[pos + 1] as usize | (obj[pos + 2] as usize) << 8 | (obj[pos + 3] as usize) << 16;
        if pos + 8 + clen > obj.len() { return None; }
        let payload = &obj[pos + 8..pos + 8 + clen];
        let data = match obj[pos + 4] { 0 => payload.to_vec(), 1 => cas_object::lz4_decompress_from_slice(payload).ok()?, 2 => cas_object::bg4_lz4_decompress_from_slice(payload).ok()?, _ => return None };
        pos += 8 + clen; upos += data.len();
        hs.push(compute_data_hash(&data)); bs.push(pos as u32); us.push(upos as u32);
    }
    Some((hs, bs, us))
}

/// "any footer it relied on matches the chunk data": the object returned by an accepting validator against the chunk region
fn footer_mismatch(obj: &[u8], c: &CasObject) -> Option<String> {
    let n = c.info.num_chunks as usize;
    // the footer the validator relied on sits right behind the chunks it describes: nothing between the last chunk and the footer
    if let Some(last) = c.info.chunk_boundary_offsets.last() {
        if c.info_length > 0 && (*last as usize) + (c.info_length as usize) + 4 != obj.len() && obj.len() >= 4 {
            let il = u32::from_le_bytes(obj[obj.len() - 4..].try_into().unwrap()) as usize;
            if il == c.info_length as usize { return Some(format!("the chunks end at byte {last} but the footer ({} bytes + length word) starts at byte {}: {} undescribed bytes in between", c.info_length, obj.len() - 4 - il, obj.len() as i64 - 4 - il as i64 - *last as i64)); }
        }
    }
    let Some((hs, bs, us)) = independent_tables(obj, n) else { return Some(format!("the chunk region does not hold {n} decodable chunks")); };
    if c.info.chunk_hashes != hs { return Some("chunk_hashes differ from the hashes of the decoded chunks".into()); }
    if c.info.chunk_boundary_offsets != bs { return Some(format!("chunk_boundary_offsets {:?} differ from the chunk region's {:?}", &c.info.chunk_boundary_offsets[..n.min(6)], &bs[..n.min(6)])); }
    // (a version-0 footer carries no unpacked offsets: the table is then empty and nothing was relied on)
    if !c.info.unpacked_chunk_offsets.is_empty() && c.info.unpacked_chunk_offsets != us { return Some(format!("unpacked_chunk_offsets {:?} differ from the decoded lengths' {:?}", &c.info.unpacked_chunk_offsets[..c.info.unpacked_chunk_offsets.len().min(6)], &us[..n.min(6)])); }
    None
}

/// a V1 footer written field by field, so that single fields can be made inconsistent while the rest still parses
#[derive(Clone)]
struct FooterV1 { version: u8, cashash: MerkleHash, hv: u8, n1: u32, hashes: Vec<MerkleHash>, bv: u8, n2: u32, bounds: Vec<u32>, unpacked: Vec<u32>, n3: u32, ho: Option<u32>, bo: Option<u32>, il_delta: i64 }

impl FooterV1 {
    fn of(b: &Built) -> Self {
        let i = &b.cas.info;
        FooterV1 { version: i.version, cashash: i.cashash, hv: i.hashes_version, n1: i.num_chunks, hashes: i.chunk_hashes.clone(), bv: i.boundaries_version, n2: i.num_chunks,
                   bounds: i.chunk_boundary_offsets.clone(), unpacked: i.unpacked_chunk_offsets.clone(), n3: i.num_chunks, ho: None, bo: None, il_delta: 0 }
    }
    /// footer bytes followed by the info_length word; section offsets are the true ones unless overridden
    fn bytes(&self) -> Vec<u8> {
        let mut o = Vec::new();
        o.extend_from_slice(b"XETBLOB"); o.push(self.version); o.extend_from_slice(self.cashash.as_bytes());
        let hs_start = o.len();
        o.extend_from_slice(b"XBLBHSH"); o.push(self.hv); o.extend_from_slice(&self.n1.to_le_bytes());
        for h in &self.hashes { o.extend_from_slice(h.as_bytes()); }
        let bs_start = o.len();
        o.extend_from_slice(b"XBLBBND"); o.push(self.bv); o.extend_from_slice(&self.n2.to_le_bytes());
        for x in &self.bounds { o.extend_from_slice(&x.to_le_bytes()); }
        for x in &self.unpacked { o.extend_from_slice(&x.to_le_bytes()); }
        let total = o.len() + 4 + 4 + 4 + 16;
        o.extend_from_slice(&self.n3.to_le_bytes());
        o.extend_from_slice(&self.ho.unwrap_or((total - hs_start) as u32).to_le_bytes());
        o.extend_from_slice(&self.bo.unwrap_or((total - bs_start) as u32).to_le_bytes());
        o.extend_from_slice(&[0u8; 16]);
        let il = (o.len() as i64 + self.il_delta).max(0) as u32;
        o.extend_from_slice(&il.to_le_bytes());
        o
    }
}

fn v0_object(b: &Built) -> Vec<u8> {
    let clen = *b.cas.info.chunk_boundary_offsets.last().unwrap() as usize;
    let mut o = b.obj[..clen].to_vec();
    let start = o.len();
    o.extend_from_slice(b"XETBLOB");
    o.push(0);
    o.extend_from_slice(b.hash.as_bytes());
    o.extend_from_slice(&(b.cas.info.num_chunks).to_le_bytes());
    for x in &b.cas.info.chunk_boundary_offsets { o.extend_from_slice(&x.to_le_bytes()); }
    for h in &b.cas.info.chunk_hashes { o.extend_from_slice(h.as_bytes()); }
    o.extend_from_slice(&[0u8; 16]);
    let il = (o.len() - start) as u32;
    o.extend_from_slice(&il.to_le_bytes());
    o
}

const SCREEN_LIMIT_MIB: u64 = 3072;

/// run both validators over the queued inputs in a child process whose address space is limited; returns the indices of
/// the inputs on which the child died
fn screen_in_child(pending: &[(Vec<u8>, MerkleHash, String, String)], seed: u64) -> std::collections::BTreeSet<usize> {
    let mut bad = std::collections::BTreeSet::new();
    if pending.is_empty() { return bad; }
    let dir = std::path::PathBuf::from(std::env::var("TMPDIR").unwrap_or_else(|_| "/verif/run/tmp".into())).join(format!("xv-screen-{}-{}", std::process::id(), seed));
    let _ = std::fs::create_dir_all(&dir);
    let mut batch = Vec::new();
    batch.extend_from_slice(&(pending.len() as u64).to_le_bytes());
    for (obj, h, _, _) in pending { batch.extend_from_slice(h.as_bytes()); batch.extend_from_slice(&(obj.len() as u64).to_le_bytes()); batch.extend_from_slice(obj); }
    std::fs::write(dir.join("batch.bin"), &batch).unwrap();
    let mut start = 0usize;
    for _ in 0..64 {
        let _ = std::fs::remove_file(dir.join("progress"));
        let st = std::process::Command::new(std::env::current_exe().unwrap()).arg("xorb_validate-child").arg("--out").arg(&dir)
            .env("XV_START", start.to_string()).stdout(std::process::Stdio::null()).stderr(std::process::Stdio::null()).status();
        match st {
            Ok(s) if s.success() => break,
            Ok(_) => {
                let done = std::fs::metadata(dir.join("progress")).map(|m| m.len() as usize).unwrap_or(0);
                let culprit = start + done;
                if culprit >= pending.len() { break; }
                bad.insert(culprit);
                start = culprit + 1;
                if start >= pending.len() { break; }
            }
            Err(_) => break,
        }
    }
    let _ = std::fs::remove_dir_all(&dir);
    bad
}

/// child of `screen_in_child`: validates `batch.bin` from index XV_START on, one progress byte per finished input
pub fn run_validate_child(ctx: &mut Ctx) {
    let lim = libc::rlimit { rlim_cur: SCREEN_LIMIT_MIB << 20, rlim_max: SCREEN_LIMIT_MIB << 20 };
    unsafe { libc::setrlimit(libc::RLIMIT_AS, &lim); }
    let dir = ctx.out.clone();
    let batch = std::fs::read(dir.join("batch.bin")).unwrap();
    let start: usize = std::env::var("XV_START").ok().and_then(|s| s.parse().ok()).unwrap_or(0);
    let n = u64::from_le_bytes(batch[0..8].try_into().unwrap()) as usize;
    let rt = rt();
    let mut pos = 8usize;
    let mut prog = std::fs::OpenOptions::new().create(true).append(true).open(dir.join("progress")).unwrap();
    for i in 0..n {
        let h = MerkleHash::from_slice(&batch[pos..pos + 32]).unwrap(); pos += 32;
        let len = u64::from_le_bytes(batch[pos..pos + 8].try_into().unwrap()) as usize; pos += 8;
        let obj = &batch[pos..pos + len]; pos += len;
        if i < start { continue; }
        let _ = verdict_seek(obj, &h);
        let _ = verdict_stream(&rt, obj, &h);
        use std::io::Write;
        prog.write_all(b".").unwrap(); prog.flush().unwrap();
    }
    std::process::exit(0);
}

pub fn run_validate(ctx: &mut Ctx) {
    let rt = rt();
    let nobj = if ctx.quick() { 14 } else { 120 };
    let mut emitted = 0u64;
    // Inputs are queued and screened in a child process under an address-space limit first: an input on which a validator
    // makes the process abort (a huge reservation from an untrusted count cannot be caught in-process) is reported as a C08
    // failure with that input and is not run in-process.
    let mut pending: Vec<(Vec<u8>, MerkleHash, String, String)> = Vec::new();
    let mut emit_now = |ctx: &mut Ctx, rt: &tokio::runtime::Runtime, obj: &[u8], h: &MerkleHash, class: &str, replay: &str| {
        let (off, len) = ctx.blob(obj);
        let vs = verdict_seek(obj, h);
        let vt = verdict_stream(rt, obj, h);
        if let Some(m) = FOOTER_MISMATCH.with(|f| f.borrow_mut().take()) {
            ctx.fail("C08", "accepted-footer-differs-from-chunks", format!("validator accepted a {class} input of {len} bytes but the footer it returns does not match the chunk data: {m}"), replay.to_string());
        }
        for (name, v) in [("seekable", &vs), ("streaming", &vt)] {
            if v.starts_with("error:panic") {
                ctx.fail("C08", &format!("panic-{name}-{class}"), format!("{name} validator panicked on a {class} input of {len} bytes"), replay.to_string());
            }
            if v.starts_with("accept") {
                // soundness: whatever was accepted must hash to h
                let n_hint = v.split(" n=").nth(1).and_then(|s| s.split(' ').next()).and_then(|s| s.parse::<usize>().ok());
                match independent_root(obj, n_hint) {
                    Some((root, _)) if root == *h => {}
                    _ => { ctx.fail("C08", &format!("unsound-accept-{name}"), format!("{name} validator accepted a {class} input whose recomputed hash is not h"), replay.to_string());
                           // C06: "the uploader's xorb hash equals what both xorb validators recompute from the bytes"
                           ctx.fail("C06", &format!("validator-hash-differs-from-producer-{name}"), format!("{name} validator accepted a {class} input under a hash that the producer's cas_node_hash of its decoded chunks does not give"), replay.to_string()); }
                }
            }
        }
        ctx.op(&format!("xorb.validate off={off} len={len} hash={}", h.hex()), &format!("seek={vs} stream={vt}"));
        ctx.stat(&format!("class_{class}"));
        ctx.stat(&format!("seek_{}", vs.split(' ').next().unwrap()));
        ctx.stat(&format!("stream_{}", vt.split(' ').next().unwrap()));
        ctx.case(fnv(obj) ^ fnv(h.as_bytes()), !vs.starts_with("accept"));
        emitted += 1;
    };
    macro_rules! emit { ($ctx:expr, $rt:expr, $obj:expr, $h:expr, $class:expr, $replay:expr) => {{ let _ = (&$ctx, &$rt); pending.push((($obj).to_vec(), *($h), ($class).to_string(), ($replay).to_string())); }}; }
    macro_rules! flush { ($ctx:expr, $rt:expr) => {{
        let aborts = screen_in_child(&pending, $ctx.seed);
        for (i, (obj, h, class, replay)) in pending.iter().enumerate() {
            if aborts.contains(&i) {
                let (off, len) = $ctx.blob(obj);
                $ctx.fail("C08", "validator-aborts-process", format!("a validator made the process abort (allocation beyond the {} MiB address-space limit of the screening child, or another fatal signal) on a {class} input of {len} bytes (blob offset {off})", SCREEN_LIMIT_MIB), replay.clone());
                $ctx.stat("screened_out_aborting_inputs");
                continue;
            }
            emit_now($ctx, $rt, obj, h, class, replay);
        }
        pending.clear();
    }}; }
    for oi in 0..nobj {
        let mut rng = ctx.rng.fork(9000 + oi);
        let small = oi % 4 != 3;
        let n = if small { rng.range(1, 5) as usize } else { rng.range(6, 40) as usize };
        let mut chunks = Vec::new();
        for _ in 0..n { let len = if small { rng.range(1, 120) as usize } else { rng.range(1, 6000) as usize }; let kind = rng.below(6); chunks.push(gen_chunk(&mut rng, kind, len)); }
        let scheme = match rng.below(4) { 0 => Some(CompressionScheme::None), 1 => Some(CompressionScheme::LZ4), 2 => Some(CompressionScheme::ByteGrouping4LZ4), _ => None };
        let b = build(&chunks, scheme);
        let replay = format!("{{\"suite\":\"xorb_validate\",\"seed\":{},\"object\":{},\"n\":{}}}", ctx.seed, oi, n);
        let clen = *b.cas.info.chunk_boundary_offsets.last().unwrap() as usize;
        let other = compute_data_hash(&b.obj);

        // valid object: own hash, another hash
        let vs = verdict_seek(&b.obj, &b.hash);
        let vt = verdict_stream(&rt, &b.obj, &b.hash);
        if !vs.starts_with("accept") || !vt.starts_with("accept") { ctx.fail("C08", "valid-rejected", format!("a valid serialized xorb was not accepted for its own hash: seek={vs} stream={vt}"), replay.clone()); }
        emit!(ctx, &rt, &b.obj, &b.hash, "valid", &replay);
        let vo = verdict_seek(&b.obj, &other); let vto = verdict_stream(&rt, &b.obj, &other);
        if vo.starts_with("accept") || vto.starts_with("accept") { ctx.fail("C08", "accepted-for-other-hash", "a valid xorb was accepted for a different hash".into(), replay.clone()); }
        emit!(ctx, &rt, &b.obj, &other, "valid-other-hash", &replay);
        // footer-less and v0
        emit!(ctx, &rt, &b.obj[..clen], &b.hash, "no-footer", &replay);
        emit!(ctx, &rt, &b.obj[..clen], &other, "no-footer-other-hash", &replay);
        let v0 = v0_object(&b);
        emit!(ctx, &rt, &v0, &b.hash, "v0", &replay);

        // single-byte flips: every chunk header byte, the whole footer and the length word
        let mut positions: Vec<usize> = Vec::new();
        let mut start = 0usize;
        for bo in &b.cas.info.chunk_boundary_offsets { for k in 0..8 { positions.push(start + k); } start = *bo as usize; }
        let footer_positions: Vec<usize> = (clen..b.obj.len()).collect();
        let fp: Vec<usize> = if small || !ctx.quick() { footer_positions } else { (0..120).map(|_| clen + rng.below((b.obj.len() - clen) as u64) as usize).collect() };
        let hp: Vec<usize> = if small || !ctx.quick() { positions } else { (0..40).map(|_| *rng.pick(&positions)).collect() };
        for p in hp.iter().chain(fp.iter()) {
            let mut m = b.obj.clone();
            let flip = if rng.chance(1, 2) { 1u8 << rng.below(8) } else { rng.range(1, 255) as u8 };
            m[*p] ^= flip;
            emit!(ctx, &rt, &m, &b.hash, if *p < clen { "flip-chunk-header" } else { "flip-footer" }, &replay);
        }
        // payload flips
        for _ in 0..(if small { 6 } else { 10 }) {
            let mut m = b.obj.clone();
            let p = rng.below(clen as u64) as usize;
            m[p] ^= 1u8 << rng.below(8);
            emit!(ctx, &rt, &m, &b.hash, "flip-content", &replay);
        }
        // truncation
        let cuts: Vec<usize> = if small { (0..b.obj.len()).collect() } else { (0..60).map(|_| rng.below(b.obj.len() as u64) as usize).collect() };
        for c in cuts { emit!(ctx, &rt, &b.obj[..c], &b.hash, "truncate", &replay); }
        // splice / duplicate / drop chunks, keeping the footer
        if n >= 2 {
            let bo = &b.cas.info.chunk_boundary_offsets;
            let seg = |i: usize| -> &[u8] { let s = if i == 0 { 0 } else { bo[i - 1] as usize }; &b.obj[s..bo[i] as usize] };
            let i = rng.below(n as u64) as usize;
            let mut dup = Vec::new(); for k in 0..n { dup.extend_from_slice(seg(k)); if k == i { dup.extend_from_slice(seg(k)); } } dup.extend_from_slice(&b.obj[clen..]);
            emit!(ctx, &rt, &dup, &b.hash, "dup-chunk", &replay);
            let mut drop = Vec::new(); for k in 0..n { if k != i { drop.extend_from_slice(seg(k)); } } drop.extend_from_slice(&b.obj[clen..]);
            emit!(ctx, &rt, &drop, &b.hash, "drop-chunk", &replay);
            let mut sw = Vec::new(); for k in 0..n { sw.extend_from_slice(seg(if k == 0 { 1 } else if k == 1 { 0 } else { k })); } sw.extend_from_slice(&b.obj[clen..]);
            emit!(ctx, &rt, &sw, &b.hash, "swap-chunks", &replay);
        }
        // structured footers: the footer is re-written field by field with 1-3 fields made inconsistent (counts off by one,
        // section versions, table entries, section offsets, length word) over the original / extended / shortened chunk region
        {
            let bo = &b.cas.info.chunk_boundary_offsets;
            let seg = |i: usize| -> &[u8] { let s = if i == 0 { 0 } else { bo[i - 1] as usize }; &b.obj[s..bo[i] as usize] };
            for si in 0..(if ctx.quick() { 36 } else { 200 }) {
                let mut f = FooterV1::of(&b);
                let region_kind = if si < 6 { 1 } else { rng.below(4) };
                let mut region = b.obj[..clen].to_vec();
                match region_kind {
                    1 => { let extra = seg(rng.below(n as u64) as usize).to_vec(); region.extend_from_slice(&extra); }   // one more well-formed chunk before the footer
                    2 if n >= 2 => { region.truncate(bo[n - 2] as usize); }                                              // last chunk dropped
                    _ => {}
                }
                let nm = if si < 6 { 1 } else { rng.range(1, 3) };
                for mi in 0..nm {
                    let d: u32 = if rng.chance(1, 2) { 1 } else { rng.range(1, 3) as u32 };
                    let up = rng.chance(2, 3);
                    let adj = |x: u32| if up { x.wrapping_add(d) } else { x.wrapping_sub(d) };
                    let pick = if si < 6 { [2u64, 0, 1, 9, 10, 11][si as usize] } else { rng.below(14) };
                    match pick {
                        0 => f.n1 = adj(f.n1),
                        1 => f.n2 = adj(f.n2),
                        2 => f.n3 = adj(f.n3),
                        3 => { f.n1 = adj(f.n1); f.n2 = f.n1; f.n3 = f.n1; }
                        4 => { let i = rng.below(f.unpacked.len() as u64) as usize; f.unpacked[i] = adj(f.unpacked[i]); }
                        5 => { let i = rng.below(f.bounds.len() as u64) as usize; f.bounds[i] = adj(f.bounds[i]); }
                        6 => { let i = rng.below(f.hashes.len() as u64) as usize; let mut h = f.hashes[i]; h[rng.below(4) as usize] ^= 1 << rng.below(64); f.hashes[i] = h; }
                        7 => f.bv = *rng.pick(&[0u8, 2, 255]),
                        8 => { f.bv = 0; let i = rng.below(f.unpacked.len() as u64) as usize; f.unpacked[i] = adj(f.unpacked[i]); }
                        9 => { f.hv = *rng.pick(&[1u8, 2]); }
                        10 => { f.version = *rng.pick(&[0u8, 2, 3]); }
                        11 => { // tables grown/shrunk consistently with all three counts (footer self-consistent, region not)
                            if up { f.hashes.push(*f.hashes.last().unwrap()); f.bounds.push(f.bounds.last().unwrap() + 9); f.unpacked.push(f.unpacked.last().unwrap() + 1); }
                            else if f.hashes.len() > 1 { f.hashes.pop(); f.bounds.pop(); f.unpacked.pop(); }
                            f.n1 = f.hashes.len() as u32; f.n2 = f.n1; f.n3 = f.n1; }
                        12 => { if rng.chance(1, 2) { f.ho = Some(adj(FooterV1::of(&b).bytes().len() as u32 / 2)); } else { f.bo = Some(adj(60)); } }
                        _ => f.il_delta = if up { d as i64 } else { -(d as i64) },
                    }
                    let _ = mi;
                }
                // a footer may also NAME another hash (truthful tables, foreign cashash): validated under the object's own hash and
                // under the named one
                let foreign = rng.chance(1, 6);
                if foreign { f.cashash = other; }
                let mut m = region; m.extend_from_slice(&f.bytes());
                emit!(ctx, &rt, &m, &b.hash, "structured-footer", &replay);
                if foreign { emit!(ctx, &rt, &m, &other, "structured-footer-foreign-hash", &replay); }
            }
        }
        // extra bytes spliced exactly between the chunk list and the UNMODIFIED footer
        for kind in 0..3 {
            let mut m = b.obj[..clen].to_vec();
            match kind { 0 => { let bo = &b.cas.info.chunk_boundary_offsets; let i = rng.below(n as u64) as usize; let s0 = if i == 0 { 0 } else { bo[i - 1] as usize }; let extra = b.obj[s0..bo[i] as usize].to_vec(); m.extend_from_slice(&extra); }
                         1 => { let k = rng.range(1, 40) as usize; m.extend_from_slice(&rng.bytes(k)); }
                         _ => m.push(rng.below(256) as u8) }
            m.extend_from_slice(&b.obj[clen..]);
            emit!(ctx, &rt, &m, &b.hash, "splice-before-footer", &replay);
        }
        {
            let mut f = FooterV1::of(&b); f.cashash = other;
            let mut m = b.obj[..clen].to_vec(); m.extend_from_slice(&f.bytes());
            emit!(ctx, &rt, &m, &other, "foreign-hash-footer", &replay);
            emit!(ctx, &rt, &m, &b.hash, "foreign-hash-footer", &replay);
        }
        // trailing bytes, inflated counts
        let mut t = b.obj.clone(); let k = rng.range(1, 9) as usize; t.extend_from_slice(&rng.bytes(k));
        emit!(ctx, &rt, &t, &b.hash, "trailing", &replay);
        for field_from_end in [4usize + 16 + 4 + 4 + 4, 4] {
            let mut m = b.obj.clone(); let l = m.len(); let v: u32 = *rng.pick(&[0u32, 1, 0xffff, 0x7fff_ffff, 0xffff_ffff, 200_000]);
            m[l - field_from_end..l - field_from_end + 4].copy_from_slice(&v.to_le_bytes());
            emit!(ctx, &rt, &m, &b.hash, "inflated-field", &replay);
        }
        flush!(ctx, &rt);
    }
    // random byte strings
    let mut rng = ctx.rng.fork(99);
    for _ in 0..(if ctx.quick() { 150 } else { 3000 }) {
        let len = rng.below(400) as usize; let mut v = rng.bytes(len);
        if rng.chance(1, 3) && len >= 12 { v[..7].copy_from_slice(b"XETBLOB"); }
        if rng.chance(1, 3) && len >= 8 { v[0] = 0; v[4] = rng.below(3) as u8; v[2] = 0; v[3] = 0; v[6] = 0; v[7] = 0; }
        let h = compute_data_hash(&v);
        emit!(ctx, &rt, &v, &h, "random", "null");
    }
    flush!(ctx, &rt);
    let _ = emitted;
}
