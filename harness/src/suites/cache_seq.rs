//! Suite `cache_seq` (C12, C13): random sequential histories on the real `chunk_cache::DiskCache`
//! (few keys, overlapping / nested chunk ranges, small capacities so that eviction is frequent,
//! close – damage – re-open), replayed by the Lean model (`cache.seq`).  The random eviction choices
//! and the `read_dir` order are observed on the implementation and handed to the model as oracles.
//!
//! Monitors on the implementation: a hit is the slice of the per-key reference xorb (C12); counters =
//! sums over the tracked-entry snapshot, every cache file is tracked (while nothing was damaged),
//! `total_bytes <= capacity` after an insertion (C13); no panic.
use std::collections::BTreeSet;
use std::path::{Path, PathBuf};

use base64::engine::general_purpose::URL_SAFE;
use base64::Engine;
use cas_types::{ChunkRange, Key};
use chunk_cache::error::ChunkCacheError;
use chunk_cache::{CacheConfig, ChunkCache, DiskCache};
use merklehash::MerkleHash;

use crate::ctx::{fnv, Ctx};
use crate::rng::Rng;

/// schedule points of `disk.rs` passed by the current operation (sequential suite: just recorded)
static HOOK_LOG: std::sync::Mutex<Vec<&'static str>> = std::sync::Mutex::new(Vec::new());

/// true while the implementation runs under `catch_unwind` (its panics are reported as results, not printed)
pub static QUIET_PANICS: std::sync::atomic::AtomicBool = std::sync::atomic::AtomicBool::new(false);

pub fn quiet_hook() -> Box<dyn Fn(&std::panic::PanicHookInfo<'_>) + Sync + Send + 'static> {
    Box::new(|info| {
        if !QUIET_PANICS.load(std::sync::atomic::Ordering::SeqCst) { crate::ctx::note_panic(info); eprintln!("harness panic: {info}"); }
    })
}

/// run the implementation, turning a panic into `Err(())`
pub fn guarded<T>(f: impl FnOnce() -> T) -> Result<T, ()> {
    QUIET_PANICS.store(true, std::sync::atomic::Ordering::SeqCst);
    let r = std::panic::catch_unwind(std::panic::AssertUnwindSafe(f));
    QUIET_PANICS.store(false, std::sync::atomic::Ordering::SeqCst);
    r.map_err(|_| ())
}

/// Which variant of the code is this?  (`f10_fixed`, `f14_fixed`), decided by two deterministic probes:
/// F10: an identical put is run to completion from inside the outer put's `cache.put.written` point
///      (no lock is held there), then the outer put commits: are the counters still exact?
/// F14: does `initialize` survive a planted directory `ab/abAA` (decodes to 3 bytes)?
pub fn probe_variants() -> (bool, bool) {
    use std::sync::atomic::{AtomicBool, Ordering};
    let root = tmp_root("cache_probe");
    let key = Key { prefix: "default".into(), hash: MerkleHash::from([1, 2, 3, 4]) };
    let f10_fixed = {
        let cache = DiskCache::initialize(&CacheConfig { cache_directory: root.join("a"), cache_size: 1 << 20 }).unwrap();
        static INNER_DONE: AtomicBool = AtomicBool::new(false);
        INNER_DONE.store(false, Ordering::SeqCst);
        let (c2, k2) = (cache.clone(), key.clone());
        utils::verif_hooks::set_callback(Some(std::sync::Arc::new(move |name| {
            if name == "cache.put.written" && !INNER_DONE.swap(true, Ordering::SeqCst) {
                c2.put(&k2, &ChunkRange { start: 0, end: 2 }, &[0, 3, 7], &[1, 2, 3, 4, 5, 6, 7]).unwrap();
            }
        })));
        cache.put(&key, &ChunkRange { start: 0, end: 2 }, &[0, 3, 7], &[1, 2, 3, 4, 5, 6, 7]).unwrap();
        utils::verif_hooks::set_callback(None);
        let (n, b, snap) = get_snapshot(&cache);
        let sum: u64 = snap.iter().flat_map(|(_, v)| v.iter().map(|i| i.2)).sum();
        n == snap.iter().map(|(_, v)| v.len()).sum::<usize>() && b == sum
    };
    let f14_fixed = {
        let dir = root.join("b");
        std::fs::create_dir_all(dir.join("ab").join("abAA")).unwrap();
        guarded(move || DiskCache::initialize(&CacheConfig { cache_directory: dir, cache_size: 1 << 20 }).is_ok()).is_ok()
    };
    let _ = std::fs::remove_dir_all(&root);
    (f10_fixed, f14_fixed)
}

pub type Entry = (u32, u32, u64, u32, bool);
pub type Snapshot = Vec<(Key, Vec<Entry>)>;

pub struct RefXorb {
    pub key: Key,
    pub bounds: Vec<u32>, // bounds[0] = 0, one more than chunks
    pub data: Vec<u8>,
    pub blob_off: usize,
}

impl RefXorb {
    pub fn nchunks(&self) -> u32 { (self.bounds.len() - 1) as u32 }
    pub fn slice(&self, s: u32, e: u32) -> (Vec<u32>, &[u8]) {
        let b0 = self.bounds[s as usize];
        let offs = self.bounds[s as usize..=e as usize].iter().map(|b| b - b0).collect();
        (offs, &self.data[b0 as usize..self.bounds[e as usize] as usize])
    }
}

pub fn key_bytes(k: &Key) -> Vec<u8> {
    let mut v = k.hash.as_bytes().to_vec();
    v.extend_from_slice(k.prefix.as_bytes());
    v
}

pub fn hex(b: &[u8]) -> String { b.iter().map(|x| format!("{x:02x}")).collect() }

pub fn key_dir_name(k: &Key) -> String { URL_SAFE.encode(key_bytes(k)) }

pub fn item_name(s: u32, e: u32, len: u64, crc: u32) -> String {
    let mut buf = Vec::with_capacity(20);
    buf.extend_from_slice(&s.to_le_bytes());
    buf.extend_from_slice(&e.to_le_bytes());
    buf.extend_from_slice(&len.to_le_bytes());
    buf.extend_from_slice(&crc.to_le_bytes());
    URL_SAFE.encode(buf)
}

pub fn parse_item_name(n: &str) -> Option<(u32, u32, u64, u32)> {
    let b = URL_SAFE.decode(n).ok()?;
    if b.len() != 20 { return None; }
    Some((u32::from_le_bytes(b[0..4].try_into().unwrap()), u32::from_le_bytes(b[4..8].try_into().unwrap()),
          u64::from_le_bytes(b[8..16].try_into().unwrap()), u32::from_le_bytes(b[16..20].try_into().unwrap())))
}

pub fn err_str(e: &ChunkCacheError) -> &'static str {
    match e {
        ChunkCacheError::General(_) => "General",
        ChunkCacheError::IO(_) => "IO",
        ChunkCacheError::Parse(_) => "Parse",
        ChunkCacheError::BadRange => "BadRange",
        ChunkCacheError::CacheEmpty => "CacheEmpty",
        ChunkCacheError::Infallible => "Infallible",
        ChunkCacheError::LockPoison => "LockPoison",
        ChunkCacheError::InvalidArguments => "InvalidArguments",
    }
}

pub fn tmp_root(tag: &str) -> PathBuf {
    let base = std::env::var("TMPDIR").map(PathBuf::from).unwrap_or_else(|_| std::env::temp_dir());
    let p = base.join(format!("xv_{}_{}", tag, std::process::id()));
    let _ = std::fs::remove_dir_all(&p);
    std::fs::create_dir_all(&p).unwrap();
    p
}

/// all entries below `root` in `read_dir` order (parents before children), paths relative with `/`
pub fn walk_order(root: &Path) -> Vec<(String, bool)> {
    fn rec(dir: &Path, rel: &str, out: &mut Vec<(String, bool)>) {
        let Ok(rd) = std::fs::read_dir(dir) else { return };
        let mut subdirs = vec![];
        for e in rd.flatten() {
            let name = e.file_name().to_string_lossy().to_string();
            let r = if rel.is_empty() { name.clone() } else { format!("{rel}/{name}") };
            let is_dir = e.metadata().map(|m| m.is_dir()).unwrap_or(false);
            out.push((r.clone(), is_dir));
            if is_dir { subdirs.push((e.path(), r)); }
        }
        for (p, r) in subdirs { rec(&p, &r, out); }
    }
    let mut out = vec![];
    rec(root, "", &mut out);
    out
}

pub fn listing(root: &Path) -> String {
    let mut v: Vec<String> = walk_order(root).into_iter().map(|(p, is_dir)| {
        if is_dir { format!("{p}=d") } else {
            let c = std::fs::read(root.join(&p)).unwrap_or_default();
            format!("{p}=f{}.{}", c.len(), crc32fast::hash(&c))
        }
    }).collect();
    v.sort();
    v.join(",")
}

pub fn fnv_str(s: &str) -> u64 { fnv(s.as_bytes()) }

pub struct Env {
    pub xorbs: Vec<RefXorb>,
}

impl Env {
    pub fn kidx(&self, k: &Key) -> String {
        match self.xorbs.iter().position(|x| &x.key == k) {
            Some(i) => i.to_string(),
            None => format!("?{}", hex(&key_bytes(k))),
        }
    }
    pub fn snapshot_str(&self, snap: &Snapshot) -> String {
        let mut v: Vec<(String, String)> = snap.iter().filter(|(_, items)| !items.is_empty()).map(|(k, items)| {
            (self.kidx(k), items.iter().map(|i| format!("{}.{}.{}.{}.{}", i.0, i.1, i.2, i.3, i.4 as u8)).collect::<Vec<_>>().join("+"))
        }).collect();
        v.sort();
        v.iter().map(|(k, s)| format!("{k}:{s}")).collect::<Vec<_>>().join(",")
    }
    pub fn preamble(&self) -> String {
        let mut s = format!("nk={}", self.xorbs.len());
        for (i, x) in self.xorbs.iter().enumerate() {
            s += &format!(" k{i}={} x{i}={}:{}", hex(&key_bytes(&x.key)), x.blob_off,
                          x.bounds.iter().map(|b| b.to_string()).collect::<Vec<_>>().join("."));
        }
        s
    }
}

pub fn gen_env(ctx: &mut Ctx, rng: &mut Rng, nk: usize, big: bool) -> Env {
    let mut xorbs = vec![];
    let shared: u64 = rng.next();
    for i in 0..nk {
        let mut w0 = rng.next();
        // about half of the keys share their first two bytes → same prefix directory
        if rng.chance(1, 2) { w0 = (w0 & !0xffff) | (shared & 0xffff); }
        let hash = MerkleHash::from([w0, rng.next(), rng.next(), rng.next()]);
        let prefix = ["default", "", "x", "pre-fix"][rng.below(4) as usize].to_string();
        let n = rng.range(3, 9) as usize;
        let mut bounds = vec![0u32];
        for _ in 0..n {
            let l = if big && rng.chance(1, 3) { rng.range(500, 3000) } else { rng.range(1, 40) } as u32;
            bounds.push(bounds.last().unwrap() + l);
        }
        let data = rng.bytes(*bounds.last().unwrap() as usize);
        let (blob_off, _) = ctx.blob(&data);
        let _ = i;
        xorbs.push(RefXorb { key: Key { prefix, hash }, bounds, data, blob_off });
    }
    Env { xorbs }
}

pub fn get_snapshot(c: &DiskCache) -> (usize, u64, Snapshot) { c.verif_snapshot().unwrap() }

pub fn state_str(env: &Env, c: Option<&DiskCache>, root: &Path, verbose: bool) -> String {
    let (n, b, s) = match c { Some(c) => get_snapshot(c), None => (0, 0, vec![]) };
    let l = listing(root);
    format!("n={n} b={b} S={} L={}", env.snapshot_str(&s), if verbose { l } else { fnv_str(&l).to_string() })
}

fn res_hit(data: &[u8], offs: &[u32]) -> String {
    format!("hit:{}:{}:{}", data.len(), crc32fast::hash(data), offs.iter().map(|o| o.to_string()).collect::<Vec<_>>().join("."))
}

struct Seq<'a> {
    env: &'a Env,
    root: PathBuf,
    cap: u64,
    cache: Option<DiskCache>,
    toks: Vec<String>,
    answers: Vec<String>,
    verbose: bool,
    damaged: bool,             // any damage / oversize item / capacity change so far (C13 file monitor is then off)
    tainted: BTreeSet<usize>,  // keys hit by a rename/move that preserves (len, crc)  (F12)
    tainted_garbage: BTreeSet<usize>, // keys that got a planted file with a consistent name but a structurally INVALID header: no excuse for a hit
    planted_bad_dirs: Vec<String>,
    evictions: u64,
    hits: u64,
}

impl<'a> Seq<'a> {
    fn record(&mut self, tok: String, res: String) {
        let st = state_str(self.env, self.cache.as_ref(), &self.root, self.verbose);
        self.toks.push(tok);
        self.answers.push(format!("{res} {st}"));
    }

    fn replay(&self, ctx: &Ctx, seq: u64) -> String {
        format!("{{\"suite\":\"cache_seq\",\"seed\":{},\"sequence\":{},\"op_index\":{}}}", ctx.seed, seq, self.toks.len())
    }

    /// C13 monitors at a quiescent point
    fn monitors(&mut self, ctx: &mut Ctx, seq: u64, after_insert: Option<u64>) {
        let Some(c) = self.cache.as_ref() else { return };
        let (n, b, snap) = get_snapshot(c);
        let cnt: usize = snap.iter().map(|(_, v)| v.len()).sum();
        let sum: u64 = snap.iter().flat_map(|(_, v)| v.iter().map(|i| i.2)).sum();
        if n != cnt || b != sum {
            ctx.fail("C13", "counter-mismatch", format!("num_items={n} (tracked {cnt}), total_bytes={b} (tracked sum {sum})"), self.replay(ctx, seq));
        }
        if let Some(len) = after_insert {
            if len <= self.cap && b > self.cap {
                ctx.fail("C13", "capacity-exceeded", format!("total_bytes={b} > capacity={} after inserting an item of {len} bytes", self.cap), self.replay(ctx, seq));
            }
        }
        if !self.damaged {
            // every cache file belongs to a tracked entry
            let tracked: BTreeSet<String> = snap.iter().flat_map(|(k, v)| {
                let kd = key_dir_name(k);
                v.iter().map(move |i| format!("{}/{}/{}", &kd[..2], kd, item_name(i.0, i.1, i.2, i.3)))
            }).collect();
            for (p, is_dir) in walk_order(&self.root) {
                if !is_dir && p.matches('/').count() == 2 && !tracked.contains(&p) {
                    ctx.fail("C13", "untracked-cache-file", format!("file {p} on disk is not tracked"), self.replay(ctx, seq));
                }
            }
        }
    }

    fn do_get(&mut self, ctx: &mut Ctx, seq: u64, ki: usize, s: u32, e: u32) {
        let x = &self.env.xorbs[ki];
        let c = self.cache.as_ref().unwrap().clone();
        let key = x.key.clone();
        let r = guarded(move || c.get(&key, &ChunkRange { start: s, end: e }));
        let res = match r {
            Err(_) => {
                // (the known finding rename-wider-range-panic is the PUT over a renamed entry; a panicking get is a different call site)
                let key = if self.tainted.contains(&ki) { "get-panic-on-renamed-entry" } else if self.tainted_garbage.contains(&ki) { "get-panic-on-planted-invalid-file" } else { "panic" };
                ctx.fail("C12", key, format!("get(key {ki}, [{s},{e})) panicked"), self.replay(ctx, seq));
                ctx.stat("get_panic");
                "panic".to_string()
            }
            Ok(Err(e)) => { ctx.stat(&format!("get_err_{}", err_str(&e))); format!("err:{}", err_str(&e)) }
            Ok(Ok(None)) => { ctx.stat("get_miss"); "miss".into() }
            Ok(Ok(Some(cr))) => {
                ctx.stat("get_hit");
                self.hits += 1;
                // C12 monitor: the hit is the slice of the reference xorb
                let good = s < e && e <= x.nchunks() && {
                    let (offs, data) = x.slice(s, e);
                    data == cr.data.as_ref() && offs.as_slice() == cr.offsets.as_ref() && cr.range == ChunkRange { start: s, end: e }
                };
                if !good {
                    let key = if self.tainted.contains(&ki) { "rename-preserving-len-crc" } else if self.tainted_garbage.contains(&ki) { "hit-from-planted-invalid-file" } else { "hit-wrong-data" };
                    ctx.fail("C12", key, format!("get(key {ki}, [{s},{e})) is a hit but not the slice of what was put for that key"), self.replay(ctx, seq));
                    ctx.stat("get_hit_wrong");
                }
                res_hit(&cr.data, &cr.offsets)
            }
        };
        self.record(format!("G:{ki}:{s}:{e}"), res);
        self.monitors(ctx, seq, None);
    }

    /// put; `raw` = explicit (offsets, data) instead of the consistent slice
    fn do_put(&mut self, ctx: &mut Ctx, seq: u64, ki: usize, s: u32, e: u32, raw: Option<(Vec<u32>, Vec<u8>)>) {
        let x = &self.env.xorbs[ki];
        let (offs, data): (Vec<u32>, Vec<u8>) = match &raw {
            Some((o, d)) => (o.clone(), d.clone()),
            None => { let (o, d) = x.slice(s, e); (o, d.to_vec()) }
        };
        let c = self.cache.as_ref().unwrap().clone();
        let (_, _, before) = get_snapshot(&c);
        let key = x.key.clone();
        let (o2, d2) = (offs.clone(), data.clone());
        HOOK_LOG.lock().unwrap().clear();
        let r = guarded(move || c.put(&key, &ChunkRange { start: s, end: e }, &o2, &d2));
        let (_, _, after) = get_snapshot(self.cache.as_ref().unwrap());
        let res = match &r {
            Err(_) => {
                let key = if self.tainted.contains(&ki) { "rename-wider-range-panic" } else { "panic" };
                ctx.fail("C12", key, format!("put(key {ki}, [{s},{e})) panicked"), self.replay(ctx, seq));
                ctx.stat("put_panic");
                "panic".to_string()
            }
            Ok(Err(e)) => { ctx.stat(&format!("put_err_{}", err_str(e))); format!("err:{}", err_str(e)) }
            Ok(Ok(())) => { ctx.stat("put_ok"); "ok".into() }
        };
        // which entries were evicted (oracle for the model)?  Only if the put committed, i.e. no entry
        // covering [s,e) that existed before is still there.
        let items_of = |snap: &Snapshot, k: &Key| -> Vec<Entry> { snap.iter().find(|(kk, _)| kk == k).map(|(_, v)| v.clone()).unwrap_or_default() };
        let committed = HOOK_LOG.lock().unwrap().contains(&"cache.put.written");
        ctx.stat_add("stale_entries_dropped_by_put", HOOK_LOG.lock().unwrap().iter().filter(|h| **h == "cache.remove_item.unlink").count() as u64);
        let mut ev: Vec<(String, Entry)> = vec![];
        let mut inserted_len = None;
        if committed {
            for (k, items) in &before {
                let aft = items_of(&after, k);
                for i in items {
                    let gone = !aft.iter().any(|j| (j.0, j.1, j.2, j.3) == (i.0, i.1, i.2, i.3));
                    if !gone { continue; }
                    if k == &x.key && ((s <= i.0 && i.1 <= e) || (i.0 <= s && e <= i.1)) { continue; } // subsumed / dropped stale match
                    let kj = match self.env.xorbs.iter().position(|y| &y.key == k) { Some(j) => j.to_string(), None => format!("h{}", hex(&key_bytes(k))) };
                    ev.push((kj, *i));
                }
            }
            ev.sort_by(|a, b| a.1 .2.cmp(&b.1 .2).then(a.cmp(b))); // shortest first: if any order is a legal run of the loop, this one is
            self.evictions += ev.len() as u64;
            ctx.stat_add("evicted_entries", ev.len() as u64);
            if !ev.is_empty() { ctx.stat("put_with_eviction"); }
            ctx.stat("put_committed");
            inserted_len = items_of(&after, &x.key).iter().find(|j| (j.0, j.1) == (s, e)).map(|j| j.2);
            if inserted_len.map_or(false, |l| l > self.cap) { self.damaged = true; ctx.stat("put_item_larger_than_capacity"); }
        }
        let evs = if ev.is_empty() { "-".to_string() } else {
            ev.iter().map(|(kj, i)| format!("{kj}.{}.{}.{}.{}", i.0, i.1, i.2, i.3)).collect::<Vec<_>>().join("+")
        };
        let tok = match raw {
            None => format!("P:{ki}:{s}:{e}:{evs}"),
            Some(_) => {
                let (off, len) = ctx.blob(&data);
                format!("Q:{ki}:{s}:{e}:{}:{off}:{len}:{evs}", offs.iter().map(|o| o.to_string()).collect::<Vec<_>>().join("."))
            }
        };
        self.record(tok, res);
        self.monitors(ctx, seq, inserted_len);
    }

    /// all item files currently on disk: (rel path, key dir, name)
    fn item_files(&self) -> Vec<(String, String, String)> {
        walk_order(&self.root).into_iter().filter(|(p, d)| !*d && p.matches('/').count() == 2).map(|(p, _)| {
            let parts: Vec<&str> = p.split('/').collect();
            (p.clone(), parts[1].to_string(), parts[2].to_string())
        }).filter(|(_, kd, _)| kd.len() >= 2).collect()
    }

    fn write_file(&mut self, ctx: &mut Ctx, rel: &str, content: &[u8]) {
        let p = self.root.join(rel);
        if p.is_dir() { return; }
        if let Some(par) = p.parent() { if !par.is_dir() { return; } }
        std::fs::write(&p, content).unwrap();
        let (off, len) = ctx.blob(content);
        self.record(format!("W:{rel}:{off}:{len}"), "w".into());
    }
    fn delete(&mut self, rel: &str) {
        let p = self.root.join(rel);
        if p.is_dir() { if std::fs::remove_dir(&p).is_err() { return; } } else if std::fs::remove_file(&p).is_err() { return; }
        self.record(format!("D:{rel}"), "d".into());
    }
    fn mkdir(&mut self, rel: &str) {
        let p = self.root.join(rel);
        if p.exists() { return; }
        if let Some(par) = p.parent() { if !par.is_dir() { return; } }
        std::fs::create_dir(&p).unwrap();
        self.record(format!("M:{rel}"), "m".into());
    }

    fn junk_name(rng: &mut Rng) -> String {
        const A: &[u8] = b"ABCDEFGHIJKLMNOPQRSTUVWXYZabcdefghijklmnopqrstuvwxyz0123456789-_.=!~";
        let n = rng.range(1, 30) as usize;
        let mut s: String = (0..n).map(|_| A[rng.below(A.len() as u64) as usize] as char).collect();
        if s == "." || s == ".." { s = "x.".into(); }
        s
    }

    /// one damage action while the cache is closed
    fn damage(&mut self, ctx: &mut Ctx, rng: &mut Rng) {
        let files = self.item_files();
        let kind = rng.below(16);
        self.damaged = true;
        match kind {
            0..=2 if !files.is_empty() => {
                // single burst of at most 32 bits flipped
                let (p, _, _) = rng.pick(&files).clone();
                let mut c = std::fs::read(self.root.join(&p)).unwrap();
                if c.is_empty() { return; }
                let nbits = rng.range(1, 32) as usize;
                let start = rng.below((c.len() * 8) as u64) as usize;
                let mut flipped = false;
                for b in start..(start + nbits).min(c.len() * 8) {
                    if b == start || b == (start + nbits).min(c.len() * 8) - 1 || rng.chance(1, 2) { c[b / 8] ^= 1 << (b % 8); flipped = true; }
                }
                if flipped { ctx.stat("damage_bitflip"); self.write_file(ctx, &p, &c); }
            }
            3 if !files.is_empty() => {
                let (p, _, _) = rng.pick(&files).clone();
                let c = std::fs::read(self.root.join(&p)).unwrap();
                let n = rng.below(c.len() as u64) as usize;
                ctx.stat("damage_truncate");
                self.write_file(ctx, &p, &c[..n]);
            }
            4 if !files.is_empty() => {
                let (p, _, _) = rng.pick(&files).clone();
                let mut c = std::fs::read(self.root.join(&p)).unwrap();
                let extra = rng.range(1, 9) as usize;
                c.extend(rng.bytes(extra));
                ctx.stat("damage_extend");
                self.write_file(ctx, &p, &c);
            }
            5 if !files.is_empty() => {
                let (p, _, _) = rng.pick(&files).clone();
                ctx.stat("damage_delete");
                self.delete(&p);
            }
            6 | 7 => {
                // junk file at one of the three levels
                let dirs: Vec<String> = walk_order(&self.root).into_iter().filter(|(_, d)| *d).map(|(p, _)| p).collect();
                let level = rng.below(3) as usize;
                let cands: Vec<&String> = dirs.iter().filter(|p| p.matches('/').count() + 1 == level).collect();
                let parent = if level == 0 || cands.is_empty() { String::new() } else { (*rng.pick(&cands)).clone() };
                let name = match rng.below(5) {
                    0 => { // a syntactically valid item name whose length field does not fit the content
                        item_name(rng.below(5) as u32, 5 + rng.below(5) as u32, rng.below(200), rng.next() as u32)
                    }
                    1 => { let n = item_name(0, 3, 40, 7); n[..27].to_string() }                 // padding stripped
                    2 => { let mut n = item_name(1, 4, 40, 7); n.replace_range(27..28, "A"); n }   // 21 bytes
                    3 => item_name(5, 5 - rng.below(2) as u32, 10, 3),                             // start >= end
                    _ => Self::junk_name(rng),
                };
                let rel = if parent.is_empty() { name } else { format!("{parent}/{name}") };
                let n = rng.below(60) as usize;
                let content = rng.bytes(n);
                ctx.stat(&format!("damage_junk_file_level{}", rel.matches('/').count() + 1));
                self.write_file(ctx, &rel, &content);
            }
            8 => {
                // junk directory at the root or inside a key directory (never panics)
                let dirs: Vec<String> = walk_order(&self.root).into_iter().filter(|(p, d)| *d && p.matches('/').count() == 1).map(|(p, _)| p).collect();
                if rng.chance(1, 2) || dirs.is_empty() {
                    let name = match rng.below(3) { 0 => "zz".to_string(), 1 => "q".to_string(), _ => Self::junk_name(rng) };
                    ctx.stat("damage_junk_dir_level1");
                    self.mkdir(&name);
                } else {
                    let parent = rng.pick(&dirs).clone();
                    let name = if rng.chance(1, 2) { item_name(1000, 1001, 0, 0) } else { Self::junk_name(rng) };
                    ctx.stat("damage_junk_dir_level3");
                    self.mkdir(&format!("{parent}/{name}"));
                }
            }
            9 => {
                // junk directory inside a prefix directory: names that the scan skips
                let dirs: Vec<String> = walk_order(&self.root).into_iter().filter(|(p, d)| *d && !p.contains('/') && p.len() == 2).map(|(p, _)| p).collect();
                if dirs.is_empty() { return; }
                let parent = rng.pick(&dirs).clone();
                let name = match rng.below(3) {
                    0 => format!("{parent}!not-base64"),
                    1 => { // ≥ 32 bytes, prefix part not UTF-8
                        let mut b = URL_SAFE.decode(format!("{parent}AA")).unwrap_or(vec![0, 0, 0]);
                        b.extend(rng.bytes(29));
                        b.extend([0xff, 0x80]);
                        URL_SAFE.encode(b)
                    }
                    _ => { // planted valid key directory (decodes to ≥ 32 bytes + ASCII prefix), empty
                        let mut b = URL_SAFE.decode(format!("{parent}AA")).unwrap_or(vec![0, 0, 0]);
                        b.extend(rng.bytes(29));
                        b.extend(b"pl");
                        URL_SAFE.encode(b)
                    }
                };
                if !name.starts_with(&parent) { return; }
                ctx.stat("damage_junk_dir_level2_skipped");
                self.mkdir(&format!("{parent}/{name}"));
            }
            10 => {
                // junk directory inside a prefix directory that makes `initialize` panic (F14)
                if !rng.chance(1, 3) { return; }
                let dirs: Vec<String> = walk_order(&self.root).into_iter().filter(|(p, d)| *d && !p.contains('/') && p.len() == 2).map(|(p, _)| p).collect();
                if dirs.is_empty() { return; }
                let parent = rng.pick(&dirs).clone();
                let name = match rng.below(3) {
                    0 => format!("{parent}AA"),                 // decodes to 3 bytes: `&buf[..32]` out of range
                    1 => "x".to_string(),                       // shorter than the prefix
                    _ => "zzzzzzzz".to_string(),                // not below its prefix (debug assertion)
                };
                let rel = format!("{parent}/{name}");
                if self.root.join(&rel).exists() { return; }
                ctx.stat("damage_junk_dir_level2_panicking");
                self.mkdir(&rel);
                self.planted_bad_dirs.push(rel);
            }
            11 | 12 if !files.is_empty() => {
                // rename to a junk name / a name with changed len or crc field (detectable)
                let (p, kd, name) = rng.pick(&files).clone();
                let Some((s, e, len, crc)) = parse_item_name(&name) else { return };
                let newname = match rng.below(3) {
                    0 => Self::junk_name(rng),
                    1 => item_name(s, e, len + rng.range(1, 5), crc),
                    _ => item_name(s, e, len, crc ^ (1 << rng.below(32))),
                };
                let c = std::fs::read(self.root.join(&p)).unwrap();
                let target = format!("{}/{}/{}", &kd[..2], kd, newname);
                if self.root.join(&target).exists() { return; }
                ctx.stat("damage_rename_detectable");
                self.delete(&p);
                self.write_file(ctx, &target, &c);
            }
            13 if !files.is_empty() => {
                // F12: rename / move that keeps the (len, crc) part of the name valid
                if !rng.chance(1, 2) { return; }
                let (p, kd, name) = rng.pick(&files).clone();
                let Some((s, e, len, crc)) = parse_item_name(&name) else { return };
                let c = std::fs::read(self.root.join(&p)).unwrap();
                let variant = rng.below(3);
                let (tkd, tname) = match variant {
                    0 => { let d = rng.range(1, 2) as u32; (kd.clone(), item_name(s + d, e + d, len, crc)) }      // shifted, same width
                    1 => (kd.clone(), item_name(s, e + rng.range(1, 3) as u32, len, crc)),                         // wider
                    _ => { // moved into another key's directory
                        let other: Vec<String> = self.env.xorbs.iter().map(|x| key_dir_name(&x.key)).filter(|d| d != &kd).collect();
                        if other.is_empty() { return; }
                        (rng.pick(&other).clone(), name.clone())
                    }
                };
                let target = format!("{}/{}/{}", &tkd[..2], tkd, tname);
                if self.root.join(&target).exists() { return; }
                if let Some(ti) = self.env.xorbs.iter().position(|x| key_dir_name(&x.key) == tkd) { self.tainted.insert(ti); }
                ctx.stat(&format!("damage_rename_preserving_len_crc_v{variant}"));
                self.delete(&p);
                self.mkdir(&tkd[..2].to_string());
                self.mkdir(&format!("{}/{}", &tkd[..2], tkd));
                self.write_file(ctx, &target, &c);
            }
            14 => {
                // planted, self-consistent (len, crc in the name match) but structurally broken content
                let dirs: Vec<String> = walk_order(&self.root).into_iter().filter(|(p, d)| *d && p.matches('/').count() == 1).map(|(p, _)| p).collect();
                if dirs.is_empty() { return; }
                let parent = rng.pick(&dirs).clone();
                let mut content;
                if rng.chance(1, 2) {
                    // an almost valid file: count, indices starting at 0 and increasing except for one dip / repeat, then data
                    let k = rng.range(2, 6) as usize;
                    let mut idx: Vec<u32> = vec![0]; for _ in 0..k { let l = *idx.last().unwrap(); idx.push(l + rng.range(1, 60) as u32); }
                    let d = rng.range(1, k as u64) as usize;
                    idx[d] = if rng.chance(1, 2) { idx[d - 1] } else { idx[d - 1].saturating_sub(rng.range(0, 5) as u32) };
                    content = Vec::new(); content.extend_from_slice(&(idx.len() as u32).to_le_bytes()); for i in &idx { content.extend_from_slice(&i.to_le_bytes()); }
                    let dl = *idx.iter().max().unwrap() as usize + rng.below(8) as usize; content.extend_from_slice(&rng.bytes(dl));
                } else {
                    let n = rng.range(0, 40) as usize;
                    content = rng.bytes(n);
                    if content.len() >= 4 { content[1] = 0; content[2] = 0; content[3] = 0; content[0] %= 12; }
                }
                let s = rng.below(4) as u32;
                let name = item_name(s, s + rng.range(1, 4) as u32, content.len() as u64, crc32fast::hash(&content));
                // is the header structurally valid (count, first index 0, strictly increasing, all inside the file)?  Then this is the
                // planted-valid-entry case of the known finding F12; otherwise nothing excuses a hit from this file
                let valid_header = content.len() >= 4 && {
                    let n = u32::from_le_bytes(content[0..4].try_into().unwrap()) as usize;
                    4 + 4 * n <= content.len() && { let idx: Vec<u32> = (0..n).map(|i| u32::from_le_bytes(content[4 + 4 * i..8 + 4 * i].try_into().unwrap())).collect(); idx.first().map_or(true, |f| *f == 0) && idx.windows(2).all(|w| w[0] < w[1]) }
                };
                if let Some(kd) = parent.split('/').nth(1) { if let Some(ti) = self.env.xorbs.iter().position(|x| key_dir_name(&x.key) == kd) { if valid_header { self.tainted.insert(ti); } else { self.tainted_garbage.insert(ti); } } }
                ctx.stat(if valid_header { "damage_planted_consistent_valid_header" } else { "damage_planted_consistent_garbage" });
                self.write_file(ctx, &format!("{parent}/{name}"), &content);
            }
            _ => { ctx.stat("damage_none"); }
        }
    }

    fn reopen(&mut self, ctx: &mut Ctx, seq: u64, cap: u64) {
        loop {
            let order: Vec<String> = walk_order(&self.root).into_iter().map(|(p, _)| p).collect();
            let cfg = CacheConfig { cache_directory: self.root.clone(), cache_size: cap };
            let r = guarded(move || DiskCache::initialize(&cfg));
            let (res, ok) = match r {
                Err(_) => {
                    ctx.stat("reopen_panic");
                    let key = if self.planted_bad_dirs.is_empty() { "panic" } else { "planted-key-dir-panic" };
                    ctx.fail("C12", key, format!("DiskCache::initialize panicked on a directory containing {:?}", self.planted_bad_dirs), self.replay(ctx, seq));
                    ("panic", false)
                }
                Ok(Err(_)) => { ctx.stat("reopen_err"); ("err", false) }
                Ok(Ok(c)) => { ctx.stat("reopen_ok"); self.cache = Some(c); self.cap = cap; ("ok", true) }
            };
            self.record(format!("R:{cap}:{}", order.join(",")), res.into());
            if ok { break; }
            // repair: remove the planted directories that cannot be scanned, try again
            if self.planted_bad_dirs.is_empty() {
                let cfg = CacheConfig { cache_directory: self.root.clone(), cache_size: cap };
                QUIET_PANICS.store(false, std::sync::atomic::Ordering::SeqCst);
                let r = std::panic::catch_unwind(move || DiskCache::initialize(&cfg).map(|_| ()));
                panic!("re-open failed without planted directories: {res} {:?} seq {seq} listing {}", r.map(|x| x.map_err(|e| e.to_string())).map_err(|_| "panic"), listing(&self.root));
            }
            let bad = std::mem::take(&mut self.planted_bad_dirs);
            for d in bad {
                // children first (other junk may have been planted inside)
                let mut inner: Vec<String> = walk_order(&self.root.join(&d)).into_iter().map(|(p, _)| format!("{d}/{p}")).collect();
                inner.sort_by(|a, b| b.matches('/').count().cmp(&a.matches('/').count()));
                for p in inner { self.delete(&p); }
                self.delete(&d);
            }
        }
        self.monitors(ctx, seq, None);
    }
}

pub fn run(ctx: &mut Ctx) {
    let nseq: u64 = if ctx.quick() { 300 } else { 3000 };
    let nops = 60;
    let verbose = std::env::var("XV_VERBOSE").is_ok();
    let root = tmp_root("cache_seq");
    let old_hook = std::panic::take_hook();
    std::panic::set_hook(quiet_hook());
    let (f10_fixed, f14_fixed) = probe_variants();
    ctx.stat(if f10_fixed { "variant_f10_fixed" } else { "variant_f10_unfixed" });
    ctx.stat(if f14_fixed { "variant_f14_fixed" } else { "variant_f14_unfixed" });
    utils::verif_hooks::set_callback(Some(std::sync::Arc::new(|name| HOOK_LOG.lock().unwrap().push(name))));
    for seq in 0..nseq {
        let mut rng = ctx.rng.fork(0xC5E0 + seq);
        let nk = rng.range(2, 4) as usize;
        let big = seq % 10 == 9;
        let env = gen_env(ctx, &mut rng, nk, big);
        let _ = std::fs::remove_dir_all(&root);
        std::fs::create_dir_all(&root).unwrap();
        // capacity relative to the largest possible item
        let max_item: u64 = env.xorbs.iter().map(|x| x.data.len() as u64 + 4 * (x.bounds.len() as u64 + 1)).max().unwrap();
        let cap = match rng.below(4) { 0 => max_item / 2 + 1, 1 => max_item + rng.below(max_item), 2 => 2 * max_item + rng.below(2 * max_item), _ => 6 * max_item };
        let mut sq = Seq { env: &env, root: root.clone(), cap, cache: None, toks: vec![], answers: vec![], verbose, damaged: false,
                           tainted: Default::default(), tainted_garbage: Default::default(), planted_bad_dirs: vec![], evictions: 0, hits: 0 };
        sq.reopen(ctx, seq, cap);
        let with_damage = seq % 3 != 0;
        for _ in 0..nops {
            let ki = rng.below(nk as u64) as usize;
            let n = env.xorbs[ki].nchunks();
            let s = rng.below(n as u64) as u32;
            let e = rng.range(s as u64 + 1, n as u64) as u32;
            let roll = rng.below(100);
            if roll < 42 {
                if rng.chance(1, 12) {
                    // malformed arguments: rejected before anything happens
                    let (mut offs, data) = { let (o, d) = env.xorbs[ki].slice(s, e); (o, d.to_vec()) };
                    let (mut s2, mut e2) = (s, e);
                    let mut data2 = data.clone();
                    match rng.below(6) {
                        0 => { s2 = e; e2 = s; }
                        1 => { offs.pop(); }
                        2 => { offs[0] = 1; }
                        3 => { data2.push(0); }
                        4 => { if offs.len() > 2 { offs[1] = offs[2]; } else { offs[1] = 0; } }
                        _ => { e2 = s2; }
                    }
                    ctx.stat("put_malformed");
                    sq.do_put(ctx, seq, ki, s2, e2, Some((offs, data2)));
                } else {
                    sq.do_put(ctx, seq, ki, s, e, None);
                }
            } else if roll < 88 {
                match rng.below(12) {
                    0 => sq.do_get(ctx, seq, ki, e, s),                          // start >= end
                    1 => sq.do_get(ctx, seq, ki, s, n + 1 + rng.below(3) as u32), // beyond the xorb
                    _ => sq.do_get(ctx, seq, ki, s, e),
                }
            } else {
                // close, maybe damage, re-open (mostly with the same capacity)
                sq.cache = None;
                if with_damage { for _ in 0..rng.below(4) { sq.damage(ctx, &mut rng); } }
                let cap2 = match rng.below(6) { 0 => (sq.cap / 2).max(1), 1 => sq.cap * 2, _ => sq.cap };
                if cap2 != sq.cap { sq.damaged = true; ctx.stat("reopen_other_capacity"); } else { ctx.stat("reopen_same_capacity"); }
                sq.reopen(ctx, seq, cap2);
            }
        }
        let line = format!("cache.seq cap={cap} f10={} f14={} {}{} ops={}", f10_fixed as u8, f14_fixed as u8, env.preamble(), if verbose { " verbose=1" } else { "" }, sq.toks.join(";"));
        let ans = sq.answers.join(" | ");
        ctx.case(fnv_str(&line), sq.evictions > 0 && sq.hits > 0);
        ctx.stat(if sq.evictions > 0 { "sequences_with_eviction" } else { "sequences_without_eviction" });
        ctx.op(&line, &ans);
        sq.cache = None;
    }
    // ---- an item whose file fills the capacity exactly, then a re-open with the same capacity (C13): still tracked, counters exact
    for round in 0..(if ctx.quick() { 12 } else { 100 }) {
        let mut rng = ctx.rng.fork(0xE9AC + round);
        let env = gen_env(ctx, &mut rng, 1, false);
        let _ = std::fs::remove_dir_all(&root);
        std::fs::create_dir_all(&root).unwrap();
        let x = &env.xorbs[0];
        let n = x.nchunks();
        let s = rng.below(n as u64) as u32; let e = rng.range(s as u64 + 1, n as u64) as u32;
        let (offs, data) = x.slice(s, e);
        let range = ChunkRange { start: s, end: e };
        let file_len = (data.len() + 4 * (offs.len() + 1)) as u64;
        let cfg = CacheConfig { cache_directory: root.clone(), cache_size: file_len };
        let replay = format!("{{\"suite\":\"cache_seq\",\"seed\":{},\"exact_capacity_round\":{round}}}", ctx.seed);
        { let c = DiskCache::initialize(&cfg).unwrap(); c.put(&x.key, &range, &offs, data).unwrap();
          let (n0, b0, _) = get_snapshot(&c);
          if (n0, b0) != (1, file_len) { ctx.stat("exact_capacity_item_not_inserted"); continue; } }
        let c = match guarded(|| DiskCache::initialize(&cfg)) { Ok(Ok(c)) => c, _ => { ctx.fail("C13", "reopen-failed", format!("re-open of a directory holding one item of exactly the capacity failed (round {round})"), replay); continue; } };
        let (n1, b1, snap) = get_snapshot(&c);
        let files: Vec<String> = walk_order(&root).into_iter().filter(|(_, d)| !*d).map(|(p, _)| p).collect();
        let tracked: usize = snap.iter().map(|(_, v)| v.len()).sum();
        if files.len() == 1 && (n1 != 1 || b1 != file_len || tracked != 1) {
            ctx.fail("C13", "exact-capacity-item-untracked-after-reopen", format!("an item whose file has exactly the capacity ({file_len} bytes) was tracked before the re-open; after re-opening with the same capacity the cache reports {n1} items / {b1} bytes while the file is still on disk (round {round})"), replay);
        }
        ctx.stat("exact_capacity_rounds");
    }
    // ---- a damaged file that the re-opened cache does not track (C12): put X, close, flip one bit of X's file (same length),
    // re-open with a capacity below the file's length (the start-up scan then leaves the file alone, untracked), put X again with the
    // original bytes, get X: a hit must carry the bytes that were put
    for round in 0..(if ctx.quick() { 24 } else { 200 }) {
        let mut rng = ctx.rng.fork(0xAD09 + round);
        let env = gen_env(ctx, &mut rng, 1, false);
        let _ = std::fs::remove_dir_all(&root);
        std::fs::create_dir_all(&root).unwrap();
        let x = &env.xorbs[0];
        let n = x.nchunks();
        let s = rng.below(n as u64) as u32; let e = rng.range(s as u64 + 1, n as u64) as u32;
        let (offs, data) = x.slice(s, e);
        let range = ChunkRange { start: s, end: e };
        { let c = DiskCache::initialize(&CacheConfig { cache_directory: root.clone(), cache_size: 1 << 30 }).unwrap(); c.put(&x.key, &range, &offs, data).unwrap(); }
        let files: Vec<String> = walk_order(&root).into_iter().filter(|(_, d)| !*d).map(|(p, _)| p).collect();
        if files.len() != 1 { continue; }
        let p = root.join(&files[0]);
        let mut b = std::fs::read(&p).unwrap();
        let pos = b.len() - 1 - rng.below((b.len() as u64).min(40)) as usize;
        b[pos] ^= 1 << rng.below(8);
        std::fs::write(&p, &b).unwrap();
        let cap2 = match rng.below(3) { 0 => b.len() as u64 - 1, 1 => (b.len() as u64 / 2).max(1), _ => b.len() as u64 };
        let c = match guarded(|| DiskCache::initialize(&CacheConfig { cache_directory: root.clone(), cache_size: cap2 })) { Ok(Ok(c)) => c, _ => continue };
        let r1 = guarded(|| c.put(&x.key, &range, &offs, data));
        let r2 = guarded(|| c.get(&x.key, &range));
        let replay = format!("{{\"suite\":\"cache_seq\",\"seed\":{},\"adopt_round\":{round}}}", ctx.seed);
        if r1.is_err() || r2.is_err() { ctx.fail("C12", "panic", format!("put/get panicked after a re-open with capacity {cap2} over a damaged file of {} bytes (round {round})", b.len()), replay.clone()); }
        if let Ok(Ok(Some(cr))) = &r2 {
            if cr.data.as_ref() != data || cr.offsets.as_ref() != offs.as_slice() {
                ctx.fail("C12", "hit-from-damaged-untracked-file", format!("put X, close, flip one bit in X's file, re-open with capacity {cap2} (file has {} bytes), put X again, get X: the hit does not carry the bytes that were put (round {round})", b.len()), replay);
            }
            ctx.stat("adopt_round_hit");
        } else { ctx.stat("adopt_round_no_hit"); }
    }
    // ---- the same through `chunk_cache::get_cache`, the process-wide manager every client goes through: one cache per directory
    // while any handle is alive, a newly opened one (fresh start-up scan, nothing verified yet) after the last handle is gone
    for round in 0..(if ctx.quick() { 10 } else { 80 }) {
        let mut rng = ctx.rng.fork(0x3A9A + round);
        let env = gen_env(ctx, &mut rng, 3, false);
        let _ = std::fs::remove_dir_all(&root);
        let items: Vec<(usize, u32, u32)> = (0..3).flat_map(|k| { let n = env.xorbs[k].nchunks() as u32; if n >= 2 { let m = 1 + (round as u32 + k as u32) % (n - 1); vec![(k, 0, m), (k, m, n)] } else { vec![(k, 0, n)] } }).collect();
        let flen = |it: &(usize, u32, u32)| { let (o, d) = env.xorbs[it.0].slice(it.1, it.2); (d.len() + 4 * (o.len() + 1)) as u64 };
        // (a) C12: put, read (verified in memory), drop every handle, damage the file, get the cache again, read
        {
            let dir = root.join(format!("mgr-a-{round}"));
            std::fs::create_dir_all(&dir).unwrap();
            let cfg = CacheConfig { cache_directory: dir.clone(), cache_size: 1 << 30 };
            let it = items[rng.below(items.len() as u64) as usize];
            let x = &env.xorbs[it.0];
            let (offs, data) = x.slice(it.1, it.2);
            let range = ChunkRange { start: it.1, end: it.2 };
            let replay = format!("{{\"suite\":\"cache_seq\",\"seed\":{},\"manager_round\":{round},\"scenario\":\"get_cache, put, get, drop all handles, flip one payload bit, get_cache, get\"}}", ctx.seed);
            let ok = (|| { let c = chunk_cache::get_cache(&cfg).ok()?; c.put(&x.key, &range, &offs, data).ok()?; c.get(&x.key, &range).ok()? })().is_some();
            let files: Vec<String> = walk_order(&dir).into_iter().filter(|(_, d)| !*d).map(|(p, _)| p).collect();
            if ok && files.len() == 1 {
                let p = dir.join(&files[0]);
                let mut b = std::fs::read(&p).unwrap();
                let pos = b.len() - 1 - rng.below(data.len() as u64) as usize;
                b[pos] ^= 1 << rng.below(8);
                std::fs::write(&p, &b).unwrap();
                match guarded(|| chunk_cache::get_cache(&cfg).and_then(|c| c.get(&x.key, &range))) {
                    Ok(Ok(Some(cr))) if cr.data.as_ref() != data || cr.offsets.as_ref() != offs.as_slice() =>
                        ctx.fail("C12", "manager-reopen-serves-damaged-item", format!("an item of {} bytes was put and read through get_cache, all handles dropped, one payload bit of its file flipped; the cache obtained from get_cache afterwards returns a hit with the damaged bytes (round {round})", data.len()), replay),
                    Err(()) => ctx.fail("C12", "panic", format!("get through a re-obtained cache panicked on a damaged file (manager round {round})"), replay),
                    _ => {}
                }
                ctx.stat("manager_reopen_damage_rounds");
            }
        }
        // (b) C13: two handles obtained after an earlier generation was dropped are one cache: the capacity bounds the bytes on
        // disk after every put through either handle, and every file on disk is an entry both handles serve
        {
            let dir = root.join(format!("mgr-b-{round}"));
            std::fs::create_dir_all(&dir).unwrap();
            let cap: u64 = items.iter().take(3).map(|i| flen(i)).sum::<u64>().max(items.iter().map(|i| flen(i)).max().unwrap());
            let cfg = CacheConfig { cache_directory: dir.clone(), cache_size: cap };
            let replay = format!("{{\"suite\":\"cache_seq\",\"seed\":{},\"manager_round\":{round},\"scenario\":\"get_cache + drop, get_cache twice, puts alternating between the two handles\",\"capacity\":{cap}}}", ctx.seed);
            let first = chunk_cache::get_cache(&cfg);
            if let Ok(c) = &first { let it = items[0]; let (o, d) = env.xorbs[it.0].slice(it.1, it.2); let _ = c.put(&env.xorbs[it.0].key, &ChunkRange { start: it.1, end: it.2 }, &o, d); }
            drop(first);
            if let (Ok(h1), Ok(h2)) = (chunk_cache::get_cache(&cfg), chunk_cache::get_cache(&cfg)) {
                for (i, it) in items.iter().enumerate() {
                    let (o, d) = env.xorbs[it.0].slice(it.1, it.2);
                    let h = if i % 2 == 0 { &h1 } else { &h2 };
                    let _ = h.put(&env.xorbs[it.0].key, &ChunkRange { start: it.1, end: it.2 }, &o, d);
                    let files: Vec<String> = walk_order(&dir).into_iter().filter(|(_, d)| !*d).map(|(p, _)| p).collect();
                    let on_disk: u64 = files.iter().map(|f| std::fs::metadata(dir.join(f)).map(|m| m.len()).unwrap_or(0)).sum();
                    if on_disk > cap { ctx.fail("C13", "capacity-exceeded-on-disk-through-manager", format!("{on_disk} bytes in {} cache files on disk after put {i} through handle {}, the capacity is {cap} (manager round {round})", files.len(), i % 2 + 1), replay.clone()); break; }
                    let mut lost = None;
                    for it2 in items.iter().take(i + 1) {
                        let r1 = h1.get(&env.xorbs[it2.0].key, &ChunkRange { start: it2.1, end: it2.2 }).ok().flatten().is_some();
                        let r2 = h2.get(&env.xorbs[it2.0].key, &ChunkRange { start: it2.1, end: it2.2 }).ok().flatten().is_some();
                        if r1 != r2 { lost = Some((*it2, r1, r2)); break; }
                    }
                    if let Some((it2, r1, r2)) = lost { ctx.fail("C13", "handles-of-one-directory-disagree", format!("after put {i}: item (key {}, [{},{})) is a {} through the first handle and a {} through the second handle of the same cache directory: two caches track one directory (manager round {round})", it2.0, it2.1, it2.2, if r1 { "hit" } else { "miss" }, if r2 { "hit" } else { "miss" }), replay.clone()); break; }
                }
                ctx.stat("manager_two_handle_rounds");
            }
        }
    }
    utils::verif_hooks::set_callback(None);
    std::panic::set_hook(old_hook);
    let _ = std::fs::remove_dir_all(&root);
}
