//! Suites `shard_ops` (C10: union / difference / consolidation) and `keyed` (C18: keyed export, expiry).
use std::collections::{BTreeMap, BTreeSet};
use std::io::Cursor;
use std::path::PathBuf;
use std::time::{Duration, SystemTime};

use mdb_shard::cas_structs::MDBCASInfo;
use mdb_shard::file_structs::{MDBFileInfo, MDB_FILE_FLAG_WITH_METADATA_EXT, MDB_FILE_FLAG_WITH_VERIFICATION};
use mdb_shard::session_directory::consolidate_shards_in_directory;
use mdb_shard::set_operations::{shard_set_difference, shard_set_union};
use mdb_shard::shard_format::MDBShardInfo;
use mdb_shard::shard_in_memory::MDBInMemoryShard;
use mdb_shard::MDBShardFile;
use merklehash::{compute_data_hash, MerkleHash};

use crate::ctx::{fnv, Ctx};
use crate::rng::Rng;
use crate::suites::hashes::rand_hash;
use crate::suites::shard::{canonical_bytes, footer_str, gen_content, Gen};

fn build(g: &Gen) -> (MDBInMemoryShard, Vec<u8>, MDBShardInfo) {
    let mut mem = MDBInMemoryShard::default();
    for c in &g.cas { mem.add_cas_block(c.clone()).unwrap(); }
    for f in &g.files { mem.add_file_reconstruction_info(f.clone()).unwrap(); }
    let mut bytes = Vec::new();
    let info = MDBShardInfo::serialize_from(&mut bytes, &mem).unwrap();
    (mem, bytes, info)
}

fn records(bytes: &[u8]) -> (BTreeMap<MerkleHash, MDBFileInfo>, BTreeMap<MerkleHash, MDBCASInfo>) {
    let info = MDBShardInfo::load_from_reader(&mut Cursor::new(bytes)).unwrap();
    let f = info.read_all_file_info_sections(&mut Cursor::new(bytes)).unwrap();
    let c = info.read_all_cas_blocks_full(&mut Cursor::new(bytes)).unwrap();
    (f.into_iter().map(|x| (x.metadata.file_hash, x)).collect(), c.into_iter().map(|x| (x.metadata.cas_hash, x)).collect())
}

/// derive a second shard related to the first: overlapping keys, same files with different flag sets
fn related(rng: &mut Rng, a: &Gen, kind: u64) -> Gen {
    let (n1, n2, d) = (rng.range(0, 12) as usize, rng.range(0, 12) as usize, rng.below(4));
    let mut b = gen_content(rng, n1, n2, d, false);
    match kind {
        0 => {}                                                        // disjoint (random)
        1 => { b = Gen { cas: a.cas.clone(), files: a.files.clone() }; }      // identical
        2 => { b = Gen { cas: vec![], files: vec![] }; }               // empty
        _ => {
            for c in &a.cas { if rng.chance(1, 2) { b.cas.push(c.clone()); } }
            for f in &a.files {
                if rng.chance(2, 3) {
                    // same file (same segments — `verify_same_file` is the code's documented assumption) with another flag combination
                    let mut g = f.clone();
                    let (ver, meta) = (rng.chance(1, 2), rng.chance(1, 2));
                    g.metadata.file_flags &= !(MDB_FILE_FLAG_WITH_VERIFICATION | MDB_FILE_FLAG_WITH_METADATA_EXT);
                    if ver { g.metadata.file_flags |= MDB_FILE_FLAG_WITH_VERIFICATION; g.verification = (0..g.segments.len()).map(|_| mdb_shard::file_structs::FileVerificationEntry::new(rand_hash(rng))).collect(); } else { g.verification.clear(); }
                    if meta { g.metadata.file_flags |= MDB_FILE_FLAG_WITH_METADATA_EXT; g.metadata_ext = Some(mdb_shard::file_structs::FileMetadataExt::new(rand_hash(rng))); } else { g.metadata_ext = None; }
                    b.files.push(g);
                }
            }
        }
    }
    b
}

pub fn run_ops(ctx: &mut Ctx) {
    let npairs = if ctx.quick() { 60 } else { 700 };
    for case_no in 0..npairs {
        let mut rng = ctx.rng.fork(40_000 + case_no);
        let (n1, n2, d) = (rng.range(0, 14) as usize, rng.range(0, 14) as usize, rng.below(4));
        // a few pairs whose inputs each stay below 256 files / xorbs while the union has more (the lookup tables of the output
        // are then searched by interpolation, not scanned)
        let big = case_no % 20 == 7;
        let (n1, n2, d) = if big { ctx.stat("pairs_with_more_than_255_records_in_the_union"); if case_no % 40 == 7 { (rng.range(2, 5) as usize, rng.range(140, 250) as usize, 0) } else { (rng.range(140, 250) as usize, rng.range(2, 5) as usize, 0) } } else { (n1, n2, d) };
        let a = gen_content(&mut rng, n1, n2, d, false);
        let kind = if big { 0 } else { rng.below(6) };
        let b = if big { gen_content(&mut rng, n1, n2, d, false) } else { related(&mut rng, &a, kind) };
        let (ma, ba, ia) = build(&a);
        let (mb, bb, ib) = build(&b);
        let replay = format!("{{\"suite\":\"shard_ops\",\"seed\":{},\"case\":{},\"kind\":{}}}", ctx.seed, case_no, kind);
        let (ao, al) = ctx.blob(&ba);
        let (bo, bl) = ctx.blob(&bb);
        let (fa, ca) = records(&ba);
        let (fb, cb) = records(&bb);
        for op in ["union", "diff"] {
            let mut out = Vec::new();
            let r = if op == "union" { shard_set_union(&ia, &mut Cursor::new(&ba), &ib, &mut Cursor::new(&bb), &mut out) } else { shard_set_difference(&ia, &mut Cursor::new(&ba), &ib, &mut Cursor::new(&bb), &mut out) };
            let info = match r { Ok(i) => i, Err(e) => { ctx.fail("C10", "setop-error", format!("{op} failed: {e} (case {case_no})"), replay.clone()); continue; } };
            let (canon, sorted) = canonical_bytes(&out, &info);
            if !sorted { ctx.fail("C10", "chunk-table-unsorted", format!("{op}: chunk table not sorted (case {case_no})"), replay.clone()); }
            // the result's chunk lookup table has one row per chunk entry of its xorb records (when it has a chunk table at all)
            { let (_, co_rows) = records(&out); let n_chunks: usize = co_rows.values().map(|c| c.chunks.len()).sum();
              if info.metadata.chunk_lookup_num_entry != 0 && info.metadata.chunk_lookup_num_entry as usize != n_chunks { ctx.fail("C10", "chunk-table-row-count", format!("{op}: the chunk lookup table has {} rows for {n_chunks} chunk entries (case {case_no})", info.metadata.chunk_lookup_num_entry), replay.clone()); } }
            ctx.op(&format!("shardop.set op={op} a={ao}:{al} b={bo}:{bl}"), &format!("len={} fnv={} {}", out.len(), fnv(&canon), footer_str(&info)));
            // ---- record-set algebra monitors
            let (fo, co) = records(&out);
            let want_f: BTreeSet<MerkleHash> = if op == "union" { fa.keys().chain(fb.keys()).copied().collect() } else { fb.keys().filter(|k| !fa.contains_key(k)).copied().collect() };
            let want_c: BTreeSet<MerkleHash> = if op == "union" { ca.keys().chain(cb.keys()).copied().collect() } else { cb.keys().filter(|k| !ca.contains_key(k)).copied().collect() };
            if fo.keys().copied().collect::<BTreeSet<_>>() != want_f || co.keys().copied().collect::<BTreeSet<_>>() != want_c { ctx.fail("C10", "record-set", format!("{op}: record key set differs from the set algebra (case {case_no})"), replay.clone()); }
            for (k, v) in &co { let src = ca.get(k).or(cb.get(k)); if src != Some(v) { ctx.fail("C10", "xorb-record-changed", format!("{op}: xorb record invented or altered (case {case_no})"), replay.clone()); break; } }
            for (k, v) in &fo {
                let (x, y) = (fa.get(k), fb.get(k));
                let ok = match (x, y) {
                    (Some(x), None) => x == v, (None, Some(y)) => y == v,
                    (Some(x), Some(y)) => v.segments == x.segments && v.metadata.file_flags == (x.metadata.file_flags | y.metadata.file_flags)
                        && (v.verification == x.verification || v.verification == y.verification) && (v.metadata_ext == x.metadata_ext || v.metadata_ext == y.metadata_ext)
                        && (!v.contains_verification() || v.verification.len() == v.segments.len()) && (v.contains_metadata_ext() == v.metadata_ext.is_some()),
                    _ => false };
                if !ok { ctx.fail("C10", "file-record-not-richer-variant", format!("{op}: file record is not the (richer) variant of an input record (case {case_no})"), replay.clone()); break; }
            }
            // every record retrievable through the lookup tables of the output; totals
            let loaded = MDBShardInfo::load_from_reader(&mut Cursor::new(&out)).unwrap();
            let mut pc: BTreeMap<u64, usize> = BTreeMap::new(); for k in fo.keys() { *pc.entry(k[0]).or_insert(0) += 1; }
            for k in want_f.iter().step_by((want_f.len() / 40).max(1)).filter(|k| pc[&k[0]] < 8) { match loaded.get_file_reconstruction_info(&mut Cursor::new(&out), k) { Ok(Some(f)) if Some(&f) == fo.get(k) => {}, _ => { ctx.fail("C10", "lookup-after-setop", format!("{op}: a file record is not retrievable from the output (case {case_no})"), replay.clone()); break; } } }
            { let mut pcc: BTreeMap<u64, usize> = BTreeMap::new(); for k in co.keys() { *pcc.entry(k[0]).or_insert(0) += 1; }
              let step = (want_c.len() / 40).max(1);
              for k in want_c.iter().step_by(step).filter(|k| pcc[&k[0]] < 8) { let mut dest = [0u32; 8]; match loaded.get_cas_info_index_by_hash(&mut Cursor::new(&out), k, &mut dest) { Ok(n) if n >= 1 => {}, _ => { ctx.fail("C10", "xorb-lookup-after-setop", format!("{op}: xorb record {} of the output ({} xorb records) is not found through the output's xorb lookup table (case {case_no})", k.hex(), co.len()), replay.clone()); break; } } } }
            let mat: u64 = fo.values().map(|f| f.segments.iter().map(|s| s.unpacked_segment_bytes as u64).sum::<u64>()).sum();
            if loaded.metadata.materialized_bytes != mat || loaded.metadata.stored_bytes != co.values().map(|c| c.metadata.num_bytes_in_cas as u64).sum::<u64>() { ctx.fail("C10", "totals-after-setop", format!("{op}: footer totals differ (case {case_no})"), replay.clone()); }
            // agreement with the in-memory operation
            let mm = if op == "union" { ma.union(&mb).unwrap() } else { ma.difference(&mb).unwrap() };
            let mut mbytes = Vec::new(); let minfo = MDBShardInfo::serialize_from(&mut mbytes, &mm).unwrap();
            if canonical_bytes(&mbytes, &minfo).0 != canon { ctx.stat("inmemory_vs_file_setop_bytes_differ"); let (fm, cm) = records(&mbytes); if fm.keys().collect::<Vec<_>>() != fo.keys().collect::<Vec<_>>() || cm != co { ctx.fail("C10", "inmemory-vs-file", format!("{op}: in-memory and file-level operation give different record sets (case {case_no})"), replay.clone()); } }
        }
        ctx.stat(&format!("pair_{}", ["disjoint", "identical", "empty", "overlap", "overlap", "overlap"][kind as usize]));
        ctx.case(fnv(&ba) ^ fnv(&bb), a.cas.len() + a.files.len() + b.cas.len() + b.files.len() >= 2);
    }

    // ---- file-level operations, also IN PLACE (the output path is one of the inputs: accumulate into / subtract from a shard)
    {
        let tmp = PathBuf::from(std::env::var("TMPDIR").unwrap_or("/verif/run/tmp".into())).join(format!("shardfileops-{}-{}", std::process::id(), ctx.seed));
        for r in 0..(if ctx.quick() { 12 } else { 100 }) {
            let mut rng = ctx.rng.fork(70_000 + r);
            let _ = std::fs::remove_dir_all(&tmp); std::fs::create_dir_all(&tmp).unwrap();
            let a = { let (n1, n2) = (rng.range(1, 8) as usize, rng.range(1, 8) as usize); gen_content(&mut rng, n1, n2, 0, false) };
            let kind = rng.below(4);
            let b = related(&mut rng, &a, kind);
            let (_, ba, _) = build(&a); let (_, bb, _) = build(&b);
            let (pa, pb, pc) = (tmp.join("a.mdb"), tmp.join("b.mdb"), tmp.join("c.mdb"));
            std::fs::write(&pa, &ba).unwrap(); std::fs::write(&pb, &bb).unwrap();
            let (fa, ca) = records(&ba); let (fb, cb) = records(&bb);
            let union = rng.chance(2, 3);
            let out = match rng.below(3) { 0 => pc.clone(), 1 => pa.clone(), _ => pb.clone() };
            let res = if union { mdb_shard::set_operations::shard_file_union(&pa, &pb, &out) } else { mdb_shard::set_operations::shard_file_difference(&pa, &pb, &out) };
            let replay = format!("{{\"suite\":\"shard_ops\",\"seed\":{},\"file_op_round\":{r},\"union\":{union},\"out\":\"{}\"}}", ctx.seed, out.file_name().unwrap().to_string_lossy());
            let what = format!("shard_file_{}(a, b, out = {})", if union { "union" } else { "difference" }, out.file_name().unwrap().to_string_lossy());
            match res {
                Err(e) => ctx.fail("C10", "file-setop-error", format!("{what} failed: {e} (round {r})"), replay),
                Ok(_) => {
                    let ob = std::fs::read(&out).unwrap_or_default();
                    let parsed = MDBShardInfo::load_from_reader(&mut Cursor::new(&ob)).is_ok();
                    if !parsed { ctx.fail("C10", "file-setop-output-unreadable", format!("{what}: the output is not a readable shard (round {r})"), replay); }
                    else {
                        let (fo, co) = records(&ob);
                        let want_f: BTreeSet<MerkleHash> = if union { fa.keys().chain(fb.keys()).copied().collect() } else { fb.keys().filter(|k| !fa.contains_key(*k)).copied().collect() };
                        let want_c: BTreeSet<MerkleHash> = if union { ca.keys().chain(cb.keys()).copied().collect() } else { cb.keys().filter(|k| !ca.contains_key(*k)).copied().collect() };
                        if fo.keys().copied().collect::<BTreeSet<_>>() != want_f || co.keys().copied().collect::<BTreeSet<_>>() != want_c {
                            ctx.fail("C10", "file-setop-record-set", format!("{what}: the output's record keys are not those of the {} (round {r})", if union { "union" } else { "difference" }), replay);
                        }
                    }
                }
            }
            ctx.stat(&format!("file_setop_out_{}", if out == pc { "third" } else { "in_place" }));
        }
        let _ = std::fs::remove_dir_all(&tmp);
    }

    // ---- consolidation of session directories
    let ndirs = if ctx.quick() { 14 } else { 150 };
    let tmp_root = PathBuf::from(std::env::var("TMPDIR").unwrap_or("/verif/run/tmp".into())).join(format!("shardops-{}-{}", std::process::id(), ctx.seed));
    for dno in 0..ndirs {
        let mut rng = ctx.rng.fork(50_000 + dno);
        let dir = tmp_root.join(format!("d{dno}"));
        std::fs::create_dir_all(&dir).unwrap();
        let n = rng.range(1, 7) as usize;
        let mut files: Vec<(PathBuf, Vec<u8>)> = Vec::new();
        let mut prev: Option<Gen> = None;
        let mut dir_prefixes: BTreeSet<u64> = BTreeSet::new();
        let mut dir_xorbs: BTreeSet<MerkleHash> = BTreeSet::new();
        for i in 0..n {
            // every eighth directory: shards of 70..120 file records each, so that a merged shard holds more than 255
            let many_files = dno % 8 == 3;
            if many_files && i == 0 { ctx.stat("consolidate_dirs_with_many_file_records"); }
            let g = match (&prev, if many_files { 3 } else { rng.below(4) }) { (Some(p), 0) => Gen { cas: p.cas.clone(), files: p.files.clone() }, (Some(p), 1) => related(&mut rng, p, 3), _ => { let (n1, n2) = if many_files { (rng.range(0, 3) as usize, rng.range(70, 120) as usize) } else { (rng.range(0, 8) as usize, rng.range(0, 8) as usize) }; gen_content(&mut rng, n1, n2, 0, false) } };
            // no two chunk-table rows of the directory share a truncated hash (twin copies of one xorb excepted: a union keeps one):
            // merged bytes, hence merged names, are then independent of how the unstable sort breaks ties, and the model can decide
            // exactly like the code whether a merge reproduces a shard that is already there (ties are exercised by the set-operation
            // cases above, compared on canonical bytes)
            let mut g = g;
            for c in g.cas.iter_mut() {
                if dir_xorbs.contains(&c.metadata.cas_hash) { continue; }
                for ch in c.chunks.iter_mut() { while !dir_prefixes.insert(ch.chunk_hash[0]) { ch.chunk_hash = rand_hash(&mut rng); } }
                dir_xorbs.insert(c.metadata.cas_hash);
            }
            let (mem, bytes, info0) = build(&g);
            if mem.is_empty() && rng.chance(1, 2) { continue; }
            // one shard in five that is not the oldest is a legal shard WITHOUT lookup tables and file records (the layout of a
            // dedup-only export under the default key): its xorb records are retrievable by scanning and must survive a merge
            if i >= 1 && !g.cas.is_empty() && rng.chance(1, 5) {
                let mut out = Vec::new();
                if info0.export_as_keyed_shard(&mut Cursor::new(&bytes), &mut out, merklehash::HMACKey::default(), Duration::from_secs(1 << 28), false, false, false).is_ok() {
                    let sf = MDBShardFile::write_out_from_reader(&dir, &mut Cursor::new(&out)).unwrap();
                    if !files.iter().any(|(q, _)| *q == sf.path) {
                        let t = SystemTime::UNIX_EPOCH + Duration::from_secs(1_700_000_000 + 10 * i as u64);
                        std::fs::File::options().write(true).open(&sf.path).unwrap().set_modified(t).unwrap();
                        files.push((sf.path.clone(), out));
                        ctx.stat("consolidate_dirs_with_a_table_less_shard");
                    }
                    prev = Some(g);
                    continue;
                }
            }
            let p = mem.write_to_directory(&dir).unwrap();
            if files.iter().any(|(q, _)| *q == p) { prev = Some(g); continue; }
            let t = SystemTime::UNIX_EPOCH + Duration::from_secs(1_700_000_000 + 10 * i as u64);
            std::fs::File::options().write(true).open(&p).unwrap().set_modified(t).unwrap();
            files.push((p, bytes));
            prev = Some(g);
        }
        // every fourth directory instead holds A, B, C = the merge of A and B exactly as consolidation writes it (left there by an
        // interrupted earlier consolidation) and a small D, in this order of modification time, with a target that groups [A, B]
        // and then [C, D]: the shard returned for the first group is an input of the second
        let mut planted_target: Option<u64> = None;
        if dno % 4 == 1 {
            for (p, _) in files.drain(..) { let _ = std::fs::remove_file(p); }
            let mut put = |bytes: Vec<u8>, i: u64, files: &mut Vec<(PathBuf, Vec<u8>)>| {
                let sf = MDBShardFile::write_out_from_reader(&dir, &mut Cursor::new(&bytes)).unwrap();
                let t = SystemTime::UNIX_EPOCH + Duration::from_secs(1_700_000_000 + 10 * i);
                std::fs::File::options().write(true).open(&sf.path).unwrap().set_modified(t).unwrap();
                if !files.iter().any(|(q, _)| *q == sf.path) { files.push((sf.path.clone(), bytes)); }
            };
            let mut ga = { let (n1, n2) = (rng.range(2, 7) as usize, rng.range(2, 7) as usize); gen_content(&mut rng, n1, n2, 0, false) };
            let mut gb = { let (n1, n2) = (rng.range(2, 7) as usize, rng.range(2, 7) as usize); gen_content(&mut rng, n1, n2, 0, false) };
            let mut gd = gen_content(&mut rng, 1, 0, 0, false);
            // no two chunks with the same truncated hash: the merged bytes (and so the merged shard's name) are then independent of
            // how the unstable sort of the chunk table breaks ties, and the model reproduces the name
            let mut seen = BTreeSet::new();
            for g in [&mut ga, &mut gb, &mut gd] { for c in g.cas.iter_mut() { for ch in c.chunks.iter_mut() { while !seen.insert(ch.chunk_hash[0]) { ch.chunk_hash = rand_hash(&mut rng); } } } }
            let (_, ba, ia) = build(&ga); let (_, bb, ib) = build(&gb); let (_, bd, _) = build(&gd);
            let mut bc = Vec::new();
            shard_set_union(&ia, &mut Cursor::new(&ba), &ib, &mut Cursor::new(&bb), &mut bc).unwrap();
            let (la, lb, lc, ld) = (ba.len() as u64, bb.len() as u64, bc.len() as u64, bd.len() as u64);
            put(ba, 0, &mut files); put(bb, 1, &mut files); put(bc, 2, &mut files); put(bd, 3, &mut files);
            // [A, B] merge: la + lb < T <= la + lb + lc;  [C, D] merge: lc + ld < T
            let lo = (la + lb).max(lc + ld) + 1; let hi = la + lb + lc;
            if files.len() == 4 && lo <= hi { planted_target = Some(rng.range(lo, hi)); ctx.stat("consolidate_planted_merge_of_earlier_group"); }
        }
        // junk that must be ignored
        std::fs::write(dir.join(".0a0a.mdb_temp"), b"junk").unwrap();
        let sizes: Vec<usize> = files.iter().map(|f| f.1.len()).collect();
        let target = if let Some(t) = planted_target { t } else { match rng.below(4) { 0 => 1u64, 1 => 1u64 << 30, _ => (sizes.iter().sum::<usize>() as u64 / 2).max(1) + rng.below(300) } };
        let replay = format!("{{\"suite\":\"shard_ops\",\"seed\":{},\"dir\":{},\"target\":{},\"sizes\":{:?}}}", ctx.seed, dno, target, sizes);
        let mut before_f = BTreeMap::new(); let mut before_c = BTreeMap::new();
        for (_, b) in &files { let (f, c) = records(b); before_f.extend(f); before_c.extend(c); }
        let res = consolidate_shards_in_directory(&dir, target);
        let finished = match res { Ok(v) => v, Err(e) => { ctx.fail("C10", "consolidate-error", format!("consolidation failed: {e}"), replay.clone()); continue; } };
        // directory afterwards
        let mut listing: Vec<String> = std::fs::read_dir(&dir).unwrap().map(|e| e.unwrap().file_name().to_string_lossy().to_string()).filter(|n| n.ends_with(".mdb")).collect();
        listing.sort();
        let mut after_f = BTreeMap::new(); let mut after_c = BTreeMap::new();
        for name in &listing { let b = std::fs::read(dir.join(name)).unwrap(); if format!("{}.mdb", compute_data_hash(&b).hex()) != *name { ctx.fail("C10", "name-not-content-hash", format!("shard file {name} is not named by its content hash"), replay.clone()); } let (f, c) = records(&b); after_f.extend(f); after_c.extend(c); }
        if after_c != before_c || after_f.keys().collect::<Vec<_>>() != before_f.keys().collect::<Vec<_>>() { ctx.fail("C10", "consolidate-lost-or-invented", "the set of retrievable records changed by consolidation".into(), replay.clone()); }
        // every file record is still found BY HASH (through the lookup table) in some shard of the directory
        { let mut pc: BTreeMap<u64, usize> = BTreeMap::new(); for k in before_f.keys() { *pc.entry(k[0]).or_insert(0) += 1; }
          let shards_now: Vec<(Vec<u8>, MDBShardInfo)> = listing.iter().filter_map(|n| { let b = std::fs::read(dir.join(n)).ok()?; let i = MDBShardInfo::load_from_reader(&mut Cursor::new(&b)).ok()?; Some((b, i)) }).collect();
          for k in before_f.keys().step_by((before_f.len() / 40).max(1)).filter(|k| pc[&k[0]] < 8) {
              if !shards_now.iter().any(|(b, i)| matches!(i.get_file_reconstruction_info(&mut Cursor::new(b), k), Ok(Some(_)))) {
                  ctx.fail("C10", "file-record-not-found-by-hash-after-consolidation", format!("file record {} ({} file records in the directory) was retrievable by hash before the consolidation and is found in no shard of the directory afterwards", k.hex(), before_f.len()), replay.clone()); break; } } }
        let mut fin_f = BTreeSet::new(); let mut fin_c = BTreeSet::new();
        for s in &finished { if !s.path.exists() { ctx.fail("C10", "returned-shard-missing", format!("returned shard {:?} does not exist", s.path), replay.clone()); continue; } let b = std::fs::read(&s.path).unwrap(); if compute_data_hash(&b) != s.shard_hash { ctx.fail("C10", "returned-hash-mismatch", "returned shard hash != content hash".into(), replay.clone()); } let (f, c) = records(&b); fin_f.extend(f.into_keys()); fin_c.extend(c.into_keys()); }
        for (p, b) in &files { if !p.exists() { let (f, c) = records(b); if !f.keys().all(|k| fin_f.contains(k)) || !c.keys().all(|k| fin_c.contains(k)) { ctx.fail("C10", "deleted-without-cover", format!("deleted shard {:?} has records not present in a returned shard", p), replay.clone()); } } }
        let removed: Vec<String> = { let mut v: Vec<String> = files.iter().filter(|(p, _)| !p.exists()).map(|(_, b)| compute_data_hash(b).hex()).collect(); v.sort(); v };
        let existing: BTreeSet<String> = files.iter().map(|(_, b)| compute_data_hash(b).hex()).collect();
        let fin_names: Vec<String> = finished.iter().map(|s| {
            if existing.contains(&s.shard_hash.hex()) { s.shard_hash.hex() } else {
                let b = std::fs::read(&s.path).unwrap_or_default();
                match MDBShardInfo::load_from_reader(&mut Cursor::new(&b)) { Ok(i) => format!("new:{}:{}", b.len(), fnv(&canonical_bytes(&b, &i).0)), Err(_) => "new:unreadable".into() } } }).collect();
        let spans: Vec<String> = files.iter().map(|(_, b)| { let (o, l) = ctx.blob(b); format!("{o}:{l}") }).collect();
        ctx.op(&format!("shardop.consolidate target={target} shards={}", spans.join(";")), &format!("finished={} removed={}", fin_names.join(","), removed.join(",")));
        ctx.stat(&format!("consolidate_groups_{}", if finished.len() == files.len() { "none_merged" } else if finished.len() == 1 { "all_merged" } else { "some_merged" }));
        ctx.case(fnv(spans.join(";").as_bytes()) ^ target, files.len() >= 2);
        let _ = std::fs::remove_dir_all(&dir);
    }
    let _ = std::fs::remove_dir_all(&tmp_root);
}

// ------------------------------------------------------------------------------------------------
pub fn run_keyed(ctx: &mut Ctx) {
    let nshards = if ctx.quick() { 24 } else { 250 };
    let rt = tokio::runtime::Builder::new_current_thread().build().unwrap();
    let tmp_root = PathBuf::from(std::env::var("TMPDIR").unwrap_or("/verif/run/tmp".into())).join(format!("keyed-{}-{}", std::process::id(), ctx.seed));
    std::fs::create_dir_all(&tmp_root).unwrap();
    for sno in 0..nshards {
        let mut rng = ctx.rng.fork(60_000 + sno);
        let (n1, n2, d) = (rng.range(0, 14) as usize, rng.range(0, 14) as usize, rng.below(4));
        let mut g = gen_content(&mut rng, n1, n2, d, false);
        // unusual but legal record contents: non-zero cas_flags in segments (the export must not mis-parse them)
        if rng.chance(1, 3) { for f in g.files.iter_mut() { for s in f.segments.iter_mut() { if rng.chance(1, 3) { s.cas_flags = *rng.pick(&[1u32, 1 << 30, 1 << 31, 3 << 30, 0xffff_ffff]); } } } }
        let (_mem, bytes, info) = build(&g);
        let (so, sl) = ctx.blob(&bytes);
        let (fa, ca) = records(&bytes);
        let replay = format!("{{\"suite\":\"keyed\",\"seed\":{},\"shard\":{}}}", ctx.seed, sno);
        let keys = [MerkleHash::default(), rand_hash(&mut rng)];
        for combo in 0..8u32 {
            let (f, c, k) = (combo & 1 != 0, combo & 2 != 0, combo & 4 != 0);
            let key = keys[rng.below(2) as usize];
            let valid = *rng.pick(&[0u64, 1, 3600, 86400 * 21]);
            let mut out = Vec::new();
            let r = info.export_as_keyed_shard(&mut Cursor::new(&bytes), &mut out, key, Duration::from_secs(valid), f, c, k);
            let n = match r { Ok(n) => n, Err(e) => {
                let flagged = g.files.iter().any(|fi| fi.segments.iter().any(|s| s.cas_flags & (3 << 30) != 0));
                ctx.fail("C18", if !f && flagged { "export-without-file-info-misparses-segments" } else { "export-error" }, format!("keyed export (file_info={f}, cas_table={c}, chunk_table={k}) failed: {e}; segment cas_flags with high bits present: {flagged}"), replay.clone());
                ctx.stat("export_errors"); continue; } };
            if n != out.len() { ctx.fail("C18", "export-length", "returned byte count != bytes written".into(), replay.clone()); }
            let oinfo = MDBShardInfo::load_from_reader(&mut Cursor::new(&out)).unwrap();
            let now = oinfo.metadata.shard_creation_timestamp;
            ctx.op(&format!("shardop.export at={so}:{sl} key={} now={now} valid={valid} f={} c={} k={}", key.hex(), f as u8, c as u8, k as u8),
                   &format!("len={} fnv={} cr={} ex={} {}", out.len(), fnv(&out), now, oinfo.metadata.shard_key_expiry, footer_str(&oinfo)));
            // ---- monitors
            let (fo, co) = records(&out);
            if f { if fo != fa { ctx.fail("C18", "file-records-changed", "file records changed by the export".into(), replay.clone()); } } else if !fo.is_empty() { ctx.fail("C18", "file-records-not-dropped", "file records present although not requested".into(), replay.clone()); }
            if co.keys().collect::<Vec<_>>() != ca.keys().collect::<Vec<_>>() { ctx.fail("C18", "xorb-hashes-changed", "xorb hashes changed by the export".into(), replay.clone()); }
            // kept file records are retrievable BY HASH through the exported shard's lookup table
            if f {
                let mut pc: BTreeMap<u64, usize> = BTreeMap::new(); for k in fa.keys() { *pc.entry(k[0]).or_insert(0) += 1; }
                for (h, rec) in fa.iter().filter(|(h, _)| pc[&h[0]] < 8).take(30) {
                    match oinfo.get_file_reconstruction_info(&mut Cursor::new(&out), h) {
                        Ok(Some(r)) if &r == rec => {}
                        other => { ctx.fail("C18", "kept-file-record-not-retrievable", format!("file record {} was requested to be kept (file_info=true, cas_table={c}, chunk_table={k}) but a lookup by hash in the exported shard gives {}", h.hex(), match other { Ok(Some(_)) => "another record".to_string(), Ok(None) => "not found".to_string(), Err(e) => format!("an error: {e}") }), replay.clone()); break; }
                    }
                }
            }
            for (h, x) in &co { let src = &ca[h]; for (a, b) in x.chunks.iter().zip(src.chunks.iter()) {
                let want = if key == MerkleHash::default() { b.chunk_hash } else { b.chunk_hash.hmac(key) };
                if a.chunk_hash != want || a.unpacked_segment_bytes != b.unpacked_segment_bytes { ctx.fail("C18", "chunk-not-keyed", "a chunk hash in the exported xorb list is not the keyed form of the original".into(), replay.clone()); break; } } }
            if key != MerkleHash::default() {
                // no raw chunk hash survives anywhere in the output (unless it equals its keyed form)
                'scan: for x in ca.values() { for ch in &x.chunks { let raw = ch.chunk_hash.as_bytes(); if ch.chunk_hash.hmac(key) != ch.chunk_hash && out.windows(32).any(|w| w == raw) && !fa.values().any(|fi| fi.segments.iter().any(|s| s.cas_hash == ch.chunk_hash)) && !ca.contains_key(&ch.chunk_hash) && !fa.contains_key(&ch.chunk_hash) {
                    ctx.fail("C18", "raw-chunk-hash-leaked", "a raw chunk hash is present in the keyed shard".into(), replay.clone()); break 'scan; } } }
                // and the lookup table is keyed
                let tbl = oinfo.read_all_truncated_hashes(&mut Cursor::new(&out)).unwrap();
                let mut want: Vec<u64> = ca.values().flat_map(|x| x.chunks.iter().map(|ch| ch.chunk_hash.hmac(key)[0])).collect(); want.sort();
                let mut got: Vec<u64> = tbl.iter().map(|t| t.0).collect(); got.sort();
                if got != want { ctx.fail("C18", "chunk-table-not-keyed", "chunk lookup keys are not the truncated keyed hashes".into(), replay.clone()); }
            }
            if oinfo.metadata.chunk_hash_hmac_key != key { ctx.fail("C18", "footer-key", "footer key differs".into(), replay.clone()); }
            // the export records its expiry (creation + validity) for every key, so that the shard stops being loaded then
            if oinfo.metadata.shard_key_expiry != now.saturating_add(valid) {
                ctx.fail("C18", "export-expiry-not-recorded", format!("exported shard (key {}zero, valid for {valid} s, created {now}) records expiry {} instead of {}: it would be loaded after its validity ended", if key == MerkleHash::default() { "" } else { "non-" }, oinfo.metadata.shard_key_expiry, now.saturating_add(valid)), replay.clone());
            }
            // dedup through the exported shard with UNKEYED queries gives the original answers
            for x in ca.values().take(6) { if x.chunks.is_empty() { continue; } let s = rng.below(x.chunks.len() as u64) as usize; let q: Vec<MerkleHash> = x.chunks[s..].iter().take(5).map(|c| c.chunk_hash).collect();
                let a0 = info.chunk_hash_dedup_query(&mut Cursor::new(&bytes), &q).unwrap(); let a1 = oinfo.chunk_hash_dedup_query(&mut Cursor::new(&out), &q).unwrap();
                let dup = { let mut seen = BTreeSet::new(); ca.values().flat_map(|x| x.chunks.iter()).any(|c| !seen.insert(c.chunk_hash[0])) };
                if k && a0 != a1 && !dup { ctx.fail("C18", "dedup-answer-changed", format!("dedup answer through the keyed shard differs from the original: {a0:?} vs {a1:?}"), replay.clone()); }
                if let Err(e) = crate::suites::shard::truthful(&a1, &q, &co, if key == MerkleHash::default() { None } else { Some(key) }) { ctx.fail("C05", "keyed-untruthful", format!("keyed shard dedup answer not truthful: {e}"), replay.clone()); } }
            ctx.stat(&format!("export_f{}c{}k{}", f as u8, c as u8, k as u8));
            ctx.case(fnv(&out), !ca.is_empty());
        }
        // ---- expiry: patch the footer expiry of a copy (content hash and name change accordingly), load and clean
        let now = mdb_shard::shard_file::current_timestamp();
        for (i, delta) in [-100_000i64, -5, 5, 100_000, i64::MIN, i64::MAX].iter().enumerate() {
            let exp: u64 = match *delta { i64::MIN => 0, i64::MAX => u64::MAX, d => (now as i64 + d) as u64 };
            let mut b = bytes.clone(); let l = b.len();
            // shard_key_expiry is the 12th u64-sized slot: offset 9*8 + 32 + 8 from the footer start
            let fo = l - 200; b[fo + 112..fo + 120].copy_from_slice(&exp.to_le_bytes());
            let dir = tmp_root.join(format!("exp-{sno}-{i}")); std::fs::create_dir_all(&dir).unwrap();
            let name = format!("{}.mdb", compute_data_hash(&b).hex()); std::fs::write(dir.join(&name), &b).unwrap();
            let loaded = MDBShardFile::load_all_valid(&dir).map(|v| v.len()).unwrap_or(99);
            // the same through a live shard manager that is handed the shard by FILE path and by DIRECTORY path (how downloaded
            // global-dedup shards and cache directories reach it): past its expiry the shard must not answer
            if (exp as i128 - now as i128).abs() > 30 {
                let probe = ca.values().find(|c| !c.chunks.is_empty()).map(|c| c.chunks[0].chunk_hash);
                let fprobe = fa.keys().next().copied();
                for by_file in [true, false] {
                    let mdir = tmp_root.join(format!("expm-{sno}-{i}-{}", by_file as u8)); std::fs::create_dir_all(&mdir).unwrap();
                    let shard_path = mdir.join(&name);
                    let res = rt.block_on(async {
                        let m = mdb_shard::ShardFileManager::new_in_session_directory(&mdir).await?;
                        std::fs::write(&shard_path, &b)?;
                        if by_file { m.register_shards_by_path(&[&shard_path]).await?; } else { m.register_shards_by_path(&[&mdir]).await?; }
                        let a = match probe { Some(h) => m.chunk_hash_dedup_query(&[h]).await?.is_some(), None => false };
                        let f = match fprobe { Some(h) => mdb_shard::shard_file_reconstructor::FileReconstructor::get_file_reconstruction_info(&*m, &h).await?.is_some(), None => false };
                        Ok::<_, mdb_shard::error::MDBShardError>((a, f))
                    });
                    match res {
                        Ok((a, f)) => {
                            let expired = exp < now;
                            if expired && (a || f) { ctx.fail("C18", "expired-shard-answers-through-manager", format!("a shard whose expiry {exp} lies {} s in the past was handed to a live ShardFileManager by {} path and answers {} queries", now - exp, if by_file { "file" } else { "directory" }, if a && f { "chunk and file" } else if a { "chunk" } else { "file" }), replay.clone()); }
                            if !expired && probe.is_some() && !a { ctx.stat("valid_shard_chunk_probe_unanswered_(prefix_collisions)"); }
                            if !expired && fprobe.is_some() && !f { ctx.stat("valid_shard_file_probe_unanswered_(prefix_collisions)"); }
                            // (with engineered prefix collisions — d != 0 — a lookup may legitimately miss: more than 8 candidates / one index entry
                            // per prefix; only shards of random hashes must answer)
                            // (chunk hashes get engineered prefix collisions and duplicates at every d, so only the file probe of a d = 0 shard is a must)
                            if !expired && d == 0 && fprobe.is_some() && !f { ctx.fail("C18", "valid-shard-silent-through-manager", format!("a shard valid for another {} s registered in a ShardFileManager by {} path does not answer (chunk query answered: {a}, file query answered: {f})", exp - now, if by_file { "file" } else { "directory" }), replay.clone()); }
                            ctx.stat(if expired { "manager_registrations_of_expired_shards" } else { "manager_registrations_of_valid_shards" });
                        }
                        // (a shard with more than eight file hashes sharing a prefix makes the file lookup fail with "too many collisions": legitimate)
                        Err(_) if d != 0 => ctx.stat("manager_lookup_error_on_engineered_collisions"),
                        Err(e) => ctx.fail("C18", "manager-registration-error", format!("registering a shard (expiry {exp}, now {now}) by {} path failed: {e}", if by_file { "file" } else { "directory" }), replay.clone()),
                    }
                    let _ = std::fs::remove_dir_all(&mdir);
                }
            }
            let buf: u64 = *rng.pick(&[0u64, 10, 1000, u64::MAX]);
            MDBShardFile::clean_expired_shards(&dir, buf).unwrap();
            let deleted = !dir.join(&name).exists();
            // `now` advanced by at most a few seconds between our reading and the calls: avoid the boundary
            if (exp as i128 - now as i128).abs() > 3 && (exp.saturating_add(buf) as i128 - now as i128).abs() > 3 {
                ctx.op(&format!("shardop.expiry now={now} buf={buf} exp={exp}"), &format!("loaded={} deleted={}", loaded == 1, deleted));
                if deleted && loaded == 1 { ctx.fail("C18", "deleted-while-valid", "a shard that is still loaded was deleted".into(), replay.clone()); }
                if deleted && exp.saturating_add(buf) > now + 5 { ctx.fail("C18", "deleted-before-grace", "a shard was deleted before expiry + grace period".into(), replay.clone()); }
                if loaded == 1 && exp.saturating_add(5) < now { ctx.fail("C18", "expired-loaded", "an expired shard was loaded".into(), replay.clone()); }
            }
            let _ = std::fs::remove_dir_all(&dir);
        }
    }
    // ---- a LIVE manager whose registered shard passes its expiry and is deleted after the grace period: lookups through the
    // same manager keep answering from the shards that are left (and never fail)
    for round in 0..(if ctx.quick() { 1 } else { 4 }) {
        let mut rng = ctx.rng.fork(61_000 + round);
        let dir = tmp_root.join(format!("live-{round}")); std::fs::create_dir_all(&dir).unwrap();
        let ga = gen_content(&mut rng, 4, 3, 0, false); let gb = gen_content(&mut rng, 4, 3, 0, false);
        let (_, ba, _) = build(&ga); let (_, bb, _) = build(&gb);
        let now = mdb_shard::shard_file::current_timestamp();
        let patch = |b: &Vec<u8>, exp: u64| { let mut b = b.clone(); let fo = b.len() - 200; b[fo + 112..fo + 120].copy_from_slice(&exp.to_le_bytes()); b };
        let (pa, pb) = (patch(&ba, now + 2), patch(&bb, u64::MAX));
        let (na, nb) = (format!("{}.mdb", compute_data_hash(&pa).hex()), format!("{}.mdb", compute_data_hash(&pb).hex()));
        std::fs::write(dir.join(&na), &pa).unwrap(); std::fs::write(dir.join(&nb), &pb).unwrap();
        let replay = format!("{{\"suite\":\"keyed\",\"seed\":{},\"live_manager_round\":{round},\"history\":\"register A (expires in 2 s) and B (never expires) in one manager; wait 3 s; clean_expired_shards(dir, 0); query the same manager\"}}", ctx.seed);
        let chunk_probes: Vec<MerkleHash> = ga.cas.iter().chain(gb.cas.iter()).filter(|c| !c.chunks.is_empty()).map(|c| c.chunks[0].chunk_hash).chain([rand_hash(&mut rng)]).collect();
        let file_probes: Vec<MerkleHash> = ga.files.iter().chain(gb.files.iter()).map(|f| f.metadata.file_hash).chain([rand_hash(&mut rng)]).collect();
        let b_chunks: BTreeSet<MerkleHash> = gb.cas.iter().flat_map(|c| c.chunks.iter().map(|x| x.chunk_hash)).collect();
        let a_chunks: BTreeSet<MerkleHash> = ga.cas.iter().flat_map(|c| c.chunks.iter().map(|x| x.chunk_hash)).collect();
        let b_files: BTreeSet<MerkleHash> = gb.files.iter().map(|f| f.metadata.file_hash).collect();
        let out = rt.block_on(async {
            let m = mdb_shard::ShardFileManager::new_in_session_directory(&dir).await?;
            m.register_shards_by_path(&[&dir]).await?;
            let mut before = Vec::new();
            for h in &chunk_probes { before.push(m.chunk_hash_dedup_query(&[*h]).await.map(|a| a.is_some()).map_err(|e| e.to_string())); }
            for h in &file_probes { before.push(mdb_shard::shard_file_reconstructor::FileReconstructor::get_file_reconstruction_info(&*m, h).await.map(|a| a.is_some()).map_err(|e| e.to_string())); }
            std::thread::sleep(Duration::from_millis(3300));
            MDBShardFile::clean_expired_shards(&dir, 0)?;
            let deleted = !dir.join(&na).exists() && dir.join(&nb).exists();
            let mut after = Vec::new();
            for h in &chunk_probes { after.push(m.chunk_hash_dedup_query(&[*h]).await.map(|a| a.is_some()).map_err(|e| e.to_string())); }
            for h in &file_probes { after.push(mdb_shard::shard_file_reconstructor::FileReconstructor::get_file_reconstruction_info(&*m, h).await.map(|a| a.is_some()).map_err(|e| e.to_string())); }
            Ok::<_, mdb_shard::error::MDBShardError>((before, after, deleted))
        });
        match out {
            Err(e) => ctx.fail("C18", "manager-registration-error", format!("live-manager history failed outside the lookups: {e}"), replay.clone()),
            Ok((_, _, false)) => ctx.stat("live_manager_round_expired_shard_not_deleted"),
            Ok((before, after, true)) => {
                ctx.stat("live_manager_rounds_with_deleted_expired_shard");
                let all: Vec<(String, MerkleHash)> = chunk_probes.iter().map(|h| ("chunk".to_string(), *h)).chain(file_probes.iter().map(|h| ("file".to_string(), *h))).collect();
                for ((kind, h), (b, a)) in all.iter().zip(before.iter().zip(after.iter())) {
                    match a {
                        Err(e) => { ctx.fail("C18", "lookup-fails-after-expired-shard-deleted", format!("{kind} lookup of {} through a live manager fails after a registered shard passed its expiry and was deleted by clean_expired_shards: {e} (before the deletion the lookup gave {b:?})", h.hex()), replay.clone()); break; }
                        Ok(ans) => {
                            let in_b_only = if kind == "chunk" { b_chunks.contains(h) && !a_chunks.contains(h) } else { b_files.contains(h) };
                            if in_b_only && *b == Ok(true) && !*ans { ctx.fail("C18", "answer-lost-after-expired-shard-deleted", format!("{kind} {} is stored in the shard that is still valid and was answered before; after the OTHER, expired shard was deleted the same manager no longer answers it", h.hex()), replay.clone()); break; }
                        }
                    }
                }
            }
        }
        let _ = std::fs::remove_dir_all(&dir);
    }
    let _ = std::fs::remove_dir_all(&tmp_root);
}
