//! Suite `singleflight` (C20): drives the REAL `utils::singleflight::Group` on a current-thread runtime, a
//! multi-thread runtime and on several current-thread runtimes sharing one `Group`, with seeded scenarios
//! (callers, keys, arrival delays / waves, task outcomes ok/err/panic, task durations).
//!
//! `#[cfg(xet_verif)] verif_hooks::point("sf.…")` hooks inside the lock regions of `singleflight.rs` log the
//! atomic actions in their real order (`L` lookup-or-create, `G` get_future read/registered, `C`/`P` complete
//! from poll / from the panic Drop handler, `W` woken, `R` remove_call); the supplied task logs `T`, the
//! caller logs `X` (return).  Hooks at the narrow windows (`sf.window.lookup_register`,
//! `sf.window.complete_remove`, `sf.window.remove_return`) park the calling worker thread under a seeded
//! policy (sleep / wait for N further log events with timeout / thread-yield) on the multi-threaded modes.
//!
//! Per scenario two ops are emitted: `sf.trace keys=… ev=…` (expected `accepts`: the observed log is a trace
//! of the Lean model, including the observed created/found, read/registered and returned values) and
//! `sf.monitors …` (the model's monitors on the end state, compared with the harness's own reconstruction).
//! Monitors evaluated directly on the implementation (flights reconstructed from the log, independent of the
//! Lean model): exactly one task run per flight and it is the owner's; every caller's returned outcome equals
//! its flight's task outcome; `is_owner` flag = created; a found call is never one whose owner already ran
//! `remove_call`; a created call implies the previous flight of the key was removed; every caller returns
//! within the deadline (a hang is reported with the schedule as replay).
use std::cell::Cell;
use std::collections::{BTreeMap, HashMap};
use std::sync::atomic::{AtomicU32, AtomicU64, Ordering};
use std::sync::{Arc, Condvar, Mutex};
use std::time::{Duration, Instant};

use futures::future::join_all;
use utils::errors::SingleflightError;
use utils::singleflight::Group;

use crate::ctx::{fnv, json_str, Ctx};
use crate::rng::Rng;

// ---------------------------------------------------------------------------------------------------------
// events

#[derive(Clone, Copy, Debug, PartialEq, Eq)]
enum Out { Ok(u64), Err(u64), Panic }

#[derive(Clone, Debug, PartialEq, Eq)]
enum RetV { Out(Out), NoResult, CallMissing, Other(String) }

#[derive(Clone, Debug, PartialEq, Eq)]
enum Ev {
    L(usize, bool), // caller, created
    G(usize, bool), // caller, read (true) / registered (false)
    T(usize, Out),  // supplying caller, outcome
    C(usize),       // owner caller: complete from poll
    P(usize),       // owner caller: complete from PinnedDrop (panic)
    W(usize),
    R(usize),
    X(usize, RetV),
}

fn fmt_out(o: &Out) -> String {
    match o { Out::Ok(v) => format!("o{v}"), Out::Err(e) => format!("e{e}"), Out::Panic => "p".into() }
}
fn fmt_ret(r: &RetV) -> String {
    match r {
        RetV::Out(o) => fmt_out(o),
        RetV::NoResult => "nr".into(),
        RetV::CallMissing => "cm".into(),
        RetV::Other(_) => "other".into(),
    }
}
fn fmt_ev(e: &Ev) -> String {
    match e {
        Ev::L(c, created) => format!("L{c}:{}", if *created { "c" } else { "f" }),
        Ev::G(c, read) => format!("G{c}:{}", if *read { "r" } else { "w" }),
        Ev::T(c, o) => format!("T{c}:{}", fmt_out(o)),
        Ev::C(c) => format!("C{c}"),
        Ev::P(c) => format!("P{c}"),
        Ev::W(c) => format!("W{c}"),
        Ev::R(c) => format!("R{c}"),
        Ev::X(c, r) => format!("X{c}:{}", fmt_ret(r)),
    }
}

// ---------------------------------------------------------------------------------------------------------
// process-global scenario state (the hook callback is process-global)

#[derive(Clone, Copy, Debug, PartialEq, Eq)]
enum Park { None, SleepUs(u64), Progress { n: usize, timeout_us: u64 }, Yield(u32) }

#[derive(Default)]
struct Shared {
    epoch: u64,
    events: Vec<Ev>,
    returned: usize,
    parks: HashMap<(usize, u8), Park>, // (caller, window) -> policy; empty on the current-thread mode
    parks_taken: u64,
}

static SH: Mutex<Option<Shared>> = Mutex::new(None);
static CV: Condvar = Condvar::new();
static EPOCH: AtomicU64 = AtomicU64::new(0);
// observation only (doc comment of `work` vs behaviour): which error variant the OWNER receives when its task fails
static OWNER_ERR_INTERNAL: AtomicU64 = AtomicU64::new(0);
static OWNER_ERR_WAITER: AtomicU64 = AtomicU64::new(0);

tokio::task_local! { static CALLER: (u64, usize); }
thread_local! {
    static CUR_OWNER: Cell<Option<(u64, usize)>> = const { Cell::new(None) };
    static PANICKING: Cell<bool> = const { Cell::new(false) };
}

fn log_ev(epoch: u64, ev: Ev) {
    let mut g = SH.lock().unwrap();
    if let Some(sh) = g.as_mut() {
        if sh.epoch == epoch {
            if let Ev::X(..) = ev { sh.returned += 1; }
            sh.events.push(ev);
        }
    }
    drop(g);
    CV.notify_all();
}

fn events_len(epoch: u64) -> usize {
    let g = SH.lock().unwrap();
    match g.as_ref() { Some(sh) if sh.epoch == epoch => sh.events.len(), _ => usize::MAX }
}
fn returned_count(epoch: u64) -> usize {
    let g = SH.lock().unwrap();
    match g.as_ref() { Some(sh) if sh.epoch == epoch => sh.returned, _ => usize::MAX }
}

fn park(epoch: u64, caller: usize, window: u8) {
    let pol = {
        let mut g = SH.lock().unwrap();
        match g.as_mut() {
            Some(sh) if sh.epoch == epoch => {
                let p = sh.parks.get(&(caller, window)).copied().unwrap_or(Park::None);
                if p != Park::None { sh.parks_taken += 1; }
                p
            },
            _ => Park::None,
        }
    };
    match pol {
        Park::None => {},
        Park::SleepUs(us) => std::thread::sleep(Duration::from_micros(us)),
        Park::Yield(k) => { for _ in 0..k { std::thread::yield_now(); } },
        Park::Progress { n, timeout_us } => {
            let g = SH.lock().unwrap();
            let target = match g.as_ref() { Some(sh) if sh.epoch == epoch => sh.events.len() + n, _ => 0 };
            let _ = CV.wait_timeout_while(g, Duration::from_micros(timeout_us), |g| match g.as_ref() {
                Some(sh) if sh.epoch == epoch => sh.events.len() < target,
                _ => false,
            });
        },
    }
}

fn hook_callback(name: &'static str) {
    let epoch = EPOCH.load(Ordering::SeqCst);
    let caller = CALLER.try_with(|c| *c).ok().filter(|(e, _)| *e == epoch).map(|(_, c)| c);
    match name {
        "sf.lookup.found" => { if let Some(c) = caller { log_ev(epoch, Ev::L(c, false)) } },
        "sf.lookup.created" => { if let Some(c) = caller { log_ev(epoch, Ev::L(c, true)) } },
        "sf.get_future.read" => { if let Some(c) = caller { log_ev(epoch, Ev::G(c, true)) } },
        "sf.get_future.registered" => { if let Some(c) = caller { log_ev(epoch, Ev::G(c, false)) } },
        "sf.wake.notified" => { if let Some(c) = caller { log_ev(epoch, Ev::W(c)) } },
        "sf.remove.done" => { if let Some(c) = caller { log_ev(epoch, Ev::R(c)) } },
        "sf.drop.panicked" => PANICKING.with(|p| p.set(true)),
        "sf.complete.stored" => {
            let panicking = PANICKING.with(|p| p.replace(false));
            if let Some((e, o)) = CUR_OWNER.with(|x| x.get()) {
                if e == epoch { log_ev(epoch, if panicking { Ev::P(o) } else { Ev::C(o) }) }
            }
        },
        "sf.window.lookup_register" => { if let Some(c) = caller { park(epoch, c, 0) } },
        "sf.window.complete_remove" => { if let Some(c) = caller { park(epoch, c, 1) } },
        "sf.window.remove_return" => { if let Some(c) = caller { park(epoch, c, 2) } },
        "sf.window.before_register" => { if let Some(c) = caller { park(epoch, c, 3) } },
        _ => {},
    }
}

// ---------------------------------------------------------------------------------------------------------
// scenarios

#[derive(Clone, Copy, Debug, PartialEq, Eq)]
enum Mode { Ct, Mt, MultiCt }
impl Mode { fn name(self) -> &'static str { match self { Mode::Ct => "ct", Mode::Mt => "mt", Mode::MultiCt => "multict" } } }

#[derive(Clone, Copy, Debug)]
enum Delay { None, Yields(u32), SleepUs(u64), UntilEvents(usize, u32) }

#[derive(Clone, Copy, Debug)]
struct CallerSpec {
    key: usize,
    outcome: u8, // 0 ok, 1 err, 2 panic
    pre: Delay,
    task: Delay,
    wave: usize,   // start only after this many callers have returned
    thread: usize, // MultiCt: which runtime thread
}

struct Scenario { mode: Mode, callers: Vec<CallerSpec>, parks: HashMap<(usize, u8), Park>, threads: usize }

fn fmt_delay(d: &Delay) -> String {
    match d {
        Delay::None => "0".into(),
        Delay::Yields(k) => format!("y{k}"),
        Delay::SleepUs(u) => format!("s{u}"),
        Delay::UntilEvents(n, m) => format!("u{n}/{m}"),
    }
}
fn fmt_park(p: &Park) -> String {
    match p {
        Park::None => "0".into(),
        Park::SleepUs(u) => format!("s{u}"),
        Park::Progress { n, timeout_us } => format!("p{n}/{timeout_us}"),
        Park::Yield(k) => format!("y{k}"),
    }
}

fn scenario_json(sc: &Scenario, trace: &str, tag: u64) -> String {
    let callers = sc.callers.iter().enumerate().map(|(i, c)| {
        format!("{{\"c\":{i},\"key\":{},\"outcome\":{},\"pre\":{},\"task\":{},\"wave\":{},\"thread\":{}}}",
            c.key, c.outcome, json_str(&fmt_delay(&c.pre)), json_str(&fmt_delay(&c.task)), c.wave, c.thread)
    }).collect::<Vec<_>>().join(",");
    let mut parks: Vec<_> = sc.parks.iter().collect();
    parks.sort_by_key(|(k, _)| **k);
    let parks = parks.iter().map(|((c, w), p)| format!("{{\"c\":{c},\"window\":{w},\"park\":{}}}", json_str(&fmt_park(p))))
        .collect::<Vec<_>>().join(",");
    format!("{{\"suite\":\"singleflight\",\"scenario\":{tag},\"mode\":{},\"threads\":{},\"callers\":[{callers}],\"parks\":[{parks}],\"trace\":{}}}",
        json_str(sc.mode.name()), sc.threads, json_str(trace))
}

fn gen_delay(rng: &mut Rng, n_callers: usize, allow_sleep: bool) -> Delay {
    match rng.below(8) {
        0 | 1 => Delay::None,
        2 | 3 | 4 => Delay::Yields(rng.range(1, 8) as u32),
        5 => if allow_sleep { Delay::SleepUs(rng.range(20, 300)) } else { Delay::Yields(rng.range(1, 20) as u32) },
        _ => Delay::UntilEvents(rng.range(1, (2 * n_callers) as u64) as usize, rng.range(5, 200) as u32),
    }
}

fn gen_scenario(rng: &mut Rng, mode: Mode, max_callers: u64) -> Scenario {
    let n = rng.range(1, max_callers) as usize;
    let nkeys = match rng.below(4) { 0 => 1, 1 => 2, _ => rng.range(1, 3.min(n as u64)) as usize };
    let threads = if mode == Mode::MultiCt { rng.range(2, 4) as usize } else { 1 };
    // outcome profile: mostly ok / mixed / all panic on one key
    let profile = rng.below(4);
    let waves = rng.chance(1, 3);
    let mut callers = Vec::new();
    for _ in 0..n {
        let outcome = match profile { 0 => 0, 1 => rng.below(3) as u8, 2 => if rng.chance(1, 2) { 2 } else { 0 }, _ => if rng.chance(1, 2) { 1 } else { 0 } };
        let wave = if waves && n >= 2 && rng.chance(1, 3) { rng.range(1, n as u64 - 1) as usize } else { 0 };
        callers.push(CallerSpec {
            key: rng.below(nkeys as u64) as usize,
            outcome,
            pre: gen_delay(rng, n, true),
            task: gen_delay(rng, n, true),
            wave,
            thread: rng.below(threads as u64) as usize,
        });
    }
    // a wave threshold must be reachable: callers with wave 0 must exist and thresholds must not exceed their number
    let base = callers.iter().filter(|c| c.wave == 0).count();
    for c in callers.iter_mut() { if c.wave > base { c.wave = base; } }
    if base == 0 { callers[0].wave = 0; for c in callers.iter_mut().skip(1) { c.wave = c.wave.min(1); } }
    let mut parks = HashMap::new();
    if mode != Mode::Ct {
        for c in 0..n {
            for w in 0..4u8 {
                let p = match rng.below(8) {
                    0 | 1 | 2 | 3 => Park::None,
                    4 => Park::SleepUs(rng.range(20, 400)),
                    5 | 6 => Park::Progress { n: rng.range(1, 4) as usize, timeout_us: rng.range(200, 1500) },
                    _ => Park::Yield(rng.range(1, 20) as u32),
                };
                if p != Park::None { parks.insert((c, w), p); }
            }
        }
    }
    Scenario { mode, callers, parks, threads }
}

async fn do_delay(d: Delay, epoch: u64) {
    match d {
        Delay::None => {},
        Delay::Yields(k) => { for _ in 0..k { tokio::task::yield_now().await; } },
        Delay::SleepUs(us) => tokio::time::sleep(Duration::from_micros(us)).await,
        Delay::UntilEvents(n, max) => {
            for _ in 0..max {
                if events_len(epoch) >= n { break; }
                tokio::task::yield_now().await;
            }
        },
    }
}

fn canon(r: Result<u64, SingleflightError<u64>>) -> RetV {
    match r {
        Ok(v) => RetV::Out(Out::Ok(v)),
        Err(SingleflightError::InternalError(e)) => RetV::Out(Out::Err(e)),
        Err(SingleflightError::WaiterInternalError(s)) => match s.parse::<u64>() {
            Ok(e) => RetV::Out(Out::Err(e)),
            Err(_) => RetV::Other(format!("WaiterInternalError({s})")),
        },
        Err(SingleflightError::JoinError(_)) | Err(SingleflightError::OwnerPanicked) => RetV::Out(Out::Panic),
        Err(SingleflightError::NoResult) => RetV::NoResult,
        Err(SingleflightError::CallMissing) => RetV::CallMissing,
        Err(e) => RetV::Other(format!("{e:?}")),
    }
}

async fn caller_body(group: Arc<Group<u64, u64>>, spec: CallerSpec, c: usize, epoch: u64, value_base: u64,
                     executed: Arc<Vec<AtomicU32>>) -> (RetV, bool) {
    if spec.wave > 0 {
        // bounded wait for `wave` earlier callers to have returned (sequential calls: the new-flight case)
        let start = Instant::now();
        while returned_count(epoch) < spec.wave && start.elapsed() < Duration::from_millis(500) {
            tokio::task::yield_now().await;
        }
    }
    do_delay(spec.pre, epoch).await;
    let key = format!("k{}", spec.key);
    let task = {
        let executed = executed.clone();
        async move {
            do_delay(spec.task, epoch).await;
            executed[c].fetch_add(1, Ordering::SeqCst);
            let v = value_base + c as u64;
            let out = match spec.outcome { 0 => Out::Ok(v), 1 => Out::Err(v), _ => Out::Panic };
            log_ev(epoch, Ev::T(c, out));
            CUR_OWNER.with(|x| x.set(Some((epoch, c))));
            match out {
                Out::Ok(v) => Ok(v),
                Out::Err(e) => Err(e),
                Out::Panic => panic!("sf-verif task panic"),
            }
        }
    };
    let (res, is_owner) = group.work(&key, task).await;
    if is_owner {
        match &res {
            Err(SingleflightError::InternalError(_)) => { OWNER_ERR_INTERNAL.fetch_add(1, Ordering::Relaxed); },
            Err(SingleflightError::WaiterInternalError(_)) => { OWNER_ERR_WAITER.fetch_add(1, Ordering::Relaxed); },
            _ => {},
        }
    }
    let ret = canon(res);
    log_ev(epoch, Ev::X(c, ret.clone()));
    (ret, is_owner)
}

struct RunResult { events: Vec<Ev>, results: Vec<Option<(RetV, bool)>>, executed: Vec<u32>, hung: bool, caller_panicked: bool, parks_taken: u64 }

struct Runtimes { ct: tokio::runtime::Runtime, mt: tokio::runtime::Runtime }

fn new_ct() -> tokio::runtime::Runtime { tokio::runtime::Builder::new_current_thread().enable_all().build().unwrap() }
fn new_mt() -> tokio::runtime::Runtime { tokio::runtime::Builder::new_multi_thread().worker_threads(4).enable_all().build().unwrap() }

const DEADLINE: Duration = Duration::from_secs(3);

async fn run_callers(group: Arc<Group<u64, u64>>, specs: Vec<(usize, CallerSpec)>, epoch: u64, value_base: u64,
                     executed: Arc<Vec<AtomicU32>>) -> (Vec<(usize, Option<(RetV, bool)>)>, bool, bool) {
    let mut handles = Vec::new();
    for (c, spec) in specs.iter() {
        let fut = CALLER.scope((epoch, *c), caller_body(group.clone(), *spec, *c, epoch, value_base, executed.clone()));
        handles.push(tokio::spawn(fut));
    }
    let aborts: Vec<_> = handles.iter().map(|h| h.abort_handle()).collect();
    // a caller counts as stuck only when a whole DEADLINE passes without any new event being logged (a loaded machine is
    // slow, not stuck); at most 10 such extensions
    let mut all = Box::pin(join_all(handles));
    let mut waited = None;
    let mut seen_events = usize::MAX;
    for _ in 0..10 {
        match tokio::time::timeout(DEADLINE, &mut all).await {
            Ok(rs) => { waited = Some(rs); break; }
            Err(_) => {
                let now = SH.lock().unwrap().as_ref().map(|s| s.events.len()).unwrap_or(0);
                if now == seen_events { break; }
                seen_events = now;
            }
        }
    }
    match waited.ok_or(()) {
        Ok(rs) => {
            let mut panicked = false;
            let out = specs.iter().zip(rs).map(|((c, _), r)| match r {
                Ok(v) => (*c, Some(v)),
                Err(_) => { panicked = true; (*c, None) },
            }).collect();
            (out, false, panicked)
        },
        Err(_) => {
            for a in aborts { a.abort(); }
            (specs.iter().map(|(c, _)| (*c, None)).collect(), true, false)
        },
    }
}

fn run_scenario(rts: &mut Runtimes, sc: &Scenario, value_base: u64) -> RunResult {
    let epoch = EPOCH.fetch_add(1, Ordering::SeqCst) + 1;
    {
        let mut g = SH.lock().unwrap();
        *g = Some(Shared { epoch, events: Vec::new(), returned: 0, parks: sc.parks.clone(), parks_taken: 0 });
    }
    let n = sc.callers.len();
    let group: Arc<Group<u64, u64>> = Arc::new(Group::new());
    let executed: Arc<Vec<AtomicU32>> = Arc::new((0..n).map(|_| AtomicU32::new(0)).collect());
    let all: Vec<(usize, CallerSpec)> = sc.callers.iter().copied().enumerate().collect();
    let mut results: Vec<Option<(RetV, bool)>> = vec![None; n];
    let mut hung = false;
    let mut caller_panicked = false;
    match sc.mode {
        Mode::Ct | Mode::Mt => {
            let rt = if sc.mode == Mode::Ct { &rts.ct } else { &rts.mt };
            let (rs, h, p) = rt.block_on(run_callers(group.clone(), all, epoch, value_base, executed.clone()));
            for (c, r) in rs { results[c] = r; }
            hung = h; caller_panicked = p;
        },
        Mode::MultiCt => {
            let mut joins = Vec::new();
            for t in 0..sc.threads {
                let mine: Vec<(usize, CallerSpec)> = all.iter().filter(|(_, s)| s.thread == t).cloned().collect();
                if mine.is_empty() { continue; }
                let group = group.clone();
                let executed = executed.clone();
                joins.push(std::thread::spawn(move || {
                    let rt = new_ct();
                    let r = rt.block_on(run_callers(group, mine, epoch, value_base, executed));
                    rt.shutdown_timeout(Duration::from_millis(50));
                    r
                }));
            }
            for j in joins {
                match j.join() {
                    Ok((rs, h, p)) => { for (c, r) in rs { results[c] = r; } hung |= h; caller_panicked |= p; },
                    Err(_) => { caller_panicked = true; },
                }
            }
        },
    }
    // close the epoch: late events of stragglers are dropped
    EPOCH.fetch_add(1, Ordering::SeqCst);
    let sh = SH.lock().unwrap().take().unwrap();
    if hung {
        // do not reuse a runtime that may still hold stuck tasks
        let old = std::mem::replace(&mut rts.ct, new_ct()); old.shutdown_timeout(Duration::from_millis(100));
        let old = std::mem::replace(&mut rts.mt, new_mt()); old.shutdown_timeout(Duration::from_millis(100));
    }
    RunResult { events: sh.events, results, executed: executed.iter().map(|a| a.load(Ordering::SeqCst)).collect(), hung, caller_panicked, parks_taken: sh.parks_taken }
}

// ---------------------------------------------------------------------------------------------------------
// flight reconstruction and monitors (independent of the Lean model)

#[derive(Default, Debug)]
struct Flight { owner: usize, key: usize, members: Vec<usize>, task: Option<(usize, Out)>, task_runs: usize, completed: bool, removed: bool, owner_returned: bool }

struct Analysis {
    flights: Vec<Flight>,
    flight_of: Vec<Option<usize>>,
    violations: Vec<(String, String)>, // (class key, description)
    returned: usize,
    blocked: usize,
    mismatch: usize,
    stats: Vec<&'static str>,
}

fn analyse(sc: &Scenario, rr: &RunResult) -> Analysis {
    let n = sc.callers.len();
    let mut flights: Vec<Flight> = Vec::new();
    let mut cur: BTreeMap<usize, usize> = BTreeMap::new(); // key -> latest created flight
    let mut flight_of: Vec<Option<usize>> = vec![None; n];
    let mut v: Vec<(String, String)> = Vec::new();
    let mut stats: Vec<&'static str> = Vec::new();
    let mut registered = vec![false; n];
    let mut woken = vec![false; n];
    let mut ret: Vec<Option<RetV>> = vec![None; n];
    for (i, e) in rr.events.iter().enumerate() {
        match e {
            Ev::L(c, true) => {
                let key = sc.callers[*c].key;
                if let Some(&f) = cur.get(&key) {
                    if !flights[f].removed {
                        v.push(("created-while-live".into(), format!("event {i}: caller {c} created a call for key {key} while flight {f} was not removed")));
                    } else { stats.push("ev.new_flight_after_remove"); }
                }
                flights.push(Flight { owner: *c, key, members: vec![*c], ..Default::default() });
                cur.insert(key, flights.len() - 1);
                flight_of[*c] = Some(flights.len() - 1);
            },
            Ev::L(c, false) => {
                let key = sc.callers[*c].key;
                match cur.get(&key) {
                    Some(&f) => {
                        if flights[f].removed {
                            v.push(("joined-removed-flight".into(), format!("event {i}: caller {c} found the call of flight {f} after its owner's remove_call")));
                        }
                        // "a call made after the owning call of a finished flight has returned starts a new flight"
                        if flights[f].owner_returned {
                            v.push(("joined-flight-after-owner-returned".into(), format!("event {i}: caller {c} (key {key}) joined flight {f} although its owning call had already returned")));
                        }
                        if flights[f].completed { stats.push("ev.found_after_complete"); }
                        flights[f].members.push(*c);
                        flight_of[*c] = Some(f);
                    },
                    None => v.push(("found-without-create".into(), format!("event {i}: caller {c} found a call for key {key} that nobody created"))),
                }
            },
            Ev::G(c, read) => {
                if *read { stats.push("ev.read_stored_result"); } else {
                    registered[*c] = true;
                    if let Some(f) = flight_of[*c] {
                        if flights[f].owner != *c {
                            stats.push("ev.waiter_registered");
                            if !rr.events[..i].iter().any(|x| *x == Ev::G(flights[f].owner, false)) { stats.push("ev.waiter_registered_before_owner"); }
                        }
                    }
                }
            },
            Ev::T(c, o) => {
                match flight_of[*c] {
                    Some(f) => {
                        flights[f].task_runs += 1;
                        if flights[f].owner != *c {
                            v.push(("non-owner-task-ran".into(), format!("event {i}: the task supplied by caller {c} ran although flight {f} is owned by {}", flights[f].owner)));
                        }
                        if flights[f].task.is_none() { flights[f].task = Some((*c, *o)); }
                    },
                    None => v.push(("task-without-flight".into(), format!("event {i}: task of caller {c} ran before its lookup"))),
                }
            },
            Ev::C(c) | Ev::P(c) => {
                if let Some(f) = flight_of[*c] {
                    if flights[f].completed { v.push(("completed-twice".into(), format!("event {i}: flight {f} completed twice"))); }
                    flights[f].completed = true;
                    if matches!(e, Ev::P(_)) { stats.push("ev.panic_complete"); }
                }
            },
            Ev::W(c) => { woken[*c] = true; },
            Ev::R(c) => {
                if let Some(f) = flight_of[*c] {
                    if flights[f].owner != *c { v.push(("non-owner-removed".into(), format!("event {i}: caller {c} removed flight {f}"))); }
                    if !flights[f].completed { v.push(("removed-before-complete".into(), format!("event {i}: flight {f} removed before completion"))); }
                    flights[f].removed = true;
                }
            },
            Ev::X(c, r) => {
                ret[*c] = Some(r.clone());
                if let Some(f) = flight_of[*c] { if flights[f].owner == *c { flights[f].owner_returned = true; } }
            },
        }
    }
    // one task run per flight
    for (f, fl) in flights.iter().enumerate() {
        let exec: u32 = fl.members.iter().map(|m| rr.executed[*m]).sum();
        let all_returned = fl.members.iter().all(|m| ret[*m].is_some());
        if fl.task_runs > 1 || exec > 1 {
            v.push(("task-ran-more-than-once".into(), format!("flight {f} (key {}): {} task runs logged, {} supplied futures executed", fl.key, fl.task_runs, exec)));
        }
        if all_returned && !rr.hung && (fl.task_runs != 1 || exec != 1) {
            v.push(("task-runs-not-one".into(), format!("flight {f} (key {}): all {} callers returned but {} task runs logged / {} executed", fl.key, fl.members.len(), fl.task_runs, exec)));
        }
        if fl.members.len() >= 2 { stats.push("flight.shared"); } else { stats.push("flight.single"); }
        match fl.task { Some((_, Out::Ok(_))) => stats.push("flight.ok"), Some((_, Out::Err(_))) => stats.push("flight.err"), Some((_, Out::Panic)) => stats.push("flight.panic"), None => {} }
    }
    // outcomes
    let mut mismatch = 0;
    for c in 0..n {
        if let Some(r) = &ret[c] {
            let want = flight_of[c].and_then(|f| flights[f].task).map(|(_, o)| RetV::Out(o));
            if want.as_ref() != Some(r) {
                mismatch += 1;
                v.push(("outcome-differs-from-flight".into(), format!("caller {c} returned {} but its flight's task outcome is {}", fmt_ret(r),
                    want.map(|w| fmt_ret(&w)).unwrap_or("none".into()))));
            }
            if let RetV::Other(s) = r { v.push(("unexpected-error-kind".into(), format!("caller {c} returned {s}"))); }
        }
        if let Some((r, is_owner)) = &rr.results[c] {
            if ret[c].as_ref() != Some(r) { v.push(("return-log-mismatch".into(), format!("caller {c}: logged return differs from joined result"))); }
            let created = flight_of[c].map(|f| flights[f].owner == c).unwrap_or(false);
            if *is_owner != created { v.push(("is-owner-flag-wrong".into(), format!("caller {c}: is_owner={is_owner} but created={created}"))); }
        }
    }
    let returned = ret.iter().filter(|r| r.is_some()).count();
    let blocked = (0..n).filter(|c| registered[*c] && !woken[*c] && flight_of[*c].map(|f| flights[f].completed).unwrap_or(false)).count();
    Analysis { flights, flight_of, violations: v, returned, blocked, mismatch, stats }
}

// ---------------------------------------------------------------------------------------------------------

fn install() -> Box<dyn Fn(&std::panic::PanicHookInfo<'_>) + Sync + Send + 'static> {
    let prev = std::panic::take_hook();
    std::panic::set_hook(Box::new(|info| {
        let msg = info.payload().downcast_ref::<&str>().copied().unwrap_or("");
        if !msg.contains("sf-verif task panic") { eprintln!("panic: {info}"); }
    }));
    utils::verif_hooks::set_callback(Some(Arc::new(hook_callback)));
    prev
}

fn uninstall(prev: Box<dyn Fn(&std::panic::PanicHookInfo<'_>) + Sync + Send + 'static>) {
    utils::verif_hooks::set_callback(None);
    std::panic::set_hook(prev);
}

/// scenarios in which a caller never returned: after a few of them the remaining scenarios are skipped (each costs seconds)
static HUNG_SCENARIOS: AtomicU32 = AtomicU32::new(0);

fn one(ctx: &mut Ctx, rts: &mut Runtimes, sc: &Scenario, tag: u64) {
    if HUNG_SCENARIOS.load(Ordering::SeqCst) >= 3 { ctx.stat("scenarios_skipped_after_hangs"); return; }
    let value_base = (tag % 900 + 1) * 100;
    let rr = run_scenario(rts, sc, value_base);
    let an = analyse(sc, &rr);
    let trace = rr.events.iter().map(fmt_ev).collect::<Vec<_>>().join(",");
    let keys = sc.callers.iter().map(|c| c.key.to_string()).collect::<Vec<_>>().join(",");
    let replay = scenario_json(sc, &trace, tag);
    let n = sc.callers.len();

    ctx.stat(&format!("mode.{}", sc.mode.name()));
    ctx.stat(&format!("callers.{:02}", n));
    ctx.stat(&format!("keys.{}", sc.callers.iter().map(|c| c.key).collect::<std::collections::BTreeSet<_>>().len()));
    ctx.stat_add("events", rr.events.len() as u64);
    ctx.stat_add("parks.taken", rr.parks_taken);
    for s in an.stats.iter() { ctx.stat(s); }
    let max_members = an.flights.iter().map(|f| f.members.len()).max().unwrap_or(0);
    ctx.stat(&format!("flight.max_members.{:02}", max_members));

    if rr.hung {
        HUNG_SCENARIOS.fetch_add(1, Ordering::SeqCst);
        let stuck: Vec<usize> = (0..n).filter(|c| !rr.events.iter().any(|e| matches!(e, Ev::X(x, _) if x == c))).collect();
        ctx.fail("C20", "caller-never-returned", format!("mode {}: callers {:?} did not return within {:?}", sc.mode.name(), stuck, DEADLINE), replay.clone());
    }
    if rr.caller_panicked {
        ctx.fail("C20", "work-panicked", format!("mode {}: a call to Group::work panicked", sc.mode.name()), replay.clone());
    }
    if !rr.hung && an.returned != n {
        ctx.fail("C20", "return-not-logged", format!("{} of {} callers logged a return", an.returned, n), replay.clone());
    }
    for (k, d) in an.violations.iter() {
        ctx.fail("C20", k, format!("mode {}: {}", sc.mode.name(), d), replay.clone());
    }

    // correspondence ops
    ctx.op(&format!("sf.trace keys={keys} ev={trace}"), "accepts");
    let runs: usize = an.flights.iter().map(|f| f.task_runs).sum();
    let maxruns = an.flights.iter().map(|f| f.task_runs).max().unwrap_or(0);
    let alldone = an.returned == n;
    ctx.op(&format!("sf.monitors keys={keys} ev={trace}"),
        &format!("calls={} runs={} maxruns={} done={} blocked={} mismatch={} alldone={}", an.flights.len(), runs, maxruns, an.returned, an.blocked, an.mismatch, alldone));

    let shared = an.flights.iter().any(|f| f.members.len() >= 2);
    let _ = &an.flight_of;
    ctx.case(fnv(format!("{}|{keys}|{trace}", sc.mode.name()).as_bytes()), shared);
}

/// directed scenarios for the narrow windows (multi-threaded modes): the waiter is parked between its map
/// lookup and its registration until the owner completed (and possibly removed); the owner is parked between
/// completion and removal while late callers arrive; the owner is parked before its own registration.
fn directed(rng: &mut Rng, mode: Mode, which: u64) -> Scenario {
    let outcome = rng.below(3) as u8;
    let mk = |key, outcome, pre, task, wave, thread| CallerSpec { key, outcome, pre, task, wave, thread };
    let mut parks = HashMap::new();
    let threads = 3;
    let callers = match which % 5 {
        0 => {
            // waiter 1 looks the call up, then sleeps in the window while owner 0 completes
            parks.insert((1, 0u8), Park::Progress { n: rng.range(2, 5) as usize, timeout_us: 2000 });
            parks.insert((0, 1u8), Park::Progress { n: rng.range(1, 3) as usize, timeout_us: 1500 });
            vec![mk(0, outcome, Delay::None, Delay::UntilEvents(3, 400), 0, 0), mk(0, 0, Delay::UntilEvents(1, 400), Delay::None, 0, 1)]
        },
        1 => {
            // owner parked between completion and removal, two late callers arrive, a third after removal
            parks.insert((0, 1u8), Park::Progress { n: 4, timeout_us: 2500 });
            vec![mk(0, outcome, Delay::None, Delay::None, 0, 0),
                 mk(0, 1, Delay::UntilEvents(4, 600), Delay::None, 0, 1),
                 mk(0, 2, Delay::UntilEvents(4, 600), Delay::None, 0, 2),
                 mk(0, 0, Delay::None, Delay::Yields(2), 1, 1)]
        },
        2 => {
            // owner parked before its own registration; waiters register first
            parks.insert((0, 0u8), Park::Progress { n: rng.range(2, 4) as usize, timeout_us: 2000 });
            vec![mk(0, outcome, Delay::None, Delay::Yields(rng.range(0, 3) as u32), 0, 0),
                 mk(0, 0, Delay::UntilEvents(1, 400), Delay::None, 0, 1),
                 mk(0, 0, Delay::UntilEvents(1, 400), Delay::None, 0, 2)]
        },
        4 => {
            // waiter 1 found the call unfinished and is parked right before it registers for the notification, while owner 0
            // completes: the waiter must still get the outcome (it holds the read lock there, so the completion waits for it)
            parks.insert((1, 3u8), Park::Progress { n: rng.range(1, 3) as usize, timeout_us: rng.range(800, 2500) });
            vec![mk(0, outcome, Delay::None, Delay::UntilEvents(2, 400), 0, 0), mk(0, 0, Delay::UntilEvents(1, 400), Delay::None, 0, 1)]
        },
        _ => {
            // waiter parked in the window across completion AND removal AND the creation of the next flight
            parks.insert((1, 0u8), Park::Progress { n: 8, timeout_us: 3000 });
            vec![mk(0, outcome, Delay::None, Delay::UntilEvents(3, 400), 0, 0),
                 mk(0, 1, Delay::UntilEvents(1, 400), Delay::None, 0, 1),
                 mk(0, 0, Delay::None, Delay::None, 1, 2)]
        },
    };
    Scenario { mode, callers, parks, threads }
}

/// Thorough tier only, observation F13 (outside C20's quantifier, never a failure): the owning caller is
/// cancelled after its call was created; nobody removes the key and later callers get the stale outcome.
fn observe_owner_cancel(ctx: &mut Ctx, rts: &mut Runtimes) {
    let group: Arc<Group<u64, u64>> = Arc::new(Group::new());
    let stale = rts.ct.block_on(async {
        let g = group.clone();
        let owner = tokio::spawn(async move { g.work("k", async { tokio::time::sleep(Duration::from_millis(20)).await; Err::<u64, u64>(7) }).await });
        tokio::time::sleep(Duration::from_millis(5)).await;
        owner.abort();
        let _ = owner.await;
        tokio::time::sleep(Duration::from_millis(40)).await;
        let mut stale = 0;
        for _ in 0..3 {
            let r = tokio::time::timeout(Duration::from_secs(1), group.work("k", async { Ok::<u64, u64>(1) })).await;
            match r { Ok((Ok(1), true)) => {}, Ok(_) => stale += 1, Err(_) => stale += 100 }
        }
        stale
    });
    ctx.stat_add("observation.F13.stale_results_after_owner_cancel", stale);
}

/// "for all numbers of callers": n callers of one key, all registered on the flight before its task completes (current-thread
/// runtime: the owner's task waits on a gate that is opened after every caller has run up to its wait).  Every caller must get
/// the answer, the task runs once, and the key is free again afterwards.
fn many_callers(ctx: &mut Ctx, rts: &mut Runtimes, n: usize) {
    let group: Arc<Group<u64, u64>> = Arc::new(Group::new());
    let replay = format!("{{\"suite\":\"singleflight\",\"scenario\":\"many-callers\",\"callers\":{n},\"runtime\":\"current-thread\",\"key\":\"k\"}}");
    let (answered, executed, owners, later_ok) = rts.ct.block_on(async {
        let gate = Arc::new(tokio::sync::Semaphore::new(0));
        let executed = Arc::new(std::sync::atomic::AtomicUsize::new(0));
        let mut hs = Vec::with_capacity(n);
        for _ in 0..n {
            let (g, gate, ex) = (group.clone(), gate.clone(), executed.clone());
            hs.push(tokio::spawn(async move { g.work("k", async move { ex.fetch_add(1, Ordering::SeqCst); let _ = gate.acquire().await; Ok::<u64, u64>(42) }).await }));
        }
        for _ in 0..4 { tokio::task::yield_now().await; }
        gate.add_permits(n);
        let mut answered = 0usize; let mut owners = 0usize;
        let deadline = tokio::time::Instant::now() + Duration::from_secs(20);
        for h in hs {
            match tokio::time::timeout_at(deadline, h).await { Ok(Ok((Ok(42), o))) => { answered += 1; if o { owners += 1; } }, Ok(_) => {}, Err(_) => {} }
        }
        let later = tokio::time::timeout(Duration::from_secs(2), group.work("k", async { Ok::<u64, u64>(7) })).await;
        (answered, executed.load(Ordering::SeqCst), owners, matches!(later, Ok((Ok(7), true))))
    });
    ctx.stat(&format!("many_callers.{n}"));
    if answered != n { ctx.fail("C20", "caller-waits-forever", format!("{n} callers of one key were registered on its flight when the task completed; only {answered} of them got the answer within 20 s"), replay.clone()); }
    else if executed != 1 || owners != 1 { ctx.fail("C20", "many-callers-flight-count", format!("{n} callers registered on one flight: the task ran {executed} times and {owners} callers were told they own the flight"), replay.clone()); }
    if answered == n && !later_ok { ctx.fail("C20", "key-not-free-after-flight", format!("after a flight with {n} callers finished, a new call of the same key did not start (and own) a new flight"), replay); }
    if answered != n { rts.ct = new_ct(); }
}

pub fn run(ctx: &mut Ctx) {
    let prev = install();
    let mut rts = Runtimes { ct: new_ct(), mt: new_mt() };
    let quick = ctx.quick();
    let (n_ct, n_mt, n_multi, n_dir, max_callers) = if quick { (3000, 2400, 800, 480, 7) } else { (30000, 24000, 8000, 4800, 12) };
    let mut tag = 0u64;
    let mut rng = ctx.rng.fork(0x5f1e);
    for (mode, count) in [(Mode::Ct, n_ct), (Mode::Mt, n_mt), (Mode::MultiCt, n_multi)] {
        for _ in 0..count {
            tag += 1;
            let mut r = rng.fork(tag);
            let sc = gen_scenario(&mut r, mode, max_callers);
            one(ctx, &mut rts, &sc, tag);
        }
    }
    for i in 0..n_dir {
        tag += 1;
        let mut r = rng.fork(tag);
        let mode = if i % 2 == 0 { Mode::Mt } else { Mode::MultiCt };
        let sc = directed(&mut r, mode, i / 2);
        ctx.stat(&format!("directed.{}", (i / 2) % 5));
        one(ctx, &mut rts, &sc, tag);
    }
    for n in if quick { vec![1usize << 16] } else { vec![(1 << 16) - 1, 1 << 16, (1 << 16) + 1, 1 << 17, 100_000] } { many_callers(ctx, &mut rts, n); }
    if !quick { observe_owner_cancel(ctx, &mut rts); }
    ctx.stat_add("observation.owner_error_variant.InternalError", OWNER_ERR_INTERNAL.swap(0, Ordering::Relaxed));
    ctx.stat_add("observation.owner_error_variant.WaiterInternalError", OWNER_ERR_WAITER.swap(0, Ordering::Relaxed));
    uninstall(prev);
}
