//! Suite `crash` (C19): process-crash injection at every file-system effect of the operations that publish a file
//! under a final name (shard flush, `write_out_from_reader`, consolidation, `shard_file_union`, `LocalClient::put`,
//! `DiskCache::put`, `SafeFileCreator`).
//!
//! No hooks are needed: the operation runs in a child process (`crash-child`) under
//! `strace -e inject=<state-changing calls>:signal=SIGKILL:when=<k>`, which kills the child right before its k-th
//! state-changing system call (process-crash model: completed system calls persist).  A dry run without injection gives the
//! operation's effect sequence and the number N of crash points.  After every crash the parent
//!   * lists the directory (for the model comparison `crash.state`),
//!   * runs the MONITORS on the real directory with the real loaders: every final-named file validates against its name,
//!     everything retrievable before is still retrievable, leftovers do not break a restart.
//! The prior history (existing shards / stored xorbs / cache items / leftover temporaries of earlier crashes) is produced by
//! a separate un-traced child, so that the traced child performs only the operation.
use std::collections::{BTreeMap, BTreeSet};
use std::io::Cursor;
use std::path::{Path, PathBuf};
use std::sync::{Arc, Mutex};
use std::time::{Duration, SystemTime};

use cas_client::{LocalClient, UploadClient};
use cas_object::{CasObject, CompressionScheme};
use cas_types::{ChunkRange, Key};
use chunk_cache::{CacheConfig, ChunkCache, DiskCache};
use file_utils::SafeFileCreator;
use mdb_shard::file_structs::MDBFileInfo;
use mdb_shard::session_directory::consolidate_shards_in_directory;
use mdb_shard::set_operations::{shard_file_union, shard_set_union};
use mdb_shard::shard_file_reconstructor::FileReconstructor;
use mdb_shard::shard_format::MDBShardInfo;
use mdb_shard::shard_in_memory::MDBInMemoryShard;
use mdb_shard::{MDBShardFile, ShardFileManager};
use merkledb::aggregate_hashes::cas_node_hash;
use merklehash::{compute_data_hash, MerkleHash};

use crate::ctx::{fnv, Ctx};
use crate::rng::Rng;
use crate::suites::cache_seq::{guarded, key_dir_name, parse_item_name, quiet_hook};
use crate::suites::hashes::rand_hash;
use crate::suites::shard::Gen;

const TRACE_SET: &str = "openat,write,pwrite64,writev,rename,renameat,renameat2,unlink,unlinkat,mkdir,mkdirat,rmdir,fsync,fdatasync,ftruncate,fchmod,chmod,fchmodat,link,linkat,close";
const INJECT_SET: &str = "write,pwrite64,writev,rename,renameat,renameat2,unlink,unlinkat,mkdir,mkdirat,rmdir,ftruncate,fchmod,chmod,fchmodat,link,linkat";
const MARK_BEGIN: &str = "/__xet_crash_begin__";
const MARK_END: &str = "/__xet_crash_end__";
const PAR: usize = 12;

// ------------------------------------------------------------------------------------------------
// scenarios: everything is a deterministic function of (seed, op, hist), computed alike by parent and children

#[derive(Clone, Copy, PartialEq, Eq, Debug)]
enum Op { Flush, WriteOut, Consolidate, Union, LocalPut, CachePut, SafeFile }

impl Op {
    fn name(self) -> &'static str {
        match self { Op::Flush => "flush", Op::WriteOut => "writeout", Op::Consolidate => "consolidate", Op::Union => "union", Op::LocalPut => "localput", Op::CachePut => "cacheput", Op::SafeFile => "safefile" }
    }
    fn parse(s: &str) -> Option<Op> { [Op::Flush, Op::WriteOut, Op::Consolidate, Op::Union, Op::LocalPut, Op::CachePut, Op::SafeFile].into_iter().find(|o| o.name() == s) }
    fn hists(self) -> usize { match self { Op::Flush => 3, Op::WriteOut => 3, Op::Consolidate => 5, Op::Union => 3, Op::LocalPut => 3, Op::CachePut => 5, Op::SafeFile => 3 } }
    fn is_shard(self) -> bool { matches!(self, Op::Flush | Op::WriteOut | Op::Consolidate | Op::Union) }
}

fn scn_rng(seed: u64, op: Op, hist: usize) -> Rng { Rng::new(seed ^ fnv(op.name().as_bytes()).rotate_left(17) ^ (hist as u64 + 1).wrapping_mul(0x9E37_79B9_7F4A_7C15)) }

/// shard content with independent random hashes (no engineered 64-bit prefix collisions: with equal truncated keys the
/// order of the chunk table rows, hence the shard's content hash, depends on an unstable sort — irrelevant to C19 and
/// compared elsewhere (C09/C10))
fn gen_content(rng: &mut Rng, ncas: usize, nfiles: usize, _dist: u64, _readd: bool) -> Gen {
    use mdb_shard::cas_structs::{CASChunkSequenceEntry, CASChunkSequenceHeader, MDBCASInfo};
    use mdb_shard::file_structs::{FileDataSequenceEntry, FileDataSequenceHeader, FileMetadataExt, FileVerificationEntry};
    let mut cas = Vec::new();
    for _ in 0..ncas {
        let h = rand_hash(rng);
        let n = match rng.below(6) { 0 => 0, 1 => 1, _ => rng.range(1, 30) } as usize;
        let mut chunks = Vec::new(); let mut pos = 0u32;
        for _ in 0..n { let len = rng.range(1, 131072) as u32; chunks.push(CASChunkSequenceEntry::new(rand_hash(rng), len, pos)); pos += len; }
        let mut md = CASChunkSequenceHeader::new(h, n, pos);
        md.num_bytes_on_disk = rng.below(pos as u64 + 1) as u32;
        cas.push(MDBCASInfo { metadata: md, chunks });
    }
    let mut files = Vec::new();
    for _ in 0..nfiles {
        let h = rand_hash(rng);
        let nseg = match rng.below(6) { 0 => 0, 1 => 1, _ => rng.range(1, 12) } as usize;
        let (ver, meta) = (rng.chance(1, 2), rng.chance(1, 2));
        let mut segs = Vec::new();
        for _ in 0..nseg {
            let ch = if !cas.is_empty() && rng.chance(3, 4) { cas[rng.below(cas.len() as u64) as usize].metadata.cas_hash } else { rand_hash(rng) };
            let s = rng.below(20) as u32; let e = s + rng.range(1, 20) as u32;
            segs.push(FileDataSequenceEntry::new(ch, rng.range(1, 5_000_000) as u32, s, e));
        }
        let verification = if ver { (0..nseg).map(|_| FileVerificationEntry::new(rand_hash(rng))).collect() } else { vec![] };
        files.push(MDBFileInfo { metadata: FileDataSequenceHeader::new(h, nseg, ver, meta), segments: segs, verification, metadata_ext: if meta { Some(FileMetadataExt::new(rand_hash(rng))) } else { None } });
    }
    Gen { cas, files }
}

fn build_shard(g: &Gen) -> (MDBInMemoryShard, Vec<u8>) {
    let mut mem = MDBInMemoryShard::default();
    for c in &g.cas { mem.add_cas_block(c.clone()).unwrap(); }
    for f in &g.files { mem.add_file_reconstruction_info(f.clone()).unwrap(); }
    let mut bytes = Vec::new();
    MDBShardInfo::serialize_from(&mut bytes, &mem).unwrap();
    (mem, bytes)
}

/// a plausible leftover of an earlier crash: a temp shard file holding a strict prefix of a shard
fn shard_leftover_name(rng: &mut Rng) -> String {
    let h: Vec<String> = rng.bytes(16).iter().map(|b| format!("{b:02x}")).collect();
    let s = h.join("");
    format!(".{}-{}-{}-{}-{}.mdb_temp", &s[0..8], &s[8..12], &s[12..16], &s[16..20], &s[20..32])
}

struct ShardScn {
    prior: Vec<Gen>,                 // shards on disk before, in modification-time order
    leftover: Option<(String, usize)>, // leftover temp (name, prefix length of prior[0]'s bytes or of the new content)
    new: Option<Gen>,                // content written by flush / write_out
    target: u64,                     // consolidation threshold
    union_named_by_hash: bool,
}

fn shard_scn(seed: u64, op: Op, hist: usize) -> ShardScn {
    let mut base = scn_rng(seed, op, hist);
    let mut rp = base.fork(1);
    let mut rn = base.fork(2);
    let small = |r: &mut Rng| { let (a, b) = (r.range(1, 3) as usize, r.range(1, 3) as usize); gen_content(r, a, b, 0, false) };
    let big = |r: &mut Rng| { let (a, b) = (r.range(14, 30) as usize, r.range(6, 16) as usize); gen_content(r, a, b, 0, false) };
    let mut s = ShardScn { prior: vec![], leftover: None, new: None, target: 0, union_named_by_hash: false };
    match (op, hist) {
        (Op::Flush, 0) => { s.new = Some(small(&mut rn)); }
        (Op::Flush, 1) => { s.prior = vec![small(&mut rp), big(&mut rp)]; s.leftover = Some((shard_leftover_name(&mut rp), 777)); s.new = Some(big(&mut rn)); }
        (Op::Flush, _) => { let g = big(&mut rp); s.new = Some(Gen { cas: g.cas.clone(), files: g.files.clone() }); s.prior = vec![g, small(&mut rp)]; }   // identical to an existing shard
        (Op::WriteOut, 0) => { s.prior = vec![small(&mut rp)]; s.new = Some(big(&mut rn)); }
        (Op::WriteOut, 1) => { let g = big(&mut rp); s.new = Some(Gen { cas: g.cas.clone(), files: g.files.clone() }); s.prior = vec![small(&mut rp), g]; }
        (Op::WriteOut, _) => { s.prior = vec![big(&mut rp), small(&mut rp)]; s.leftover = Some((shard_leftover_name(&mut rp), 4096)); s.new = Some(small(&mut rn)); }
        (Op::Consolidate, 0) => { s.prior = vec![small(&mut rp), small(&mut rp), small(&mut rp)]; s.target = 1 << 30; }
        (Op::Consolidate, 1) => { s.prior = (0..5).map(|_| small(&mut rp)).collect(); s.target = 0; /* fixed up below from the sizes */ }
        (Op::Consolidate, 2) => {
            // guard cases: an empty shard (merging it reproduces its partner), a duplicate-content shard (subset of its partner)
            // groups [A, empty] (the merge is A again: the rename lands on A, A must not be unlinked) and [C, part of C]
            let a = big(&mut rp);
            let c = small(&mut rp);
            let sub = Gen { cas: c.cas[..1.min(c.cas.len())].to_vec(), files: vec![] };
            s.prior = vec![a, Gen { cas: vec![], files: vec![] }, c, sub]; s.target = 0; /* fixed up below */
        }
        (Op::Consolidate, 3) => { s.prior = vec![big(&mut rp), small(&mut rp), big(&mut rp), small(&mut rp)]; s.leftover = Some((shard_leftover_name(&mut rp), 9000)); s.target = 1 << 30; }
        // second generation: the directory an earlier consolidation left when it was killed after its first unlink
        // (merged shard in place, first input gone, the others still there, a leftover temp): consolidating again merges
        // the merged shard with its own inputs, the result is the merged shard itself (guard)
        (Op::Consolidate, _) => { s.prior = vec![small(&mut rp), small(&mut rp), small(&mut rp)]; s.leftover = Some((shard_leftover_name(&mut rp), 300)); s.target = 1 << 30; }
        (Op::Union, 0) => { s.prior = vec![small(&mut rp), big(&mut rp)]; }
        (Op::Union, 1) => { s.prior = vec![big(&mut rp), small(&mut rp), small(&mut rp)]; s.union_named_by_hash = true; s.leftover = Some((shard_leftover_name(&mut rp), 100)); }
        (Op::Union, _) => { let g = big(&mut rp); let h = Gen { cas: g.cas.clone(), files: g.files.clone() }; s.prior = vec![g, h]; s.union_named_by_hash = true; }   // union of a shard with itself: named by hash = rename onto the input
        _ => unreachable!(),
    }
    if op == Op::Consolidate && (hist == 1 || hist == 2) {
        let sz: Vec<u64> = s.prior.iter().map(|g| build_shard(g).1.len() as u64).collect();
        s.target = sz[0] + sz[1] + 1;
    }
    s
}

struct XorbData { hash: MerkleHash, data: Vec<u8>, cb: Vec<(MerkleHash, u32)>, obj: Vec<u8> }

fn make_xorb(rng: &mut Rng, nchunks: usize, lo: usize, hi: usize) -> XorbData {
    let mut data = Vec::new(); let mut cb = Vec::new(); let mut hl = Vec::new();
    for _ in 0..nchunks {
        let n = rng.range(lo as u64, hi as u64) as usize;
        let c = rng.bytes(n);
        let h = compute_data_hash(&c);
        data.extend_from_slice(&c); cb.push((h, data.len() as u32)); hl.push((h, n));
    }
    let hash = cas_node_hash(&hl);
    let mut cur = Cursor::new(Vec::new());
    CasObject::serialize(&mut cur, &hash, &data, &cb, Some(CompressionScheme::None)).unwrap();
    XorbData { hash, data, cb, obj: cur.into_inner() }
}

struct LocalScn { prior: Vec<XorbData>, new: XorbData, leftover: Option<(String, usize)> }

fn local_scn(seed: u64, hist: usize) -> LocalScn {
    let mut base = scn_rng(seed, Op::LocalPut, hist);
    let mut rp = base.fork(1);
    let mut rn = base.fork(2);
    match hist {
        0 => LocalScn { prior: vec![], new: make_xorb(&mut rn, 3, 500, 1500), leftover: None },
        1 => LocalScn { prior: vec![make_xorb(&mut rp, 2, 800, 3000), make_xorb(&mut rp, 5, 100, 900)], new: make_xorb(&mut rn, 4, 9000, 30000), leftover: None },
        _ => LocalScn { prior: vec![make_xorb(&mut rp, 3, 2000, 5000)], new: make_xorb(&mut rn, 12, 300, 2500), leftover: Some((".xorbs.aB3dE6gH9j.tmp".into(), 1234)) },
    }
}

struct CacheKeyData { key: Key, bounds: Vec<u32>, data: Vec<u8> }
impl CacheKeyData {
    fn slice(&self, s: u32, e: u32) -> (Vec<u32>, Vec<u8>) {
        let b0 = self.bounds[s as usize];
        (self.bounds[s as usize..=e as usize].iter().map(|b| b - b0).collect(), self.data[b0 as usize..self.bounds[e as usize] as usize].to_vec())
    }
}
struct CacheScn { keys: Vec<CacheKeyData>, capacity: u64, prior: Vec<(usize, u32, u32)>, new: (usize, u32, u32), leftover: Option<(usize, String, usize)>, evicting: bool }

fn cache_key(rng: &mut Rng, nchunks: usize, lo: usize, hi: usize) -> CacheKeyData {
    let mut bounds = vec![0u32]; let mut data = Vec::new();
    for _ in 0..nchunks { let n = rng.range(lo as u64, hi as u64) as usize; data.extend_from_slice(&rng.bytes(n)); bounds.push(data.len() as u32); }
    CacheKeyData { key: Key { prefix: "default".into(), hash: MerkleHash::from([rng.next(), rng.next(), rng.next(), rng.next()]) }, bounds, data }
}

fn cache_scn(seed: u64, hist: usize) -> CacheScn {
    let mut base = scn_rng(seed, Op::CachePut, hist);
    let mut rp = base.fork(1);
    match hist {
        // empty cache directory, first item of a new key: two mkdirs
        0 => CacheScn { keys: vec![cache_key(&mut rp, 8, 200, 600)], capacity: 1 << 24, prior: vec![], new: (0, 2, 5), leftover: None, evicting: false },
        // same key, disjoint range, large item (several writes); another key present; leftover temp of an earlier crash in the key dir
        1 => { let keys = vec![cache_key(&mut rp, 8, 6000, 9000), cache_key(&mut rp, 6, 100, 400)];
               let ln = format!(".{}.Zz9yX8wV7u.tmp", key_dir_name(&keys[0].key));
               CacheScn { keys, capacity: 1 << 24, prior: vec![(0, 0, 2), (1, 1, 4), (0, 6, 7)], new: (0, 2, 6), leftover: Some((0, ln, 333)), evicting: false } }
        // subsuming put: [0,6) covers [1,3) and [4,5)
        2 => CacheScn { keys: vec![cache_key(&mut rp, 8, 300, 900), cache_key(&mut rp, 4, 300, 900)], capacity: 1 << 24, prior: vec![(0, 1, 3), (0, 4, 5), (1, 0, 4), (0, 6, 8)], new: (0, 0, 6), leftover: None, evicting: false },
        // a cache that is exactly full (capacity = bytes stored): K:[0,2) [2,4) [4,6) [6,8) and one item for each of ten other keys;
        // the new item K:[0,8) subsumes the four and is smaller than them together, so no eviction is due and nothing may disappear;
        // between its rename and the unlinks the directory holds more than the capacity
        4 => { let mut keys = vec![cache_key(&mut rp, 8, 300, 700)];
               for _ in 0..10 { keys.push(cache_key(&mut rp, 3, 400, 1200)); }
               let mut prior = vec![(0usize, 0u32, 2u32), (0, 2, 4), (0, 4, 6), (0, 6, 8)];
               for k in 1..keys.len() { prior.push((k, 0, 3)); }
               let capacity: u64 = prior.iter().map(|(k, a, b)| { let (o, d) = keys[*k].slice(*a, *b); (d.len() + 4 * (o.len() + 1)) as u64 }).sum();
               CacheScn { keys, capacity, prior, new: (0, 0, 8), leftover: None, evicting: false } }
        // evicting put: equal-sized items, capacity for four of them
        _ => { let mut keys: Vec<CacheKeyData> = Vec::new();
               for _ in 0..3 { let mut k = cache_key(&mut rp, 4, 1000, 1000); k.bounds = vec![0, 1000, 2000, 3000, 4000]; keys.push(k); }
               // every item: 2 chunks = 2000 bytes + header (4 + 3*4) = 2016 bytes; capacity 4 items + slack
               CacheScn { keys, capacity: 4 * 2016 + 100, prior: vec![(0, 0, 2), (0, 2, 4), (1, 0, 2), (2, 1, 3)], new: (1, 1, 4), leftover: None, evicting: true } }
    }
}

struct SafeScn { mode: usize, old: Option<Vec<u8>>, pieces: Vec<Vec<u8>> }
fn safe_scn(seed: u64, hist: usize) -> SafeScn {
    let mut base = scn_rng(seed, Op::SafeFile, hist);
    let mut rp = base.fork(1);
    let mut rn = base.fork(2);
    let pieces = vec![rn.bytes(100), rn.bytes(20_000), rn.bytes(3), rn.bytes(9_000)];
    match hist { 0 => SafeScn { mode: 0, old: None, pieces }, 1 => SafeScn { mode: 1, old: Some(rp.bytes(5000)), pieces }, _ => SafeScn { mode: 2, old: None, pieces: vec![rn.bytes(10), rn.bytes(8192), rn.bytes(8193)] } }
}

fn set_mtime(p: &Path, secs: u64) { std::fs::File::open(p).unwrap().set_modified(SystemTime::UNIX_EPOCH + Duration::from_secs(secs)).unwrap(); }

fn local_rt() -> tokio::runtime::Runtime { tokio::runtime::Builder::new_multi_thread().worker_threads(1).enable_all().build().unwrap() }

// ------------------------------------------------------------------------------------------------
// child: set-up of the prior history (un-traced) and the operation itself (traced)

pub fn run_child(_ctx: &mut Ctx) {
    let mode = std::env::var("CRASH_MODE").expect("CRASH_MODE");
    let op = Op::parse(&std::env::var("CRASH_OP").expect("CRASH_OP")).expect("op");
    let hist: usize = std::env::var("CRASH_HIST").unwrap().parse().unwrap();
    let seed: u64 = std::env::var("CRASH_SEED").unwrap().parse().unwrap();
    let dir = PathBuf::from(std::env::var("CRASH_DIR").unwrap());
    if mode == "probe" {
        let ch = MerkleHash::from_hex(&std::env::var("CRASH_CHUNK").unwrap()).unwrap();
        let rt = local_rt();
        let m = rt.block_on(ShardFileManager::new_in_session_directory(&dir)).unwrap();
        eprintln!("manager: {:?}", rt.block_on(m.chunk_hash_dedup_query(&[ch])).map(|x| x.map(|y| (y.0, y.1.cas_hash.hex(), y.1.chunk_index_start))));
        for sf in MDBShardFile::load_all_valid(&dir).unwrap() {
            let rows: Vec<_> = sf.read_all_truncated_hashes().unwrap().into_iter().filter(|r| r.0 == ch[0]).collect();
            eprintln!("shard {} ({} bytes): direct {:?}; table rows for the key: {:?}", sf.shard_hash.hex(), sf.shard.num_bytes(), sf.chunk_hash_dedup_query(&[ch]).map(|x| x.map(|y| (y.0, y.1.cas_hash.hex(), y.1.chunk_index_start))), rows);
            for (c, _) in sf.shard.read_all_cas_blocks_full(&mut sf.get_reader().unwrap()).unwrap().iter().zip(0..) { for (i, e) in c.chunks.iter().enumerate() { if e.chunk_hash == ch { eprintln!("   present in xorb {} at chunk {i} of {}", c.metadata.cas_hash.hex(), c.chunks.len()); } } }
        }
        return;
    }
    if mode == "setup" { child_setup(op, hist, seed, &dir); } else { child_operate(op, hist, seed, &dir); }
}

fn child_setup(op: Op, hist: usize, seed: u64, dir: &Path) {
    std::fs::create_dir_all(dir).unwrap();
    match op {
        _ if op.is_shard() => {
            let s = shard_scn(seed, op, hist);
            for (i, g) in s.prior.iter().enumerate() {
                let (mem, _) = build_shard(g);
                let p = mem.write_to_directory(dir).unwrap();
                set_mtime(&p, 1_700_000_000 + 10 * i as u64);
            }
            if op == Op::Consolidate && hist == 4 {
                let scratch = dir.with_extension("scratch"); copy_tree(dir, &scratch);
                let done = consolidate_shards_in_directory(&scratch, 1 << 30).unwrap();
                let merged = done[0].path.clone();
                let dst = dir.join(merged.file_name().unwrap());
                std::fs::copy(&merged, &dst).unwrap(); set_mtime(&dst, 1_700_000_000 + 100);
                let first = dir.join(format!("{}.mdb", compute_data_hash(&build_shard(&s.prior[0]).1).hex()));
                if first != dst { std::fs::remove_file(first).unwrap(); }
                std::fs::remove_dir_all(&scratch).unwrap();
            }
            if let Some((name, n)) = &s.leftover {
                let src = s.new.as_ref().or(s.prior.first()).map(|g| build_shard(g).1).unwrap_or_default();
                std::fs::write(dir.join(name), &src[..(*n).min(src.len())]).unwrap();
            }
        }
        Op::LocalPut => {
            let s = local_scn(seed, hist);
            let rt = local_rt();
            let client = rt.block_on(async { LocalClient::new(dir, None) }).unwrap();
            for x in &s.prior { rt.block_on(client.put("default", &x.hash, x.data.clone(), x.cb.clone())).unwrap(); }
            if let Some((name, n)) = &s.leftover { std::fs::write(dir.join("xorbs").join(name), &s.new.obj[..*n]).unwrap(); }
        }
        Op::CachePut => {
            let s = cache_scn(seed, hist);
            if s.prior.is_empty() && s.leftover.is_none() { return; }
            let cache = DiskCache::initialize(&CacheConfig { cache_directory: dir.to_path_buf(), cache_size: s.capacity }).unwrap();
            for (k, a, b) in &s.prior { let (offs, data) = s.keys[*k].slice(*a, *b); cache.put(&s.keys[*k].key, &ChunkRange { start: *a, end: *b }, &offs, &data).unwrap(); }
            if let Some((k, name, n)) = &s.leftover {
                let kd = key_dir_name(&s.keys[*k].key);
                std::fs::write(dir.join(&kd[..2]).join(&kd).join(name), &s.keys[*k].data[..*n]).unwrap();
            }
        }
        Op::SafeFile => {
            let s = safe_scn(seed, hist);
            if let Some(old) = &s.old {
                use std::os::unix::fs::PermissionsExt;
                std::fs::write(dir.join("dest.bin"), old).unwrap();
                std::fs::set_permissions(dir.join("dest.bin"), std::fs::Permissions::from_mode(0o600)).unwrap();
            }
            if s.mode == 2 { std::fs::create_dir_all(dir.join("staging")).unwrap(); }
        }
        _ => unreachable!(),
    }
}

fn marker(p: &str) { let _ = std::fs::File::open(p); }

fn child_operate(op: Op, hist: usize, seed: u64, dir: &Path) {
    let mutant = std::env::var("CRASH_MUTANT").unwrap_or_default();
    match op {
        Op::Flush => {
            let s = shard_scn(seed, op, hist);
            let (mem, bytes) = build_shard(s.new.as_ref().unwrap());
            marker(MARK_BEGIN);
            if mutant == "direct" {
                // MUTANT (self-check of the monitors only): writes under the final name directly
                use std::io::Write;
                let mut f = std::fs::File::create(dir.join(format!("{}.mdb", compute_data_hash(&bytes).hex()))).unwrap();
                for c in bytes.chunks(4096) { f.write_all(c).unwrap(); }
            } else { mem.write_to_directory(dir).unwrap(); }
            marker(MARK_END);
        }
        Op::WriteOut => {
            let s = shard_scn(seed, op, hist);
            let (_, bytes) = build_shard(s.new.as_ref().unwrap());
            marker(MARK_BEGIN);
            MDBShardFile::write_out_from_reader(dir, &mut Cursor::new(&bytes)).unwrap();
            marker(MARK_END);
        }
        Op::Consolidate => {
            let s = shard_scn(seed, op, hist);
            marker(MARK_BEGIN);
            if mutant == "delete-first" {
                // MUTANT (self-check of the monitors only): deletes the inputs before the merged shard is in place
                let stage = dir.with_extension("stage"); copy_tree(dir, &stage);
                let done = consolidate_shards_in_directory(&stage, s.target).unwrap();
                for n in shard_final_names(dir) { std::fs::remove_file(dir.join(n)).unwrap(); }
                for d in done { MDBShardFile::write_out_from_reader(dir, &mut std::fs::File::open(&d.path).unwrap()).unwrap(); }
                std::fs::remove_dir_all(&stage).unwrap();
            } else { consolidate_shards_in_directory(dir, s.target).unwrap(); }
            marker(MARK_END);
        }
        Op::Union => {
            let s = shard_scn(seed, op, hist);
            let (a, b, out, _) = union_paths(&s, dir);
            marker(MARK_BEGIN);
            shard_file_union(&a, &b, &out).unwrap();
            marker(MARK_END);
        }
        Op::LocalPut => {
            let s = local_scn(seed, hist);
            let rt = local_rt();
            // created on the main thread (inside the runtime context `LocalClient::new` needs); the put is then driven by
            // `block_on` on the main thread as well, so all its system calls are the main thread's
            let client = rt.block_on(async { LocalClient::new(dir, None) }).unwrap();
            marker(MARK_BEGIN);
            rt.block_on(client.put("default", &s.new.hash, s.new.data.clone(), s.new.cb.clone())).unwrap();
            marker(MARK_END);
        }
        Op::CachePut => {
            let s = cache_scn(seed, hist);
            let cache = DiskCache::initialize(&CacheConfig { cache_directory: dir.to_path_buf(), cache_size: s.capacity }).unwrap();
            let (k, a, b) = s.new;
            let (offs, data) = s.keys[k].slice(a, b);
            marker(MARK_BEGIN);
            cache.put(&s.keys[k].key, &ChunkRange { start: a, end: b }, &offs, &data).unwrap();
            marker(MARK_END);
        }
        Op::SafeFile => {
            use std::io::Write;
            let s = safe_scn(seed, hist);
            let dest = dir.join("dest.bin");
            marker(MARK_BEGIN);
            let mut f = match s.mode { 0 => SafeFileCreator::new(&dest).unwrap(), 1 => SafeFileCreator::replace_existing(&dest).unwrap(), _ => SafeFileCreator::new_unnamed(dir.join("staging")).unwrap() };
            for p in &s.pieces { f.write_all(p).unwrap(); }
            if s.mode == 2 { f.set_dest_path(&dest); drop(f); } else { f.close().unwrap(); }
            marker(MARK_END);
        }
    }
}

/// inputs / output path of the union scenario and the expected complete output
fn union_paths(s: &ShardScn, dir: &Path) -> (PathBuf, PathBuf, PathBuf, Vec<u8>) {
    let (_, ba) = build_shard(&s.prior[0]);
    let (_, bb) = build_shard(&s.prior[1]);
    let ia = MDBShardInfo::load_from_reader(&mut Cursor::new(&ba)).unwrap();
    let ib = MDBShardInfo::load_from_reader(&mut Cursor::new(&bb)).unwrap();
    let mut out = Vec::new();
    shard_set_union(&ia, &mut Cursor::new(&ba), &ib, &mut Cursor::new(&bb), &mut out).unwrap();
    let name = if s.union_named_by_hash { format!("{}.mdb", compute_data_hash(&out).hex()) } else { "union_result.mdb".to_string() };
    (dir.join(format!("{}.mdb", compute_data_hash(&ba).hex())), dir.join(format!("{}.mdb", compute_data_hash(&bb).hex())), dir.join(name), out)
}

// ------------------------------------------------------------------------------------------------
// strace log

#[derive(Clone, Debug)]
struct Sys { tid: u32, name: String, args: String, ret: Option<i64> }

fn parse_log(text: &str) -> (Vec<Sys>, bool) {
    let mut out = Vec::new();
    let mut pending: BTreeMap<u32, String> = BTreeMap::new();
    let mut killed = false;
    for line in text.lines() {
        let Some((tid_s, rest)) = line.split_once(' ') else { continue };
        let Ok(tid) = tid_s.parse::<u32>() else { continue };
        let rest = rest.trim_start();
        if rest.starts_with("+++ killed by SIGKILL") { killed = true; continue; }
        if rest.starts_with("+++") || rest.starts_with("---") { continue; }
        let full: String = if let Some(p) = rest.strip_suffix("<unfinished ...>") { pending.insert(tid, p.trim_end().to_string()); continue; }
            else if rest.starts_with("<... ") { let tail = rest.split_once("resumed>").map(|x| x.1).unwrap_or(""); format!("{}{}", pending.remove(&tid).unwrap_or_default(), tail) }
            else { rest.to_string() };
        let Some(po) = full.find('(') else { continue };
        let name = full[..po].to_string();
        let (args, ret) = match full.rfind(" = ") {
            Some(pe) if full[..pe].trim_end().ends_with(')') && full[..pe].trim_end().len() > po => {
                let left = full[..pe].trim_end();
                let r = full[pe + 3..].trim(); let v = r.split(|c: char| c == ' ' || c == '<').next().unwrap_or("");
                (left[po + 1..left.len() - 1].to_string(), v.parse::<i64>().ok()) }
            _ => (full[po + 1..].to_string(), None),
        };
        out.push(Sys { tid, name, args, ret });
    }
    // a call that was being entered when the kill arrived stays "unfinished"
    for (tid, p) in pending { if let Some(po) = p.find('(') { out.push(Sys { tid, name: p[..po].to_string(), args: p[po + 1..].to_string(), ret: None }); } }
    (out, killed)
}

fn quoted(args: &str) -> Vec<String> {
    let mut v = Vec::new(); let mut cur = String::new(); let mut inq = false; let mut esc = false;
    for c in args.chars() {
        if inq { if esc { cur.push(c); esc = false; } else if c == '\\' { esc = true; } else if c == '"' { inq = false; v.push(std::mem::take(&mut cur)); } else { cur.push(c); } }
        else if c == '"' { inq = true; }
    }
    v
}
fn first_int(args: &str) -> Option<i64> { args.split(',').next()?.trim().parse().ok() }
fn is_inject(name: &str) -> bool { INJECT_SET.split(',').any(|s| s == name) }

/// one successful file-system effect below the component root, paths relative to it
#[derive(Clone, Debug, PartialEq, Eq)]
enum Fx { Create(String), Trunc(String), Write(String, u64), Rename(String, String), Unlink(String), Mkdir(String), Rmdir(String), Chmod(String) }

struct Trace {
    effects: Vec<Fx>,
    /// for every state-changing call of the main thread between the markers: (ordinal of this call among the main thread's
    /// calls of the SAME system call since process start — strace counts `when=` per thread and per system call —,
    /// number of effects completed before it, call name)
    points: Vec<(usize, usize, String)>,
    begin_seen: bool, end_seen: bool, killed: bool,
    /// some other thread performs at least as many calls of a system call as a crash point's ordinal: the injection would hit it
    other_thread_clash: bool,
    /// calls of the inject set after the begin marker that are not below the root (e.g. stderr): they are crash points too
    foreign: usize,
}

fn analyse(text: &str, root: &Path, initial_files: &BTreeSet<String>) -> Trace {
    let (sys, killed) = parse_log(text);
    let main = sys.first().map(|s| s.tid).unwrap_or(0);
    let mut fds: BTreeMap<i64, String> = BTreeMap::new();
    let mut files = initial_files.clone();
    let mut t = Trace { effects: vec![], points: vec![], begin_seen: false, end_seen: false, killed, other_thread_clash: false, foreign: 0 };
    let mut per_thread: BTreeMap<(u32, String), usize> = BTreeMap::new();
    let rel = |p: &str| -> Option<String> { Path::new(p).strip_prefix(root).ok().map(|r| r.to_string_lossy().to_string()) };
    for s in &sys {
        let inj = is_inject(&s.name);
        if inj { *per_thread.entry((s.tid, s.name.clone())).or_insert(0) += 1; }
        if s.tid != main { continue; }
        let q = quoted(&s.args);
        if s.name == "openat" && q.first().map(|x| x == MARK_BEGIN).unwrap_or(false) { t.begin_seen = true; continue; }
        if s.name == "openat" && q.first().map(|x| x == MARK_END).unwrap_or(false) { t.end_seen = true; continue; }
        let active = t.begin_seen && !t.end_seen;
        if inj && active { t.points.push((*per_thread.get(&(main, s.name.clone())).unwrap(), t.effects.len(), s.name.clone())); }
        let ok = s.ret.map(|r| r >= 0).unwrap_or(false);
        match s.name.as_str() {
            "openat" => { if ok { if let Some(p) = q.first() { if let Some(r) = rel(p) {
                    fds.insert(s.ret.unwrap(), r.clone());
                    if s.args.contains("O_CREAT") && !s.args.contains("O_DIRECTORY") { if files.insert(r.clone()) { if active { t.effects.push(Fx::Create(r)); } } else if s.args.contains("O_TRUNC") && active { t.effects.push(Fx::Trunc(r)); } }
                } else { fds.remove(&s.ret.unwrap()); } } } }
            "close" => { if let Some(fd) = first_int(&s.args) { fds.remove(&fd); } }
            "write" | "pwrite64" | "writev" => { if let Some(fd) = first_int(&s.args) { match fds.get(&fd) { Some(r) if ok => { if active { t.effects.push(Fx::Write(r.clone(), s.ret.unwrap() as u64)); } } Some(_) => {} None => { if active { t.foreign += 1; } } } } }
            "rename" | "renameat" | "renameat2" => { if ok && q.len() >= 2 { if let (Some(a), Some(b)) = (rel(&q[0]), rel(&q[1])) { files.remove(&a); files.insert(b.clone()); if active { t.effects.push(Fx::Rename(a, b)); } } } }
            "unlink" | "unlinkat" => { if ok { if let Some(r) = q.first().and_then(|p| rel(p)) { files.remove(&r); if active { t.effects.push(if s.args.contains("AT_REMOVEDIR") { Fx::Rmdir(r) } else { Fx::Unlink(r) }); } } } }
            "mkdir" | "mkdirat" => { if ok { if let Some(r) = q.first().and_then(|p| rel(p)) { if active { t.effects.push(Fx::Mkdir(r)); } } } }
            "rmdir" => { if ok { if let Some(r) = q.first().and_then(|p| rel(p)) { if active { t.effects.push(Fx::Rmdir(r)); } } } }
            "chmod" | "fchmodat" => { if ok { if let Some(r) = q.first().and_then(|p| rel(p)) { if active { t.effects.push(Fx::Chmod(r)); } } } }
            "fchmod" => { if ok { if let Some(r) = first_int(&s.args).and_then(|fd| fds.get(&fd).cloned()) { if active { t.effects.push(Fx::Chmod(r)); } } } }
            _ => {}
        }
    }
    t.other_thread_clash = t.points.iter().any(|(ord, _, name)| per_thread.iter().any(|((tid, n), c)| *tid != main && n == name && c >= ord));
    t
}

// ------------------------------------------------------------------------------------------------
// path classification (tokens of the model's abstract paths)

struct Namer { op: Op, keys: Vec<String>, temps: Vec<String> }

impl Namer {
    fn is_hex64(s: &str) -> bool { s.len() == 64 && s.bytes().all(|b| b.is_ascii_hexdigit()) }
    fn temp_no(&mut self, rel: &str) -> usize { if let Some(i) = self.temps.iter().position(|t| t == rel) { i } else { self.temps.push(rel.to_string()); self.temps.len() - 1 } }
    fn sanitize(s: &str) -> String { s.chars().map(|c| if c.is_ascii_alphanumeric() { c } else { '_' }).collect() }
    /// `None`: not a path of the component (e.g. the LMDB files next to the xorb directory)
    fn tok(&mut self, rel: &str) -> Option<String> {
        let parts: Vec<&str> = rel.split('/').collect();
        match self.op {
            Op::Flush | Op::WriteOut | Op::Consolidate | Op::Union => {
                if parts.len() != 1 { return Some(format!("O{}", Self::sanitize(rel))); }
                let n = parts[0];
                if n.starts_with('.') && n.ends_with(".mdb_temp") { return Some(format!("T{}", self.temp_no(rel))); }
                if let Some(h) = n.strip_suffix(".mdb") { if Self::is_hex64(h) { return Some(format!("S{h}")); } }
                Some(format!("O{}", Self::sanitize(n)))
            }
            Op::LocalPut => {
                if parts.first() != Some(&"xorbs") { return None; }
                if parts.len() == 1 { return Some("Dxorbs".into()); }
                let n = parts[1];
                if n.starts_with('.') && n.ends_with(".tmp") { return Some(format!("T{}", self.temp_no(rel))); }
                if let Some(h) = n.strip_prefix("default.") { if Self::is_hex64(h) { return Some(format!("X{h}")); } }
                Some(format!("O{}", Self::sanitize(n)))
            }
            Op::CachePut => {
                let kidx = |name: &str, keys: &Vec<String>| keys.iter().position(|k| k == name);
                match parts.len() {
                    1 => Some(match self.keys.iter().position(|k| k.starts_with(parts[0])) { Some(i) => format!("P{i}"), None => format!("O{}", Self::sanitize(parts[0])) }),
                    2 => Some(match kidx(parts[1], &self.keys) { Some(i) => format!("K{i}"), None => format!("O{}", Self::sanitize(rel)) }),
                    3 => { let Some(i) = kidx(parts[1], &self.keys) else { return Some(format!("O{}", Self::sanitize(rel))) };
                           if parts[2].starts_with('.') && parts[2].ends_with(".tmp") { return Some(format!("K{i}/T{}", self.temp_no(rel))); }
                           Some(match parse_item_name(parts[2]) { Some((s, e, l, c)) => format!("K{i}/I{s}-{e}-{l}-{c}"), None => format!("K{i}/O{}", Self::sanitize(parts[2])) }) }
                    _ => Some(format!("O{}", Self::sanitize(rel))),
                }
            }
            Op::SafeFile => {
                let n = *parts.last().unwrap();
                if n.starts_with('.') && n.ends_with(".tmp") { return Some(format!("T{}", self.temp_no(rel))); }
                if rel == "dest.bin" { return Some("D".into()); }
                Some(format!("O{}", Self::sanitize(rel)))
            }
        }
    }
    fn fx(&mut self, e: &Fx) -> Option<String> {
        Some(match e {
            Fx::Create(p) => format!("c:{}", self.tok(p)?), Fx::Trunc(p) => format!("t:{}", self.tok(p)?), Fx::Write(p, n) => format!("w:{}:{n}", self.tok(p)?),
            Fx::Rename(a, b) => format!("r:{}:{}", self.tok(a)?, self.tok(b)?), Fx::Unlink(p) => format!("u:{}", self.tok(p)?), Fx::Mkdir(p) => format!("m:{}", self.tok(p)?),
            Fx::Rmdir(p) => format!("d:{}", self.tok(p)?), Fx::Chmod(p) => format!("h:{}", self.tok(p)?),
        })
    }
}

/// all regular files below `root` (relative paths, sorted)
fn walk_files(root: &Path) -> Vec<(String, u64)> {
    fn rec(dir: &Path, rel: &str, out: &mut Vec<(String, u64)>) {
        let Ok(rd) = std::fs::read_dir(dir) else { return };
        for e in rd.flatten() {
            let name = e.file_name().to_string_lossy().to_string();
            let r = if rel.is_empty() { name.clone() } else { format!("{rel}/{name}") };
            match e.metadata() { Ok(m) if m.is_dir() => rec(&e.path(), &r, out), Ok(m) => out.push((r, m.len())), Err(_) => {} }
        }
    }
    let mut out = vec![]; rec(root, "", &mut out); out.sort(); out
}

fn listing(nm: &mut Namer, root: &Path) -> String {
    let mut v: Vec<String> = walk_files(root).into_iter().filter_map(|(r, l)| nm.tok(&r).map(|t| format!("{t}:{l}"))).collect();
    v.sort(); if v.is_empty() { "-".into() } else { v.join(",") }
}

fn copy_tree(src: &Path, dst: &Path) {
    std::fs::create_dir_all(dst).unwrap();
    let Ok(rd) = std::fs::read_dir(src) else { return };
    for e in rd.flatten() {
        let (s, d) = (e.path(), dst.join(e.file_name()));
        let m = e.metadata().unwrap();
        if m.is_dir() { copy_tree(&s, &d); } else { std::fs::copy(&s, &d).unwrap(); std::fs::File::open(&d).unwrap().set_modified(m.modified().unwrap()).unwrap(); }
    }
}

// ------------------------------------------------------------------------------------------------
// running children

fn child_cmd(traced: Option<(&Path, Option<(&str, usize)>)>, mode: &str, op: Op, hist: usize, seed: u64, dir: &Path, out: &Path) -> std::process::Command {
    let exe = std::env::current_exe().unwrap();
    let mut cmd = std::process::Command::new("timeout");
    cmd.arg("-s").arg("KILL").arg("120");
    if let Some((log, when)) = traced {
        cmd.arg("strace").arg("-f").arg("-qq").arg("-s").arg("0").arg("-e").arg(format!("trace={TRACE_SET}"));
        if let Some((name, k)) = when { cmd.arg("-e").arg(format!("inject={name}:signal=SIGKILL:when={k}")); }
        cmd.arg("-o").arg(log);
    }
    cmd.arg(&exe).arg("crash-child").arg("--seed").arg(seed.to_string()).arg("--tier").arg("quick").arg("--out").arg(out);
    cmd.env("CRASH_MODE", mode).env("CRASH_OP", op.name()).env("CRASH_HIST", hist.to_string()).env("CRASH_SEED", seed.to_string()).env("CRASH_DIR", dir);
    cmd.stdout(std::process::Stdio::null()).stderr(std::process::Stdio::null());
    cmd
}

struct KRun { k: usize, dir: PathBuf, trace: Option<Trace>, status_ok: bool, listing_raw: Vec<(String, u64)> }

// ------------------------------------------------------------------------------------------------
// what was retrievable before (from the template directory, with the real loaders)

#[derive(Default)]
struct ShardBefore { files: BTreeMap<MerkleHash, MDBFileInfo>, cas: BTreeSet<MerkleHash>, chunk_probe: Vec<MerkleHash> }

fn shard_final_names(dir: &Path) -> Vec<String> {
    let mut v: Vec<String> = std::fs::read_dir(dir).map(|rd| rd.flatten().map(|e| e.file_name().to_string_lossy().to_string()).filter(|n| n.strip_suffix(".mdb").map(Namer::is_hex64).unwrap_or(false)).collect()).unwrap_or_default();
    v.sort(); v
}

/// direct (loader-independent) reading of all records of the final-named shards; `Err(name)` = a final-named file that does
/// not validate against its name
fn shard_dir_records(dir: &Path) -> Result<ShardBefore, String> {
    let mut b = ShardBefore::default();
    for name in shard_final_names(dir) {
        let bytes = std::fs::read(dir.join(&name)).map_err(|_| name.clone())?;
        if format!("{}.mdb", compute_data_hash(&bytes).hex()) != name.to_lowercase() { return Err(format!("{name}: content hash differs from the name ({} bytes)", bytes.len())); }
        let r = guarded(|| -> Result<(Vec<MDBFileInfo>, Vec<mdb_shard::cas_structs::MDBCASInfo>), mdb_shard::error::MDBShardError> {
            let info = MDBShardInfo::load_from_reader(&mut Cursor::new(&bytes))?;
            Ok((info.read_all_file_info_sections(&mut Cursor::new(&bytes))?, info.read_all_cas_blocks_full(&mut Cursor::new(&bytes))?))
        });
        match r {
            Ok(Ok((fs, cs))) => {
                for f in fs { b.files.insert(f.metadata.file_hash, f); }
                for c in cs { b.cas.insert(c.metadata.cas_hash); if let Some(ch) = c.chunks.first() { b.chunk_probe.push(ch.chunk_hash); } }
            }
            _ => return Err(format!("{name}: does not parse as a shard")),
        }
    }
    Ok(b)
}

// ------------------------------------------------------------------------------------------------
// parent

pub fn run_parent(ctx: &mut Ctx) {
    let old_hook = std::panic::take_hook();
    std::panic::set_hook(quiet_hook());
    let base = PathBuf::from(std::env::var("TMPDIR").unwrap_or("/verif/run/tmp".into())).join(format!("crash-{}-{}", std::process::id(), ctx.seed));
    let _ = std::fs::remove_dir_all(&base);
    std::fs::create_dir_all(&base).unwrap();
    // strace must be there and must be able to trace and to inject: fail loudly otherwise
    let probe = std::process::Command::new("timeout").args(["20", "strace", "-f", "-qq", "-e", "trace=write", "-e", "inject=write:signal=SIGKILL:when=1", "-o"]).arg(base.join("probe.log")).args(["sh", "-c", "echo x"])
        .stdout(std::process::Stdio::null()).stderr(std::process::Stdio::null()).status();
    let probe_ok = probe.map(|s| !s.success()).unwrap_or(false) && std::fs::read_to_string(base.join("probe.log")).map(|t| t.contains("killed by SIGKILL")).unwrap_or(false);
    if !probe_ok {
        ctx.fail("C19", "strace-failed", "strace is not available or cannot inject signals in this environment: no crash point was exercised".into(), format!("{{\"suite\":\"crash\",\"seed\":{}}}", ctx.seed));
        let _ = std::fs::remove_dir_all(&base);
        std::panic::set_hook(old_hook);
        return;
    }
    let rt = tokio::runtime::Builder::new_multi_thread().worker_threads(2).enable_all().build().unwrap();
    let ops = [Op::Flush, Op::WriteOut, Op::Consolidate, Op::Union, Op::LocalPut, Op::CachePut, Op::SafeFile];
    let seeds: Vec<u64> = (0..if ctx.quick() { 4 } else { 16 }).map(|i| if i == 0 { ctx.seed } else { ctx.seed.wrapping_mul(31).wrapping_add(i) }).collect();
    for (si, seed) in seeds.iter().enumerate() {
        for op in ops { for hist in 0..op.hists() { run_scenario(ctx, &rt, &base.join(format!("s{si}-{}-{hist}", op.name())), op, hist, *seed); } }
    }
    if std::env::var("CRASH_DEBUG").is_err() { let _ = std::fs::remove_dir_all(&base); }
    std::panic::set_hook(old_hook);
}

fn run_scenario(ctx: &mut Ctx, rt: &tokio::runtime::Runtime, sdir: &Path, op: Op, hist: usize, seed: u64) {
    let replay0 = format!("\"suite\":\"crash\",\"seed\":{seed},\"op\":\"{}\",\"hist\":{hist}", op.name());
    std::fs::create_dir_all(sdir).unwrap();
    let template = sdir.join("template");
    // ---- prior history, un-traced
    let st = child_cmd(None, "setup", op, hist, seed, &template, &sdir.join("out-setup")).status();
    if !st.map(|s| s.success()).unwrap_or(false) { ctx.fail("C19", "strace-failed", format!("set-up child of {} history {hist} failed", op.name()), format!("{{{replay0}}}")); return; }
    std::fs::create_dir_all(&template).unwrap();
    let comp_root = |d: &Path| -> PathBuf { d.to_path_buf() };
    let initial: BTreeSet<String> = walk_files(&template).into_iter().map(|x| x.0).collect();
    let keys: Vec<String> = if op == Op::CachePut { cache_scn(seed, hist).keys.iter().map(|k| key_dir_name(&k.key)).collect() } else { vec![] };
    let mut nm = Namer { op, keys, temps: vec![] };
    let prior_listing = listing(&mut nm, &template);
    let prior_temps = nm.temps.clone();

    // ---- dry run under strace: the effect sequence and the crash points
    let dry = sdir.join("dry"); copy_tree(&template, &dry);
    let dry_log = sdir.join("dry.log");
    let st = child_cmd(Some((&dry_log, None)), "op", op, hist, seed, &dry, &sdir.join("out-dry")).status();
    let text = std::fs::read_to_string(&dry_log).unwrap_or_default();
    let tr = analyse(&text, &comp_root(&dry), &initial);
    if !st.map(|s| s.success()).unwrap_or(false) || !tr.begin_seen || !tr.end_seen {
        ctx.fail("C19", "strace-failed", format!("dry run of {} history {hist} did not complete under strace (begin marker {}, end marker {})", op.name(), tr.begin_seen, tr.end_seen), format!("{{{replay0}}}"));
        return;
    }
    let n = tr.points.len();
    if tr.other_thread_clash {
        ctx.fail("C19", "strace-failed", format!("{} history {hist}: another thread performs as many calls of a system call as a crash point's ordinal: the injection would hit that thread", op.name()), format!("{{{replay0}}}"));
        return;
    }
    let ev_tokens: Vec<String> = tr.effects.iter().filter_map(|e| nm.fx(e)).collect();
    ctx.stat(&format!("op_{}", op.name()));
    ctx.stat_add("crash_points_total", n as u64);
    ctx.stat_add(&format!("crash_points_{}", op.name()), n as u64);
    for e in &tr.effects { ctx.stat(match e { Fx::Create(_) => "fx_create", Fx::Trunc(_) => "fx_trunc", Fx::Write(..) => "fx_write", Fx::Rename(..) => "fx_rename", Fx::Unlink(_) => "fx_unlink", Fx::Mkdir(_) => "fx_mkdir", Fx::Rmdir(_) => "fx_rmdir", Fx::Chmod(_) => "fx_chmod" }); }
    if tr.foreign > 0 { ctx.stat_add("foreign_writes_in_operation", tr.foreign as u64); }

    // ---- which crash points
    let ks: Vec<usize> = if !ctx.quick() || n <= 40 { (1..=n).collect() } else {
        let mut v: BTreeSet<usize> = (1..=15).chain(n - 14..=n).collect();
        let mut r = scn_rng(seed, op, hist).fork(9);
        while v.len() < 40 { v.insert(r.range(16, (n - 15) as u64) as usize); }
        v.into_iter().collect()
    };
    // ---- the crashing children, in parallel
    let jobs: Arc<Mutex<Vec<usize>>> = Arc::new(Mutex::new(ks.iter().rev().copied().collect()));
    let results: Arc<Mutex<Vec<KRun>>> = Arc::new(Mutex::new(Vec::new()));
    let points = Arc::new(tr.points.clone());
    let mut handles = Vec::new();
    for _ in 0..PAR.min(ks.len().max(1)) {
        let (jobs, results, points, template, sdir, initial) = (jobs.clone(), results.clone(), points.clone(), template.clone(), sdir.to_path_buf(), initial.clone());
        handles.push(std::thread::spawn(move || loop {
            let Some(k) = jobs.lock().unwrap().pop() else { break };
            let kd = sdir.join(format!("k{k}"));
            copy_tree(&template, &kd);
            let log = sdir.join(format!("k{k}.log"));
            let st = child_cmd(Some((&log, Some((points[k - 1].2.as_str(), points[k - 1].0)))), "op", op, hist, seed, &kd, &sdir.join(format!("out-k{k}"))).status();
            let text = std::fs::read_to_string(&log).unwrap_or_default();
            let t = analyse(&text, &kd, &initial);
            let lr = walk_files(&kd);
            results.lock().unwrap().push(KRun { k, dir: kd, trace: Some(t), status_ok: st.map(|s| s.success()).unwrap_or(false), listing_raw: lr });
        }));
    }
    for h in handles { h.join().unwrap(); }
    let mut runs = std::mem::take(&mut *results.lock().unwrap());
    runs.sort_by_key(|r| r.k);
    // the completed run is checked like a crash point "after the last effect"
    runs.push(KRun { k: n + 1, listing_raw: walk_files(&dry), dir: dry.clone(), trace: None, status_ok: true });

    // ---- parameters of the model requests
    let params = scenario_params(ctx, op, hist, seed, &template);
    ctx.op(&format!("crash.accepts op={} {} prior={} ev={}", op.name(), params, prior_listing, if ev_tokens.is_empty() { "-".to_string() } else { ev_tokens.join(",") }), "accepts");
    ctx.case(fnv(format!("{}-{hist}-{}", op.name(), ev_tokens.join(",")).as_bytes()), n >= 2);

    let before = Before::load(rt, op, hist, seed, &template);
    let mut killed_count = 0usize;
    for run in &runs {
        let replay = format!("{{{replay0},\"k\":{},\"of\":{n},\"effect\":\"{}\"}}", run.k, if run.k <= n { let j = tr.points[run.k - 1].1; format!("before call #{} ({}) after {} effects; next effect {}", run.k, tr.points[run.k - 1].2, j, ev_tokens.get(j).cloned().unwrap_or("-".into())) } else { "completed".into() });
        let mut prefix_tokens: Option<Vec<String>> = None;
        if let Some(t) = &run.trace {
            if !t.begin_seen { ctx.fail("C19", "strace-failed", format!("{} history {hist} k={}: the child died before the operation began", op.name(), run.k), replay.clone()); continue; }
            if t.killed { killed_count += 1; ctx.stat("runs_killed"); } else if run.status_ok && t.end_seen { ctx.stat("runs_completed_before_point"); } else {
                ctx.fail("C19", "strace-failed", format!("{} history {hist} k={}: child neither killed at the crash point nor completed", op.name(), run.k), replay.clone()); continue; }
            let mut nm2 = Namer { op, keys: nm.keys.clone(), temps: prior_temps.clone() };
            let toks: Vec<String> = t.effects.iter().filter_map(|e| nm2.fx(e)).collect();
            let expect = tr.points[run.k - 1].1;
            let is_prefix = toks.len() <= ev_tokens.len() && toks.iter().zip(ev_tokens.iter()).all(|(a, b)| a == b);
            if t.killed && !(is_prefix && toks.len() == expect) { ctx.stat("prefix_differs_from_dry_run"); } else { ctx.stat("prefix_as_dry_run"); }
            prefix_tokens = Some(toks);
        }
        // the observed directory, in model tokens (before any monitor touches it)
        let mut nm3 = Namer { op, keys: nm.keys.clone(), temps: prior_temps.clone() };
        if let Some(t) = &run.trace { for e in &t.effects { let _ = nm3.fx(e); } } else { for e in &tr.effects { let _ = nm3.fx(e); } }
        let mut obs: Vec<String> = run.listing_raw.iter().filter_map(|(r, l)| nm3.tok(r).map(|t| format!("{t}:{l}"))).collect();
        obs.sort();
        let obs = if obs.is_empty() { "-".to_string() } else { obs.join(",") };
        let toks = prefix_tokens.unwrap_or_else(|| ev_tokens.clone());
        // the traced cache child opens the cache first: the start-up scan (before the operation) cleans leftovers up
        let extra = if op == Op::CachePut { format!(" scan=1 cap={}", cache_scn(seed, hist).capacity) } else { String::new() };
        ctx.op(&format!("crash.state op={}{extra} prior={} ev={}", op.name(), prior_listing, if toks.is_empty() { "-".to_string() } else { toks.join(",") }), &obs);
        // ---- monitors
        before.check(ctx, rt, op, hist, seed, &run.dir, run.k > n, &replay);
    }
    ctx.stat_add("runs", runs.len() as u64);
    if killed_count == 0 && n > 0 { ctx.fail("C19", "strace-failed", format!("{} history {hist}: no child was killed at a crash point", op.name()), format!("{{{replay0}}}")); }
    if std::env::var("CRASH_DEBUG").is_err() { let _ = std::fs::remove_dir_all(sdir); }
}

/// `key=value` parameters of the scenario for the model (bulk bytes through the blob)
fn scenario_params(ctx: &mut Ctx, op: Op, hist: usize, seed: u64, template: &Path) -> String {
    let span = |ctx: &mut Ctx, b: &[u8]| { let (o, l) = ctx.blob(b); format!("{o}:{l}") };
    match op {
        Op::Flush | Op::WriteOut => { let s = shard_scn(seed, op, hist); let (_, b) = build_shard(s.new.as_ref().unwrap()); format!("new={}", span(ctx, &b)) }
        Op::Consolidate => {
            // the shard files of the prepared directory in modification-time order, as `consolidate_shards_in_directory` sorts them
            let s = shard_scn(seed, op, hist);
            let mut files: Vec<(SystemTime, String)> = shard_final_names(template).into_iter().map(|n| (std::fs::metadata(template.join(&n)).unwrap().modified().unwrap(), n)).collect();
            files.sort();
            let spans: Vec<String> = files.iter().map(|(_, n)| { let b = std::fs::read(template.join(n)).unwrap(); span(ctx, &b) }).collect();
            format!("target={} shards={}", s.target, spans.join(";")) }
        Op::Union => { let s = shard_scn(seed, op, hist); let (_, ba) = build_shard(&s.prior[0]); let (_, bb) = build_shard(&s.prior[1]); let (_, _, out, full) = union_paths(&s, Path::new("/"));
            let mut nm = Namer { op, keys: vec![], temps: vec![] };
            format!("a={} b={} out={} len={}", span(ctx, &ba), span(ctx, &bb), nm.tok(&out.file_name().unwrap().to_string_lossy()).unwrap(), full.len()) }
        Op::LocalPut => { let s = local_scn(seed, hist); format!("hash={} new={}", s.new.hash.hex(), span(ctx, &s.new.obj)) }
        Op::CachePut => { let s = cache_scn(seed, hist); let (k, a, b) = s.new; let (offs, data) = s.keys[k].slice(a, b);
            let mut content = Vec::new(); content.extend_from_slice(&(offs.len() as u32).to_le_bytes()); for o in &offs { content.extend_from_slice(&o.to_le_bytes()); } content.extend_from_slice(&data);
            let items: Vec<String> = s.prior.iter().map(|(k, a, b)| format!("{k}.{a}.{b}")).collect();
            format!("key={k} range={a}.{b} cap={} items={} new={}", s.capacity, if items.is_empty() { "-".into() } else { items.join(";") }, span(ctx, &content)) }
        Op::SafeFile => { let s = safe_scn(seed, hist); let all: Vec<u8> = s.pieces.concat(); format!("mode={} new={}", ["new", "replace", "unnamed"][s.mode], span(ctx, &all)) }
    }
}

// ------------------------------------------------------------------------------------------------
// monitors

enum Before {
    Shard { recs: ShardBefore, union_out: Option<(String, Vec<u8>)> },
    Local { prior: Vec<(MerkleHash, Vec<u8>)>, new: (MerkleHash, Vec<u8>) },
    Cache { scn: CacheScn },
    Safe { old: Option<Vec<u8>>, new: Vec<u8> },
}

impl Before {
    fn load(_rt: &tokio::runtime::Runtime, op: Op, hist: usize, seed: u64, template: &Path) -> Before {
        match op {
            _ if op.is_shard() => {
                let mut recs = shard_dir_records(template).expect("template shard directory is valid");
                // baseline with the real loaders on the template: only what is retrievable before has to stay retrievable
                let m = _rt.block_on(ShardFileManager::new_in_session_directory(template)).expect("template opens");
                let shards = MDBShardFile::load_all_valid(template).expect("template loads");
                recs.chunk_probe.retain(|ch| shards.iter().any(|sf| matches!(sf.chunk_hash_dedup_query(&[*ch]), Ok(Some(_)))));
                recs.files.retain(|h, f| matches!(_rt.block_on(m.get_file_reconstruction_info(h)), Ok(Some((g, _))) if g.segments == f.segments));
                let union_out = if op == Op::Union { let s = shard_scn(seed, op, hist); let (_, _, out, full) = union_paths(&s, template); Some((out.file_name().unwrap().to_string_lossy().to_string(), full)) } else { None };
                Before::Shard { recs, union_out }
            }
            Op::LocalPut => { let s = local_scn(seed, hist); Before::Local { prior: s.prior.iter().map(|x| (x.hash, x.data.clone())).collect(), new: (s.new.hash, s.new.data.clone()) } }
            Op::CachePut => Before::Cache { scn: cache_scn(seed, hist) },
            _ => { let s = safe_scn(seed, hist); Before::Safe { old: s.old.clone(), new: s.pieces.concat() } }
        }
    }

    fn check(&self, ctx: &mut Ctx, rt: &tokio::runtime::Runtime, op: Op, hist: usize, _seed: u64, dir: &Path, completed: bool, replay: &str) {
        let what = format!("{} history {hist}", op.name());
        match self {
            Before::Shard { recs, union_out } => {
                // (a) every final-named file validates against its name (read directly)
                let after = match shard_dir_records(dir) {
                    Ok(a) => Some(a),
                    Err(e) => { ctx.fail("C19", "partial-final-file", format!("{what}: a shard file under a final name is not complete / consistent with its name: {e}"), replay.to_string()); None }
                };
                if let Some((name, full)) = union_out {
                    match std::fs::read(dir.join(name)) { Ok(b) if &b != full => ctx.fail("C19", "partial-final-file", format!("{what}: the union output {name} exists with {} bytes but is not the complete union ({} bytes)", b.len(), full.len()), replay.to_string()),
                        Err(_) if completed => ctx.fail("C19", "record-lost-after-crash", format!("{what}: union output missing after the completed operation"), replay.to_string()), _ => {} }
                }
                // (b) direct: keys before ⊆ keys after
                if let Some(a) = &after {
                    let lost_f = recs.files.keys().filter(|h| !a.files.contains_key(*h)).count();
                    let lost_c = recs.cas.iter().filter(|h| !a.cas.contains(*h)).count();
                    if lost_f + lost_c > 0 { ctx.fail("C19", "record-lost-after-crash", format!("{what}: {lost_f} file records and {lost_c} xorb records held by the shard files before are in no shard file after the crash"), replay.to_string()); }
                }
                // (c) restart with the real loaders: leftovers must not break them; everything retrievable before still is
                let d = dir.to_path_buf();
                let loaded = guarded(|| MDBShardFile::load_all_valid(&d).map(|v| v.len()));
                let sfm = guarded(|| rt.block_on(ShardFileManager::new_in_session_directory(&d)));
                let sfm_str = match &sfm { Ok(Ok(_)) => "ok".to_string(), Ok(Err(e)) => { let mut s = format!("error({e:?})"); s.truncate(160); s } Err(()) => "panic".into() };
                match (&loaded, &sfm) {
                    (Ok(Ok(_)), Ok(Ok(_))) => {}
                    _ => { if after.is_some() { ctx.fail("C19", "leftover-breaks-restart", format!("{what}: every final-named shard validates, yet re-opening the directory fails (load_all_valid: {}, ShardFileManager: {})", res_str(&loaded), sfm_str), replay.to_string()); } }
                }
                if let Ok(Ok(m)) = sfm {
                    let mut lost = 0usize; let mut changed = 0usize;
                    for (h, f) in &recs.files {
                        if *h == MerkleHash::default() { continue; }
                        match guarded(|| rt.block_on(m.get_file_reconstruction_info(h))) { Ok(Ok(Some((g, _)))) => { if g.segments != f.segments { changed += 1; } } _ => lost += 1 }
                    }
                    // chunk lookups: asked of every loaded shard file directly (the manager's in-memory index keeps one row per
                    // truncated hash, so with engineered 64-bit prefix collisions its answer depends on the registration order;
                    // that is recorded as a statistic only)
                    let shards = guarded(|| MDBShardFile::load_all_valid(dir)).ok().and_then(|r| r.ok()).unwrap_or_default();
                    let mut lost_chunks = 0usize;
                    for ch in &recs.chunk_probe {
                        let hit = shards.iter().any(|sf| matches!(guarded(|| sf.chunk_hash_dedup_query(&[*ch])), Ok(Ok(Some(_)))));
                        if !hit { lost_chunks += 1; }
                        if !matches!(guarded(|| rt.block_on(m.chunk_hash_dedup_query(&[*ch]))), Ok(Ok(Some(_)))) { ctx.stat("manager_index_miss_for_colliding_truncated_hash"); }
                    }
                    if lost + changed + lost_chunks > 0 { ctx.fail("C19", "record-lost-after-crash", format!("{what}: after restart {lost} file records are not found, {changed} come back with other segments, {lost_chunks} chunk lookups that hit before miss"), replay.to_string()); }
                    ctx.stat_add("shard_records_checked", (recs.files.len() + recs.chunk_probe.len()) as u64);
                }
            }
            Before::Local { prior, new } => {
                let xd = dir.join("xorbs");
                let mut bad = None;
                for e in std::fs::read_dir(&xd).into_iter().flatten().flatten() {
                    let n = e.file_name().to_string_lossy().to_string();
                    let Some(h) = n.strip_prefix("default.").filter(|h| Namer::is_hex64(h)) else { continue };
                    let hash = MerkleHash::from_hex(h).unwrap();
                    let bytes = std::fs::read(e.path()).unwrap_or_default();
                    match guarded(|| CasObject::validate_cas_object(&mut Cursor::new(&bytes), &hash)) { Ok(Ok(Some(_))) => {} _ => { bad = Some(format!("{n} ({} bytes)", bytes.len())); } }
                }
                if let Some(b) = &bad { ctx.fail("C19", "partial-final-file", format!("{what}: xorb file under a final name does not validate for the hash in its name: {b}"), replay.to_string()); }
                let d = dir.to_path_buf();
                let client = guarded(|| rt.block_on(async { LocalClient::new(&d, None) }));
                let Ok(Ok(client)) = client else { if bad.is_none() { ctx.fail("C19", "leftover-breaks-restart", format!("{what}: re-opening the local store fails"), replay.to_string()); } return; };
                match guarded(|| client.get_all_entries()) { Ok(Ok(v)) => { let known: BTreeSet<MerkleHash> = prior.iter().map(|p| p.0).chain([new.0]).collect(); if v.iter().any(|k| !known.contains(&k.hash)) { ctx.fail("C19", "leftover-breaks-restart", format!("{what}: the store lists an entry that was never put (a leftover is visible)"), replay.to_string()); } }
                    _ => ctx.fail("C19", "leftover-breaks-restart", format!("{what}: listing the store fails"), replay.to_string()) }
                for (h, data) in prior {
                    let ex = guarded(|| rt.block_on(client.exists("default", h)));
                    let got = guarded(|| client.get(h));
                    if !matches!(ex, Ok(Ok(true))) || !matches!(&got, Ok(Ok(g)) if g == data) { ctx.fail("C19", "record-lost-after-crash", format!("{what}: a xorb stored before is no longer retrievable (exists: {}, get: {})", res_str(&ex), res_str(&got.map(|r| r.map(|v| v.len())))), replay.to_string()); }
                }
                let ex = guarded(|| rt.block_on(client.exists("default", &new.0)));
                match ex {
                    Ok(Ok(false)) => { if completed { ctx.fail("C19", "record-lost-after-crash", format!("{what}: the xorb is missing after the completed put"), replay.to_string()); } }
                    Ok(Ok(true)) => { if !matches!(guarded(|| client.get(&new.0)), Ok(Ok(g)) if g == new.1) { ctx.fail("C19", "partial-final-file", format!("{what}: the xorb being written exists but does not return its data"), replay.to_string()); } }
                    _ => ctx.fail("C19", "partial-final-file", format!("{what}: `exists` on the xorb being written fails: {}", res_str(&ex)), replay.to_string()),
                }
                ctx.stat_add("xorbs_checked", prior.len() as u64 + 1);
            }
            Before::Cache { scn } => {
                // (a) directly: every file whose name parses as an item has the length and checksum of its name
                for (rel, len) in walk_files(dir) {
                    let parts: Vec<&str> = rel.split('/').collect();
                    if parts.len() != 3 { continue; }
                    if let Some((_, _, l, c)) = parse_item_name(parts[2]) {
                        let bytes = std::fs::read(dir.join(&rel)).unwrap_or_default();
                        if l != len || crc32fast::hash(&bytes) != c { ctx.fail("C19", "partial-final-file", format!("{what}: cache file {rel} has {len} bytes / crc {} but its name says {l} / {c}", crc32fast::hash(&bytes)), replay.to_string()); }
                    }
                }
                // (b) restart
                let d = dir.to_path_buf(); let cap = scn.capacity;
                let cache = match guarded(|| DiskCache::initialize(&CacheConfig { cache_directory: d, cache_size: cap })) { Ok(Ok(c)) => c, r => { ctx.fail("C19", "leftover-breaks-restart", format!("{what}: re-opening the cache fails: {}", res_str(&r.map(|x| x.map(|_| ())))), replay.to_string()); return; } };
                let mut misses = 0usize;
                let mut all: Vec<(usize, u32, u32, bool)> = scn.prior.iter().map(|(k, a, b)| (*k, *a, *b, false)).collect();
                all.push((scn.new.0, scn.new.1, scn.new.2, true));
                for (k, a, b, is_new) in all {
                    let (offs, data) = scn.keys[k].slice(a, b);
                    match guarded(|| cache.get(&scn.keys[k].key, &ChunkRange { start: a, end: b })) {
                        Ok(Ok(Some(r))) => { if r.data.as_ref() != &data[..] || r.offsets.as_ref() != &offs[..] { ctx.fail("C19", "partial-final-file", format!("{what}: after restart `get` of key {k} [{a},{b}) returns wrong data"), replay.to_string()); } }
                        Ok(Ok(None)) => { if is_new { if completed && !scn.evicting { ctx.fail("C19", "record-lost-after-crash", format!("{what}: the item is missing after the completed put"), replay.to_string()); } }
                                           else if !scn.evicting { ctx.fail("C19", "record-lost-after-crash", format!("{what}: item key {k} [{a},{b}) that was a hit before is a miss after the crash (no eviction was due)"), replay.to_string()); } else { misses += 1; } }
                        r => ctx.fail("C19", "leftover-breaks-restart", format!("{what}: `get` of key {k} [{a},{b}) fails after restart: {}", res_str(&r.map(|x| x.map(|_| ())))), replay.to_string()),
                    }
                }
                // an evicting put may drop items, but only as many as it has to: never more than all but one
                if scn.evicting && misses > scn.prior.len() { ctx.fail("C19", "record-lost-after-crash", format!("{what}: more misses than items"), replay.to_string()); }
                if scn.evicting { ctx.stat_add("cache_misses_after_evicting_put", misses as u64); }
                // leftovers are cleaned up by the scan or at least invisible
                ctx.stat_add("cache_items_checked", scn.prior.len() as u64 + 1);
            }
            Before::Safe { old, new } => {
                match std::fs::read(dir.join("dest.bin")) {
                    Ok(b) => { if &b != new && Some(&b) != old.as_ref() { ctx.fail("C19", "partial-final-file", format!("{what}: destination has {} bytes: neither the complete new content ({}) nor the old one", b.len(), new.len()), replay.to_string()); }
                               if completed && &b != new { ctx.fail("C19", "record-lost-after-crash", format!("{what}: destination does not hold the new content after close"), replay.to_string()); } }
                    Err(_) => { if old.is_some() { ctx.fail("C19", "record-lost-after-crash", format!("{what}: the existing destination vanished"), replay.to_string()); } if completed { ctx.fail("C19", "record-lost-after-crash", format!("{what}: destination missing after close"), replay.to_string()); } }
                }
                for (rel, _) in walk_files(dir) { let n = rel.rsplit('/').next().unwrap(); if rel != "dest.bin" && !(n.starts_with('.') && n.ends_with(".tmp")) { ctx.fail("C19", "leftover-breaks-restart", format!("{what}: unexpected file {rel}"), replay.to_string()); } }
            }
        }
    }
}

fn res_str<T: std::fmt::Debug, E: std::fmt::Debug>(r: &Result<Result<T, E>, ()>) -> String {
    match r { Ok(Ok(v)) => { let mut s = format!("ok({v:?})"); s.truncate(60); s } Ok(Err(e)) => { let mut s = format!("error({e:?})"); s.truncate(160); s } Err(()) => "panic".into() }
}
