//! Suite `manager` (C05 manager layer, C18 dedup through keyed shards, C11 lookup): real `ShardFileManager`
//! histories of add / flush / register / keyed export, replayed through the Lean `Mgr` model.
use std::collections::{BTreeMap, BTreeSet};
use std::path::{Path, PathBuf};
use std::time::Duration;

use mdb_shard::cas_structs::MDBCASInfo;
use mdb_shard::file_structs::MDBFileInfo;
use mdb_shard::shard_file_reconstructor::FileReconstructor;
use mdb_shard::shard_in_memory::MDBInMemoryShard;
use mdb_shard::{MDBShardFile, ShardFileManager};
use merklehash::MerkleHash;

use crate::ctx::{fnv, run_children, Ctx};
use crate::suites::hashes::rand_hash;
use crate::suites::shard::{cas_bytes, file_bytes, gen_content, gen_queries, truthful, Gen};

pub fn run_parent(ctx: &mut Ctx) {
    let cfgs: Vec<Vec<(String, String)>> = [(64u64 << 20, 64usize << 20), (3000, 64 << 20), (1500, 40), (64 << 20, 25)].iter().map(|(ms, mi)| vec![
        ("HF_XET_MDB_SHARD_MIN_TARGET_SIZE".to_string(), ms.to_string()), ("HF_XET_CHUNK_INDEX_TABLE_MAX_SIZE".to_string(), mi.to_string())]).collect();
    run_children(ctx, "manager-child", &cfgs);
}

fn mdb_files(dir: &Path) -> BTreeSet<PathBuf> {
    std::fs::read_dir(dir).map(|rd| rd.filter_map(|e| e.ok()).map(|e| e.path()).filter(|p| p.extension().map(|x| x == "mdb").unwrap_or(false)).collect()).unwrap_or_default()
}

fn answer_str(a: &Option<(usize, mdb_shard::file_structs::FileDataSequenceEntry)>) -> String {
    match a { None => "none".into(), Some((n, s)) => format!("n={} cas={} flags={} bytes={} s={} e={}", n, s.cas_hash.hex(), s.cas_flags, s.unpacked_segment_bytes, s.chunk_index_start, s.chunk_index_end) }
}

pub fn run_child(ctx: &mut Ctx) {
    let minsize: u64 = std::env::var("HF_XET_MDB_SHARD_MIN_TARGET_SIZE").unwrap().parse().unwrap();
    let maxidx: usize = std::env::var("HF_XET_CHUNK_INDEX_TABLE_MAX_SIZE").unwrap().parse().unwrap();
    let rt = tokio::runtime::Builder::new_current_thread().build().unwrap();
    let tmp_root = PathBuf::from(std::env::var("TMPDIR").unwrap_or("/verif/run/tmp".into())).join(format!("manager-{}-{}", std::process::id(), ctx.seed));
    let ncases = if ctx.quick() { 14 } else { 160 };
    for case_no in 0..ncases {
        let mut rng = ctx.rng.fork(80_000 + case_no);
        let dir = tmp_root.join(format!("m{case_no}"));
        let side = tmp_root.join(format!("side{case_no}"));
        std::fs::create_dir_all(&dir).unwrap(); std::fs::create_dir_all(&side).unwrap();
        let mgr = rt.block_on(ShardFileManager::new_in_session_directory(&dir)).unwrap();
        let mut ops: Vec<String> = Vec::new();
        let mut outs: Vec<String> = Vec::new();
        let mut world_cas: BTreeMap<MerkleHash, MDBCASInfo> = BTreeMap::new();   // every block that is findable (unkeyed view)
        let mut world_files: BTreeMap<MerkleHash, MDBFileInfo> = BTreeMap::new();
        let mut all_gen = Gen { cas: vec![], files: vec![] };
        let mut known = mdb_files(&dir);
        let mut reg: Vec<(PathBuf, MerkleHash)> = Vec::new();   // shard files in registration order, with their HMAC key
        let mut iso_checks = 0;
        let replay = format!("{{\"suite\":\"manager\",\"seed\":{},\"case\":{},\"minsize\":{},\"maxidx\":{}}}", ctx.seed, case_no, minsize, maxidx);
        let nsteps = rng.range(6, 30);
        // note new shard files written by the manager (size-triggered or explicit flush)
        macro_rules! note_flush { () => {{
            let now = mdb_files(&dir);
            let new: Vec<PathBuf> = now.difference(&known).cloned().collect();
            for p in &new { let b = std::fs::read(p).unwrap(); let (o, l) = ctx.blob(&b); ops.push(format!("F:{o}:{l}")); outs.push("F:same".into()); reg.push((p.clone(), MerkleHash::default())); }
            known = now;
            new.len()
        }}; }
        for _ in 0..nsteps {
            match rng.below(11) {
                10 => { // SEVERAL keyed exports under different new keys registered in ONE call (as when a manager is opened on a
                        // directory that already holds them); a batch is registered newest first, so the request lists them in that order
                    let k = rng.range(2, 3) as usize;
                    let mut batch: Vec<(std::sync::Arc<MDBShardFile>, MerkleHash, Gen, bool, bool, bool)> = Vec::new();
                    for bi in 0..k {
                        let (n1, n2) = (rng.range(1, 4) as usize, rng.range(0, 2) as usize);
                        let g = gen_content(&mut rng, n1, n2, 0, false);
                        let mut mem = MDBInMemoryShard::default(); for c in &g.cas { mem.add_cas_block(c.clone()).unwrap(); } for f in &g.files { mem.add_file_reconstruction_info(f.clone()).unwrap(); }
                        let p = mem.write_to_directory(&side).unwrap(); let sf = MDBShardFile::load_from_file(&p).unwrap();
                        let key = rand_hash(&mut rng);
                        let (fi, ci, ki) = (rng.chance(1, 2), rng.chance(1, 2), rng.chance(2, 3));
                        let ex = sf.export_as_keyed_shard(&dir, key, Duration::from_secs(3600), fi, ci, ki).unwrap();
                        // distinct modification times: entry bi is older than entry bi+1
                        let t = std::time::SystemTime::UNIX_EPOCH + Duration::from_secs(1_700_000_000 + 10 * bi as u64);
                        std::fs::File::options().write(true).open(&ex.path).unwrap().set_modified(t).unwrap();
                        let ex = MDBShardFile::load_from_file(&ex.path).unwrap();
                        batch.push((ex, key, g, fi, ci, ki));
                    }
                    let handles: Vec<std::sync::Arc<MDBShardFile>> = batch.iter().map(|b| b.0.clone()).collect();
                    rt.block_on(mgr.register_shards(&handles)).unwrap();
                    for (ex, key, _, _, _, _) in batch.iter().rev() {
                        let b = std::fs::read(&ex.path).unwrap(); let (o, l) = ctx.blob(&b); ops.push(format!("R:{o}:{l}")); outs.push("R".into()); reg.push((ex.path.clone(), *key)); known.insert(ex.path.clone());
                    }
                    for (_, _, g, fi, ci, ki) in batch.iter() {
                        let keys: Vec<u64> = g.cas.iter().flat_map(|c| c.chunks.iter().map(|ch| ch.chunk_hash[0])).collect();
                        let uniq = keys.iter().collect::<BTreeSet<_>>().len() == keys.len();
                        for c in &g.cas { if c.chunks.is_empty() { continue; } let q: Vec<MerkleHash> = c.chunks.iter().take(4).map(|x| x.chunk_hash).collect();
                            let a = rt.block_on(mgr.chunk_hash_dedup_query(&q)).unwrap();
                            if a.is_none() && uniq && maxidx > 64 && !world_cas.values().any(|w| w.chunks.iter().any(|x| x.chunk_hash[0] == q[0][0])) { ctx.fail("C18", "keyed-shard-not-found", format!("a chunk run of a shard registered only in keyed form, together with shards under other new keys in one register_shards call (file_info={fi}, cas_table={ci}, chunk_table={ki}), is not found (case {case_no})"), replay.clone()); } }
                    }
                    for (_, _, g, fi, _, _) in batch { for c in g.cas { world_cas.insert(c.metadata.cas_hash, c.clone()); all_gen.cas.push(c); } if fi { for f in g.files { world_files.insert(f.metadata.file_hash, f.clone()); all_gen.files.push(f); } } }
                    ctx.stat("batch_registrations_of_several_keys");
                }
                0 | 1 | 2 => { // add a CAS block
                    let dist = rng.below(4);
                    let g = gen_content(&mut rng, 1, 0, dist, false);
                    for c in g.cas { let b = cas_bytes(&c); let (o, l) = ctx.blob(&b); ops.push(format!("c:{o}:{l}")); rt.block_on(mgr.add_cas_block(c.clone())).unwrap(); world_cas.insert(c.metadata.cas_hash, c.clone()); all_gen.cas.push(c);
                        let flushed = note_flush!(); outs.insert(outs.len() - flushed, if flushed > 0 { "c!".into() } else { "c".into() }); }
                }
                3 | 4 => { let g = gen_content(&mut rng, 0, 1, 0, false);
                    for f in g.files { let b = file_bytes(&f); let (o, l) = ctx.blob(&b); ops.push(format!("f:{o}:{l}")); rt.block_on(mgr.add_file_reconstruction_info(f.clone())).unwrap(); world_files.insert(f.metadata.file_hash, f.clone()); all_gen.files.push(f);
                        let flushed = note_flush!(); outs.insert(outs.len() - flushed, if flushed > 0 { "f!".into() } else { "f".into() }); } }
                5 => { // explicit flush
                    let r = rt.block_on(mgr.flush()).unwrap();
                    let n = note_flush!();
                    if r.is_none() && n == 0 { ops.push("F:-".into()); outs.push("F:empty".into()); } }
                6 => { // register an external shard (built on the side, copied into the directory)
                    let (n1, n2) = (rng.range(1, 5) as usize, rng.range(0, 4) as usize);
                    let d = rng.below(4); let g = gen_content(&mut rng, n1, n2, d, false);
                    let mut mem = MDBInMemoryShard::default(); for c in &g.cas { mem.add_cas_block(c.clone()).unwrap(); } for f in &g.files { mem.add_file_reconstruction_info(f.clone()).unwrap(); }
                    let p = mem.write_to_directory(&side).unwrap(); let dest = dir.join(p.file_name().unwrap()); std::fs::copy(&p, &dest).unwrap();
                    rt.block_on(mgr.register_shards_by_path(&[&dest])).unwrap();
                    let b = std::fs::read(&dest).unwrap(); let (o, l) = ctx.blob(&b); ops.push(format!("R:{o}:{l}")); outs.push("R".into()); reg.push((dest.clone(), MerkleHash::default())); known.insert(dest);
                    for c in g.cas { world_cas.insert(c.metadata.cas_hash, c.clone()); all_gen.cas.push(c); } for f in g.files { world_files.insert(f.metadata.file_hash, f.clone()); all_gen.files.push(f); } }
                7 => { // keyed export of a shard that is NOT itself registered: dedup must work through the keyed form only
                    let (n1, n2) = (rng.range(1, 5) as usize, rng.range(0, 3) as usize);
                    let d = rng.below(4); let g = gen_content(&mut rng, n1, n2, d, false);
                    let mut mem = MDBInMemoryShard::default(); for c in &g.cas { mem.add_cas_block(c.clone()).unwrap(); } for f in &g.files { mem.add_file_reconstruction_info(f.clone()).unwrap(); }
                    let p = mem.write_to_directory(&side).unwrap(); let sf = MDBShardFile::load_from_file(&p).unwrap();
                    let key = if rng.chance(1, 4) { MerkleHash::default() } else { rand_hash(&mut rng) };
                    let (fi, ci, ki) = (rng.chance(1, 2), rng.chance(1, 2), rng.chance(2, 3));
                    let ex = sf.export_as_keyed_shard(&dir, key, Duration::from_secs(3600), fi, ci, ki).unwrap();
                    rt.block_on(mgr.register_shards(&[ex.clone()])).unwrap();
                    let b = std::fs::read(&ex.path).unwrap(); let (o, l) = ctx.blob(&b); ops.push(format!("R:{o}:{l}")); outs.push("R".into()); reg.push((ex.path.clone(), key)); known.insert(ex.path.clone());
                    // C18 monitor: every run of the source shard is found through the keyed shard (no truncated collisions among its keys)
                    let keys: Vec<u64> = g.cas.iter().flat_map(|c| c.chunks.iter().map(|ch| ch.chunk_hash[0])).collect();
                    let uniq = keys.iter().collect::<BTreeSet<_>>().len() == keys.len();
                    for c in &g.cas { if c.chunks.is_empty() || c.chunks.len() > 60_000 { continue; } let q: Vec<MerkleHash> = c.chunks.iter().take(4).map(|x| x.chunk_hash).collect();
                        let a = rt.block_on(mgr.chunk_hash_dedup_query(&q)).unwrap();
                        let indexed = maxidx > 64; // with a tiny index cap the table is legitimately incomplete
                        if a.is_none() && uniq && indexed && !world_cas.values().any(|w| w.chunks.iter().any(|x| x.chunk_hash[0] == q[0][0])) { ctx.fail("C18", "keyed-shard-not-found", format!("a chunk run of a shard registered only in keyed form (file_info={fi}, cas_table={ci}, chunk_table={ki}) is not found (case {case_no})"), replay.clone()); } }
                    for c in g.cas { world_cas.insert(c.metadata.cas_hash, c.clone()); all_gen.cas.push(c); }
                    if fi { for f in g.files { world_files.insert(f.metadata.file_hash, f.clone()); all_gen.files.push(f); } } }
                _ => { // queries
                    for q in gen_queries(&mut rng, &all_gen, 3) {
                        if q.is_empty() { continue; }
                        let a = rt.block_on(mgr.chunk_hash_dedup_query(&q)).unwrap();
                        if let Err(e) = truthful(&a, &q, &world_cas, None) { ctx.fail("C05", "manager-untruthful", format!("shard manager dedup answer not truthful: {e} (case {case_no})"), replay.clone()); }
                        ops.push(format!("q:{}", q.iter().map(|h| h.hex()).collect::<Vec<_>>().join(","))); outs.push(format!("q[{}]", answer_str(&a)));
                        ctx.stat(if a.is_some() { "query_hit" } else { "query_miss" });
                        // C11 monitor (lookup completeness): while fewer chunks than the index cap are registered at all, a chunk that is
                        // stored in some xorb at an offset <= u16::MAX and shares its truncated hash with no other stored chunk is found
                        if a.is_none() {
                            let total_chunks: usize = world_cas.values().map(|w| w.chunks.len()).sum();
                            let holders = world_cas.values().flat_map(|w| w.chunks.iter().enumerate()).filter(|(_, x)| x.chunk_hash[0] == q[0][0]).collect::<Vec<_>>();
                            if total_chunks < maxidx && holders.len() == 1 && holders[0].1.chunk_hash == q[0] && holders[0].0 <= u16::MAX as usize {
                                ctx.fail("C11", "registered-chunk-not-found", format!("a stored chunk (unique truncated hash, offset {} in its xorb, {total_chunks} chunks registered in all, index cap {maxidx}) is not found by the shard manager (case {case_no})", holders[0].0), replay.clone());
                            }
                        }
                        // C18 monitor (collections do not shadow each other): a query that the shards of ONE key alone answer is also
                        // answered when shards under other keys are registered next to them (index cap out of play)
                        if a.is_none() && maxidx >= (1 << 20) && iso_checks < 6 && reg.iter().map(|r| r.1).collect::<BTreeSet<_>>().len() > 1 {
                            iso_checks += 1;
                            for key in reg.iter().map(|r| r.1).collect::<BTreeSet<_>>() {
                                let iso = tmp_root.join(format!("iso{case_no}-{iso_checks}-{}", &key.hex()[..8]));
                                std::fs::create_dir_all(&iso).unwrap();
                                let m1 = rt.block_on(ShardFileManager::new_in_session_directory(&iso)).unwrap();
                                // (registered shards must live in the manager's own directory: copy them there, keep the order)
                                let copies: Vec<PathBuf> = reg.iter().filter(|r| r.1 == key).map(|r| { let d = iso.join(r.0.file_name().unwrap()); std::fs::copy(&r.0, &d).unwrap(); d }).collect();
                                // one at a time: a batch is re-ordered by modification time before it is registered
                                for p in &copies { rt.block_on(m1.register_shards_by_path(&[p])).unwrap(); }
                                let a1 = rt.block_on(m1.chunk_hash_dedup_query(&q)).unwrap();
                                if a1.is_some() {
                                    ctx.fail("C18", "other-collection-shadows-hit", format!("the shards under key {}.. alone answer the query {:?}, but with the shards of the other keys registered as well the manager answers not-found (case {case_no})", &key.hex()[..8], a1.as_ref().map(|x| (x.0, x.1.cas_hash.hex()))), replay.clone());
                                }
                                ctx.stat("isolated_collection_checks");
                                let _ = std::fs::remove_dir_all(&iso);
                            }
                        }
                    }
                    if !world_files.is_empty() { let hs: Vec<MerkleHash> = world_files.keys().copied().collect(); let h = if rng.chance(3, 4) { *rng.pick(&hs) } else { rand_hash(&mut rng) };
                        match rt.block_on(mgr.get_file_reconstruction_info(&h)) {
                            Ok(Some((f, _))) => { if world_files.get(&h).map(|w| w.metadata.file_hash) != Some(f.metadata.file_hash) { ctx.fail("C09", "manager-file-lookup", "manager returned a record for another file hash".into(), replay.clone()); } ops.push(format!("g:{}", h.hex())); outs.push(format!("g[some:{}]", fnv(&file_bytes(&f)))); }
                            Ok(None) => { ops.push(format!("g:{}", h.hex())); outs.push("g[none]".into()); }
                            Err(_) => { ops.push(format!("g:{}", h.hex())); outs.push("g[err:collision]".into()); } } }
                }
            }
        }
        ctx.op(&format!("mgr.run maxidx={maxidx} minsize={minsize} ops={}", ops.join(";")), &outs.join(" "));
        ctx.stat_add("manager_ops", ops.len() as u64);
        ctx.case(fnv(ops.join(";").as_bytes()), ops.len() >= 4);
        let _ = std::fs::remove_dir_all(&dir); let _ = std::fs::remove_dir_all(&side);
    }
    // ---- directed (C18): a chunk of a shard registered only in keyed form shares its truncated hash with a chunk of an unkeyed
    // shard; the unkeyed collection's candidate fails verification and the lookup must go on to the keyed collection
    for round in 0..(if maxidx < (1 << 20) { 0 } else if ctx.quick() { 6 } else { 40 }) {
        let mut rng = ctx.rng.fork(97_000 + round);
        let dir = tmp_root.join(format!("shadow{round}"));
        let side = tmp_root.join(format!("shadow-side{round}"));
        std::fs::create_dir_all(&dir).unwrap(); std::fs::create_dir_all(&side).unwrap();
        let mgr = rt.block_on(ShardFileManager::new_in_session_directory(&dir)).unwrap();
        let n1 = rng.range(1, 3) as usize;
        let mut gk = gen_content(&mut rng, n1, 0, 0, false);
        let mut seen = BTreeSet::new();
        for c in gk.cas.iter_mut() { for ch in c.chunks.iter_mut() { while !seen.insert(ch.chunk_hash[0]) { ch.chunk_hash = rand_hash(&mut rng); } } }
        let Some(target_x) = gk.cas.iter().find(|c| !c.chunks.is_empty()).cloned() else { continue; };
        let q: Vec<MerkleHash> = target_x.chunks.iter().take(3).map(|c| c.chunk_hash).collect();
        // the unkeyed shard: one xorb holding a chunk with the same first 8 bytes as q[0] but another hash
        let mut gu = gen_content(&mut rng, 1, 0, 0, false);
        if gu.cas[0].chunks.is_empty() { continue; }
        for ch in gu.cas[0].chunks.iter_mut() { while !seen.insert(ch.chunk_hash[0]) { ch.chunk_hash = rand_hash(&mut rng); } }
        { let k = rng.below(gu.cas[0].chunks.len() as u64) as usize; let mut h = q[0]; h[1] ^= 0x5a5a; h[2] = h[2].wrapping_add(1); gu.cas[0].chunks[k].chunk_hash = h; }
        let write = |g: &Gen| { let mut mem = MDBInMemoryShard::default(); for c in &g.cas { mem.add_cas_block(c.clone()).unwrap(); } mem.write_to_directory(&side).unwrap() };
        let pu = write(&gu); let pk = write(&gk);
        let key = rand_hash(&mut rng);
        let keyed_first = rng.chance(1, 2);
        let (ci, ki) = (rng.chance(1, 2), rng.chance(1, 2));
        let register_unkeyed = |mgr: &std::sync::Arc<ShardFileManager>| { let dest = dir.join(pu.file_name().unwrap()); std::fs::copy(&pu, &dest).unwrap(); rt.block_on(mgr.register_shards_by_path(&[&dest])).unwrap(); };
        let register_keyed = |mgr: &std::sync::Arc<ShardFileManager>| { let sf = MDBShardFile::load_from_file(&pk).unwrap(); let ex = sf.export_as_keyed_shard(&dir, key, Duration::from_secs(3600), false, ci, ki).unwrap(); rt.block_on(mgr.register_shards(&[ex])).unwrap(); };
        if keyed_first { register_keyed(&mgr); register_unkeyed(&mgr); } else { register_unkeyed(&mgr); register_keyed(&mgr); }
        let a = rt.block_on(mgr.chunk_hash_dedup_query(&q)).unwrap();
        let mut world: BTreeMap<MerkleHash, MDBCASInfo> = BTreeMap::new();
        for c in gk.cas.iter().chain(gu.cas.iter()) { world.insert(c.metadata.cas_hash, c.clone()); }
        if let Err(e) = truthful(&a, &q, &world, None) { ctx.fail("C05", "manager-untruthful", format!("shard manager dedup answer not truthful: {e} (directed shadow round {round})"), "null".into()); }
        if a.is_none() {
            ctx.fail("C18", "other-collection-shadows-hit", format!("a chunk run stored only in a shard under key {}.. is not found through the manager when an unkeyed shard holds a chunk with the same truncated hash (registered {}; cas_table={ci}, chunk_table={ki}; round {round})", &key.hex()[..8], if keyed_first { "keyed first" } else { "unkeyed first" }),
                     format!("{{\"suite\":\"manager\",\"seed\":{},\"shadow_round\":{round}}}", ctx.seed));
        }
        ctx.stat("directed_shadow_rounds");
        drop(mgr);
        let _ = std::fs::remove_dir_all(&dir); let _ = std::fs::remove_dir_all(&side);
    }
    // ---- directed (C11): the file of a registered shard vanishes from the directory while the manager lives (the shard cache
    // evicted it); a shard registered afterwards records the same chunks again (the session that could not find them stored them
    // as new data); a lookup after that must find them in the new shard
    for round in 0..(if maxidx < (1 << 20) { 0 } else if ctx.quick() { 6 } else { 40 }) {
        let mut rng = ctx.rng.fork(98_000 + round);
        let dir = tmp_root.join(format!("evict{round}"));
        let side = tmp_root.join(format!("evict-side{round}"));
        std::fs::create_dir_all(&dir).unwrap(); std::fs::create_dir_all(&side).unwrap();
        let mgr = if round % 2 == 0 { rt.block_on(ShardFileManager::new_in_session_directory(&dir)).unwrap() } else { rt.block_on(ShardFileManager::new_in_cache_directory(&dir)).unwrap() };
        let n1 = rng.range(1, 3) as usize;
        let mut ga = gen_content(&mut rng, n1, 0, 0, false);
        let mut seen = BTreeSet::new();
        for c in ga.cas.iter_mut() { for ch in c.chunks.iter_mut() { while !seen.insert(ch.chunk_hash[0]) { ch.chunk_hash = rand_hash(&mut rng); } } }
        let Some(x) = ga.cas.iter().find(|c| !c.chunks.is_empty()).cloned() else { continue; };
        let q: Vec<MerkleHash> = x.chunks.iter().take(3).map(|c| c.chunk_hash).collect();
        // the later shard: the same chunks under a new xorb (what the later session cut), next to unrelated content
        let nb = rng.range(0, 2) as usize;
        let mut gb = gen_content(&mut rng, nb, 0, 0, false);
        for c in gb.cas.iter_mut() { for ch in c.chunks.iter_mut() { while !seen.insert(ch.chunk_hash[0]) { ch.chunk_hash = rand_hash(&mut rng); } } }
        let mut y = x.clone(); y.metadata.cas_hash = rand_hash(&mut rng);
        gb.cas.push(y);
        let write = |g: &Gen| { let mut mem = MDBInMemoryShard::default(); for c in &g.cas { mem.add_cas_block(c.clone()).unwrap(); } mem.write_to_directory(&side).unwrap() };
        let (pa, pb) = (write(&ga), write(&gb));
        let dest_a = dir.join(pa.file_name().unwrap()); std::fs::copy(&pa, &dest_a).unwrap();
        rt.block_on(mgr.register_shards_by_path(&[&dest_a])).unwrap();
        let a0 = rt.block_on(mgr.chunk_hash_dedup_query(&q)).unwrap();
        std::fs::remove_file(&dest_a).unwrap();
        let _ = rt.block_on(mgr.chunk_hash_dedup_query(&q));          // what the later session asks before it stores the data again
        let dest_b = dir.join(pb.file_name().unwrap()); std::fs::copy(&pb, &dest_b).unwrap();
        rt.block_on(mgr.register_shards_by_path(&[&dest_b])).unwrap();
        let a = rt.block_on(mgr.chunk_hash_dedup_query(&q));
        let mut world: BTreeMap<MerkleHash, MDBCASInfo> = BTreeMap::new();
        for c in ga.cas.iter().chain(gb.cas.iter()) { world.insert(c.metadata.cas_hash, c.clone()); }
        let replay = format!("{{\"suite\":\"manager\",\"seed\":{},\"evict_round\":{round}}}", ctx.seed);
        match a {
            Ok(a) => {
                if let Err(e) = truthful(&a, &q, &world, None) { ctx.fail("C05", "manager-untruthful", format!("shard manager dedup answer not truthful: {e} (directed eviction round {round})"), replay.clone()); }
                if a.is_none() && a0.is_some() {
                    ctx.fail("C11", "rerecorded-chunk-not-found-after-eviction", format!("chunks recorded by a registered shard whose file was then removed from the directory, and recorded again by a shard registered afterwards ({} xorbs), are not found by the live manager (round {round})", gb.cas.len()), replay.clone());
                }
            }
            Err(e) => ctx.fail("C11", "lookup-error-after-eviction", format!("lookup fails after a registered shard's file was removed: {e} (round {round})"), replay.clone()),
        }
        ctx.stat(if a0.is_some() { "directed_eviction_rounds" } else { "directed_eviction_rounds_skipped" });
        drop(mgr);
        let _ = std::fs::remove_dir_all(&dir); let _ = std::fs::remove_dir_all(&side);
    }
    // ---- a shard cache directory shared with another process (C11): a manager obtained again for the same directory sees the
    // shards that appeared there in the meantime (a later session of this process finds what another process uploaded)
    for round in 0..(if maxidx < (1 << 20) { 0 } else if ctx.quick() { 4 } else { 30 }) {   // (index cap out of play)
        let mut rng = ctx.rng.fork(95_000 + round);
        let dir = tmp_root.join(format!("shared{round}"));
        let side = tmp_root.join(format!("shared-side{round}"));
        std::fs::create_dir_all(&dir).unwrap(); std::fs::create_dir_all(&side).unwrap();
        let m1 = rt.block_on(ShardFileManager::new_in_cache_directory(&dir)).unwrap();
        let mut expected: Vec<MerkleHash> = Vec::new();
        let mut all_prefixes: BTreeMap<u64, usize> = BTreeMap::new();   // truncated hash -> number of chunk-table rows in the directory
        for step in 0..rng.range(1, 3) {
            let n1 = rng.range(1, 5) as usize;
            let g = gen_content(&mut rng, n1, 0, 0, false);
            let mut mem = MDBInMemoryShard::default(); for c in &g.cas { mem.add_cas_block(c.clone()).unwrap(); }
            let p = mem.write_to_directory(&side).unwrap(); std::fs::copy(&p, dir.join(p.file_name().unwrap())).unwrap();   // "another process" wrote it
            for c in &g.cas { if let Some(ch) = c.chunks.first() { expected.push(ch.chunk_hash); } for ch in &c.chunks { *all_prefixes.entry(ch.chunk_hash[0]).or_insert(0) += 1; } }
            let m2 = rt.block_on(ShardFileManager::new_in_cache_directory(&dir)).unwrap();
            for h in &expected {
                let a = rt.block_on(m2.chunk_hash_dedup_query(&[*h])).unwrap();
                // (a chunk whose truncated hash occurs in another row as well may legitimately be missed: one index entry per prefix)
                if a.is_none() && all_prefixes.get(&h[0]) == Some(&1) {
                    ctx.fail("C11", "shard-of-another-process-not-seen", format!("a manager obtained for a cache directory after another writer added a shard there does not find that shard's chunk (round {round}, step {step}, {} shard files in the directory)", mdb_files(&dir).len()),
                             format!("{{\"suite\":\"manager\",\"seed\":{},\"shared_round\":{round}}}", ctx.seed));
                }
            }
            ctx.stat("shared_cache_dir_steps");
        }
        drop(m1);
        let _ = std::fs::remove_dir_all(&dir); let _ = std::fs::remove_dir_all(&side);
    }
    // ---- concurrent adders (C11): several tasks add xorb records while size-triggered flushes run; afterwards every record is in a shard
    if minsize <= 4000 {
        let mt = tokio::runtime::Builder::new_multi_thread().worker_threads(4).build().unwrap();
        for round in 0..(if ctx.quick() { 6 } else { 40 }) {
            let mut rng = ctx.rng.fork(90_000 + round);
            let dir = tmp_root.join(format!("conc{round}"));
            std::fs::create_dir_all(&dir).unwrap();
            let mgr = mt.block_on(ShardFileManager::new_in_session_directory(&dir)).unwrap();
            let ntasks = rng.range(3, 8) as usize;
            let mut batches: Vec<Vec<MDBCASInfo>> = Vec::new();
            for _ in 0..ntasks { let n = rng.range(4, 16) as usize; batches.push(gen_content(&mut rng, n, 0, 0, false).cas); }
            let all: Vec<MDBCASInfo> = batches.iter().flatten().cloned().collect();
            let res: Vec<bool> = mt.block_on(async {
                let mut hs = Vec::new();
                for b in batches { let m = mgr.clone(); hs.push(tokio::spawn(async move { for c in b { if m.add_cas_block(c).await.is_err() { return false; } tokio::task::yield_now().await; } true })); }
                let mut out = Vec::new(); for h in hs { out.push(h.await.unwrap_or(false)); } out
            });
            if res.iter().any(|ok| !ok) { ctx.fail("C11", "concurrent-add-error", format!("add_cas_block failed under concurrency (round {round})"), "null".into()); }
            mt.block_on(mgr.flush()).unwrap();
            let mut stored = BTreeSet::new();
            for sf in MDBShardFile::load_all_valid(&dir).unwrap() { for (c, _) in sf.read_all_cas_blocks().unwrap() { stored.insert(c.cas_hash); } }
            let lost: Vec<String> = all.iter().filter(|c| !stored.contains(&c.metadata.cas_hash)).map(|c| c.metadata.cas_hash.hex()).collect();
            if !lost.is_empty() {
                ctx.fail("C11", "concurrent-add-cas-lost", format!("{} of {} xorb records added by {ntasks} concurrent tasks (shard target {minsize} bytes) are in no shard file of the session directory after the final flush, e.g. {} (round {round})", lost.len(), all.len(), lost[0]),
                         format!("{{\"suite\":\"manager\",\"seed\":{},\"concurrent_round\":{round},\"tasks\":{ntasks},\"minsize\":{minsize}}}", ctx.seed));
            }
            ctx.stat("concurrent_add_rounds");
            ctx.stat_add("concurrent_add_shards", mdb_files(&dir).len() as u64);
            drop(mgr);
            let _ = std::fs::remove_dir_all(&dir);
        }
    }
    let _ = std::fs::remove_dir_all(&tmp_root);
}
