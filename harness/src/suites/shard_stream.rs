//! Suite `shard_stream` (C09): the streaming reader (`process_shard_stream` and its section walkers) and the
//! minimal reader (`MDBMinimalShard`) on serialized shards, keyed exports, truncated and corrupted inputs,
//! vs the Lean model (`XetModel/ShardStream.lean`) and vs the seekable reader / the in-memory content.
use std::cell::RefCell;
use std::collections::BTreeMap;
use std::io::{Cursor, Read};
use std::panic::{catch_unwind, AssertUnwindSafe};
use std::pin::Pin;
use std::task::{Context, Poll};
use std::time::Duration;

use mdb_shard::cas_structs::{MDBCASInfo, MDBCASInfoView};
use mdb_shard::error::MDBShardError;
use mdb_shard::file_structs::{MDBFileInfo, MDBFileInfoView};
use mdb_shard::shard_format::MDBShardInfo;
use mdb_shard::shard_in_memory::MDBInMemoryShard;
use mdb_shard::streaming_shard::{process_shard_stream, process_shard_stream_async, MDBMinimalShard};
use merklehash::MerkleHash;

use crate::ctx::{fnv, Ctx};
use crate::rng::Rng;
use crate::suites::hashes::rand_hash;
use crate::suites::shard::{cas_bytes, file_bytes, gen_content};

type R<T> = mdb_shard::error::Result<T>;

fn err_kind(e: &MDBShardError) -> &'static str {
    match e {
        MDBShardError::IOError(io) if io.kind() == std::io::ErrorKind::UnexpectedEof => "eof",
        MDBShardError::ShardVersionError(_) => "version",
        _ => "other",
    }
}

/// a `Read` that hands out the input in small pieces (1 … 61 bytes per call)
struct Dribble<'a> { data: &'a [u8], pos: usize, state: u64 }
impl<'a> Dribble<'a> {
    fn new(data: &'a [u8], seed: u64) -> Self { Dribble { data, pos: 0, state: seed | 1 } }
    fn step(&mut self) -> usize { self.state = self.state.wrapping_mul(6364136223846793005).wrapping_add(1442695040888963407); 1 + ((self.state >> 33) % 61) as usize }
}
impl<'a> Read for Dribble<'a> {
    fn read(&mut self, buf: &mut [u8]) -> std::io::Result<usize> {
        let k = self.step().min(buf.len()).min(self.data.len() - self.pos);
        buf[..k].copy_from_slice(&self.data[self.pos..self.pos + k]);
        self.pos += k;
        Ok(k)
    }
}
impl<'a> futures::io::AsyncRead for Dribble<'a> {
    fn poll_read(mut self: Pin<&mut Self>, _cx: &mut Context<'_>, buf: &mut [u8]) -> Poll<std::io::Result<usize>> {
        Poll::Ready(Read::read(&mut *self, buf))
    }
}

/// what a view yields: its raw bytes (`serialize`) and what the accessors return, re-serialized
fn file_view_parts(v: &MDBFileInfoView) -> (Vec<u8>, Vec<u8>) {
    let mut raw = Vec::new();
    v.serialize(&mut raw).unwrap();
    let mut acc = Vec::new();
    v.header().serialize(&mut acc).unwrap();
    for i in 0..v.num_entries() { v.entry(i).serialize(&mut acc).unwrap(); }
    if v.contains_verification() { for i in 0..v.num_entries() { v.verification(i).serialize(&mut acc).unwrap(); } }
    (raw, acc)
}
fn cas_view_parts(v: &MDBCASInfoView) -> (Vec<u8>, Vec<u8>) {
    let mut raw = Vec::new();
    v.serialize(&mut raw).unwrap();
    let mut acc = Vec::new();
    v.header().serialize(&mut acc).unwrap();
    for i in 0..v.num_entries() { v.chunk(i).serialize(&mut acc).unwrap(); }
    (raw, acc)
}

#[derive(Default, Clone, PartialEq, Debug)]
pub struct Delivered { pub files: Vec<Vec<u8>>, pub cas: Vec<Vec<u8>>, pub facc: Vec<u8>, pub cacc: Vec<u8> }
impl Delivered {
    fn views_str(&self) -> String {
        let fb: Vec<u8> = self.files.concat();
        let cb: Vec<u8> = self.cas.concat();
        let mut acc = self.facc.clone(); acc.extend_from_slice(&self.cacc);
        format!("files={}:{} cas={}:{} acc={}", self.files.len(), fnv(&fb), self.cas.len(), fnv(&cb), fnv(&acc))
    }
}

#[derive(Clone, Copy, PartialEq, Debug)]
enum Mode { Cursor, Dribble(u64), AsyncSlice, AsyncDribble(u64) }

/// run the real streaming reader; `Err("panic")` when it panicked.  The delivered views persist on error.
fn run_stream(bytes: &[u8], want_f: bool, want_c: bool, mode: Mode) -> (Result<String, String>, Delivered) {
    let d = RefCell::new(Delivered::default());
    let r = catch_unwind(AssertUnwindSafe(|| {
        let fcb = |v: MDBFileInfoView| -> R<()> { let (raw, acc) = file_view_parts(&v); let mut g = d.borrow_mut(); g.files.push(raw); g.facc.extend(acc); Ok(()) };
        let ccb = |v: MDBCASInfoView| -> R<()> { let (raw, acc) = cas_view_parts(&v); let mut g = d.borrow_mut(); g.cas.push(raw); g.cacc.extend(acc); Ok(()) };
        let f = if want_f { Some(fcb) } else { None };
        let c = if want_c { Some(ccb) } else { None };
        match mode {
            Mode::Cursor => process_shard_stream(&mut Cursor::new(bytes), f, c),
            Mode::Dribble(s) => process_shard_stream(&mut Dribble::new(bytes, s), f, c),
            Mode::AsyncSlice => { let mut rd: &[u8] = bytes; futures::executor::block_on(process_shard_stream_async(&mut rd, f, c)) }
            Mode::AsyncDribble(s) => { let mut rd = Dribble::new(bytes, s); futures::executor::block_on(process_shard_stream_async(&mut rd, f, c)) }
        }
    }));
    let st = match r { Ok(Ok(())) => Ok("ok".to_string()), Ok(Err(e)) => Ok(format!("err:{}", err_kind(&e))), Err(_) => Err("panic".to_string()) };
    (st, d.into_inner())
}

fn stream_str(bytes: &[u8], want_f: bool, want_c: bool) -> (String, Result<String, String>, Delivered) {
    let (st, d) = run_stream(bytes, want_f, want_c, Mode::Cursor);
    let s = format!("{} {}", st.clone().unwrap_or_else(|e| e), d.views_str());
    (s, st, d)
}

pub struct MinOut { pub status: String, pub shard: Option<MDBMinimalShard>, pub views: Delivered, pub ser: Vec<u8>, pub ret: usize }

fn run_min(bytes: &[u8], incl_f: bool, incl_c: bool, mode: Mode) -> Result<MinOut, String> {
    catch_unwind(AssertUnwindSafe(|| {
        let r = match mode {
            Mode::Cursor => MDBMinimalShard::from_reader(&mut Cursor::new(bytes), incl_f, incl_c),
            Mode::Dribble(s) => MDBMinimalShard::from_reader(&mut Dribble::new(bytes, s), incl_f, incl_c),
            Mode::AsyncSlice => { let mut rd: &[u8] = bytes; futures::executor::block_on(MDBMinimalShard::from_reader_async(&mut rd, incl_f, incl_c)) }
            Mode::AsyncDribble(s) => { let mut rd = Dribble::new(bytes, s); futures::executor::block_on(MDBMinimalShard::from_reader_async(&mut rd, incl_f, incl_c)) }
        };
        match r {
            Err(e) => MinOut { status: format!("err:{}", err_kind(&e)), shard: None, views: Delivered::default(), ser: vec![], ret: 0 },
            Ok(s) => {
                let mut d = Delivered::default();
                for i in 0..s.num_files() { let (raw, acc) = file_view_parts(&s.file(i)); d.files.push(raw); d.facc.extend(acc); }
                for i in 0..s.num_cas() { let (raw, acc) = cas_view_parts(&s.cas(i)); d.cas.push(raw); d.cacc.extend(acc); }
                let mut ser = Vec::new();
                let ret = s.serialize(&mut ser).unwrap();
                MinOut { status: "ok".into(), shard: Some(s), views: d, ser, ret }
            }
        }
    })).map_err(|_| "panic".to_string())
}

fn min_str(m: &Result<MinOut, String>) -> String {
    match m {
        Err(p) => p.clone(),
        Ok(o) if o.shard.is_none() => o.status.clone(),
        Ok(o) => {
            let s = o.shard.as_ref().unwrap();
            // `cas_info_start` is private: recover it from the footer the shard writes
            let cis = MDBShardInfo::load_from_reader(&mut Cursor::new(&o.ser)).map(|i| i.metadata.cas_info_offset as i64 - 48).unwrap_or(-1);
            format!("ok {} nf={} nc={} cis={} ser={}:{}", o.views.views_str(), s.num_files(), s.num_cas(), cis, o.ser.len(), fnv(&o.ser))
        }
    }
}

/// largest buffer the section walkers would reserve on `bytes` (`Vec::with_capacity(48 + n_bytes)` with the count
/// taken from the record header *before* any data is read); used to keep corrupted inputs from aborting the harness
fn max_reservation(bytes: &[u8]) -> u64 {
    let mut pos = 48usize;
    let mut max = 0u64;
    let rd32 = |p: usize| u32::from_le_bytes(bytes[p..p + 4].try_into().unwrap()) as u64;
    for section in 0..2 {
        loop {
            if pos + 48 > bytes.len() { return max; }
            if bytes[pos..pos + 32].iter().all(|b| *b == 0xff) { pos += 48; break; }
            let (flags, n) = (rd32(pos + 32), rd32(pos + 36));
            let recs = if section == 0 { n + if flags & (1 << 31) != 0 { n } else { 0 } + if flags & (1 << 30) != 0 { 1 } else { 0 } } else { n };
            max = max.max(recs * 48);
            let adv = 48u64 + recs * 48;
            if adv > (bytes.len() - pos) as u64 { return max; }
            pos += adv as usize;
        }
    }
    max
}

struct Layout { file_ends: Vec<usize>, file_bookend_end: usize, cas_ends: Vec<usize>, cas_bookend_end: usize }

fn layout(files: &[Vec<u8>], cas: &[Vec<u8>]) -> Layout {
    let mut pos = 48;
    let mut file_ends = Vec::new();
    for f in files { pos += f.len(); file_ends.push(pos); }
    pos += 48;
    let file_bookend_end = pos;
    let mut cas_ends = Vec::new();
    for c in cas { pos += c.len(); cas_ends.push(pos); }
    pos += 48;
    Layout { file_ends, file_bookend_end, cas_ends, cas_bookend_end: pos }
}

/// one full differential + monitor pass over a shard image whose content (in section order) is known
#[allow(clippy::too_many_arguments)]
fn check_shard(ctx: &mut Ctx, rng: &mut Rng, bytes: &[u8], want_files: &[MDBFileInfo], want_cas: &[MDBCASInfo], label: &str, replay: &str, with_trunc: bool) {
    let (so, sl) = ctx.blob(bytes);
    // should a reader bring the process down on this VALID shard (an abort on a failed giant allocation cannot be caught), the
    // check reports this input
    ctx.crumb("C09", &format!("a {label} of {} bytes ({} file records, {} xorb records) read through process_shard_stream / MDBMinimalShard::from_reader with every callback / option combination", bytes.len(), want_files.len(), want_cas.len()), replay);
    let wf: Vec<Vec<u8>> = want_files.iter().map(file_bytes).collect();
    let wc: Vec<Vec<u8>> = want_cas.iter().map(cas_bytes).collect();

    // ---- the four callback combinations of the streaming reader, the four option combinations of the minimal reader
    let mut parts = Vec::new();
    let mut full = Delivered::default();
    for (name, f, c) in [("stream", true, true), ("fonly", true, false), ("conly", false, true), ("none", false, false)] {
        let (s, st, d) = stream_str(bytes, f, c);
        if st.is_err() { ctx.fail("C09", "stream-reader-panic", format!("process_shard_stream panicked on a {label} (files={f}, cas={c})"), replay.to_string()); }
        else if st.as_deref() != Ok("ok") { ctx.fail("C09", "readers-disagree", format!("process_shard_stream failed on a {label}: {s}"), replay.to_string()); }
        let exp_f: &[Vec<u8>] = if f { &wf } else { &[] };
        let exp_c: &[Vec<u8>] = if c { &wc } else { &[] };
        if d.files != exp_f || d.cas != exp_c { ctx.fail("C09", "readers-disagree", format!("streaming reader ({name}) delivered records different from the content of a {label}: {} files / {} xorbs delivered, {} / {} stored", d.files.len(), d.cas.len(), exp_f.len(), exp_c.len()), replay.to_string()); }
        if name == "stream" { full = d.clone(); }
        // the other ways of feeding the same bytes
        for mode in [Mode::Dribble(rng.next()), Mode::AsyncSlice, Mode::AsyncDribble(rng.next())] {
            let (st2, d2) = run_stream(bytes, f, c, mode);
            if st2.is_err() { ctx.fail("C09", "stream-reader-panic", format!("process_shard_stream ({mode:?}) panicked on a {label}"), replay.to_string()); }
            else if st2 != st || d2 != d { ctx.fail("C09", "readers-disagree", format!("streaming reader fed through {mode:?} differs from the same bytes through a Cursor ({label})"), replay.to_string()); }
        }
        parts.push(format!("{name} {s}"));
    }
    // views decode to the stored records (also through the owned deserializers)
    for (raw, want) in full.files.iter().zip(want_files.iter()) {
        if MDBFileInfo::deserialize(&mut Cursor::new(raw)).ok().flatten().as_ref() != Some(want) { ctx.fail("C09", "readers-disagree", format!("a streamed file view does not decode to the stored record ({label})"), replay.to_string()); break; }
    }
    for (raw, want) in full.cas.iter().zip(want_cas.iter()) {
        if MDBCASInfo::deserialize(&mut Cursor::new(raw)).ok().flatten().as_ref() != Some(want) { ctx.fail("C09", "readers-disagree", format!("a streamed xorb view does not decode to the stored record ({label})"), replay.to_string()); break; }
    }
    // the accessor digest equals header ++ entries ++ verification of the stored records
    {
        let mut facc = Vec::new();
        for f in want_files { f.metadata.serialize(&mut facc).unwrap(); for s in &f.segments { s.serialize(&mut facc).unwrap(); } if f.contains_verification() { for v in &f.verification { v.serialize(&mut facc).unwrap(); } } }
        let cacc: Vec<u8> = wc.concat();
        if full.facc != facc || full.cacc != cacc { ctx.fail("C09", "readers-disagree", format!("view accessors (entry / verification / chunk) differ from the stored records ({label})"), replay.to_string()); }
    }

    for (name, f, c) in [("min11", true, true), ("min10", true, false), ("min01", false, true), ("min00", false, false)] {
        let m = run_min(bytes, f, c, Mode::Cursor);
        match &m {
            Err(_) => ctx.fail("C09", "stream-reader-panic", format!("MDBMinimalShard::from_reader / accessors / serialize panicked on a {label} (files={f}, cas={c})"), replay.to_string()),
            Ok(o) if o.shard.is_none() => ctx.fail("C09", "readers-disagree", format!("MDBMinimalShard::from_reader failed on a {label}: {}", o.status), replay.to_string()),
            Ok(o) => {
                let exp_f: &[Vec<u8>] = if f { &wf } else { &[] };
                let exp_c: &[Vec<u8>] = if c { &wc } else { &[] };
                if o.views.files != exp_f || o.views.cas != exp_c { ctx.fail("C09", "readers-disagree", format!("minimal reader ({name}) holds records different from the content of a {label}"), replay.to_string()); }
                // observation: `MDBMinimalShard::serialize` returns the byte count *before* the 200-byte footer it then writes
                if o.ret + 200 == o.ser.len() { ctx.stat("min_serialize_return_excludes_footer"); } else if o.ret == o.ser.len() { ctx.stat("min_serialize_return_is_total"); }
                else { ctx.fail("C09", "readers-disagree", format!("MDBMinimalShard::serialize returned {} for {} bytes written ({label})", o.ret, o.ser.len()), replay.to_string()); }
                // re-serialized minimal shard through the seekable reader
                let seek = catch_unwind(AssertUnwindSafe(|| {
                    let si = MDBShardInfo::load_from_reader(&mut Cursor::new(&o.ser))?;
                    let fi = si.read_all_file_info_sections(&mut Cursor::new(&o.ser))?;
                    let ci = si.read_all_cas_blocks_full(&mut Cursor::new(&o.ser))?;
                    R::Ok((si, fi, ci))
                }));
                match seek {
                    Ok(Ok((si, fi, ci))) => {
                        let ef: Vec<MDBFileInfo> = if f { want_files.to_vec() } else { vec![] };
                        let ec: Vec<MDBCASInfo> = if c { want_cas.to_vec() } else { vec![] };
                        if fi != ef || ci != ec { ctx.fail("C09", "readers-disagree", format!("seekable scan of the re-serialized minimal shard ({name}) differs from the content ({label})"), replay.to_string()); }
                        let mat: u64 = ef.iter().map(|x| x.segments.iter().map(|s| s.unpacked_segment_bytes as u64).sum::<u64>()).sum();
                        let st: u64 = ec.iter().map(|x| x.metadata.num_bytes_in_cas as u64).sum();
                        let sd: u64 = ec.iter().map(|x| x.metadata.num_bytes_on_disk as u64).sum();
                        if (si.metadata.materialized_bytes, si.metadata.stored_bytes, si.metadata.stored_bytes_on_disk) != (mat, st, sd) { ctx.fail("C09", "readers-disagree", format!("byte totals in the footer of the re-serialized minimal shard ({name}) differ from the content ({label})"), replay.to_string()); }
                    }
                    _ => ctx.fail("C09", "readers-disagree", format!("the re-serialized minimal shard ({name}) cannot be read by the seekable reader ({label})"), replay.to_string()),
                }
                for mode in [Mode::Dribble(rng.next()), Mode::AsyncSlice, Mode::AsyncDribble(rng.next())] {
                    match run_min(bytes, f, c, mode) {
                        Ok(o2) if o2.shard == o.shard => {}
                        Ok(_) => ctx.fail("C09", "readers-disagree", format!("minimal reader fed through {mode:?} differs from the same bytes through a Cursor ({label})"), replay.to_string()),
                        Err(_) => ctx.fail("C09", "stream-reader-panic", format!("minimal reader ({mode:?}) panicked on a {label}"), replay.to_string()),
                    }
                }
            }
        }
        parts.push(format!("{name} {}", min_str(&m)));
    }
    ctx.op(&format!("sstream.scan at={so}:{sl}"), &parts.join(" | "));

    // ---- truncated inputs: every record boundary ± a few bytes
    ctx.crumb_clear();
    if with_trunc {
        let lay = layout(&wf, &wc);
        let mut cuts: Vec<usize> = vec![0, 1, 31, 32, 33, 40, 47, 48, 49, 95, 96, 97];
        let mut marks: Vec<usize> = lay.file_ends.clone();
        marks.push(lay.file_bookend_end); marks.extend(&lay.cas_ends); marks.push(lay.cas_bookend_end);
        let max_marks = if ctx.quick() { 7 } else { 14 };
        if marks.len() > max_marks { let mut sel = vec![marks[0], lay.file_bookend_end, lay.cas_bookend_end]; for _ in 3..max_marks { sel.push(*rng.pick(&marks)); } marks = sel; }
        for m in marks { for d in [-49i64, -48, -3, -1, 0, 1, 2, 47, 48, 49] { let c = m as i64 + d; if c >= 0 && c as usize <= bytes.len() { cuts.push(c as usize); } } }
        cuts.push(bytes.len()); cuts.push(bytes.len() - 1); cuts.push(bytes.len() - 200);
        for _ in 0..6 { cuts.push(rng.below(bytes.len() as u64 + 1) as usize); }
        cuts.retain(|c| *c <= bytes.len());
        cuts.sort(); cuts.dedup();
        let mut answers = Vec::new();
        for &cut in &cuts {
            let p = &bytes[..cut];
            let (st, d) = run_stream(p, true, true, Mode::Cursor);
            let nf = lay.file_ends.iter().filter(|e| **e <= cut).count();
            let nc = if cut >= lay.file_bookend_end { lay.cas_ends.iter().filter(|e| **e <= cut).count() } else { 0 };
            let want_status = if cut >= lay.cas_bookend_end { "ok" } else { "err:eof" };
            match &st {
                Err(_) => ctx.fail("C09", "stream-reader-panic", format!("process_shard_stream panicked on a {label} truncated to {cut} of {} bytes", bytes.len()), replay.to_string()),
                Ok(s) => {
                    if s != want_status { ctx.fail("C09", "truncated-stream-not-clean-prefix", format!("streaming reader on a {label} truncated to {cut} bytes (sections end at {}) returned {s}, expected {want_status}", lay.cas_bookend_end), replay.to_string()); }
                    if d.files[..] != wf[..nf] || d.cas[..] != wc[..nc] { ctx.fail("C09", "truncated-stream-not-clean-prefix", format!("streaming reader on a {label} truncated to {cut} bytes delivered {} files / {} xorbs, the complete records before the cut are {nf} / {nc}", d.files.len(), d.cas.len()), replay.to_string()); }
                }
            }
            // through the async reader too (it fails in read_exact rather than in the view constructor)
            let (st_a, d_a) = run_stream(p, true, true, Mode::AsyncDribble(cut as u64));
            if st_a.is_err() { ctx.fail("C09", "stream-reader-panic", format!("process_shard_stream_async panicked on a {label} truncated to {cut} bytes"), replay.to_string()); }
            else if st_a != st || d_a != d { ctx.fail("C09", "readers-disagree", format!("async and sync streaming readers differ on a {label} truncated to {cut} bytes: {st_a:?} vs {st:?}"), replay.to_string()); }
            let mut ms = Vec::new();
            for (f, c, end) in [(true, true, lay.cas_bookend_end), (true, false, lay.file_bookend_end)] {
                let m = run_min(p, f, c, Mode::Cursor);
                let s = match &m {
                    Err(_) => { ctx.fail("C09", "stream-reader-panic", format!("minimal reader panicked on a {label} truncated to {cut} bytes (cas={c})"), replay.to_string()); "panic".to_string() }
                    Ok(o) => match &o.shard {
                        None => { if cut >= end { ctx.fail("C09", "truncated-stream-not-clean-prefix", format!("minimal reader (cas={c}) rejected a {label} cut at {cut} although the sections it reads end at {end}"), replay.to_string()); } o.status.clone() }
                        Some(s) => {
                            if cut < end { ctx.fail("C09", "truncated-stream-not-clean-prefix", format!("minimal reader (cas={c}) accepted a {label} truncated to {cut} bytes, before the end ({end}) of the sections it reads"), replay.to_string()); }
                            else if o.views.files != wf || (c && o.views.cas != wc) { ctx.fail("C09", "readers-disagree", format!("minimal reader (cas={c}) on a {label} cut at {cut} holds records different from the content"), replay.to_string()); }
                            format!("ok:{}:{}", s.num_files(), s.num_cas())
                        }
                    }
                };
                ms.push(s);
            }
            let fb: Vec<u8> = d.files.concat();
            let cb: Vec<u8> = d.cas.concat();
            answers.push(format!("{cut}:{}:{}:{}:{}:{}:{}:{}", st.unwrap_or_else(|e| e), d.files.len(), fnv(&fb), d.cas.len(), fnv(&cb), ms[0], ms[1]));
            ctx.stat(if cut >= lay.cas_bookend_end { "trunc_after_sections" } else if cut >= lay.file_bookend_end { "trunc_in_cas_section" } else if cut >= 48 { "trunc_in_file_section" } else { "trunc_in_header" });
        }
        ctx.op(&format!("sstream.trunc at={so}:{sl} cuts={}", cuts.iter().map(|c| c.to_string()).collect::<Vec<_>>().join(",")), &answers.join(" "));
    }
}

/// corrupted images: the readers and the model must agree on arbitrary bytes (no monitor on the content)
fn check_corrupt(ctx: &mut Ctx, bytes: &[u8], what: &str, replay: &str) {
    if max_reservation(bytes) > (64 << 20) { ctx.stat("corrupt_skipped_huge_reservation"); return; }
    let (so, sl) = ctx.blob(bytes);
    let mut parts = Vec::new();
    let mut first: Option<(Result<String, String>, Delivered)> = None;
    for (name, f, c) in [("stream", true, true), ("fonly", true, false), ("conly", false, true), ("none", false, false)] {
        let (s, st, d) = stream_str(bytes, f, c);
        if st.is_err() { ctx.fail("C09", "stream-reader-panic", format!("process_shard_stream panicked on a corrupted shard ({what}; files={f}, cas={c})"), replay.to_string()); }
        if name == "stream" {
            let (st_a, d_a) = run_stream(bytes, true, true, Mode::AsyncDribble(7));
            if st_a.is_err() { ctx.fail("C09", "stream-reader-panic", format!("process_shard_stream_async panicked on a corrupted shard ({what})"), replay.to_string()); }
            else if st_a != st || d_a != d { ctx.fail("C09", "readers-disagree", format!("async and sync streaming readers differ on a corrupted shard ({what}): {st_a:?} vs {st:?}"), replay.to_string()); }
            first = Some((st.clone(), d.clone()));
        }
        parts.push(format!("{name} {s}"));
    }
    for (name, f, c) in [("min11", true, true), ("min10", true, false), ("min01", false, true), ("min00", false, false)] {
        let m = run_min(bytes, f, c, Mode::Cursor);
        if m.is_err() { ctx.fail("C09", "stream-reader-panic", format!("minimal reader panicked on a corrupted shard ({what}; files={f}, cas={c})"), replay.to_string()); }
        if let (Ok(o), "min11", Some((st, d))) = (&m, name, &first) {
            // streaming == minimal on whatever the bytes are
            let agree = match (&o.shard, st.as_deref()) { (Some(_), Ok("ok")) => o.views.files == d.files && o.views.cas == d.cas, (None, Ok(s)) => s == o.status, _ => false };
            if !agree { ctx.fail("C09", "readers-disagree", format!("streaming and minimal readers differ on a corrupted shard ({what})"), replay.to_string()); }
        }
        parts.push(format!("{name} {}", min_str(&m)));
    }
    ctx.stat(&format!("corrupt_{}", parts[0].split(' ').nth(1).unwrap_or("?").replace(':', "_")));
    ctx.op(&format!("sstream.scan at={so}:{sl}"), &parts.join(" | "));
}

/// A record header announcing `n` entries makes the section walkers reserve `48 + 48·(2n+1)` bytes *before* reading any
/// data (`Vec::with_capacity` in the sync walkers, `resize(total_len, 0)` in the async ones).  A failed reservation is not
/// an `Err` but `handle_alloc_error` → process abort, which cannot be caught in-process: the probe runs the real reader on
/// such an input in a child process and reports how it ended.
pub fn abort_probe_input(n: u32) -> Vec<u8> {
    let mut b = Vec::new();
    mdb_shard::MDBShardFileHeader::default().serialize(&mut b).unwrap();
    b.extend_from_slice(&[1u8; 32]);
    b.extend_from_slice(&(1u32 << 31).to_le_bytes());
    b.extend_from_slice(&n.to_le_bytes());
    b.extend_from_slice(&0u64.to_le_bytes());
    b
}

/// child of the abort probe: `XET_SSTREAM_PROBE=<mode>:<n>`; exit code 0 = the reader returned (`Ok` or `Err`)
pub fn run_child(_ctx: &mut Ctx) {
    let spec = std::env::var("XET_SSTREAM_PROBE").expect("XET_SSTREAM_PROBE");
    let (mode, n) = spec.split_once(':').expect("mode:n");
    let b = abort_probe_input(n.parse().unwrap());
    let f = |_v: MDBFileInfoView| -> R<()> { Ok(()) };
    let c = |_v: MDBCASInfoView| -> R<()> { Ok(()) };
    let r = match mode {
        "stream" => process_shard_stream(&mut Cursor::new(&b), Some(f), Some(c)),
        "minimal" => MDBMinimalShard::from_reader(&mut Cursor::new(&b), true, true).map(|_| ()),
        _ => panic!("mode"),
    };
    eprintln!("probe {spec}: reader returned {:?}", r.map_err(|e| err_kind(&e)));
}

fn abort_probe(ctx: &mut Ctx) {
    use std::os::unix::process::ExitStatusExt;
    let tmp = std::path::PathBuf::from(std::env::var("TMPDIR").unwrap_or_else(|_| "/tmp".into())).join(format!("sstream-probe-{}-{}", std::process::id(), ctx.seed));
    for mode in ["stream", "minimal"] {
        let _ = std::fs::create_dir_all(&tmp);
        let st = std::process::Command::new(std::env::current_exe().unwrap())
            .arg("shard_stream-child").arg("--out").arg(&tmp).env("XET_SSTREAM_PROBE", format!("{mode}:{}", u32::MAX))
            .stdout(std::process::Stdio::null()).stderr(std::process::Stdio::null()).status();
        match st {
            Ok(s) if s.success() => ctx.stat("abort_probe_returned"),
            Ok(s) => {
                ctx.stat("abort_probe_died");
                // An observation, not a C09 failure: C09 is about serialized (valid) shards and this 96-byte input is not one
                // (valid header + one file record header announcing num_entries = u32::MAX; the walker reserves 48*(2n+1) bytes from
                // the untrusted count before reading, and the failed reservation aborts the process).  DESIGN.md 9.4, observation O1.
                let _ = (s.signal(), s.code(), abort_probe_input(u32::MAX));
                ctx.stat("observation_abort_on_announced_count");
            }
            Err(_) => ctx.stat("abort_probe_not_run"),
        }
    }
    let _ = std::fs::remove_dir_all(&tmp);
}

pub fn run(ctx: &mut Ctx) {
    abort_probe(ctx);
    let ncases = if ctx.quick() { 40 } else { 240 };
    for case_no in 0..ncases {
        let mut rng = ctx.rng.fork(23_000 + case_no);
        let dist = rng.below(4);
        let (ncas, nfiles) = match case_no { 0 => (0, 0), 1 => (0, 3), 2 => (3, 0), _ => match rng.below(8) {
            0 => (0, rng.range(1, 8) as usize), 1 => (rng.range(1, 8) as usize, 0),
            // (the list-based model pays O(offset) per view accessor call: keep the large cases moderate)
            2 if !ctx.quick() && case_no % 4 == 0 => (rng.range(40, 80) as usize, rng.range(40, 120) as usize),
            3 if ctx.quick() => (rng.range(15, 25) as usize, rng.range(20, 40) as usize),
            _ if ctx.quick() => (rng.range(1, 12) as usize, rng.range(1, 16) as usize),
            _ => (rng.range(1, 20) as usize, rng.range(1, 25) as usize) } };
        let g = gen_content(&mut rng, ncas, nfiles, dist, false);
        let replay = format!("{{\"suite\":\"shard_stream\",\"seed\":{},\"case\":{},\"ncas\":{},\"nfiles\":{},\"dist\":{}}}", ctx.seed, case_no, ncas, nfiles, dist);

        let mut mem = MDBInMemoryShard::default();
        let mut cas_map: BTreeMap<MerkleHash, MDBCASInfo> = BTreeMap::new();
        let mut file_map: BTreeMap<MerkleHash, MDBFileInfo> = BTreeMap::new();
        for c in &g.cas { mem.add_cas_block(c.clone()).unwrap(); cas_map.insert(c.metadata.cas_hash, c.clone()); }
        for f in &g.files { mem.add_file_reconstruction_info(f.clone()).unwrap(); file_map.insert(f.metadata.file_hash, f.clone()); }
        let mut bytes = Vec::new();
        let info = MDBShardInfo::serialize_from(&mut bytes, &mem).unwrap();
        let files: Vec<MDBFileInfo> = file_map.values().cloned().collect();
        let cas: Vec<MDBCASInfo> = cas_map.values().cloned().collect();

        // the seekable scans agree with the content (the reference the other readers are compared with)
        let sf = info.read_all_file_info_sections(&mut Cursor::new(&bytes)).unwrap();
        let sc = info.read_all_cas_blocks_full(&mut Cursor::new(&bytes)).unwrap();
        if sf != files || sc != cas { ctx.fail("C09", "readers-disagree", format!("seekable scan differs from the in-memory content (case {case_no})"), replay.clone()); }

        let small = ncas + nfiles <= 45;
        check_shard(ctx, &mut rng, &bytes, &files, &cas, "serialized shard", &replay, small || (!ctx.quick() && case_no % 10 == 5));

        // flag statistics
        for f in &files {
            ctx.stat(match (f.contains_verification(), f.contains_metadata_ext()) { (false, false) => "file_plain", (true, false) => "file_verification", (false, true) => "file_metadata_ext", (true, true) => "file_verification_and_metadata_ext" });
            if f.segments.is_empty() { ctx.stat("file_no_segments"); }
        }
        for c in &cas { if c.chunks.is_empty() { ctx.stat("xorb_no_chunks"); } }
        let mut prefix_count: BTreeMap<u64, usize> = BTreeMap::new();
        for k in file_map.keys().chain(cas_map.keys()) { *prefix_count.entry(k[0]).or_insert(0) += 1; }
        if prefix_count.values().any(|n| *n > 1) { ctx.stat("has_shared_truncated_prefix"); }
        ctx.stat(&format!("size_{}", if ncas + nfiles == 0 { "empty" } else if ncas + nfiles < 20 { "small" } else if ncas + nfiles < 100 { "medium" } else { "large" }));

        // ---- keyed exports: with / without file info and tables
        let nexports = if ctx.quick() { 2 } else { 4 };
        for _ in 0..nexports {
            let (f, c, k) = (rng.chance(1, 2), rng.chance(1, 2), rng.chance(1, 2));
            let key = if rng.chance(1, 4) { MerkleHash::default() } else { rand_hash(&mut rng) };
            let mut out = Vec::new();
            if info.export_as_keyed_shard(&mut Cursor::new(&bytes), &mut out, key, Duration::from_secs(3600), f, c, k).is_err() { ctx.stat("export_errors"); continue; }
            let efiles: Vec<MDBFileInfo> = if f { files.clone() } else { vec![] };
            let ecas: Vec<MDBCASInfo> = cas.iter().map(|x| { let mut y = x.clone(); if key != MerkleHash::default() { for ch in y.chunks.iter_mut() { ch.chunk_hash = ch.chunk_hash.hmac(key); } } y }).collect();
            // reference: the seekable reader on the export
            let oi = MDBShardInfo::load_from_reader(&mut Cursor::new(&out)).unwrap();
            let of = oi.read_all_file_info_sections(&mut Cursor::new(&out)).unwrap();
            let oc = oi.read_all_cas_blocks_full(&mut Cursor::new(&out)).unwrap();
            if of != efiles || oc != ecas { ctx.fail("C09", "readers-disagree", format!("seekable scan of a keyed export (file_info={f}) differs from the keyed content (case {case_no})"), replay.clone()); }
            let trunc = small && rng.chance(1, 3);
            check_shard(ctx, &mut rng, &out, &of, &oc, &format!("keyed export (file_info={f}, cas_table={c}, chunk_table={k})"), &replay, trunc);
            ctx.stat(&format!("export_files{}_tables{}{}", f as u8, c as u8, k as u8));
        }

        // ---- corrupted images (model and implementation must agree on any bytes)
        let ncorrupt = if ctx.quick() { 3 } else { 8 };
        let lay = layout(&files.iter().map(file_bytes).collect::<Vec<_>>(), &cas.iter().map(cas_bytes).collect::<Vec<_>>());
        for i in 0..ncorrupt {
            let mut b = bytes.clone();
            let what = match (i + case_no as usize) % 6 {
                0 => { let p = rng.below(32) as usize; b[p] ^= 1 << rng.below(8); "header tag bit flipped" }
                1 => { let p = 32 + rng.below(16) as usize; b[p] ^= 0xff; "header version / footer-size word changed" }
                2 => { // a record header's entry count raised (bounded, see max_reservation)
                    let starts: Vec<usize> = std::iter::once(48).chain(lay.file_ends.iter().copied()).chain(std::iter::once(lay.file_bookend_end)).chain(lay.cas_ends.iter().copied()).collect();
                    let s = *rng.pick(&starts); let n = u32::from_le_bytes(b[s + 36..s + 40].try_into().unwrap());
                    b[s + 36..s + 40].copy_from_slice(&(n.wrapping_add(rng.range(1, 3000) as u32) % 200_000).to_le_bytes()); "record entry count changed" }
                3 => { // a file record's flag bits toggled
                    let starts: Vec<usize> = std::iter::once(48).chain(lay.file_ends.iter().copied()).collect();
                    let s = *rng.pick(&starts); b[s + 35] ^= *rng.pick(&[0x80u8, 0x40, 0xc0]); "file flag bits toggled" }
                4 => { let p = 48 + rng.below((lay.cas_bookend_end - 48) as u64) as usize; b[p] = rng.next() as u8; "one byte of a section overwritten" }
                _ => { // a bookend removed
                    let s = if rng.chance(1, 2) { lay.file_bookend_end - 48 } else { lay.cas_bookend_end - 48 }; b.drain(s..s + 48); "a bookend removed" }
            };
            check_corrupt(ctx, &b, what, &replay);
        }
        ctx.case(fnv(&bytes), ncas + nfiles >= 2);
    }
}
