//! Suite `cache_conc` (C13, C12): 2–4 threads run puts / gets on one real `DiskCache`; a seeded
//! scheduler drives them through the `#[cfg(xet_verif)]` schedule points of `disk.rs` (exactly one
//! thread runs at a time, from its point to the next one), observes after every step the tracked
//! entries, the counters and the directory, and the Lean model (`cache.conc`) executes the same
//! schedule step by step.  Interleavings are sampled by the seed (quick) / sampled more deeply
//! (thorough); every run contains simultaneous identical puts with high probability.
//!
//! Monitors: counters = sums over the snapshot at every step (F10 ⇒ `identical-concurrent-put-total-bytes`);
//! at quiescence every cache file is tracked; after every entry was read back the totals equal the
//! disk; `total_bytes <= capacity` after every commit; a hit is the slice of the reference xorb; no panic.
use std::cell::Cell;
use std::collections::BTreeSet;
use std::sync::{Arc, Condvar, Mutex};

use cas_types::{ChunkRange, Key};
use chunk_cache::{CacheConfig, ChunkCache, DiskCache};

use crate::ctx::Ctx;
use crate::rng::Rng;
use crate::suites::cache_seq::{
    err_str, fnv_str, gen_env, get_snapshot, guarded, item_name, key_dir_name, parse_item_name, probe_variants, quiet_hook, state_str,
    tmp_root, walk_order, Entry, Env, Snapshot,
};

#[derive(Clone, Debug)]
enum OpD { Put(usize, u32, u32), Get(usize, u32, u32) }

impl OpD {
    fn tok(&self) -> String {
        match self { OpD::Put(k, s, e) => format!("P:{k}:{s}:{e}"), OpD::Get(k, s, e) => format!("G:{k}:{s}:{e}") }
    }
}

#[derive(Default)]
struct SS {
    parked: Vec<Option<&'static str>>, // where each worker waits (None: running or finished)
    granted: Option<usize>,
    running: Option<usize>,
    finished: Vec<bool>,
    last_result: Vec<Option<String>>,  // result of the operation the worker completed in its last step
}

struct Sched { st: Mutex<SS>, cv: Condvar }

thread_local! { static WORKER: Cell<Option<usize>> = const { Cell::new(None) }; }

impl Sched {
    /// called by a worker at a schedule point: give up the processor, wait to be granted again
    fn park(&self, id: usize, name: &'static str) {
        let mut g = self.st.lock().unwrap();
        g.parked[id] = Some(name);
        g.running = None;
        self.cv.notify_all();
        while g.granted != Some(id) { g = self.cv.wait(g).unwrap(); }
        g.granted = None;
        g.parked[id] = None;
        g.running = Some(id);
    }
    fn finish(&self, id: usize) {
        let mut g = self.st.lock().unwrap();
        g.finished[id] = true;
        g.running = None;
        self.cv.notify_all();
    }
    /// controller: wait until nobody runs and every live worker is parked
    fn wait_quiet(&self) -> std::sync::MutexGuard<'_, SS> {
        let mut g = self.st.lock().unwrap();
        loop {
            let all_parked = (0..g.parked.len()).all(|i| g.finished[i] || g.parked[i].is_some());
            if g.running.is_none() && g.granted.is_none() && all_parked { return g; }
            g = self.cv.wait(g).unwrap();
        }
    }
}

fn item_files(root: &std::path::Path) -> BTreeSet<String> {
    walk_order(root).into_iter().filter(|(p, d)| !*d && p.matches('/').count() == 2).map(|(p, _)| p).collect()
}

fn entries_of(snap: &Snapshot, k: &Key) -> Vec<Entry> { snap.iter().find(|(kk, _)| kk == k).map(|(_, v)| v.clone()).unwrap_or_default() }

struct StepRec { tok_prefix: String, ev: Vec<(usize, Entry)>, pick: String, answer: String }

pub fn run(ctx: &mut Ctx) {
    let nsched: u64 = if ctx.quick() { 2000 } else { 20000 };
    let verbose = std::env::var("XV_VERBOSE").is_ok();
    let old_hook = std::panic::take_hook();
    std::panic::set_hook(quiet_hook());
    let (f10_fixed, f14_fixed) = probe_variants();
    ctx.stat(if f10_fixed { "variant_f10_fixed" } else { "variant_f10_unfixed" });
    let root = tmp_root("cache_conc");
    let sched = Arc::new(Sched { st: Mutex::new(SS::default()), cv: Condvar::new() });
    {
        let s2 = sched.clone();
        utils::verif_hooks::set_callback(Some(Arc::new(move |name| {
            // (the checksum-pass point is used by the damaged-entry scenario below only; the scheduled model has no such step)
            if name == "cache.crc.begin" { return; }
            if let Some(id) = WORKER.with(|w| w.get()) { s2.park(id, name); }
        })));
    }
    for sc in 0..nsched {
        let mut rng = ctx.rng.fork(0xC0C0 + sc);
        let nk = rng.range(1, 2) as usize;
        let env = gen_env(ctx, &mut rng, nk, false);
        let _ = std::fs::remove_dir_all(&root);
        std::fs::create_dir_all(&root).unwrap();
        let max_item: u64 = env.xorbs.iter().map(|x| x.data.len() as u64 + 4 * (x.bounds.len() as u64 + 1)).max().unwrap();
        let cap = match rng.below(3) { 0 => max_item + rng.below(max_item / 2 + 1), 1 => 2 * max_item, _ => 8 * max_item };
        let nthreads = rng.range(2, if ctx.quick() { 3 } else { 4 }) as usize;
        // programs: a pool of few distinct operations, so that identical ones meet often
        let mut pool: Vec<OpD> = vec![];
        for _ in 0..rng.range(1, 3) {
            let ki = rng.below(nk as u64) as usize;
            let n = env.xorbs[ki].nchunks();
            let s = rng.below(n as u64) as u32;
            let e = rng.range(s as u64 + 1, n as u64) as u32;
            pool.push(OpD::Put(ki, s, e));
            if rng.chance(1, 2) { pool.push(OpD::Get(ki, s, e)); }
            if rng.chance(1, 3) { pool.push(OpD::Put(ki, 0, n)); }
        }
        let mut programs: Vec<Vec<OpD>> = (0..nthreads).map(|_| (0..rng.range(1, 2)).map(|_| rng.pick(&pool).clone()).collect()).collect();
        // in a third of the schedules thread 0 first runs a few puts alone and the cache is re-opened, so that
        // unverified entries exist when the threads start to interleave
        let prefix_len = if rng.chance(1, 3) { rng.range(1, 3) as usize } else { 0 };
        for _ in 0..prefix_len {
            let ki = rng.below(nk as u64) as usize;
            let n = env.xorbs[ki].nchunks();
            let s = rng.below(n as u64) as u32;
            let e = rng.range(s as u64 + 1, n as u64) as u32;
            programs[0].insert(0, OpD::Put(ki, s, e));
        }
        let item_len = |o: &OpD| -> u64 { match o { OpD::Put(k, s, e) | OpD::Get(k, s, e) => { let x = &env.xorbs[*k]; (x.bounds[*e as usize] - x.bounds[*s as usize]) as u64 + 4 * ((*e - *s) as u64 + 2) } } };
        let max_used: u64 = programs.iter().flatten().map(item_len).max().unwrap();
        let cap = if rng.chance(1, 2) { max_used + rng.below(max_used + 1) } else { cap };
        let identical_puts = {
            let all: Vec<String> = programs.iter().enumerate().flat_map(|(t, p)| p.iter().filter(|o| matches!(o, OpD::Put(..))).map(move |o| (t, o.tok()))).map(|(t, s)| format!("{t}|{s}")).collect();
            all.iter().any(|a| all.iter().any(|b| a.split('|').nth(1) == b.split('|').nth(1) && a.split('|').next() != b.split('|').next()))
        };
        let shared = Arc::new(std::sync::RwLock::new(DiskCache::initialize(&CacheConfig { cache_directory: root.clone(), cache_size: cap }).unwrap()));
        let mut reopened = prefix_len == 0;
        // optional sequential prefix + re-open, so that unverified entries exist
        let mut steps: Vec<StepRec> = vec![];
        // ---- spawn the workers
        {
            let mut g = sched.st.lock().unwrap();
            *g = SS { parked: vec![None; nthreads], granted: None, running: None, finished: vec![false; nthreads], last_result: vec![None; nthreads] };
        }
        let mut handles = vec![];
        for (id, prog) in programs.iter().cloned().enumerate() {
            let (shared2, s2) = (shared.clone(), sched.clone());
            let xs: Vec<(Key, Vec<u32>, Vec<u8>)> = env.xorbs.iter().map(|x| (x.key.clone(), x.bounds.clone(), x.data.clone())).collect();
            handles.push(std::thread::spawn(move || {
                WORKER.with(|w| w.set(Some(id)));
                for op in prog {
                    s2.park(id, "op.start");
                    let c = shared2.read().unwrap().clone();
                    let res = match op {
                        OpD::Put(ki, s, e) => {
                            let (key, bounds, data) = &xs[ki];
                            let b0 = bounds[s as usize];
                            let offs: Vec<u32> = bounds[s as usize..=e as usize].iter().map(|b| b - b0).collect();
                            let d = &data[b0 as usize..bounds[e as usize] as usize];
                            match guarded(|| c.put(key, &ChunkRange { start: s, end: e }, &offs, d)) {
                                Err(_) => "panic".to_string(),
                                Ok(Err(e)) => format!("err:{}", err_str(&e)),
                                Ok(Ok(())) => "ok".into(),
                            }
                        }
                        OpD::Get(ki, s, e) => {
                            let (key, _, _) = &xs[ki];
                            match guarded(|| c.get(key, &ChunkRange { start: s, end: e })) {
                                Err(_) => "panic".to_string(),
                                Ok(Err(e)) => format!("err:{}", err_str(&e)),
                                Ok(Ok(None)) => "miss".into(),
                                Ok(Ok(Some(cr))) => format!("hit:{}:{}:{}", cr.data.len(), crc32fast::hash(&cr.data), cr.offsets.iter().map(|o| o.to_string()).collect::<Vec<_>>().join(".")),
                            }
                        }
                    };
                    s2.st.lock().unwrap().last_result[id] = Some(res);
                }
                s2.finish(id);
            }));
        }
        // ---- the controller
        let mut next_op: Vec<usize> = vec![0; nthreads];
        let mut cur_op: Vec<Option<OpD>> = vec![None; nthreads];
        let mut commit_step_of: Vec<Option<usize>> = vec![None; nthreads]; // index into `steps` of the thread's last commit
        let mut unlink_obs: Vec<Vec<Option<(usize, Entry)>>> = vec![vec![]; nthreads]; // observed evicted-file deletions since that commit
        let mut fail_counter = false;
        loop {
            let g = sched.wait_quiet();
            let ready: Vec<usize> = (0..nthreads).filter(|i| !g.finished[*i] && g.parked[*i].is_some()).collect();
            if ready.is_empty() { break; }
            let in_prefix = !reopened && (next_op[0] < prefix_len || g.parked[0] != Some("op.start"));
            if !reopened && !in_prefix {
                // thread 0 finished its solo puts, everybody waits at the start of an operation: close and re-open
                drop(g);
                let order: Vec<String> = walk_order(&root).into_iter().map(|(p, _)| p).collect();
                let fresh = DiskCache::initialize(&CacheConfig { cache_directory: root.clone(), cache_size: cap }).unwrap();
                *shared.write().unwrap() = fresh;
                reopened = true;
                let c = shared.read().unwrap().clone();
                let (n, b, after) = get_snapshot(&c);
                let l = crate::suites::cache_seq::listing(&root);
                steps.push(StepRec { tok_prefix: format!("R:{cap}:{}", order.join(",")), ev: vec![], pick: "-".into(),
                                     answer: format!("ok n={n} b={b} S={} L={}", env.snapshot_str(&after), if verbose { l } else { fnv_str(&l).to_string() }) });
                ctx.stat("schedules_with_prefix_and_reopen");
                continue;
            }
            let tid = if in_prefix { 0 } else { *rng.pick(&ready) };
            let at = g.parked[tid].unwrap();
            drop(g);
            let cache = shared.read().unwrap().clone();
            let (_, _, before) = get_snapshot(&cache);
            let files_before = item_files(&root);
            // grant
            {
                let mut g = sched.st.lock().unwrap();
                g.last_result[tid] = None;
                g.granted = Some(tid);
                sched.cv.notify_all();
            }
            let mut g = sched.wait_quiet();
            let res = g.last_result[tid].take();
            let now_at = g.parked[tid];
            let fin = g.finished[tid];
            drop(g);
            let (n, b, after) = get_snapshot(&cache);
            let files_after = item_files(&root);
            // program counter as the model names it
            let pc = match (&res, now_at) {
                (Some(r), _) => format!("done:{r}"),
                (None, Some(p)) => p.to_string(),
                (None, None) => { assert!(fin); "done:?".to_string() }
            };
            let mut rec = StepRec { tok_prefix: String::new(), ev: vec![], pick: "-".into(), answer: String::new() };
            if at == "op.start" {
                let op = programs[tid][next_op[tid]].clone();
                next_op[tid] += 1;
                rec.tok_prefix = format!("S:{tid}:{}", op.tok());
                cur_op[tid] = Some(op);
                ctx.stat("step_start");
            } else {
                rec.tok_prefix = format!("T:{tid}");
                ctx.stat(&format!("step_from_{at}"));
                let (ki, s, e) = match cur_op[tid].as_ref().unwrap() { OpD::Put(k, s, e) | OpD::Get(k, s, e) => (*k, *s, *e) };
                let key = &env.xorbs[ki].key;
                if at == "cache.put.written" {
                    // commit: which entries did `maybe_evict` choose?
                    for (k, items) in &before {
                        let aft = entries_of(&after, k);
                        for i in items {
                            let gone = !aft.iter().any(|j| (j.0, j.1, j.2, j.3) == (i.0, i.1, i.2, i.3));
                            if gone && !(k == key && s <= i.0 && i.1 <= e) {
                                if let Some(kj) = env.xorbs.iter().position(|y| &y.key == k) { rec.ev.push((kj, *i)); }
                            }
                        }
                    }
                    rec.ev.sort_by(|a, b| a.1 .2.cmp(&b.1 .2).then(a.cmp(b)));
                    ctx.stat_add("evicted_entries", rec.ev.len() as u64);
                    commit_step_of[tid] = Some(steps.len());
                    unlink_obs[tid].clear();
                    // capacity monitor
                    let len = entries_of(&after, key).iter().find(|j| (j.0, j.1) == (s, e)).map(|j| j.2);
                    if let Some(len) = len { if len <= cap && b > cap && f10_fixed {
                        ctx.fail("C13", "capacity-exceeded", format!("total_bytes={b} > capacity={cap} after a commit"), format!("{{\"suite\":\"cache_conc\",\"seed\":{},\"schedule\":{sc}}}", ctx.seed));
                    } }
                } else if at == "cache.put.unlink_subsumed" || at == "cache.put.unlink_evicted" {
                    let gone: Vec<&String> = files_before.difference(&files_after).collect();
                    let obs = gone.first().and_then(|p| {
                        let parts: Vec<&str> = p.split('/').collect();
                        let it = parse_item_name(parts[2])?;
                        let kj = env.xorbs.iter().position(|y| key_dir_name(&y.key) == parts[1])?;
                        Some((kj, (it.0, it.1, it.2, it.3, true)))
                    });
                    if at == "cache.put.unlink_subsumed" {
                        if let Some((_, i)) = obs { rec.pick = format!("{}.{}.{}.{}", i.0, i.1, i.2, i.3); } else { ctx.stat("unlink_of_absent_file"); }
                    } else {
                        if obs.is_none() { ctx.stat("unlink_of_absent_file"); }
                        unlink_obs[tid].push(obs);
                        // fix the order of the eviction choices of the commit to the order of the deletions seen
                        if let Some(ci) = commit_step_of[tid] {
                            let mut rest: Vec<(usize, Entry)> = steps[ci].ev.iter().filter(|x| !unlink_obs[tid].iter().flatten().any(|o| (o.0, o.1 .0, o.1 .1, o.1 .2, o.1 .3) == (x.0, x.1 .0, x.1 .1, x.1 .2, x.1 .3))).cloned().collect();
                            let mut ordered = vec![];
                            for o in unlink_obs[tid].iter() {
                                match o {
                                    Some(o) => { if let Some(x) = steps[ci].ev.iter().find(|x| (o.0, o.1 .0, o.1 .1, o.1 .2, o.1 .3) == (x.0, x.1 .0, x.1 .1, x.1 .2, x.1 .3)) { ordered.push(*x); } }
                                    None => { if !rest.is_empty() { ordered.push(rest.remove(0)); } }
                                }
                            }
                            ordered.extend(rest);
                            if ordered.len() == steps[ci].ev.len() { steps[ci].ev = ordered; }
                        }
                    }
                }
            }
            // monitors at every step: counters = sums over the snapshot
            let cnt: usize = after.iter().map(|(_, v)| v.len()).sum();
            let sum: u64 = after.iter().flat_map(|(_, v)| v.iter().map(|i| i.2)).sum();
            if (n != cnt || b != sum) && !fail_counter {
                fail_counter = true;
                let key = if identical_puts { "identical-concurrent-put-total-bytes" } else { "counter-mismatch" };
                ctx.fail("C13", key, format!("num_items={n} (tracked {cnt}), total_bytes={b} (tracked sum {sum}) after step {} of schedule {sc}", steps.len()),
                         format!("{{\"suite\":\"cache_conc\",\"seed\":{},\"schedule\":{sc}}}", ctx.seed));
                ctx.stat("schedules_with_counter_mismatch");
            }
            if let Some(r) = &res {
                if r == "panic" { ctx.fail("C12", "panic", format!("operation panicked in schedule {sc}"), format!("{{\"suite\":\"cache_conc\",\"seed\":{},\"schedule\":{sc}}}", ctx.seed)); }
                if r.starts_with("hit:") {
                    if let Some(OpD::Get(ki, s, e)) = &cur_op[tid] {
                        let (offs, data) = env.xorbs[*ki].slice(*s, *e);
                        let exp = format!("hit:{}:{}:{}", data.len(), crc32fast::hash(data), offs.iter().map(|o| o.to_string()).collect::<Vec<_>>().join("."));
                        if &exp != r { ctx.fail("C12", "hit-wrong-data", format!("get in schedule {sc} returned a hit that is not the reference slice"), format!("{{\"suite\":\"cache_conc\",\"seed\":{},\"schedule\":{sc}}}", ctx.seed)); }
                    }
                    ctx.stat("get_hit");
                }
                ctx.stat(&format!("op_result_{}", r.split(':').next().unwrap()));
            }
            let l = crate::suites::cache_seq::listing(&root);
            rec.answer = format!("{pc} n={n} b={b} S={} L={}", env.snapshot_str(&after), if verbose { l } else { fnv_str(&l).to_string() });
            steps.push(rec);
        }
        for h in handles { h.join().unwrap(); }
        let cache = shared.read().unwrap().clone();
        // ---- quiescent: every cache file is tracked
        let (_, _, snap) = get_snapshot(&cache);
        let tracked: BTreeSet<String> = snap.iter().flat_map(|(k, v)| {
            let kd = key_dir_name(k);
            v.iter().map(move |i| format!("{}/{}/{}", &kd[..2], kd, item_name(i.0, i.1, i.2, i.3)))
        }).collect();
        for p in item_files(&root) {
            if !tracked.contains(&p) {
                ctx.fail("C13", "untracked-cache-file", format!("schedule {sc}: file {p} on disk is not tracked at quiescence"), format!("{{\"suite\":\"cache_conc\",\"seed\":{},\"schedule\":{sc}}}", ctx.seed));
            }
        }
        let missing = tracked.iter().filter(|p| !root.join(p).exists()).count();
        if missing > 0 { ctx.stat("schedules_with_tracked_entry_without_file"); }
        // ---- read every entry back (drops entries whose file a racing deletion removed): totals = disk
        WORKER.with(|w| w.set(None));
        for (k, v) in &snap { for i in v { let _ = cache.get(k, &ChunkRange { start: i.0, end: i.1 }); } }
        let (n2, b2, snap2) = get_snapshot(&cache);
        let files: Vec<String> = item_files(&root).into_iter().collect();
        let disk_bytes: u64 = files.iter().map(|p| std::fs::metadata(root.join(p)).map(|m| m.len()).unwrap_or(0)).sum();
        // an entry nested in an earlier entry of its key can never be the first match of a `get`, so it cannot be
        // read back; such entries may stay stale (file removed by a racing deletion) until they are evicted
        let mut stale_n = 0usize;
        let mut stale_b = 0u64;
        for (k, v) in &snap2 {
            let kd = key_dir_name(k);
            for (idx, i) in v.iter().enumerate() {
                let p = format!("{}/{}/{}", &kd[..2], kd, item_name(i.0, i.1, i.2, i.3));
                if !root.join(&p).exists() {
                    let shadowed = v[..idx].iter().any(|j| j.0 <= i.0 && i.1 <= j.1);
                    if shadowed { stale_n += 1; stale_b += i.2; ctx.stat("stale_entry_shadowed_by_covering_entry"); }
                    else {
                        ctx.fail("C13", "entry-without-file-after-read-back", format!("schedule {sc}: entry [{},{}) has no file after it was read back", i.0, i.1),
                                 format!("{{\"suite\":\"cache_conc\",\"seed\":{},\"schedule\":{sc}}}", ctx.seed));
                    }
                }
            }
        }
        if (n2 != files.len() + stale_n || b2 != disk_bytes + stale_b) && !fail_counter {
            ctx.fail("C13", "totals-differ-from-disk", format!("schedule {sc}: after read-back num_items={n2} total_bytes={b2}, disk has {} files / {disk_bytes} bytes (+{stale_n} unreadable stale entries / {stale_b} bytes)", files.len()),
                     format!("{{\"suite\":\"cache_conc\",\"seed\":{},\"schedule\":{sc}}}", ctx.seed));
        }
        let _ = state_str;
        // ---- emit the schedule
        let toks: Vec<String> = steps.iter().map(|r| {
            if r.tok_prefix.starts_with("S:") || r.tok_prefix.starts_with("R:") { r.tok_prefix.clone() } else {
                let evs = if r.ev.is_empty() { "-".to_string() } else { r.ev.iter().map(|(kj, i)| format!("{kj}.{}.{}.{}.{}", i.0, i.1, i.2, i.3)).collect::<Vec<_>>().join("+") };
                format!("{}:{}:{}", r.tok_prefix, evs, r.pick)
            }
        }).collect();
        let line = format!("cache.conc cap={cap} f10={} f14={} threads={nthreads} {}{} sched={}", f10_fixed as u8, f14_fixed as u8, env.preamble(),
                           if verbose { " verbose=1" } else { "" }, toks.join(";"));
        let ans = steps.iter().map(|r| r.answer.clone()).collect::<Vec<_>>().join(" | ");
        ctx.case(fnv_str(&line), steps.len() > 2 * nthreads);
        ctx.stat(&format!("schedules_threads_{nthreads}"));
        if identical_puts { ctx.stat("schedules_with_identical_puts"); }
        ctx.stat_add("steps", steps.len() as u64);
        ctx.op(&line, &ans);
        drop(cache);
        drop(shared);
    }
    utils::verif_hooks::set_callback(None);

    // ---- damaged entry read by two readers at once (C12): an entry is put, the cache closed, one byte of its file flipped (or
    // not: control), the cache re-opened; while the first reader is inside its checksum pass a second reader of the same entry
    // runs to completion.  Neither may return a hit that is not the reference slice.
    {
        thread_local! { static NESTED: std::cell::Cell<bool> = const { std::cell::Cell::new(false) }; }
        type Inner = Option<(Key, ChunkRange, Arc<DiskCache>)>;
        static PLAN: Mutex<Inner> = Mutex::new(None);
        static INNER_RESULT: Mutex<Option<String>> = Mutex::new(None);
        let show = |r: Result<Result<Option<chunk_cache::CacheRange>, chunk_cache::error::ChunkCacheError>, ()>| -> String { match r {
            Err(_) => "panic".to_string(), Ok(Err(e)) => format!("err:{}", err_str(&e)), Ok(Ok(None)) => "miss".into(),
            Ok(Ok(Some(cr))) => format!("hit:{}:{}:{}", cr.data.len(), crc32fast::hash(&cr.data), cr.offsets.iter().map(|o| o.to_string()).collect::<Vec<_>>().join(".")) } };
        utils::verif_hooks::set_callback(Some(Arc::new(move |name| {
            if name != "cache.crc.begin" || NESTED.with(|n| n.get()) { return; }
            let plan = PLAN.lock().unwrap().take();
            if let Some((key, range, cache)) = plan {
                NESTED.with(|n| n.set(true));
                let r = guarded(|| cache.get(&key, &range));
                NESTED.with(|n| n.set(false));
                *INNER_RESULT.lock().unwrap() = Some(match r { Err(_) => "panic".to_string(), Ok(Err(e)) => format!("err:{}", err_str(&e)), Ok(Ok(None)) => "miss".into(),
                    Ok(Ok(Some(cr))) => format!("hit:{}:{}:{}", cr.data.len(), crc32fast::hash(&cr.data), cr.offsets.iter().map(|o| o.to_string()).collect::<Vec<_>>().join(".")) });
            }
        })));
        for round in 0..(if ctx.quick() { 60 } else { 600 }) {
            let mut rng = ctx.rng.fork(0xDA3A + round);
            let env = gen_env(ctx, &mut rng, 1, false);
            let _ = std::fs::remove_dir_all(&root);
            std::fs::create_dir_all(&root).unwrap();
            let x = &env.xorbs[0];
            let n = x.nchunks();
            let s = rng.below(n as u64) as u32; let e = rng.range(s as u64 + 1, n as u64) as u32;
            let cfg = CacheConfig { cache_directory: root.clone(), cache_size: 1 << 30 };
            { let c = DiskCache::initialize(&cfg).unwrap(); let (offs, data) = x.slice(s, e); c.put(&x.key, &ChunkRange { start: s, end: e }, &offs, data).unwrap(); }
            let files: Vec<String> = item_files(&root).into_iter().collect();
            let damaged = !rng.chance(1, 4);
            if damaged && files.len() == 1 {
                let p = root.join(&files[0]); let mut b = std::fs::read(&p).unwrap();
                let pos = match rng.below(3) { 0 => b.len() - 1, 1 => rng.below(b.len() as u64) as usize, _ => b.len() - 1 - rng.below((b.len() as u64).min(64)) as usize };
                b[pos] ^= 1 << rng.below(8); std::fs::write(&p, &b).unwrap();
            }
            let c = Arc::new(DiskCache::initialize(&cfg).unwrap());
            // the second reader asks for the whole entry or a sub-range of it
            let (s2, e2) = if rng.chance(1, 2) { (s, e) } else { let a = rng.range(s as u64, e as u64 - 1) as u32; (a, rng.range(a as u64 + 1, e as u64) as u32) };
            *INNER_RESULT.lock().unwrap() = None;
            *PLAN.lock().unwrap() = Some((x.key.clone(), ChunkRange { start: s2, end: e2 }, c.clone()));
            let c1 = c.clone(); let k1 = x.key.clone();
            let outer = show(guarded(move || c1.get(&k1, &ChunkRange { start: s, end: e })));
            *PLAN.lock().unwrap() = None;
            let inner = INNER_RESULT.lock().unwrap().take();
            let reference = |a: u32, b: u32| { let (offs, data) = x.slice(a, b); format!("hit:{}:{}:{}", data.len(), crc32fast::hash(data), offs.iter().map(|o| o.to_string()).collect::<Vec<_>>().join(".")) };
            for (who, r, (a, b)) in [("first reader", Some(outer.clone()), (s, e)), ("second reader (during the first one's checksum pass)", inner.clone(), (s2, e2))] {
                let Some(r) = r else { continue; };
                if r == "panic" { ctx.fail("C12", "panic", format!("{who} panicked on a {} entry (round {round})", if damaged { "damaged" } else { "valid" }), format!("{{\"suite\":\"cache_conc\",\"seed\":{},\"damaged_round\":{round}}}", ctx.seed)); }
                if r.starts_with("hit:") && r != reference(a, b) {
                    ctx.fail("C12", "damaged-entry-hit-during-concurrent-verification", format!("{who}: get([{a},{b})) on an entry whose file was {} while the cache was closed is a hit that is not the slice of what was put (round {round})", if damaged { "damaged (one bit flipped)" } else { "left intact" }),
                             format!("{{\"suite\":\"cache_conc\",\"seed\":{},\"damaged_round\":{round}}}", ctx.seed));
                }
                if !damaged && !r.starts_with("hit:") { ctx.stat("intact_entry_not_hit"); }
            }
            ctx.stat(if damaged { "damaged_rounds" } else { "intact_rounds" });
            if inner.is_some() { ctx.stat("second_reader_ran_inside_checksum_pass"); }
            ctx.stat(&format!("damaged_round_outer_{}", outer.split(':').next().unwrap()));
        }
        utils::verif_hooks::set_callback(None);
    }
    // ---- free-running threads putting DISTINCT new items into a full cache (C13): whatever the interleaving, after every put the
    // byte total is within the capacity, and at the end of a round totals, tracked entries and the directory agree
    {
        let rounds = if ctx.quick() { 12 } else { 80 };
        let (nthreads, per_thread) = (8usize, 80usize);
        let mut rng = ctx.rng.fork(0xD157);
        for round in 0..rounds {
            let _ = std::fs::remove_dir_all(&root);
            std::fs::create_dir_all(&root).unwrap();
            let len = rng.range(200, 3000) as usize;
            let file_len = (len + 12) as u64;
            let slots = rng.range(3, 9);
            let cap = slots * file_len + rng.below(file_len);
            let cache = Arc::new(DiskCache::initialize(&CacheConfig { cache_directory: root.clone(), cache_size: cap }).unwrap());
            let mk = move |t: u64, j: u64| -> (Key, Vec<u8>) { let mut r = Rng::new(round * 1_000_003 + t * 1009 + j); (Key { prefix: "default".into(), hash: merklehash::MerkleHash::from([r.next(), r.next(), t, j]) }, r.bytes(len)) };
            for j in 0..slots { let (k, d) = mk(99, j); cache.put(&k, &ChunkRange { start: 0, end: 1 }, &[0, len as u32], &d).unwrap(); }
            let worst = Arc::new(std::sync::atomic::AtomicU64::new(0));
            let barrier = Arc::new(std::sync::Barrier::new(nthreads));
            let hs: Vec<_> = (0..nthreads as u64).map(|t| { let (c, w, b) = (cache.clone(), worst.clone(), barrier.clone()); std::thread::spawn(move || {
                b.wait();
                for j in 0..per_thread as u64 {
                    let (k, d) = mk(t, j);
                    let _ = c.put(&k, &ChunkRange { start: 0, end: 1 }, &[0, len as u32], &d);
                    if let Ok(tb) = c.total_bytes() { w.fetch_max(tb, std::sync::atomic::Ordering::Relaxed); }
                }
            }) }).collect();
            let panicked = hs.into_iter().map(|h| h.join()).filter(|r| r.is_err()).count();
            let replay = format!("{{\"suite\":\"cache_conc\",\"seed\":{},\"free_running_round\":{round},\"threads\":{nthreads},\"puts_per_thread\":{per_thread},\"item_file_len\":{file_len},\"capacity\":{cap}}}", ctx.seed);
            if panicked > 0 { ctx.fail("C12", "panic", format!("{panicked} threads panicked while putting distinct items concurrently (round {round})"), replay.clone()); }
            let w = worst.load(std::sync::atomic::Ordering::Relaxed);
            let (n, b, snap) = get_snapshot(&cache);
            let disk: u64 = item_files(&root).iter().map(|f| std::fs::metadata(root.join(f)).map(|m| m.len()).unwrap_or(0)).sum();
            if w > cap || b > cap || disk > cap {
                ctx.fail("C13", "capacity-exceeded-under-concurrent-distinct-puts", format!("{nthreads} threads each put {per_thread} distinct new items of {file_len} bytes into a full cache of capacity {cap}: byte total observed right after a put {w}, at the end {b} ({n} items), on disk {disk} bytes (round {round})"), replay.clone());
            }
            let tracked: u64 = snap.iter().map(|(_, v)| v.iter().map(|e| e.2).sum::<u64>()).sum();
            if tracked != b || disk != b { ctx.fail("C13", "totals-differ-after-concurrent-distinct-puts", format!("after the threads finished: total_bytes {b}, tracked entries sum {tracked}, directory holds {disk} bytes (round {round})"), replay); }
            ctx.stat("free_running_distinct_put_rounds");
        }
    }
    std::panic::set_hook(old_hook);
    let _ = std::fs::remove_dir_all(&root);
    let _: Option<(Env, Rng)> = None;
}
