//! Suite `chunker` (C04): real `deduplication::Chunker` vs the Lean model (`feed`, `specSplit`, per-call trace).
use deduplication::constants::{MAXIMUM_CHUNK_MULTIPLIER, MINIMUM_CHUNK_DIVISOR};
use deduplication::Chunker;

use crate::ctx::{fnv, join, Ctx};
use crate::rng::Rng;

pub fn mask_of(target: usize) -> u64 {
    let m = (target - 1) as u64;
    m << m.leading_zeros()
}

/// slow scalar reference of the gear-hash rule, written from the rule (not from `Chunker::next`):
/// byte i (0-based since the last boundary) is hashed iff i + 65 >= minC; boundary after byte i iff
/// hash & mask == 0 or i + 1 >= maxC.
pub fn reference_split(data: &[u8], min_c: usize, max_c: usize, mask: u64) -> Vec<usize> {
    let table = &gearhash::DEFAULT_TABLE;
    let mut lens = Vec::new();
    let mut start = 0usize;
    let mut h = 0u64;
    for (pos, b) in data.iter().enumerate() {
        let i = pos - start;
        if i + 65 < min_c { continue; }
        h = (h << 1).wrapping_add(table[*b as usize]);
        if h & mask == 0 || i + 1 >= max_c {
            lens.push(pos + 1 - start);
            start = pos + 1;
            h = 0;
        }
    }
    if start < data.len() { lens.push(data.len() - start); }
    lens
}

fn gen_stream(rng: &mut Rng, kind: u64, len: usize, target: usize, min_c: usize, max_c: usize) -> Vec<u8> {
    let table = &gearhash::DEFAULT_TABLE;
    let mask = mask_of(target);
    match kind {
        0 => rng.bytes(len),
        1 => vec![rng.below(256) as u8; len],
        2 => { let k = rng.range(1, 300) as usize; let pat = rng.bytes(k); (0..len).map(|i| pat[i % k]).collect() }
        3 => { let a = rng.range(2, 4) as usize; let alpha = rng.bytes(a); (0..len).map(|_| alpha[rng.below(a as u64) as usize]).collect() }
        4 => {
            // never-match: choose each hashed byte so that the hash does not match (forced cuts at maxC)
            let mut v = Vec::with_capacity(len);
            let (mut h, mut i) = (0u64, 0usize);
            while v.len() < len {
                if i + 65 < min_c { v.push(rng.below(256) as u8); i += 1; continue; }
                let mut b = rng.below(256) as u8;
                let mut tries = 0;
                while ((h << 1).wrapping_add(table[b as usize])) & mask == 0 && tries < 300 { b = b.wrapping_add(1); tries += 1; }
                h = (h << 1).wrapping_add(table[b as usize]);
                v.push(b);
                i += 1;
                if i >= max_c { i = 0; h = 0; }
            }
            v
        }
        _ => {
            // earliest-match / chosen-position match: random filler, then brute-force the last two bytes of
            // a chosen chunk length so that the hash matches exactly there
            let mut v = Vec::with_capacity(len);
            while v.len() < len {
                let first_hashed = min_c.saturating_sub(65);
                let want = match rng.below(5) {
                    0 => first_hashed + 2,                         // earliest reachable with 2 free bytes
                    4 => first_hashed + 2 + rng.below(62) as usize, // while the first hashed byte is still in the 64-byte window
                    1 => max_c - 1,                                // one before the forced cut
                    2 => max_c,                                    // coincides with the forced cut
                    _ => rng.range(first_hashed as u64 + 2, max_c as u64) as usize,
                };
                let mut chunk = rng.bytes(want);
                // hash of the prefix (without the last two bytes), avoiding earlier matches
                let mut h = 0u64;
                for i in first_hashed..want - 2 {
                    let mut b = chunk[i];
                    let mut tries = 0;
                    while ((h << 1).wrapping_add(table[b as usize])) & mask == 0 && tries < 300 { b = b.wrapping_add(1); tries += 1; }
                    chunk[i] = b;
                    h = (h << 1).wrapping_add(table[b as usize]);
                }
                'search: for a in 0..=255u8 {
                    let h1 = (h << 1).wrapping_add(table[a as usize]);
                    if h1 & mask == 0 { continue; }
                    for b in 0..=255u8 {
                        let h2 = (h1 << 1).wrapping_add(table[b as usize]);
                        if h2 & mask == 0 { chunk[want - 2] = a; chunk[want - 1] = b; break 'search; }
                    }
                }
                v.extend_from_slice(&chunk);
            }
            v.truncate(len);
            v
        }
    }
}

fn gen_partition(rng: &mut Rng, kind: u64, len: usize, target: usize, allow_tiny: bool) -> Vec<usize> {
    let mut parts = Vec::new();
    let mut left = len;
    match kind {
        0 => parts.push(len),
        1 => {
            let ks: &[usize] = if allow_tiny { &[1, 2, 3, 7, 63, 64, 65] } else { &[4096, 65536, 1000, 8 * 1024 * 1024] };
            let k = (*rng.pick(ks)).max(if allow_tiny { 1 } else { target / 8 });
            while left > 0 { let n = k.min(left); parts.push(n); left -= n; }
        }
        _ => {
            while left > 0 {
                let n = match rng.below(6) {
                    0 => 0,
                    1 => 1,
                    2 => rng.below(70) as usize,
                    3 => rng.below(target as u64 / 2 + 1) as usize,
                    _ => rng.below(4 * target as u64 + 1) as usize,
                };
                let n = if !allow_tiny && n < target / 16 && n > 1 { target / 16 } else { n };
                let n = n.min(left);
                parts.push(n);
                left -= n;
            }
            if rng.chance(1, 3) { parts.push(0); }
        }
    }
    parts
}

/// partition whose call boundaries sit at chosen offsets relative to the chunk structure of the stream
/// (the start of hashing `min-65`, the minimum, the cut itself, the forced cut), not at random positions
fn gen_partition_aligned(rng: &mut Rng, reference: &[usize], len: usize, min_c: usize, max_c: usize) -> Vec<usize> {
    let mut cuts: Vec<usize> = Vec::new();
    let mut start = 0usize;
    for l in reference {
        let k = 1 + rng.below(3);
        for _ in 0..k {
            let d = rng.below(5) as usize;
            let off = match rng.below(7) {
                0 | 1 => (min_c + d).saturating_sub(66),     // min-66 ..= min-62: around the first hashed byte
                2 => (min_c + d).saturating_sub(2),          // around the minimum
                3 => d.min(2),                               // right after the previous cut
                4 => (l + d).saturating_sub(3),              // around this cut
                5 => (max_c + d).saturating_sub(3),          // around the forced cut
                _ => rng.below(*l as u64 + 1) as usize,
            };
            if off <= *l { cuts.push(start + off); }
        }
        start += l;
    }
    cuts.push(len);
    cuts.retain(|c| *c <= len);
    cuts.sort();
    let mut parts = Vec::new();
    let mut pos = 0;
    for c in cuts { parts.push(c - pos); pos = c; }   // equal cut points give empty calls
    parts
}

pub fn run(ctx: &mut Ctx) {
    let mindiv = *MINIMUM_CHUNK_DIVISOR;
    let maxmul = *MAXIMUM_CHUNK_MULTIPLIER;
    let budget: usize = if ctx.quick() { 10 << 20 } else { 200 << 20 };
    let mut used = 0usize;
    let mut case_no = 0u64;
    while used < budget {
        case_no += 1;
        let mut rng = ctx.rng.fork(case_no);
        let texp = match rng.below(12) { 0 => 7, 1 => 8, 2 => 9, 3 => 10, 4 => 11, 5 => 12, 6 => 13, 7 => 14, 8 => 15, 9 | 10 => 16, _ => if ctx.quick() { 16 } else { 20 } };
        let target = 1usize << texp;
        let (min_c, max_c) = (target / mindiv, target * maxmul);
        let skind = rng.below(6);
        let pkind = rng.below(4);
        let tiny_ok = target <= 1024;
        let max_len = if tiny_ok { 24 * 1024 } else { (12 * max_c).min(if ctx.quick() { 2 << 20 } else { 24 << 20 }) };
        let len = match rng.below(10) {
            0 => 0,
            1 => rng.below(66) as usize,
            2 => rng.range((min_c as u64).saturating_sub(66), min_c as u64 + 2) as usize,
            3 => rng.range(max_c as u64 - 2, max_c as u64 + 2) as usize,
            _ => rng.below(max_len as u64 + 1) as usize,
        };
        let data = gen_stream(&mut rng, skind, len, target, min_c, max_c);
        let parts = if pkind == 3 {
            let r = reference_split(&data, min_c, max_c, mask_of(target));
            gen_partition_aligned(&mut rng, &r, len, min_c, max_c)
        } else { gen_partition(&mut rng, pkind, len, target, tiny_ok) };
        used += len + 1024;

        // ---- implementation: feed through next_block + finish; and a per-call trace on a second chunker
        let mut chunker = Chunker::new(target);
        let mut chunks = Vec::new();
        let mut pos = 0;
        for n in &parts {
            chunks.extend(chunker.next_block(&data[pos..pos + n], false));
            pos += n;
        }
        if let Some(c) = chunker.finish() { chunks.push(c); }
        let lens: Vec<usize> = chunks.iter().map(|c| c.data.len()).collect();

        let mut tr = Vec::new();
        let mut c2 = Chunker::new(target);
        let mut pos = 0;
        for n in &parts {
            let part = &data[pos..pos + n];
            let mut p = 0;
            while p < part.len() {
                let (mc, consumed) = c2.next(&part[p..], false);
                match mc { Some(c) => tr.push(format!("s{}:{}", c.data.len(), consumed)), None => tr.push(format!("n:{consumed}")) }
                p += consumed;
                if consumed == 0 { ctx.fail("C04", "next-consumed-zero", format!("next consumed 0 bytes of non-empty data (case {case_no})"), "null".into()); break; }
            }
            pos += n;
        }
        let fin = match c2.finish() { Some(c) => format!("s{}", c.data.len()), None => "n".into() };

        // ---- monitors on the implementation
        let reference = reference_split(&data, min_c, max_c, mask_of(target));
        let cat: Vec<u8> = chunks.iter().flat_map(|c| c.data.iter().copied()).collect();
        let (off, blen) = ctx.blob(&data);
        let replay = format!("{{\"suite\":\"chunker\",\"seed\":{},\"case\":{},\"target\":{},\"len\":{},\"stream_kind\":{},\"parts\":[{}]}}",
                             ctx.seed, case_no, target, len, skind, join(&parts));
        if cat != data { ctx.fail("C04", "concat", format!("chunks do not concatenate to the input (case {case_no})"), replay.clone()); }
        if lens != reference { ctx.fail("C04", "reference-rule", format!("boundaries differ from the reference gear-hash rule (case {case_no}): impl {:?}.. ref {:?}..", &lens[..lens.len().min(6)], &reference[..reference.len().min(6)]), replay.clone()); }
        for (i, l) in lens.iter().enumerate() {
            if *l == 0 || *l > max_c || (i + 1 < lens.len() && *l + 64 < min_c) {
                ctx.fail("C04", "bounds", format!("chunk {i} of length {l} violates bounds min={min_c} max={max_c} (case {case_no})"), replay.clone());
                break;
            }
        }
        for (c, l) in chunks.iter().zip(lens.iter()) {
            let _ = l;
            if c.hash != merklehash::compute_data_hash(&c.data) { ctx.fail("C04", "chunk-hash", format!("chunk hash is not compute_data_hash of its bytes (case {case_no})"), replay.clone()); break; }
        }
        // one-shot vs partition
        if parts.len() > 1 {
            let mut c3 = Chunker::new(target);
            let mut one: Vec<usize> = c3.next_block(&data, false).iter().map(|c| c.data.len()).collect();
            if let Some(c) = c3.finish() { one.push(c.data.len()); }
            if one != lens { ctx.fail("C04", "partition", format!("partitioned feed differs from one-shot (case {case_no})"), replay.clone()); }
        }

        let line = format!("chunker target={target} mindiv={mindiv} maxmul={maxmul} off={off} len={blen} parts={}", join(&parts));
        let ans = format!("min={min_c} max={max_c} feed={} spec={} trace={} fin={fin}", join(&lens), join(&reference), tr.join(","));
        ctx.op(&line, &ans);
        let forced = lens.iter().filter(|l| **l == max_c).count();
        ctx.stat(&format!("target_2^{texp}"));
        ctx.stat(&format!("stream_kind_{}", ["random", "constant", "periodic", "low_entropy", "never_match", "engineered_match"][skind as usize]));
        ctx.stat(&format!("partition_{}", ["oneshot", "fixed", "random", "structure_aligned"][pkind as usize]));
        ctx.stat_add("bytes", len as u64);
        ctx.stat_add("chunks", lens.len() as u64);
        ctx.stat_add("forced_cuts", forced as u64);
        ctx.stat_add("calls", tr.len() as u64);
        if parts.iter().any(|p| *p == 0) { ctx.stat("has_empty_call"); }
        if parts.iter().any(|p| *p == 1) { ctx.stat("has_one_byte_call"); }
        ctx.case(fnv(&data) ^ fnv(join(&parts).as_bytes()) ^ target as u64, lens.len() >= 2);
    }
}
