//! Suite `shard` (C09, C05): serialized shards vs the Lean model — bytes, every lookup, scans, totals,
//! size accounting, dedup queries (in-memory and on-disk, incl. engineered truncated-prefix collisions).
use std::collections::BTreeMap;
use std::io::Cursor;

use mdb_shard::cas_structs::{CASChunkSequenceEntry, CASChunkSequenceHeader, MDBCASInfo};
use mdb_shard::file_structs::{FileDataSequenceEntry, FileDataSequenceHeader, FileMetadataExt, FileVerificationEntry, MDBFileInfo};
use mdb_shard::shard_format::MDBShardInfo;
use mdb_shard::shard_in_memory::MDBInMemoryShard;
use merklehash::MerkleHash;

use crate::ctx::{fnv, Ctx};
use crate::rng::Rng;
use crate::suites::hashes::rand_hash;

pub fn footer_str(s: &MDBShardInfo) -> String {
    let m = &s.metadata;
    format!("v={} fio={} cio={} flo={} fln={} clo={} cln={} hlo={} hln={} key={} sd={} mat={} st={} fo={}", m.version, m.file_info_offset, m.cas_info_offset,
            m.file_lookup_offset, m.file_lookup_num_entry, m.cas_lookup_offset, m.cas_lookup_num_entry, m.chunk_lookup_offset, m.chunk_lookup_num_entry,
            m.chunk_hash_hmac_key.hex(), m.stored_bytes_on_disk, m.materialized_bytes, m.stored_bytes, m.footer_offset)
}

pub fn file_bytes(f: &MDBFileInfo) -> Vec<u8> { let mut v = Vec::new(); f.serialize(&mut v).unwrap(); v }
pub fn cas_bytes(c: &MDBCASInfo) -> Vec<u8> { let mut v = Vec::new(); c.serialize(&mut v).unwrap(); v }

/// the chunk lookup table region re-sorted canonically (key, cas index, chunk index): `sort_unstable_by_key`
/// leaves the order among equal keys unspecified
pub fn canonical_bytes(bytes: &[u8], info: &MDBShardInfo) -> (Vec<u8>, bool) {
    let lo = info.metadata.chunk_lookup_offset as usize;
    let n = info.metadata.chunk_lookup_num_entry as usize;
    let mut rows: Vec<(u64, u32, u32)> = (0..n).map(|i| { let r = &bytes[lo + 16 * i..lo + 16 * i + 16]; (u64::from_le_bytes(r[0..8].try_into().unwrap()), u32::from_le_bytes(r[8..12].try_into().unwrap()), u32::from_le_bytes(r[12..16].try_into().unwrap())) }).collect();
    let sorted = rows.windows(2).all(|w| w[0].0 <= w[1].0);
    rows.sort();
    let mut out = bytes.to_vec();
    for (i, r) in rows.iter().enumerate() { out[lo + 16 * i..lo + 16 * i + 8].copy_from_slice(&r.0.to_le_bytes()); out[lo + 16 * i + 8..lo + 16 * i + 12].copy_from_slice(&r.1.to_le_bytes()); out[lo + 16 * i + 12..lo + 16 * i + 16].copy_from_slice(&r.2.to_le_bytes()); }
    (out, sorted)
}

pub struct Gen { pub cas: Vec<MDBCASInfo>, pub files: Vec<MDBFileInfo> }

pub fn gen_hash(rng: &mut Rng, dist: u64, pool: &mut Vec<MerkleHash>) -> MerkleHash {
    let mut h = rand_hash(rng);
    match dist {
        1 => { h[0] = (0x4242u64 << 44) | rng.below(1 << 20); }                               // clustered in a 2^-20 slice... of the top
        2 => { h[0] = *rng.pick(&[0u64, 1, u64::MAX, u64::MAX - 1, u64::MAX - 2, 1 << 63]); }   // extremes
        3 => { if !pool.is_empty() && rng.chance(2, 3) { let p = *rng.pick(pool); h[0] = p[0]; } } // shared truncated prefix
        _ => {}
    }
    if h == MerkleHash::from([!0u64; 4]) { h[1] = 7; }
    pool.push(h);
    h
}

pub fn gen_content(rng: &mut Rng, ncas: usize, nfiles: usize, dist: u64, allow_readd: bool) -> Gen {
    let mut pool = Vec::new();
    let mut chunk_pool: Vec<MerkleHash> = Vec::new();
    let mut cas = Vec::new();
    for _ in 0..ncas {
        let h = gen_hash(rng, dist, &mut pool);
        let n = match rng.below(6) { 0 => 0, 1 => 1, 2 => rng.range(2, 5), _ => rng.range(1, 30) } as usize;
        let mut chunks = Vec::new();
        let mut pos = 0u32;
        for _ in 0..n {
            let ch = if !chunk_pool.is_empty() && rng.chance(1, 10) { *rng.pick(&chunk_pool) }          // duplicate chunk hash across/within xorbs
                     else { let d = if rng.chance(1, 6) { 3 } else { dist }; gen_hash(rng, d, &mut chunk_pool) };
            let len = rng.range(1, 131072) as u32;
            chunks.push(CASChunkSequenceEntry::new(ch, len, pos));
            pos += len;
        }
        let mut md = CASChunkSequenceHeader::new(h, n, pos);
        md.num_bytes_on_disk = rng.below(pos as u64 + 1) as u32;
        if rng.chance(1, 10) { md.cas_flags = rng.below(4) as u32; }
        cas.push(MDBCASInfo { metadata: md, chunks });
        if allow_readd && rng.chance(1, 8) {
            // re-add an existing xorb hash: identical, or with a different chunk list (replaces the earlier block)
            let mut c = cas[rng.below(cas.len() as u64) as usize].clone();
            if rng.chance(1, 2) { let k = rng.range(1, 4); for _ in 0..k { c.chunks.push(CASChunkSequenceEntry::new(rand_hash(rng), rng.range(1, 5000) as u32, c.metadata.num_bytes_in_cas)); } c.metadata.num_entries = c.chunks.len() as u32; }
            else if c.chunks.len() > 1 && rng.chance(1, 2) { c.chunks.truncate(1); c.metadata.num_entries = 1; }
            cas.push(c);
        }
    }
    let mut files = Vec::new();
    for _ in 0..nfiles {
        let h = gen_hash(rng, dist, &mut pool);
        let nseg = match rng.below(6) { 0 => 0, 1 => 1, _ => rng.range(1, 12) } as usize;
        let (ver, meta) = (rng.chance(1, 2), rng.chance(1, 2));
        let mut segs = Vec::new();
        // one file in twelve is huge: every segment close to the u32 limit, so that the file's bytes (and the shard's totals) pass 2^32
        let huge = rng.chance(1, 12);
        for _ in 0..nseg {
            let ch = if !cas.is_empty() && rng.chance(3, 4) { cas[rng.below(cas.len() as u64) as usize].metadata.cas_hash } else { rand_hash(rng) };
            let s = rng.below(20) as u32; let e = s + rng.range(1, 20) as u32;
            let bytes = if huge { rng.range(1 << 31, u32::MAX as u64) as u32 } else { rng.range(1, 5_000_000) as u32 };
            segs.push(FileDataSequenceEntry::new(ch, bytes, s, e));
        }
        let verification = if ver { (0..nseg).map(|_| FileVerificationEntry::new(rand_hash(rng))).collect() } else { vec![] };
        let f = MDBFileInfo { metadata: FileDataSequenceHeader::new(h, nseg, ver, meta), segments: segs, verification, metadata_ext: if meta { Some(FileMetadataExt::new(rand_hash(rng))) } else { None } };
        files.push(f);
        if allow_readd && rng.chance(1, 8) {
            // re-add an existing file hash: identical, or with another flag combination / another segment list (the later record replaces
            // the earlier one in the BTreeMap; the size accounting must follow)
            let mut f2 = files[rng.below(files.len() as u64) as usize].clone();
            match rng.below(4) {
                0 => {}
                1 => { let (ver, meta) = (rng.chance(1, 2), rng.chance(1, 2));
                       f2.metadata = FileDataSequenceHeader::new(f2.metadata.file_hash, f2.segments.len(), ver, meta);
                       f2.verification = if ver { (0..f2.segments.len()).map(|_| FileVerificationEntry::new(rand_hash(rng))).collect() } else { vec![] };
                       f2.metadata_ext = if meta { Some(FileMetadataExt::new(rand_hash(rng))) } else { None }; }
                _ => { let extra = rng.range(1, 5) as usize; for _ in 0..extra { f2.segments.push(FileDataSequenceEntry::new(rand_hash(rng), rng.range(1, 1000) as u32, 0, 1)); }
                       if rng.chance(1, 2) && f2.segments.len() > extra + 1 { f2.segments.truncate(1); }
                       let ver = f2.metadata.contains_verification(); let meta = f2.metadata.contains_metadata_ext();
                       f2.metadata = FileDataSequenceHeader::new(f2.metadata.file_hash, f2.segments.len(), ver, meta);
                       f2.verification = if ver { (0..f2.segments.len()).map(|_| FileVerificationEntry::new(rand_hash(rng))).collect() } else { vec![] }; }
            }
            files.push(f2);
        }
    }
    Gen { cas, files }
}

fn answer_str(a: &Option<(usize, FileDataSequenceEntry)>) -> String {
    match a { None => "none".into(), Some((n, s)) => format!("n={} cas={} flags={} bytes={} s={} e={}", n, s.cas_hash.hex(), s.cas_flags, s.unpacked_segment_bytes, s.chunk_index_start, s.chunk_index_end) }
}

/// truthfulness monitor (C05): the answer refers to the first n query hashes at [s, s+n) of xorb X
pub fn truthful(ans: &Option<(usize, FileDataSequenceEntry)>, q: &[MerkleHash], cas: &BTreeMap<MerkleHash, MDBCASInfo>, key: Option<MerkleHash>) -> Result<(), String> {
    let Some((n, s)) = ans else { return Ok(()); };
    if *n == 0 || *n > q.len() { return Err(format!("n={n} out of range for {} query hashes", q.len())); }
    let Some(x) = cas.get(&s.cas_hash) else { return Err("xorb of the answer is not in the shard".into()); };
    if s.chunk_index_end != s.chunk_index_start + *n as u32 || s.chunk_index_end as usize > x.chunks.len() { return Err("chunk range of the answer is not [a, a+n) within the xorb".into()); }
    let mut bytes = 0u64;
    for i in 0..*n {
        let c = &x.chunks[s.chunk_index_start as usize + i];
        let want = match key { Some(k) => q[i].hmac(k), None => q[i] };
        if c.chunk_hash != want { return Err(format!("chunk {} of the answer does not carry query hash {i}", s.chunk_index_start as usize + i)); }
        bytes += c.unpacked_segment_bytes as u64;
    }
    if bytes != s.unpacked_segment_bytes as u64 { return Err(format!("byte count {} != sum of chunk lengths {bytes}", s.unpacked_segment_bytes)); }
    Ok(())
}

pub fn gen_queries(rng: &mut Rng, g: &Gen, nq: usize) -> Vec<Vec<MerkleHash>> {
    let nonempty: Vec<&MDBCASInfo> = g.cas.iter().filter(|c| !c.chunks.is_empty()).collect();
    let mut out = Vec::new();
    for _ in 0..nq {
        let mut q = Vec::new();
        if nonempty.is_empty() || rng.chance(1, 8) { for _ in 0..rng.range(0, 4) { q.push(rand_hash(rng)); } out.push(q); continue; }
        let c = *rng.pick(&nonempty);
        if rng.chance(1, 6) {
            // a run that ends at the xorb's last chunk, continued with what FOLLOWS the xorb in the serialized xorb section
            // (records are ordered by xorb hash): the next record's header starts with that xorb's hash, then come its chunks
            let start = if rng.chance(1, 3) { 0 } else { rng.below(c.chunks.len() as u64) as usize };
            for e in &c.chunks[start..] { q.push(e.chunk_hash); }
            let next = g.cas.iter().filter(|x| x.metadata.cas_hash > c.metadata.cas_hash).min_by_key(|x| x.metadata.cas_hash);
            match next {
                Some(n) => { q.push(n.metadata.cas_hash); for e in n.chunks.iter().take(rng.below(3) as usize) { q.push(e.chunk_hash); } }
                None => q.push(c.metadata.cas_hash),
            }
            out.push(q);
            continue;
        }
        let start = match rng.below(4) { 0 => 0, 1 => c.chunks.len() - 1, _ => rng.below(c.chunks.len() as u64) as usize };
        let len = match rng.below(4) { 0 => 1, 1 => c.chunks.len() - start + rng.below(3) as usize, _ => rng.range(1, (c.chunks.len() - start) as u64 + 2) as usize };
        for i in 0..len { q.push(if start + i < c.chunks.len() { c.chunks[start + i].chunk_hash } else { rand_hash(rng) }); }
        match rng.below(5) { 0 if q.len() > 1 => { let p = rng.range(1, q.len() as u64 - 1) as usize; q[p] = rand_hash(rng); }   // partial match
                             1 => { let mut h = q[0]; h[1] ^= 1; q[0] = h; }                                                      // same truncated prefix, different hash
                             _ => {} }
        out.push(q);
    }
    out
}

pub fn run(ctx: &mut Ctx) {
    let ncases = if ctx.quick() { 36 } else { 300 };
    for case_no in 0..ncases {
        let mut rng = ctx.rng.fork(11_000 + case_no);
        // cases 3 and 15 of every run are large tables (>= 256 rows: the interpolation loop runs) with groups sharing a truncated prefix
        let forced_large = if ctx.quick() { case_no == 3 || case_no == 15 } else { case_no % 12 == 3 };
        let dist = if forced_large { 3 } else { rng.below(4) };
        let (ncas, nfiles) = if forced_large { (rng.range(20, 60) as usize, rng.range(260, 330) as usize) } else { match rng.below(8) { 0 => (0, 0), 1 => (0, rng.range(1, 8) as usize), 2 => (rng.range(1, 8) as usize, 0), 3 if !ctx.quick() || case_no % 12 == 3 => (rng.range(100, 250) as usize, rng.range(100, 400) as usize), _ => (rng.range(1, 30) as usize, rng.range(1, 40) as usize) } };
        let readd = rng.chance(1, 2);
        let g = gen_content(&mut rng, ncas, nfiles, dist, readd);
        let replay = format!("{{\"suite\":\"shard\",\"seed\":{},\"case\":{},\"ncas\":{},\"nfiles\":{},\"dist\":{},\"readd\":{}}}", ctx.seed, case_no, ncas, nfiles, dist, readd);

        // ---- build the in-memory shard on the implementation
        let mut mem = MDBInMemoryShard::default();
        let mut cas_map: BTreeMap<MerkleHash, MDBCASInfo> = BTreeMap::new();
        let mut file_map: BTreeMap<MerkleHash, MDBFileInfo> = BTreeMap::new();
        let mut cas_rec = Vec::new();
        let mut file_rec = Vec::new();
        for c in &g.cas { mem.add_cas_block(c.clone()).unwrap(); cas_map.insert(c.metadata.cas_hash, c.clone()); cas_rec.extend(cas_bytes(c)); }
        for f in &g.files { mem.add_file_reconstruction_info(f.clone()).unwrap(); file_map.insert(f.metadata.file_hash, f.clone()); file_rec.extend(file_bytes(f)); }
        let mut bytes = Vec::new();
        let info = MDBShardInfo::serialize_from(&mut bytes, &mem).unwrap();
        let (canon, sorted) = canonical_bytes(&bytes, &info);
        if !sorted { ctx.fail("C09", "chunk-table-unsorted", format!("chunk lookup table is not sorted by truncated hash (case {case_no})"), replay.clone()); }
        let (fo, fl) = ctx.blob(&file_rec);
        let (co, cl) = ctx.blob(&cas_rec);
        let size = mem.shard_file_size();
        let has_dups = { let mut s = std::collections::HashSet::new(); g.cas.iter().flat_map(|c| c.chunks.iter()).any(|c| !s.insert(c.chunk_hash)) } || g.cas.len() != cas_map.len() || g.files.len() != file_map.len();
        if size != bytes.len() as u64 {
            ctx.fail("C09", if has_dups { "size-accounting-readd-or-duplicate-chunk" } else { "size-accounting" },
                     format!("in-memory shard_file_size {size} != serialized size {} (case {case_no}, re-added keys or duplicate chunk hashes: {has_dups})", bytes.len()), replay.clone());
        }
        ctx.op(&format!("shard.build files={fo}:{fl} cas={co}:{cl}"),
               &format!("len={} fnv={} size={} nf={} nc={} {}", bytes.len(), fnv(&canon), size, file_map.len(), cas_map.len(), footer_str(&info)));

        // ---- totals monitor
        let mat: u64 = file_map.values().map(|f| f.segments.iter().map(|s| s.unpacked_segment_bytes as u64).sum::<u64>()).sum();
        let st: u64 = cas_map.values().map(|c| c.metadata.num_bytes_in_cas as u64).sum();
        let sd: u64 = cas_map.values().map(|c| c.metadata.num_bytes_on_disk as u64).sum();
        if (info.metadata.materialized_bytes, info.metadata.stored_bytes, info.metadata.stored_bytes_on_disk) != (mat, st, sd) { ctx.fail("C09", "footer-totals", format!("footer byte totals differ from the content (case {case_no})"), replay.clone()); }

        // ---- reload and look everything up
        let (so, sl) = ctx.blob(&canon);
        let loaded = MDBShardInfo::load_from_reader(&mut Cursor::new(&bytes)).unwrap();
        let mut qs: Vec<MerkleHash> = file_map.keys().copied().collect();
        if qs.len() > 60 { let mut sel = Vec::new(); for _ in 0..60 { sel.push(*rng.pick(&qs)); } qs = sel; }
        let present = qs.len();
        let base: Vec<MerkleHash> = qs.clone();
        for h in base.iter().take(20) { let mut a = *h; a[1] = a[1].wrapping_add(1); qs.push(a); let mut b = *h; b[0] = b[0].wrapping_add(1); qs.push(b); let mut c = *h; c[0] = c[0].wrapping_sub(1); qs.push(c); }
        for _ in 0..5 { qs.push(rand_hash(&mut rng)); }
        qs.push(MerkleHash::default()); qs.push(MerkleHash::from([u64::MAX, 0, 0, 0]));
        let mut answers = Vec::new();
        // how many files share each truncated prefix
        let mut prefix_count: BTreeMap<u64, usize> = BTreeMap::new();
        for k in file_map.keys() { *prefix_count.entry(k[0]).or_insert(0) += 1; }
        for (qi, h) in qs.iter().enumerate() {
            let r = loaded.get_file_reconstruction_info(&mut Cursor::new(&bytes), h);
            let many = prefix_count.get(&h[0]).copied().unwrap_or(0) >= 8;
            match &r {
                Ok(Some(f)) => { if file_map.get(h) != Some(f) { ctx.fail("C09", "lookup-wrong-record", format!("lookup of a file hash returned a different record (case {case_no}, query {qi})"), replay.clone()); } answers.push(format!("some:{}", fnv(&file_bytes(f)))); }
                Ok(None) => { if file_map.contains_key(h) && !many { ctx.fail("C09", "lookup-missing", format!("a stored file hash was not found (case {case_no}, query {qi}, present={})", qi < present), replay.clone()); } answers.push("none".into()); }
                Err(mdb_shard::error::MDBShardError::TruncatedHashCollisionError(_)) => { if !many { ctx.fail("C09", "lookup-collision-error", format!("collision error with fewer than 8 equal prefixes (case {case_no})"), replay.clone()); } answers.push("err:collision".into()); }
                Err(e) => { ctx.fail("C09", "lookup-error", format!("lookup failed: {e} (case {case_no})"), replay.clone()); answers.push("err:other".into()); }
            }
        }
        ctx.op(&format!("shard.get at={so}:{sl} h={}", qs.iter().map(|h| h.hex()).collect::<Vec<_>>().join(",")), &answers.join(" "));

        // ---- scans
        let files = loaded.read_all_file_info_sections(&mut Cursor::new(&bytes)).unwrap();
        let casv = loaded.read_all_cas_blocks_full(&mut Cursor::new(&bytes)).unwrap();
        let mut tbl = loaded.read_all_truncated_hashes(&mut Cursor::new(&bytes)).unwrap();
        if files != file_map.values().cloned().collect::<Vec<_>>() { ctx.fail("C09", "scan-files", format!("file scan differs from the content (case {case_no})"), replay.clone()); }
        if casv != cas_map.values().cloned().collect::<Vec<_>>() { ctx.fail("C09", "scan-cas", format!("xorb scan differs from the content (case {case_no})"), replay.clone()); }
        tbl.sort();
        let mut tb = Vec::new(); for (k, (a, b)) in &tbl { tb.extend(k.to_le_bytes()); tb.extend(a.to_le_bytes()); tb.extend(b.to_le_bytes()); }
        let fb: Vec<u8> = files.iter().flat_map(file_bytes).collect();
        let cb: Vec<u8> = casv.iter().flat_map(cas_bytes).collect();
        ctx.op(&format!("shard.scan at={so}:{sl}"), &format!("files={}:{} cas={}:{} chunks={}:{}:true {}", files.len(), fnv(&fb), casv.len(), fnv(&cb), tbl.len(), fnv(&tb), footer_str(&loaded)));

        // ---- dedup queries: in-memory and on-disk
        let queries = gen_queries(&mut rng, &g, if ctx.quick() { 12 } else { 40 });
        for q in &queries {
            let qstr = q.iter().map(|h| h.hex()).collect::<Vec<_>>().join(",");
            let am = mem.chunk_hash_dedup_query(q);
            // the in-memory answer refers to the block that was current when the chunk was indexed: when the generator re-added a
            // xorb hash with a DIFFERENT chunk list (impossible for content-addressed xorbs short of a hash collision; generated to
            // exercise the size accounting), the answer may be truthful for the earlier version of that record
            let versions = |h: &MerkleHash| -> Vec<&MDBCASInfo> { g.cas.iter().filter(|c| c.metadata.cas_hash == *h).collect() };
            let mem_ok = match &am { None => Ok(()), Some((_, seg)) => {
                let vs = versions(&seg.cas_hash);
                let mut last = Err("xorb of the answer is not in the shard".to_string());
                for v in vs { let view: BTreeMap<MerkleHash, MDBCASInfo> = [(v.metadata.cas_hash, v.clone())].into_iter().collect(); last = truthful(&am, q, &view, None); if last.is_ok() { break; } }
                last } };
            if let Err(e) = mem_ok { if am.as_ref().map(|a| a.0) != Some(0) || !q.is_empty() { ctx.fail("C05", "mem-untruthful", format!("in-memory dedup answer not truthful: {e} (case {case_no})"), replay.clone()); } }
            ctx.op(&format!("shard.memdedup files={fo}:0 cas={co}:{cl} q={qstr}"), &answer_str(&am));
            let mut cands = [(0u32, 0u32); 8];
            let nc = if q.is_empty() || info.metadata.chunk_lookup_num_entry == 0 { 0 } else { loaded.get_cas_info_index_by_chunk(&mut Cursor::new(&bytes), &q[0], &mut cands).unwrap() };
            let ad = loaded.chunk_hash_dedup_query(&mut Cursor::new(&bytes), q).unwrap();
            if let Err(e) = truthful(&ad, q, &cas_map, None) { ctx.fail("C05", "disk-untruthful", format!("on-disk dedup answer not truthful: {e} (case {case_no})"), replay.clone()); }
            let cs = if nc == 0 { "-".to_string() } else { cands[..nc].iter().map(|(a, b)| format!("{a}:{b}")).collect::<Vec<_>>().join(";") };
            ctx.op(&format!("shard.dedup at={so}:{sl} q={qstr} cands={cs}"), &format!("legal=true {}", answer_str(&ad)));
            ctx.stat(if ad.is_some() { "dedup_hit" } else { "dedup_miss" });
            if nc > 1 { ctx.stat("dedup_multi_candidates"); }
        }
        ctx.stat(&format!("dist_{}", ["uniform", "clustered", "extremes", "shared_prefix"][dist as usize]));
        ctx.stat(&format!("size_{}", if ncas + nfiles == 0 { "empty" } else if ncas + nfiles < 20 { "small" } else if ncas + nfiles < 100 { "medium" } else { "large" }));
        if has_dups { ctx.stat("has_readd_or_dup_chunks"); }
        let maxp = prefix_count.values().copied().max().unwrap_or(0);
        ctx.stat(&format!("max_equal_file_prefix_{}", maxp.min(9)));
        ctx.case(fnv(&bytes), ncas + nfiles >= 2);
    }
}
