//! Suite `session` (C01, C02, C03, C11, C14, C15): real `FileUploadSession`s against a `LocalClient` store
//! through a logging client wrapper, several sessions per store, several limit configurations (child
//! processes).  Events reported by the cfg(xet_verif) hooks give the dedup answers that the model replays.
use std::collections::{BTreeMap, HashMap};
use std::path::{Path, PathBuf};
use std::sync::{Arc, Mutex};

use cas_client::{CasClientError, Client, FileProvider, LocalClient, OutputProvider, ReconstructionClient, ShardClientInterface, UploadClient};
use cas_client::{VerifRegistrationClient as RegistrationClient, ShardDedupProber};
use cas_types::FileRange;
use data::configurations::TranslatorConfig;
use data::{FileDownloader, FileUploadSession, PointerFile};
use deduplication::constants::{MAXIMUM_CHUNK_MULTIPLIER, MAX_XORB_BYTES, MAX_XORB_CHUNKS, MINIMUM_CHUNK_DIVISOR, TARGET_CHUNK_SIZE};
use deduplication::DeduplicationMetrics;
use mdb_shard::file_structs::MDBFileInfo;
use mdb_shard::shard_file_reconstructor::FileReconstructor;
use merklehash::{compute_data_hash, MerkleHash};
use sha2::{Digest, Sha256};
use utils::progress::ProgressUpdater;
use xet_threadpool::ThreadPool;

use crate::ctx::{fnv, join, run_children, Ctx};
use crate::rng::Rng;
use crate::suites::deduper::file_info_str;

pub fn run_parent(ctx: &mut Ctx) {
    // (target chunk, max xorb bytes, max xorb chunks, ingestion block, shard target)
    let list: &[(usize, usize, usize, usize, u64)] = if ctx.quick() {
        &[(1024, 40_000, 16, 8 << 20, 64 << 20), (256, 3000, 8, 4096, 2000), (128, 1 << 26, 8192, 700, 64 << 20), (512, 9000, 3, 8 << 20, 5000), (2048, 5000, 64, 10_000, 64 << 20)]
    } else {
        &[(1024, 40_000, 16, 8 << 20, 64 << 20), (256, 3000, 8, 4096, 2000), (128, 1 << 26, 8192, 700, 64 << 20), (512, 9000, 3, 8 << 20, 5000), (2048, 5000, 64, 10_000, 64 << 20),
          (128, 300, 1, 8 << 20, 64 << 20), (128, 256, 2, 100, 1500), (4096, 100_000, 8, 8 << 20, 64 << 20), (8192, 1 << 26, 8192, 8 << 20, 64 << 20), (1024, 2048, 1000, 333, 3000), (65536, 1 << 26, 8192, 8 << 20, 64 << 20)]
    };
    let cfgs: Vec<Vec<(String, String)>> = list.iter().map(|(t, b, c, i, s)| vec![
        ("HF_XET_TARGET_CHUNK_SIZE".into(), t.to_string()), ("HF_XET_MAX_XORB_BYTES".into(), b.to_string()), ("HF_XET_MAX_XORB_CHUNKS".into(), c.to_string()),
        ("HF_XET_INGESTION_BLOCK_SIZE".into(), i.to_string()), ("HF_XET_MDB_SHARD_TARGET_SIZE".into(), s.to_string()), ("HF_XET_MDB_SHARD_MIN_TARGET_SIZE".into(), s.to_string()),
    ]).collect();
    let mut cfgs = cfgs;
    // one more child: one client machine (one xet cache root) talking to several CAS servers, configured by `default_config`
    let cache_root = PathBuf::from(std::env::var("TMPDIR").unwrap_or("/verif/run/tmp".into())).join(format!("two-servers-cache-{}-{}", std::process::id(), ctx.seed));
    cfgs.push(vec![("XET_VERIF_TWO_SERVERS".into(), "1".into()), ("HF_XET_CACHE".into(), cache_root.to_string_lossy().into()), ("HF_XET_TARGET_CHUNK_SIZE".into(), "4096".into())]);
    // and one whose local shard cache is valid for 2 seconds only: what was uploaded must stay reconstructible after that period
    cfgs.push(vec![("XET_VERIF_EXPIRY_SCENARIO".into(), "1".into()), ("HF_XET_MDB_SHARD_LOCAL_CACHE_EXPIRATION_SECS".into(), "2".into()), ("HF_XET_TARGET_CHUNK_SIZE".into(), "4096".into())]);
    run_children(ctx, "session-child", &cfgs);
    let _ = std::fs::remove_dir_all(&cache_root);
}

/// The validity period of the LOCAL shard cache (3 weeks by default, 2 s here) must not limit how long uploaded files stay
/// reconstructible from the store: upload in two sessions, download, wait for the period to pass, download again with a fresh
/// downloader, upload once more (a file sharing content with the earlier ones), download everything again.
fn expiry_scenario(ctx: &mut Ctx) {
    let tp = Arc::new(ThreadPool::new().expect("threadpool"));
    let base = PathBuf::from(std::env::var("TMPDIR").unwrap_or("/verif/run/tmp".into())).join(format!("expiry-{}-{}", std::process::id(), ctx.seed));
    std::fs::create_dir_all(&base).unwrap();
    let mut rng = ctx.rng.fork(78_000);
    let config = TranslatorConfig::local_config(&base).unwrap();
    let validity = *data::VERIF_MDB_SHARD_LOCAL_CACHE_EXPIRATION_SECS;
    let replay = format!("{{\"suite\":\"session\",\"scenario\":\"local-shard-cache-validity-passes\",\"seed\":{},\"validity_secs\":{validity}}}", ctx.seed);
    let mut stored: Vec<(PointerFile, Vec<u8>)> = Vec::new();
    let upload = |files: Vec<Vec<u8>>| -> Result<Vec<PointerFile>, String> {
        let (cfg, tp2) = (config.clone(), tp.clone());
        tp.external_run_async_task(async move {
            let session = FileUploadSession::new(cfg, tp2, None).await?;
            let mut out = Vec::new();
            for (i, f) in files.iter().enumerate() { let mut cl = session.start_clean(format!("f{i}")); cl.add_data(f).await?; out.push(cl.finish().await?.0); }
            session.finalize().await?;
            Ok::<_, data::errors::DataProcessingError>(out)
        }).unwrap().map_err(|e| e.to_string())
    };
    let check_all = |ctx: &mut Ctx, stored: &[(PointerFile, Vec<u8>)], when: &str| {
        let (cfg, tp2) = (config.clone(), tp.clone());
        let downloader = match tp.external_run_async_task(async move { FileDownloader::new(cfg, tp2).await }).unwrap() { Ok(d) => Arc::new(d), Err(e) => { ctx.fail("C01", "downloader-failed", format!("FileDownloader::new failed {when}: {e}"), replay.clone()); return; } };
        for (pi, (ptr, bytes)) in stored.iter().enumerate() {
            let out_path = base.join(format!("dl-{pi}"));
            let _ = std::fs::remove_file(&out_path);
            let (dlr, p2, op) = (downloader.clone(), ptr.clone(), OutputProvider::File(FileProvider::new(out_path.clone())));
            let res = tp.external_run_async_task(async move { dlr.smudge_file_from_pointer(&p2, &op, None, None).await }).unwrap();
            let got = std::fs::read(&out_path).unwrap_or_default();
            match res {
                Ok(_) if got == *bytes => {}
                Ok(_) => ctx.fail("C01", "file-differs-after-cache-validity-period", format!("file {pi} ({} bytes) downloads with different content {when}", bytes.len()), replay.clone()),
                Err(e) => ctx.fail("C01", "file-lost-after-cache-validity-period", format!("file {pi} ({} bytes), uploaded by a session that reported success, cannot be downloaded {when} (local shard cache validity {validity} s): {e}", bytes.len()), replay.clone()),
            }
            ctx.stat("expiry_scenario_downloads");
            let _ = std::fs::remove_file(&out_path);
        }
    };
    for sno in 0..2 {
        let files: Vec<Vec<u8>> = (0..rng.range(1, 3)).map(|_| { let n = rng.range(1, 120_000) as usize; rng.bytes(n) }).collect();
        match upload(files.clone()) { Ok(ptrs) => stored.extend(ptrs.into_iter().zip(files)), Err(e) => { ctx.fail("C01", "finalize-failed", format!("session {sno} of the validity scenario failed without a fault: {e}"), replay.clone()); return; } }
    }
    check_all(ctx, &stored, "right after the upload");
    std::thread::sleep(std::time::Duration::from_millis(1000 * validity.min(5) + 1500));
    check_all(ctx, &stored, "after the local shard cache validity period has passed");
    // a third session: a file made of pieces of the earlier ones plus new bytes
    let mut f = stored[0].1.clone(); let n = rng.range(1, 30_000) as usize; f.extend_from_slice(&rng.bytes(n)); f.extend_from_slice(&stored.last().unwrap().1);
    match upload(vec![f.clone()]) { Ok(ptrs) => stored.extend(ptrs.into_iter().zip(vec![f])), Err(e) => ctx.fail("C01", "finalize-failed", format!("the session after the validity period failed without a fault: {e}"), replay.clone()) }
    check_all(ctx, &stored, "after the validity period and one more session");
    let _ = std::fs::remove_dir_all(&base);
}

/// One client machine, several servers: the client-side configuration of each session is what `data_client::default_config`
/// computes for the server's endpoint (cache directories under the one HF_XET_CACHE root); only the transport is replaced by a
/// separate local store per server.  Session 1 uploads X to server A, session 2 uploads P ++ X ++ R to server B.
/// C02: every file record in the shards uploaded to a server references xorbs that exist on that server.
fn two_servers(ctx: &mut Ctx) {
    use data::configurations::{DataConfig, Endpoint, ShardConfig};
    let tp = Arc::new(ThreadPool::new().expect("threadpool"));
    let tmp_root = PathBuf::from(std::env::var("TMPDIR").unwrap_or("/verif/run/tmp".into())).join(format!("two-servers-{}-{}", std::process::id(), ctx.seed));
    let mut rng = ctx.rng.fork(77_000);
    let port = rng.range(1024, 60000);
    let pairs: Vec<(String, String)> = vec![
        (format!("http://localhost:{port}"), format!("http://localhost:{}", port + 1)),
        ("https://cas-server.xethub.hf.co".into(), "https://cas-server.staging.xethub.hf.co".into()),
        (format!("https://hub.example.org/api/cas/{}", rng.below(1000)), "https://hub.example.org/api/cas-eu/".into()),
        ("http://a.example.org".into(), "http://b.example.org".into()),
    ];
    for (pi, (ea, eb)) in pairs.iter().enumerate() {
        let stores = [tmp_root.join(format!("pair{pi}-server-a")), tmp_root.join(format!("pair{pi}-server-b"))];
        let (nx, np) = (rng.range(100_000, 300_000) as usize, rng.range(1, 50_000) as usize);
        let x = rng.bytes(nx);
        let mut y = rng.bytes(np); y.extend_from_slice(&x); let n = rng.range(1, 50_000) as usize; y.extend_from_slice(&rng.bytes(n));
        let replay = format!("{{\"suite\":\"session\",\"scenario\":\"two-servers\",\"seed\":{},\"endpoint_a\":\"{ea}\",\"endpoint_b\":\"{eb}\",\"x_len\":{},\"y_len\":{}}}", ctx.seed, x.len(), y.len());
        for (si, (endpoint, store, data)) in [(ea, &stores[0], &x), (eb, &stores[1], &y), (ea, &stores[0], &y)].into_iter().enumerate() {
            let c = match data::data_client::default_config(endpoint.clone(), None, None, None) { Ok(c) => c, Err(e) => { ctx.fail("C01", "default-config-failed", format!("default_config({endpoint}) failed: {e}"), replay.clone()); continue; } };
            std::fs::create_dir_all(store).unwrap();
            let cfg = Arc::new(TranslatorConfig {
                data_config: DataConfig { endpoint: Endpoint::FileSystem(store.clone()), compression: c.data_config.compression, auth: None, prefix: c.data_config.prefix.clone(), cache_config: c.data_config.cache_config.clone(), staging_directory: None },
                shard_config: ShardConfig { prefix: c.shard_config.prefix.clone(), cache_directory: c.shard_config.cache_directory.clone(), session_directory: c.shard_config.session_directory.clone(), global_dedup_policy: c.shard_config.global_dedup_policy, repo_salt: c.shard_config.repo_salt },
                repo_info: None,
            });
            let (tp2, d2) = (tp.clone(), data.clone());
            let r = tp.external_run_async_task(async move {
                let session = FileUploadSession::new(cfg, tp2, None).await?;
                let mut cl = session.start_clean("f".into());
                cl.add_data(&d2).await?;
                let r = cl.finish().await?;
                session.finalize().await?;
                Ok::<_, data::errors::DataProcessingError>(r)
            }).unwrap();
            if let Err(e) = r { ctx.fail("C01", "two-servers-session-failed", format!("session {si} against {endpoint} failed without any fault: {e}"), replay.clone()); continue; }
            ctx.stat("two_server_sessions");
            // every file record uploaded to this server references xorbs of this server
            let shards = mdb_shard::MDBShardFile::load_all_valid(store.join("shards")).unwrap_or_default();
            for sf in shards {
                for fi in sf.read_all_file_info_sections().unwrap_or_default() {
                    for (k, seg) in fi.segments.iter().enumerate() {
                        let p = store.join("xorbs").join(format!("default.{}", seg.cas_hash.hex()));
                        if !p.is_file() {
                            ctx.fail("C16", "success-but-xorb-never-reached-its-server", format!("session {si} against {endpoint} reported success (no fault anywhere), yet the shard it uploaded there records file {} with segment {k} in xorb {}, which was never uploaded to that server (an earlier session of the same client uploaded to {})", fi.metadata.file_hash.hex(), seg.cas_hash.hex(), if si == 1 { ea } else { eb }), replay.clone());
                            ctx.fail("C02", "record-references-xorb-missing-on-its-server", format!("after session {si} (endpoint {endpoint}; one client cache root, earlier session against {}): file {} segment {k} in a shard uploaded to this server references xorb {}, which this server does not hold", if si == 1 { ea } else { eb }, fi.metadata.file_hash.hex(), seg.cas_hash.hex()), replay.clone());
                        }
                    }
                }
            }
        }
    }
    let _ = std::fs::remove_dir_all(&tmp_root);
}

// ------------------------------------------------------------------------------------------------
#[derive(Default)]
pub struct ClientLog { pub puts: Vec<(MerkleHash, usize, usize, usize)>, pub put_returns: usize, pub shards: Vec<usize>, pub order: Vec<String>,
                       /// every xorb HANDED to the store (chunks, bytes), whether or not the store took it
                       pub attempts: Vec<(MerkleHash, usize, usize)> }

pub struct LoggingClient { pub inner: Arc<LocalClient>, pub log: Arc<Mutex<ClientLog>> }

/// while set, `put` and `upload_shard` of every LoggingClient store nothing and report success: what the remote client does
/// for the uploads of a dry-run session
pub static DRY_UPLOADS: std::sync::atomic::AtomicBool = std::sync::atomic::AtomicBool::new(false);

#[async_trait::async_trait]
impl UploadClient for LoggingClient {
    async fn put(&self, prefix: &str, hash: &MerkleHash, data: Vec<u8>, cb: Vec<(MerkleHash, u32)>) -> Result<usize, CasClientError> {
        let (n, len) = (cb.len(), data.len());
        if DRY_UPLOADS.load(std::sync::atomic::Ordering::SeqCst) { return Ok(0); }
        self.log.lock().unwrap().attempts.push((*hash, n, len));
        let r = self.inner.put(prefix, hash, data, cb).await;
        let mut l = self.log.lock().unwrap();
        l.order.push(format!("put {}", hash.hex()));
        if let Ok(v) = &r { l.puts.push((*hash, n, len, *v)); l.put_returns += *v; }
        r
    }
    async fn exists(&self, prefix: &str, hash: &MerkleHash) -> Result<bool, CasClientError> { self.inner.exists(prefix, hash).await }
}
#[async_trait::async_trait]
impl ReconstructionClient for LoggingClient {
    async fn get_file(&self, hash: &MerkleHash, byte_range: Option<FileRange>, out: &OutputProvider, p: Option<Arc<dyn ProgressUpdater>>) -> Result<u64, CasClientError> {
        self.inner.get_file(hash, byte_range, out, p).await
    }
}
#[async_trait::async_trait]
impl RegistrationClient for LoggingClient {
    async fn upload_shard(&self, prefix: &str, hash: &MerkleHash, force: bool, data: &[u8], salt: &[u8; 32]) -> Result<bool, CasClientError> {
        if DRY_UPLOADS.load(std::sync::atomic::Ordering::SeqCst) { return Ok(true); }
        { let mut l = self.log.lock().unwrap(); l.shards.push(data.len()); l.order.push(format!("shard {}", hash.hex())); }
        self.inner.upload_shard(prefix, hash, force, data, salt).await
    }
}
#[async_trait::async_trait]
impl FileReconstructor<CasClientError> for LoggingClient {
    async fn get_file_reconstruction_info(&self, h: &MerkleHash) -> Result<Option<(MDBFileInfo, Option<MerkleHash>)>, CasClientError> { self.inner.get_file_reconstruction_info(h).await }
}
#[async_trait::async_trait]
impl ShardDedupProber for LoggingClient {
    async fn query_for_global_dedup_shard(&self, p: &str, c: &MerkleHash, s: &[u8; 32]) -> Result<Option<PathBuf>, CasClientError> { self.inner.query_for_global_dedup_shard(p, c, s).await }
}
impl ShardClientInterface for LoggingClient {}
impl Client for LoggingClient {}

pub fn metrics_str(m: &DeduplicationMetrics) -> String {
    format!("{},{},{},{},{},{},{},{},{},{}", m.total_bytes, m.deduped_bytes, m.new_bytes, m.deduped_bytes_by_global_dedup, m.defrag_prevented_dedup_bytes,
            m.total_chunks, m.deduped_chunks, m.new_chunks, m.deduped_chunks_by_global_dedup, m.defrag_prevented_dedup_chunks)
}

static EVENTS: Mutex<Vec<(&'static str, String)>> = Mutex::new(Vec::new());
fn take_events() -> Vec<(&'static str, String)> { std::mem::take(&mut *EVENTS.lock().unwrap()) }

/// oracle string for the model from the events of one add_data / finish call
fn oracle_of(events: &[(&'static str, String)]) -> Vec<String> {
    let mut out = Vec::new();
    let mut cur: Option<(usize, Vec<String>)> = None;
    for (name, data) in events {
        match *name {
            "dedup.process_chunks.begin" => { let n = if data.is_empty() { 0 } else { data.split(',').count() }; cur = Some((n, Vec::new())); }
            "session.dedup_answer" => {
                if let Some((n, ans)) = cur.as_mut() {
                    let mut it = data.split(' ');
                    let _src = it.next(); let qlen: usize = it.next().unwrap().parse().unwrap(); let a = it.next().unwrap();
                    if a != "-" { ans.push(format!("{}:{}", *n - qlen, a)); }
                }
            }
            "dedup.process_chunks.end" => { if let Some((n, ans)) = cur.take() { out.push(format!("{n}@{}@0@0", if ans.is_empty() { "-".to_string() } else { ans.join(";") })); } }
            _ => {}
        }
    }
    out
}

/// every chunk of every block lies inside a run that a shard lookup answered (no stored chunk was missed by the lookups)
fn all_chunks_answered(oracle: &[String]) -> bool {
    oracle.iter().all(|b| {
        let mut it = b.split('@');
        let n: usize = it.next().and_then(|x| x.parse().ok()).unwrap_or(0);
        let ans = it.next().unwrap_or("-");
        let mut cov = vec![false; n];
        if ans != "-" { for a in ans.split(';') { let mut f = a.split(':'); let pos: usize = f.next().and_then(|x| x.parse().ok()).unwrap_or(n); let k: usize = f.next().and_then(|x| x.parse().ok()).unwrap_or(0); for c in cov.iter_mut().skip(pos).take(k) { *c = true; } } }
        cov.iter().all(|c| *c)
    })
}

struct FileSpec { data: Vec<u8>, parts: Vec<usize> }

/// A heavily fragmented file: 150 times [a stretch of new bytes ++ three whole chunks from a random place of an earlier file].
/// After 128 short ranges the deduper's fragmentation prevention withholds the short dedup runs (the chunks are stored again).
fn gen_fragmented(rng: &mut Rng, target: usize, world_files: &[Vec<u8>]) -> Option<FileSpec> {
    let (min_c, max_c) = (target / *MINIMUM_CHUNK_DIVISOR, target * *MAXIMUM_CHUNK_MULTIPLIER);
    let f = world_files.iter().filter(|f| f.len() >= 12 * target).max_by_key(|f| f.len())?;
    let lens = crate::suites::chunker::reference_split(f, min_c, max_c, crate::suites::chunker::mask_of(target));
    if lens.len() < 10 { return None; }
    let mut data = Vec::new();
    for _ in 0..rng.range(140, 170) {
        let n = rng.range(target as u64, 2 * target as u64) as usize;
        data.extend_from_slice(&rng.bytes(n));
        let i = rng.below(lens.len() as u64 - 4) as usize;
        let s0: usize = lens[..i].iter().sum(); let s1: usize = lens[..i + 3].iter().sum();
        data.extend_from_slice(&f[s0..s1]);
    }
    let parts = if rng.chance(1, 2) { vec![data.len()] } else { let a = rng.below(data.len() as u64 + 1) as usize; vec![a, data.len() - a] };
    Some(FileSpec { data, parts })
}

fn gen_file(rng: &mut Rng, target: usize, pool: &mut Vec<Vec<u8>>, world_files: &[Vec<u8>], force_aligned: bool) -> FileSpec {
    // sizes: empty, sub-chunk, a few chunks, many chunks
    let kind = rng.below(10);
    let want = match kind { 0 => 0, 1 => rng.range(1, (target / 8).max(2) as u64) as usize, 2 | 3 => rng.range(1, 4 * target as u64) as usize, _ => rng.range(4 * target as u64, 60 * target as u64) as usize };
    let mut data = Vec::with_capacity(want + 8 * target);
    let comp = rng.below(5);
    // every sixth file is made of chunk-ALIGNED excerpts of earlier files only: all of its chunks are already stored (a fully
    // deduplicated file that is not byte-identical to a stored one), possibly from several files / xorbs back to back
    if !world_files.is_empty() && (force_aligned || rng.chance(1, 6)) {
        let (min_c, max_c) = (target / *MINIMUM_CHUNK_DIVISOR, target * *MAXIMUM_CHUNK_MULTIPLIER);
        for _ in 0..rng.range(1, 3) {
            let f = rng.pick(world_files); if f.is_empty() { continue; }
            let lens = crate::suites::chunker::reference_split(f, min_c, max_c, crate::suites::chunker::mask_of(target));
            if lens.len() < 2 { continue; }
            let i = rng.below(lens.len() as u64 - 1) as usize; let j = rng.range(i as u64 + 1, (lens.len() - 1) as u64) as usize;   // never the file's last chunk
            let s0: usize = lens[..i].iter().sum(); let s1: usize = lens[..j].iter().sum();
            data.extend_from_slice(&f[s0..s1]);
        }
        if !data.is_empty() {
            let parts = if rng.chance(1, 2) { vec![data.len()] } else { let a = rng.below(data.len() as u64 + 1) as usize; vec![a, data.len() - a] };
            return FileSpec { data, parts };
        }
    }
    while data.len() < want {
        let r = rng.below(10);
        if comp >= 1 && !world_files.is_empty() && r < 5 {
            // splice in a stretch of an earlier file (whole chunks of it re-chunk identically: cross-file / cross-session dedup)
            let f = rng.pick(world_files); if f.is_empty() { continue; }
            let s = rng.below(f.len() as u64) as usize; let n = (rng.range(1, 12 * target as u64) as usize).min(f.len() - s);
            data.extend_from_slice(&f[s..s + n]);
        } else if comp >= 2 && !pool.is_empty() && r < 8 {
            let b = rng.pick(pool).clone(); data.extend_from_slice(&b);              // repeated block (self-reference / fragmentation)
        } else {
            let n = rng.range(1, 3 * target as u64) as usize; let b = rng.bytes(n);
            if rng.chance(1, 3) { pool.push(b.clone()); }
            data.extend_from_slice(&b);
        }
    }
    if kind <= 1 { data.truncate(want); }
    let mut parts = Vec::new();
    let mut left = data.len();
    match rng.below(4) {
        0 => parts.push(left),
        3 if !data.is_empty() => {
            // calls that end at chosen offsets relative to the chunk structure (around the first hashed byte min-65, the minimum,
            // the cut itself): see the chunker suite's structure-aligned partitions
            let (min_c, max_c) = (target / *MINIMUM_CHUNK_DIVISOR, target * *MAXIMUM_CHUNK_MULTIPLIER);
            let r = crate::suites::chunker::reference_split(&data, min_c, max_c, crate::suites::chunker::mask_of(target));
            let mut cuts = Vec::new(); let mut start = 0usize;
            for l in &r { if rng.chance(2, 3) { let d = rng.below(5) as usize; let off = match rng.below(4) { 0 | 1 => (min_c + d).saturating_sub(66), 2 => (min_c + d).saturating_sub(2), _ => (l + d).saturating_sub(3) }; if off <= *l { cuts.push(start + off); } } start += l; }
            cuts.push(data.len()); cuts.sort();
            let mut pos = 0; for c in cuts { parts.push(c - pos); pos = c; }
            left = 0; let _ = left;
        }
        _ => { while left > 0 { let n = (match rng.below(5) { 0 => 0, 1 => 1, 2 => rng.below(100) as usize, _ => rng.below(20 * target as u64) as usize }).min(left); parts.push(n); left -= n; } if rng.chance(1, 2) { parts.push(0); } }
    }
    FileSpec { data, parts }
}

struct Done { pointer: PointerFile, metrics: DeduplicationMetrics, oracle: Vec<String>, spec: FileSpec, sha: String }

pub fn run_child(ctx: &mut Ctx) {
    if std::env::var("XET_VERIF_TWO_SERVERS").is_ok() { two_servers(ctx); return; }
    if std::env::var("XET_VERIF_EXPIRY_SCENARIO").is_ok() { expiry_scenario(ctx); return; }
    let (target, mindiv, maxmul) = (*TARGET_CHUNK_SIZE, *MINIMUM_CHUNK_DIVISOR, *MAXIMUM_CHUNK_MULTIPLIER);
    let (maxb, maxc) = (*MAX_XORB_BYTES, *MAX_XORB_CHUNKS);
    let ingest: usize = std::env::var("HF_XET_INGESTION_BLOCK_SIZE").ok().and_then(|s| s.parse().ok()).unwrap_or(8 << 20);
    let tp = Arc::new(ThreadPool::new().expect("threadpool"));
    utils::verif_hooks::set_event_callback(Some(Arc::new(|name, data| { EVENTS.lock().unwrap().push((name, data)); })));
    let tmp_root = PathBuf::from(std::env::var("TMPDIR").unwrap_or("/verif/run/tmp".into())).join(format!("session-{}-{}", std::process::id(), ctx.seed));
    let nworlds = if ctx.quick() { 2 } else { 12 };
    for w in 0..nworlds {
        let mut rng = ctx.rng.fork(30_000 + w);
        let base = tmp_root.join(format!("world{w}"));
        std::fs::create_dir_all(&base).unwrap();
        let config = TranslatorConfig::local_config(&base).unwrap();
        let xorb_dir = base.join("xet").join("xorbs");
        let mut world_files: Vec<Vec<u8>> = Vec::new();
        let mut seen_pointers: HashMap<MerkleHash, (MerkleHash, u64)> = HashMap::new();
        let mut world_ptrs: Vec<(PointerFile, Vec<u8>)> = Vec::new();
        let mut pool: Vec<Vec<u8>> = Vec::new();
        let nsessions = if w % 2 == 0 && target <= 2048 { rng.range(3, 4) } else { rng.range(2, 4) };
        let mut frag_file: Option<Vec<u8>> = None;
        // a third of the worlds start with a DRY RUN of a fresh file (uploads are no-ops and nothing may be remembered as stored);
        // the file is then uploaded for real in the first session and must be reconstructible like every other file
        let mut dry_file: Option<Vec<u8>> = None;
        if rng.chance(1, 2) {
            let data = { let n = rng.range(2 * target as u64, 30 * target as u64) as usize; rng.bytes(n) };
            let log = Arc::new(Mutex::new(ClientLog::default()));
            let xd = xorb_dir.clone();
            let inner = Arc::new(tp.external_run_async_task(async move { LocalClient::new(&xd, None) }).unwrap().unwrap());
            let client: Arc<dyn Client + Send + Sync> = Arc::new(LoggingClient { inner, log });
            let (cfg2, tp2) = (config.clone(), tp.clone());
            DRY_UPLOADS.store(true, std::sync::atomic::Ordering::SeqCst);
            let r = tp.external_run_async_task(async move {
                let session = FileUploadSession::new_with_client_dry_run(cfg2, tp2, client).await?;
                let mut cl = session.start_clean("dry".into());
                cl.add_data(&data).await?;
                let _ = cl.finish().await?;
                session.finalize().await.map(|_| data)
            }).unwrap();
            DRY_UPLOADS.store(false, std::sync::atomic::Ordering::SeqCst);
            take_events();
            match r { Ok(d) => { dry_file = Some(d); ctx.stat("worlds_starting_with_a_dry_run"); }, Err(_) => ctx.stat("dry_run_failed") }
        }
        for sno in 0..nsessions {
            let replay = format!("{{\"suite\":\"session\",\"seed\":{},\"world\":{},\"session\":{},\"target\":{},\"maxb\":{},\"maxc\":{},\"ingest\":{}}}", ctx.seed, w, sno, target, maxb, maxc, ingest);
            let log = Arc::new(Mutex::new(ClientLog::default()));
            let xd = xorb_dir.clone();
            let inner = Arc::new(tp.external_run_async_task(async move { LocalClient::new(&xd, None) }).unwrap().unwrap());
            let client: Arc<dyn Client + Send + Sync> = Arc::new(LoggingClient { inner, log: log.clone() });
            take_events();
            // later sessions of a world sometimes run with the global-dedup policy `Never` (a legal configuration): the local
            // shard cache must still be consulted (C11)
            let mut cfg2 = config.clone();
            if sno >= 1 && rng.chance(1, 3) { if let Ok(mut c) = Arc::try_unwrap(TranslatorConfig::local_config(&base).unwrap()) { c.shard_config.global_dedup_policy = data::configurations::GlobalDedupPolicy::Never; cfg2 = Arc::new(c); } ctx.stat("sessions_with_global_dedup_policy_never"); }
            let tp2 = tp.clone();
            let session = tp.external_run_async_task(async move { FileUploadSession::new_with_client(cfg2, tp2, client).await }).unwrap().unwrap();
            // the third session of a world re-uploads earlier files unchanged (C11)
            let reupload = sno >= 1 && rng.chance(1, 2) && !world_files.is_empty();
            // one later session in five consists ONLY of files made of stored chunks (new file hashes, not one new chunk in the session)
            let frag_forced = sno == 1 && w % 2 == 0 && target <= 2048;
            let all_known = !frag_forced && !reupload && sno >= 1 && rng.chance(1, 4) && !world_files.is_empty();
            if all_known { ctx.stat("sessions_of_fully_deduplicated_new_files"); }
            // "many small files merged into shared xorbs": where the limits allow thousands of chunks per xorb, the first session of
            // the second world cleans 1300..1800 tiny (one-chunk) files, which end up in one shared xorb of that many chunks
            let many_small = maxc >= 2048 && w == 1 && sno == 0;
            if many_small { ctx.stat("sessions_of_many_small_files"); }
            let nfiles = if many_small { rng.range(1300, 1800) as usize } else { rng.range(1, 5) as usize };
            let mut specs: Vec<FileSpec> = Vec::new();
            if sno == 0 { if let Some(d) = dry_file.take() { let l = d.len(); specs.push(FileSpec { data: d, parts: vec![l] }); } }
            // every other world: a large fresh file in the first session and a heavily fragmented one built from it in the second
            if sno == 0 && w % 2 == 0 && target <= 2048 { let n = rng.range(30 * target as u64, 50 * target as u64) as usize; let d = rng.bytes(n); specs.push(FileSpec { data: d, parts: vec![n] }); }
            if frag_forced || (sno >= 1 && !reupload && !all_known && target <= 2048 && rng.chance(1, 4)) {
                if let Some(sp) = gen_fragmented(&mut rng, target, &world_files) { if frag_forced { frag_file = Some(sp.data.clone()); } specs.push(sp); ctx.stat("heavily_fragmented_files"); }
            }
            // the session after it re-uploads the heavily fragmented file unchanged
            let frag_again = if sno == 2 { frag_file.clone() } else { None };
            if let Some(d) = &frag_again { let l = d.len(); specs.push(FileSpec { data: d.clone(), parts: vec![l] }); ctx.stat("heavily_fragmented_files_uploaded_again"); }
            for i in 0..nfiles {
                let spec = if many_small { let n = rng.range(1, (target / 2).max(2) as u64) as usize; let d = rng.bytes(n); FileSpec { data: d, parts: vec![n] } }
                           else if reupload && i < world_files.len() { let d = world_files[rng.below(world_files.len() as u64) as usize].clone(); let l = d.len(); FileSpec { data: d, parts: vec![l] } }
                           else { gen_file(&mut rng, target, &mut pool, &world_files, all_known) };
                // one record per file hash and session is kept by the shard (BTreeMap): keep contents distinct within a session
                if specs.iter().any(|s: &FileSpec| s.data == spec.data) { continue; }
                specs.push(spec);
            }
            // one file in four goes through `data_client::clean_file` (from disk) instead of direct add_data calls
            let via_clean_file: Vec<bool> = specs.iter().map(|s| !s.data.is_empty() && rng.chance(1, 4)).collect();
            // run the cleaners: sequentially, or two at a time with interleaved add_data calls
            let interleave = rng.chance(1, 3) && specs.len() >= 2;
            let mut done: Vec<Done> = Vec::new();
            let mut completion_order: Vec<usize> = Vec::new();
            let mut results: BTreeMap<usize, Done> = BTreeMap::new();
            let mut idx = 0;
            while idx < specs.len() {
                let group: Vec<usize> = if interleave && idx + 1 < specs.len() && !via_clean_file[idx] && !via_clean_file[idx + 1] { vec![idx, idx + 1] } else { vec![idx] };
                idx += group.len();
                if via_clean_file[group[0]] {
                    // the file-reading entry point `data_client::clean_file`: reads the file in ingestion-block sized pieces
                    let g = group[0];
                    let spec = &specs[g];
                    let path = base.join(format!("cf-{sno}-{g}.bin"));
                    std::fs::write(&path, &spec.data).unwrap();
                    let (s2, p2) = (session.clone(), path.clone());
                    let r = tp.external_run_async_task(async move { data::data_client::clean_file(s2, &p2).await }).unwrap();
                    let _ = std::fs::remove_file(&path);
                    let (pointer, metrics) = match r { Ok(x) => x, Err(e) => { ctx.fail("C01", "clean-file-failed", format!("clean_file failed on a readable file of {} bytes: {e}", spec.data.len()), replay.clone()); continue; } };
                    let oracle = oracle_of(&take_events());
                    completion_order.push(g);
                    let sha = Sha256::digest(&spec.data).iter().map(|b| format!("{b:02x}")).collect::<String>();
                    let parts: Vec<usize> = spec.data.chunks(ingest).map(|c| c.len()).collect();
                    if parts.len() >= 2 && spec.data.len() % ingest != 0 { ctx.stat("files_through_clean_file_with_a_partial_last_block"); } else { ctx.stat("files_through_clean_file_other"); }
                    results.insert(g, Done { pointer, metrics, oracle, spec: FileSpec { data: spec.data.clone(), parts }, sha });
                    continue;
                }
                let mut cleaners: Vec<_> = group.iter().map(|g| Some(session.start_clean(format!("f{g}")))).collect();
                let mut oracles: Vec<Vec<String>> = vec![Vec::new(); group.len()];
                let mut pos: Vec<usize> = vec![0; group.len()];
                let mut part_i: Vec<usize> = vec![0; group.len()];
                let mut finished = vec![false; group.len()];
                while finished.iter().any(|f| !f) {
                    let k = { let live: Vec<usize> = (0..group.len()).filter(|k| !finished[*k]).collect(); *rng.pick(&live) };
                    let spec = &specs[group[k]];
                    if part_i[k] < spec.parts.len() {
                        let n = spec.parts[part_i[k]];
                        let piece = spec.data[pos[k]..pos[k] + n].to_vec();
                        let mut cl = cleaners[k].take().unwrap();
                        let cl = tp.external_run_async_task(async move { cl.add_data(&piece).await.map(|_| cl) }).unwrap().unwrap();
                        cleaners[k] = Some(cl);
                        oracles[k].extend(oracle_of(&take_events()));
                        pos[k] += n; part_i[k] += 1;
                    } else {
                        let cl = cleaners[k].take().unwrap();
                        let (pointer, metrics) = tp.external_run_async_task(async move { cl.finish().await }).unwrap().unwrap();
                        oracles[k].extend(oracle_of(&take_events()));
                        finished[k] = true;
                        completion_order.push(group[k]);
                        let sha = Sha256::digest(&spec.data).iter().map(|b| format!("{b:02x}")).collect::<String>();
                        results.insert(group[k], Done { pointer, metrics, oracle: std::mem::take(&mut oracles[k]), spec: FileSpec { data: spec.data.clone(), parts: spec.parts.clone() }, sha });
                    }
                }
            }
            for i in &completion_order { done.push(results.remove(i).unwrap()); }
            let sess2 = session.clone();
            drop(session);
            let fin = tp.external_run_async_task(async move { sess2.finalize_with_file_info().await }).unwrap();
            let events = take_events();
            // C15 on everything that was handed to the store, also when the session then failed
            for (h, n, len) in log.lock().unwrap().attempts.iter() { if *n == 0 || *len == 0 || *n > maxc || *len > maxb { ctx.fail("C15", "xorb-handed-to-store-violates-limits", format!("xorb {} handed to the store with {n} chunks / {len} bytes (limits {maxc} chunks / {maxb} bytes; session {sno} of the world{})", h.hex(), if all_known { ", all of its files consist of stored chunks" } else if reupload { ", re-uploading stored files" } else { "" }), replay.clone()); } }
            let (smetrics, file_infos) = match fin { Ok(x) => x, Err(e) => { ctx.fail("C01", "finalize-failed", format!("session finalize failed without any injected fault: {e}"), replay.clone()); continue; } };

            // ---------------- monitors on the implementation
            let lg = log.lock().unwrap();
            // C14: upload byte accounting
            if smetrics.xorb_bytes_uploaded != lg.put_returns { ctx.fail("C14", "xorb-bytes-uploaded-lost", format!("xorb_bytes_uploaded {} != sum of put returns {}", smetrics.xorb_bytes_uploaded, lg.put_returns), replay.clone()); }
            if smetrics.shard_bytes_uploaded != lg.shards.iter().sum::<usize>() { ctx.fail("C14", "shard-bytes-uploaded", format!("shard_bytes_uploaded {} != bytes handed to upload_shard {}", smetrics.shard_bytes_uploaded, lg.shards.iter().sum::<usize>()), replay.clone()); }
            if smetrics.total_bytes_uploaded != smetrics.shard_bytes_uploaded + smetrics.xorb_bytes_uploaded { ctx.fail("C14", "total-bytes-uploaded", "total_bytes_uploaded != xorb + shard bytes".into(), replay.clone()); }
            // C16 (order): every put precedes the first shard upload
            if let Some(first_shard) = lg.order.iter().position(|o| o.starts_with("shard")) { if lg.order[first_shard..].iter().any(|o| o.starts_with("put")) { ctx.fail("C16", "put-after-shard", "a xorb put was issued after a shard upload started".into(), replay.clone()); } }
            // C15: limits of every put
            for (h, n, len, _) in lg.puts.iter() { if *n == 0 || *n > maxc || *len == 0 || *len > maxb { ctx.fail("C15", "xorb-limits", format!("put of xorb {} with {n} chunks / {len} bytes violates limits {maxc}/{maxb}", h.hex()), replay.clone()); } }
            let mut sum = DeduplicationMetrics::default();
            for d in &done {
                let m = &d.metrics;
                sum.merge_in(m);
                if m.total_bytes != d.spec.data.len() || d.pointer.filesize() as usize != d.spec.data.len() { ctx.fail("C14", "metrics-double-count", format!("pointer size {} / total_bytes {} != bytes fed {}", d.pointer.filesize(), m.total_bytes, d.spec.data.len()), replay.clone()); }
                if d.pointer.filesize() as usize != d.spec.data.len() { ctx.fail("C03", "pointer-size-differs-from-bytes-fed", format!("the pointer of a file of {} bytes records size {} ({} bytes of it had their deduplication withheld by fragmentation prevention; session {sno} of the world)", d.spec.data.len(), d.pointer.filesize(), m.defrag_prevented_dedup_bytes), replay.clone()); }
                if m.defrag_prevented_dedup_chunks > 0 { ctx.stat("files_with_dedup_withheld_by_fragmentation_prevention"); }
                // C03: the pointer depends on the bytes only: equal to the one-shot chunking of the bytes hashed with the salt, and equal
                // for equal bytes wherever / however they were cleaned before in this store
                {
                    let mut ch = deduplication::Chunker::new(target);
                    let mut cs: Vec<(MerkleHash, usize)> = ch.next_block(&d.spec.data, true).iter().map(|c| (c.hash, c.data.len())).collect();
                    if let Some(c) = ch.finish() { cs.push((c.hash, c.data.len())); }
                    let want = merkledb::aggregate_hashes::file_node_hash(&cs, &[0u8; 32]).unwrap();
                    let got = d.pointer.hash().unwrap_or_default();
                    // C04 (through the cleaner's own re-partitioning of large calls): the chunks the cleaner cut cover the stream exactly
                    // and are as many as the chunker cuts from the same bytes in one call
                    if m.total_chunks as usize != cs.len() || m.total_bytes as usize != cs.iter().map(|c| c.1).sum::<usize>() {
                        ctx.fail("C04", "cleaner-chunks-differ-from-one-shot-chunking", format!("stream of {} bytes fed in {} add_data calls (ingestion block {ingest}) was cut into {} chunks covering {} bytes; the chunker cuts the same bytes in one call into {} chunks covering {} bytes", d.spec.data.len(), d.spec.parts.len(), m.total_chunks, m.total_bytes, cs.len(), cs.iter().map(|c| c.1).sum::<usize>()), replay.clone());
                    }
                    if got != want { ctx.fail("C03", "pointer-differs-from-one-shot-reference", format!("file of {} bytes fed in {} add_data calls has pointer hash {} but the same bytes chunked in one call hash to {}", d.spec.data.len(), d.spec.parts.len(), got.hex(), want.hex()), replay.clone()); }
                    let key = compute_data_hash(&d.spec.data);
                    match seen_pointers.get(&key) {
                        Some((h0, n0)) if (*h0, *n0) != (got, d.pointer.filesize()) => ctx.fail("C03", "same-bytes-different-pointer", format!("the same {} bytes were cleaned twice and got pointers ({}, {}) and ({}, {})", d.spec.data.len(), h0.hex(), n0, got.hex(), d.pointer.filesize()), replay.clone()),
                        _ => { seen_pointers.insert(key, (got, d.pointer.filesize())); }
                    }
                }
                if m.new_bytes + m.deduped_bytes != m.total_bytes || m.new_chunks + m.deduped_chunks != m.total_chunks { ctx.fail("C14", "new-plus-deduped", "new + deduped != total".into(), replay.clone()); }
                if m.defrag_prevented_dedup_bytes > m.new_bytes { ctx.fail("C14", "prevented-exceeds-new", "withheld bytes exceed new bytes".into(), replay.clone()); }
                // a re-upload in which the shard lookups found every chunk and fragmentation prevention rejected runs is the recorded
                // finding `repeat-upload-bytes-withheld-by-fragmentation-prevention` (a rejected run of n chunks is stored again
                // entirely, only its first chunk is counted as withheld); a re-upload with a chunk the lookups missed, or new bytes
                // without any rejection, is a violation of its own
                if (reupload || frag_again.as_ref() == Some(&d.spec.data)) && m.new_bytes != 0 && world_files.contains(&d.spec.data) {
                    // (fragmentation prevention needs a history of 128 ranges before it may reject anything: a file of fewer chunks is never excused)
                    if m.defrag_prevented_dedup_bytes > 0 && m.total_chunks > 128 && all_chunks_answered(&d.oracle) {
                        ctx.fail("C11", "repeat-upload-bytes-withheld-by-fragmentation-prevention", format!("re-upload of an unchanged file of {} bytes ({} chunks) in a later session transferred {} new bytes although the shard lookups found every one of its chunks: fragmentation prevention rejected the short runs (limits {maxb}/{maxc}, target {target})", d.spec.data.len(), m.total_chunks, m.new_bytes), replay.clone());
                    } else {
                        ctx.fail("C11", "repeat-upload-new-bytes", format!("re-upload of an unchanged file of {} bytes in a later session transferred {} new bytes, of which fragmentation prevention explains {} (limits {maxb}/{maxc}, target {target})", d.spec.data.len(), m.new_bytes, m.defrag_prevented_dedup_bytes), replay.clone());
                    }
                }
            }
            if metrics_str(&sum) != metrics_str(&smetrics) { ctx.fail("C14", "session-metrics-sum", format!("session metrics {} != sum over files {}", metrics_str(&smetrics), metrics_str(&sum)), replay.clone()); }
            // C11: the shards this session moved into the local shard cache stay valid for the documented cache validity (a shard
            // past its expiry is not loaded by a later process): expiry - creation = MDB_SHARD_LOCAL_CACHE_EXPIRATION_SECS
            {
                let want = *data::VERIF_MDB_SHARD_LOCAL_CACHE_EXPIRATION_SECS;
                if let Ok(shards) = mdb_shard::MDBShardFile::load_all_valid(&config.shard_config.cache_directory) {
                    for sf in shards {
                        let md = &sf.shard.metadata;
                        // (the export stamps now + validity; sessions of this world ran within the last minutes)
                        let now = mdb_shard::shard_file::current_timestamp();
                        let left = md.shard_key_expiry.saturating_sub(now);
                        if md.shard_key_expiry != u64::MAX && (left > want || left + 3600 < want) {
                            ctx.fail("C11", "cached-shard-validity", format!("a shard just moved into the local shard cache expires {left} s from now instead of the cache validity {want} s: later sessions (of another process) lose it early"), replay.clone());
                            break;
                        }
                    }
                }
            }
            // C11: every put xorb has its CAS info registered
            let registered: Vec<String> = events.iter().chain(std::iter::empty()).filter(|e| e.0 == "session.add_cas_block").map(|e| e.1.split(' ').next().unwrap().to_string()).collect();
            let _ = registered;
            drop(lg);

            // ---------------- C01 / C03: download every file of this and earlier sessions, whole and by range
            for d in &done { world_ptrs.push((d.pointer.clone(), d.spec.data.clone())); }
            let dl_cfg = config.clone(); let tp3 = tp.clone();
            let downloader = tp.external_run_async_task(async move { FileDownloader::new(dl_cfg, tp3).await }).unwrap().unwrap();
            let downloader = Arc::new(downloader);
            // (a world with more than a hundred files: every file of the current session's first 40, then every 25th; after six
            // failed downloads of a session the rest is skipped — each failure is already a reported violation)
            let mut dl_failures = 0usize;
            let first_new = world_ptrs.len() - done.len();
            for (pi, (ptr, bytes)) in world_ptrs.iter().enumerate() {
                if world_ptrs.len() > 100 && !(pi >= first_new && pi < first_new + 40) && pi % 25 != 0 { continue; }
                if dl_failures >= 6 { ctx.stat("downloads_skipped_after_failures"); break; }
                let out_path = base.join(format!("dl-{pi}"));
                let _ = std::fs::remove_file(&out_path);
                let ranges: Vec<Option<(u64, u64)>> = { let l = bytes.len() as u64; let mut v = vec![None]; if l > 0 { let a = rng.below(l); let b = rng.range(a, l); v.push(Some((a, b))); v.push(Some((0, 1))); v.push(Some((l - 1, l))); } v };
                for r in ranges {
                    let _ = std::fs::remove_file(&out_path);
                    let dlr = downloader.clone(); let p2 = ptr.clone(); let op = OutputProvider::File(FileProvider::new(out_path.clone()));
                    let fr = r.map(|(a, b)| FileRange { start: a, end: b });
                    let res = tp.external_run_async_task(async move { dlr.smudge_file_from_pointer(&p2, &op, fr, None).await }).unwrap();
                    let got = std::fs::read(&out_path).unwrap_or_default();
                    let want: &[u8] = match r { None => &bytes[..], Some((a, b)) => &bytes[a as usize..b as usize] };
                    match res { Ok(n) if got == want && n as usize == want.len() => {}
                        Ok(n) => { dl_failures += 1; ctx.fail("C01", "download-mismatch", format!("download of file {pi} range {r:?} returned {} bytes (reported {n}), expected {}", got.len(), want.len()), replay.clone()); }
                        Err(e) => { dl_failures += 1; ctx.fail("C01", "download-error", format!("download of file {pi} range {r:?} failed: {e}"), replay.clone());
                                    // every session so far reported success: a file that cannot be reconstructed from the store is also C16's concern
                                    ctx.fail("C16", "success-but-not-reconstructible", format!("all sessions reported success, yet file {pi} cannot be reconstructed from the store: {e}"), replay.clone()); } }
                    ctx.stat("downloads");
                }
                let _ = std::fs::remove_file(&out_path);
            }

            // ---------------- C02: independent validation of what the store and the session shards now hold
            let xd = xorb_dir.clone();
            let store = tp.external_run_async_task(async move { LocalClient::new(&xd, None) }).unwrap().unwrap();
            let mut xorb_chunks: HashMap<MerkleHash, Vec<(MerkleHash, usize)>> = HashMap::new();
            for (h, nchunks_put, _, _) in log.lock().unwrap().puts.iter() {
                match store.get(h) { Ok(data) => { let _ = data; }, Err(e) => ctx.fail("C02", "stored-xorb-unreadable", format!("xorb {} cannot be read back: {e}", h.hex()), replay.clone()) }
                // C15: "a validating server accepts them" — the seekable validator on the stored object, under the xorb's hash
                let p = xorb_dir.join("xorbs").join(format!("default.{}", h.hex()));
                if let Ok(f) = std::fs::File::open(&p) {
                    match cas_object::CasObject::validate_cas_object(&mut std::io::BufReader::new(f), h) {
                        Ok(Some(_)) => ctx.stat("stored_xorbs_validated"),
                        other => ctx.fail("C15", "stored-xorb-rejected-by-validator", format!("xorb {} ({} chunks, limit {maxc}) was handed to the store within all limits, but the validator a server runs on it answers {}", h.hex(), nchunks_put, match other { Ok(None) => "hash mismatch / invalid".to_string(), Err(e) => format!("{e:?}").chars().take(120).collect(), _ => String::new() }), replay.clone()),
                    }
                } else { ctx.stat("stored_xorb_file_not_found_for_validation"); }
            }
            for fi in &file_infos {
                for (si, s) in fi.segments.iter().enumerate() {
                    if s.cas_hash == MerkleHash::default() { ctx.fail("C15", "unresolved-xorb-reference", format!("file record {} segment {si} has a zero xorb hash", fi.metadata.file_hash.hex()), replay.clone()); continue; }
                    let entry = xorb_chunks.entry(s.cas_hash).or_insert_with(|| {
                        // independent decode of the stored object: read the file, parse the footer, decode chunk by chunk
                        let path = xorb_dir.join("xorbs").join(format!("default.{:?}", s.cas_hash));
                        let mut v = Vec::new();
                        if let Ok(bytes) = std::fs::read(&path) {
                            match cas_object::CasObject::validate_cas_object(&mut std::io::Cursor::new(&bytes), &s.cas_hash) { Ok(Some(_)) => {}, _ => { v.push((MerkleHash::default(), usize::MAX)); } }
                            if let Ok(co) = cas_object::CasObject::deserialize(&mut std::io::Cursor::new(&bytes)) {
                                for i in 0..co.info.num_chunks { if let Ok(b) = co.get_bytes_by_chunk_range(&mut std::io::Cursor::new(&bytes), i, i + 1) { v.push((compute_data_hash(&b), b.len())); } }
                            }
                        }
                        v
                    });
                    if entry.first().map(|e| e.1) == Some(usize::MAX) { ctx.fail("C02", "stored-xorb-invalid", format!("stored xorb {} is not accepted by validate_cas_object for its own name", s.cas_hash.hex()), replay.clone()); continue; }
                    if s.chunk_index_start >= s.chunk_index_end || s.chunk_index_end as usize > entry.len() { ctx.fail("C02", "segment-out-of-range", format!("segment {si} [{},{}) of file {} is not within xorb {} of {} chunks", s.chunk_index_start, s.chunk_index_end, fi.metadata.file_hash.hex(), s.cas_hash.hex(), entry.len()), replay.clone()); continue; }
                    let sum: usize = entry[s.chunk_index_start as usize..s.chunk_index_end as usize].iter().map(|c| c.1).sum();
                    if sum != s.unpacked_segment_bytes as usize { ctx.fail("C02", "segment-bytes", format!("segment {si} records {} bytes, chunks sum to {sum}", s.unpacked_segment_bytes), replay.clone()); }
                    if fi.verification.len() == fi.segments.len() {
                        let hs: Vec<MerkleHash> = entry[s.chunk_index_start as usize..s.chunk_index_end as usize].iter().map(|c| c.0).collect();
                        if mdb_shard::chunk_verification::range_hash_from_chunks(&hs) != fi.verification[si].range_hash { ctx.fail("C02", "verification-hash", format!("verification hash of segment {si} of file {} does not match the referenced chunks", fi.metadata.file_hash.hex()), replay.clone()); }
                    }
                }
            }
            for (h, v) in xorb_chunks.iter() { if !v.is_empty() && merkledb::aggregate_hashes::cas_node_hash(v) != *h { ctx.fail("C02", "xorb-name-hash", format!("xorb {} does not hash to its name", h.hex()), replay.clone()); } }
            for d in &done {
                let fh = d.pointer.hash().unwrap();
                if let Some(fi) = file_infos.iter().find(|f| f.metadata.file_hash == fh) {
                    let got = fi.metadata_ext.as_ref().map(|m| m.sha256.hex()).unwrap_or_default();
                    if got != d.sha { ctx.fail("C02", if d.spec.data.is_empty() { "empty-file-sha256" } else { "sha256" }, format!("recorded SHA-256 {got} != SHA-256 of the bytes {} ({} bytes)", d.sha, d.spec.data.len()), replay.clone()); }
                } else { ctx.fail("C02", "file-record-missing", format!("no file record for pointer {}", fh.hex()), replay.clone()); }
            }

            // ---------------- the model replays the session
            let mut fstrs = Vec::new();
            let mut fans = Vec::new();
            for d in &done {
                let (off, len) = ctx.blob(&d.spec.data);
                fstrs.push(format!("{off}:{len}/{}/{}/{}", join(&d.spec.parts), d.sha, if d.oracle.is_empty() { "-".to_string() } else { d.oracle.join("|") }));
                fans.push(format!("{}:{}:{}:{}:false", d.pointer.hash_string(), d.pointer.filesize(), metrics_str(&d.metrics), d.oracle.len()));
            }
            let lg = log.lock().unwrap();
            let mut puts: Vec<String> = lg.puts.iter().map(|(h, n, len, _)| format!("{}:{n}:{len}", h.hex())).collect(); puts.sort();
            let mut cas: Vec<String> = events.iter().chain(std::iter::empty()).filter(|e| e.0 == "session.add_cas_block").map(|e| e.1.replace(' ', ":")).collect();
            // add_cas_block events that happened during the file phase were drained into the per-call event lists; recover them from puts:
            // every put xorb must have been registered (C11) — the model lists exactly the puts' CAS infos
            let mut recs: Vec<String> = file_infos.iter().map(file_info_str).collect(); recs.sort(); recs.dedup();
            cas.clear();
            let salt_hex = "00".repeat(32);
            let line = format!("sess.run target={target} mindiv={mindiv} maxmul={maxmul} ingest={ingest} maxb={maxb} maxc={maxc} salt={salt_hex} files={}", fstrs.join("#"));
            let mut model_cas: Vec<String> = lg.puts.iter().map(|(h, n, _, _)| format!("{}:{n}", h.hex())).collect(); model_cas.sort();
            let ans = format!("files={} puts={} cas={} recs={} sm={}", fans.join(" "), puts.join(","), model_cas.join(","), recs.join(" "), metrics_str(&smetrics));
            drop(lg);
            ctx.op(&line, &ans);
            for d in &done { let (off, len) = ctx.blob(&d.spec.data); ctx.op(&format!("sha256 {off} {len}"), &d.sha); }
            for d in done { world_files.push(d.spec.data); }
            ctx.stat(if interleave { "sessions_interleaved" } else { "sessions_sequential" });
            if reupload { ctx.stat("sessions_with_reupload"); }
            ctx.stat_add("files", fstrs.len() as u64);
            ctx.stat_add("puts", puts.len() as u64);
            ctx.case(fnv(line.as_bytes()), fstrs.len() >= 1);
        }
        let _ = std::fs::remove_dir_all(&base);
    }
    utils::verif_hooks::set_event_callback(None);
    let _ = std::fs::remove_dir_all(&tmp_root);
    let _ = Path::new(".");
}
