//! Suite `session_conc` (C03, C01, C14, C02, C11, C15): the files of one real `FileUploadSession` are cleaned
//! CONCURRENTLY on the multi-thread tokio runtime of `xet_threadpool::ThreadPool` (one spawned task per file, or a
//! pool of worker tasks pulling files from a queue exactly as `data_client::upload_async` / `tokio_par_for_each`
//! does), with per-file random `add_data` partitions, random yields / short sleeps between the calls and jitter at
//! the cfg(xet_verif) event points inside the implementation.  The file sets are built for cross-file duplication
//! (identical files, shared prefixes / suffixes / middles, concatenations, empty and tiny files, content of earlier
//! sessions).  Three session flavours: mixed files; mixed files with a rendezvous of all cleaners right before
//! `finish`; bursts of 8–12 small files started together (colliding `finish` calls: aggregator merge / cut, session
//! metrics, shard manager updates and flushes).
//!
//! The interleaving is not reproducible, so no trace is compared.  Per world two stores are kept:
//!   * store R (reference): the same sessions, the distinct file contents cleaned ONE AFTER ANOTHER; fully
//!     deterministic, replayed by the Lean model through the existing `sess.run` driver op (as the suite `session`);
//!   * store C (concurrent): the session under test, then an "echo" session re-uploading the same files sequentially.
//! C03: the (hash, size) written into the `sess.run` answer are those of the CONCURRENT run, so the model's pointer is
//! the reference for them (plus a direct monitor against store R and against the echo session).  Everything else is
//! a monitor on the implementation after `finalize` (C01 downloads, C14 conservation / upload accounting, C02
//! independent validation of stored xorbs and file records, C15 limits, C11 echo session transfers nothing).
use std::collections::{BTreeSet, HashMap};
use std::future::Future;
use std::path::PathBuf;
use std::sync::atomic::{AtomicBool, AtomicU64, AtomicUsize, Ordering};
use std::sync::{Arc, Mutex};
use std::time::Duration;

use cas_client::{Client, FileProvider, LocalClient, OutputProvider};
use cas_types::FileRange;
use data::configurations::TranslatorConfig;
use data::{FileDownloader, FileUploadSession, PointerFile};
use deduplication::constants::{MAXIMUM_CHUNK_MULTIPLIER, MAX_XORB_BYTES, MAX_XORB_CHUNKS, MINIMUM_CHUNK_DIVISOR, TARGET_CHUNK_SIZE};
use deduplication::DeduplicationMetrics;
use mdb_shard::file_structs::MDBFileInfo;
use merklehash::{compute_data_hash, MerkleHash};
use sha2::{Digest, Sha256};
use xet_threadpool::ThreadPool;

use crate::ctx::{first_panic, fnv, join, run_children, Ctx};
use crate::rng::Rng;
use crate::suites::deduper::file_info_str;
use crate::suites::session::{metrics_str, ClientLog, LoggingClient};

/// every wait on the runtime is bounded by this many seconds (a hang is reported, not suffered); `XET_VERIF_WAIT_SECS` overrides
fn wait_secs() -> u64 { std::env::var("XET_VERIF_WAIT_SECS").ok().and_then(|s| s.parse().ok()).unwrap_or(90) }

pub fn run_parent(ctx: &mut Ctx) {
    // (target chunk, max xorb bytes, max xorb chunks, ingestion block, shard target)
    // small xorb limits: xorbs are cut in the middle of files and in the session aggregator;
    // small shard targets: the session shard is flushed while files are still being cleaned
    let list: &[(usize, usize, usize, usize, u64)] = if ctx.quick() {
        &[(1024, 40_000, 16, 8 << 20, 64 << 20), (256, 3000, 8, 4096, 1500), (512, 9000, 3, 8 << 20, 4000), (128, 1 << 26, 8192, 700, 64 << 20), (2048, 20_000, 64, 10_000, 3000)]
    } else {
        &[(1024, 40_000, 16, 8 << 20, 64 << 20), (256, 3000, 8, 4096, 1500), (512, 9000, 3, 8 << 20, 4000), (128, 1 << 26, 8192, 700, 64 << 20), (2048, 20_000, 64, 10_000, 3000),
          (128, 300, 1, 8 << 20, 64 << 20), (128, 256, 2, 100, 1200), (4096, 100_000, 8, 8 << 20, 20_000), (1024, 2048, 1000, 333, 3000), (512, 1 << 26, 8192, 8 << 20, 900)]
    };
    let cfgs: Vec<Vec<(String, String)>> = list.iter().map(|(t, b, c, i, s)| vec![
        ("HF_XET_TARGET_CHUNK_SIZE".into(), t.to_string()), ("HF_XET_MAX_XORB_BYTES".into(), b.to_string()), ("HF_XET_MAX_XORB_CHUNKS".into(), c.to_string()),
        ("HF_XET_INGESTION_BLOCK_SIZE".into(), i.to_string()), ("HF_XET_MDB_SHARD_TARGET_SIZE".into(), s.to_string()), ("HF_XET_MDB_SHARD_MIN_TARGET_SIZE".into(), s.to_string()),
    ]).collect();
    run_children(ctx, "session_conc-child", &cfgs);
}

// ------------------------------------------------------------------------------------------------ event hook
static EVENTS: Mutex<Vec<(&'static str, String)>> = Mutex::new(Vec::new());
fn take_events() -> Vec<(&'static str, String)> { std::mem::take(&mut *EVENTS.lock().unwrap()) }

/// oracle string for the model from the events of one file (same format as the suite `session`: one
/// `nchunks@answers@0@0` entry per `process_chunks` call)
fn oracle_of(events: &[(&'static str, String)]) -> Vec<String> {
    let mut out = Vec::new();
    let mut cur: Option<(usize, Vec<String>)> = None;
    for (name, data) in events {
        match *name {
            "dedup.process_chunks.begin" => { let n = if data.is_empty() { 0 } else { data.split(',').count() }; cur = Some((n, Vec::new())); }
            "session.dedup_answer" => {
                if let Some((n, ans)) = cur.as_mut() {
                    let mut it = data.split(' ');
                    let _src = it.next(); let qlen: usize = it.next().unwrap().parse().unwrap(); let a = it.next().unwrap();
                    if a != "-" { ans.push(format!("{}:{}", *n - qlen, a)); }
                }
            }
            "dedup.process_chunks.end" => { if let Some((n, ans)) = cur.take() { out.push(format!("{n}@{}@0@0", if ans.is_empty() { "-".to_string() } else { ans.join(";") })); } }
            _ => {}
        }
    }
    out
}

/// true: events are recorded for the model oracle (sequential reference); false: events are only counted and used
/// as jitter points (concurrent phase)
static RECORD: AtomicBool = AtomicBool::new(false);
static JITTER: AtomicBool = AtomicBool::new(false);
static JITTER_STATE: AtomicU64 = AtomicU64::new(0x9E3779B97F4A7C15);
static N_AGG_XORBS: AtomicUsize = AtomicUsize::new(0);
static N_CAS_BLOCKS: AtomicUsize = AtomicUsize::new(0);
static N_HITS_SESSION: AtomicUsize = AtomicUsize::new(0);
static N_HITS_CACHE: AtomicUsize = AtomicUsize::new(0);

fn on_event(name: &'static str, data: String) {
    if RECORD.load(Ordering::SeqCst) { EVENTS.lock().unwrap().push((name, data)); return; }
    match name {
        "session.aggregated_xorb" => { if !data.contains(" 0 0 ") { N_AGG_XORBS.fetch_add(1, Ordering::Relaxed); } }
        "session.add_cas_block" => { N_CAS_BLOCKS.fetch_add(1, Ordering::Relaxed); }
        "session.dedup_answer" => { if !data.ends_with(" -") { if data.starts_with("session") { N_HITS_SESSION.fetch_add(1, Ordering::Relaxed); } else { N_HITS_CACHE.fetch_add(1, Ordering::Relaxed); } } }
        _ => {}
    }
    if JITTER.load(Ordering::Relaxed) {
        // schedule noise inside the implementation (e.g. "session.file_done" is raised under the aggregator lock,
        // "session.add_cas_block" right before the shard manager is updated)
        let x = JITTER_STATE.fetch_add(0x9E3779B97F4A7C15, Ordering::Relaxed);
        let z = (x ^ (x >> 29)).wrapping_mul(0xBF58476D1CE4E5B9); let z = z ^ (z >> 32);
        match z % 8 { 0 => std::thread::sleep(Duration::from_micros(20 + (z >> 8) % 200)), 1 | 2 => std::thread::yield_now(), _ => {} }
    }
}

// ------------------------------------------------------------------------------------------------ bounded waits
enum Fault { Hang(String), Error(String), Panic(String) }
impl Fault {
    fn key(&self, what: &str) -> String { match self { Fault::Hang(_) => format!("{what}-hang"), Fault::Error(_) => format!("{what}-error"), Fault::Panic(_) => format!("{what}-panic") } }
    fn text(&self) -> String {
        match self { Fault::Hang(s) | Fault::Error(s) => s.clone(),
                     Fault::Panic(s) => format!("{s}; first panic: {}", first_panic().map(|(l, m)| format!("{l}: {m}")).unwrap_or_default()) }
    }
    fn is_hang(&self) -> bool { matches!(self, Fault::Hang(_)) }
}

fn bounded<F>(tp: &ThreadPool, what: &str, fut: F) -> Result<F::Output, Fault>
where F: Future + Send + 'static, F::Output: Send + Sync + 'static {
    let secs = wait_secs();
    match tp.external_run_async_task(async move { tokio::time::timeout(Duration::from_secs(secs), fut).await }) {
        Ok(Ok(v)) => Ok(v),
        Ok(Err(_)) => Err(Fault::Hang(format!("{what} did not complete within {secs} s"))),
        Err(e) => Err(Fault::Panic(format!("{what}: {e}"))),
    }
}

// ------------------------------------------------------------------------------------------------ generated files
struct CFile {
    data: Arc<Vec<u8>>,
    parts: Vec<usize>,
    /// after part i: < 8 = that many `yield_now`, otherwise a sleep of that many microseconds
    pauses: Vec<u32>,
    start_yields: u32,
    kind: &'static str,
}

fn fresh_bytes(rng: &mut Rng, target: usize, want: usize, pool: &mut Vec<Vec<u8>>) -> Vec<u8> {
    let mut data = Vec::with_capacity(want + 4 * target);
    let repeat = rng.chance(1, 3);
    while data.len() < want {
        if repeat && !pool.is_empty() && rng.chance(1, 2) { let b = rng.pick(pool).clone(); data.extend_from_slice(&b); }
        else { let n = rng.range(1, 3 * target as u64) as usize; let b = rng.bytes(n); if rng.chance(1, 3) { pool.push(b.clone()); } data.extend_from_slice(&b); }
    }
    data.truncate(want);
    data
}

fn gen_parts(rng: &mut Rng, target: usize, len: usize) -> (Vec<usize>, Vec<u32>) {
    let mut parts = Vec::new();
    let mut left = len;
    match rng.below(4) {
        0 => parts.push(left),
        1 => { while left > 0 { let n = (rng.range(1, 2 * target as u64) as usize).min(left); parts.push(n); left -= n; } }
        _ => { while left > 0 { let n = (match rng.below(5) { 0 => 0, 1 => 1, 2 => rng.below(100) as usize, _ => rng.below(20 * target as u64) as usize }).min(left); parts.push(n); left -= n; } if rng.chance(1, 2) { parts.push(0); } }
    }
    let style = rng.below(4); // 0: no pauses, 1: yields, 2: yields and sleeps, 3: mostly sleeps
    let pauses = parts.iter().map(|_| match style { 0 => 0, 1 => rng.below(4) as u32, 2 => if rng.chance(1, 4) { rng.range(20, 400) as u32 } else { rng.below(4) as u32 }, _ => if rng.chance(2, 3) { rng.range(20, 600) as u32 } else { 0 } }).collect();
    (parts, pauses)
}

/// 2–12 files with deliberate cross-file duplication
/// `burst`: 8–12 small files (at most a few chunks each) fed in one or two calls without pauses, so that the
/// `finish` calls of all files (aggregator merge / cut, metrics, shard updates) collide
fn gen_session_files(rng: &mut Rng, target: usize, earlier: &[Arc<Vec<u8>>], signature: Option<&Arc<Vec<u8>>>, pool: &mut Vec<Vec<u8>>, burst: bool) -> Vec<CFile> {
    let top = if signature.is_some() { 11 } else { 12 };   // 2–12 files including the signature file
    let nfiles = if burst { rng.range(8, top) } else { rng.range(2, top) } as usize;
    let big = |rng: &mut Rng| if burst { rng.range(1, 5 * target as u64) as usize } else { rng.range(4 * target as u64, 40 * target as u64) as usize };
    let small = |rng: &mut Rng| if burst { rng.range(1, 2 * target as u64) as usize } else { rng.range(1, 4 * target as u64) as usize };
    let mut out: Vec<(Vec<u8>, &'static str)> = Vec::new();
    for i in 0..nfiles {
        let nonempty: Vec<usize> = (0..out.len()).filter(|j| out[*j].0.len() > 1).collect();
        let roll = if i == 0 { 100 } else { rng.below(20) };
        let (data, kind): (Vec<u8>, &'static str) = match roll {
            0 => (Vec::new(), "empty"),
            1 => { let n = rng.range(1, (target / 8).max(2) as u64) as usize; (rng.bytes(n), "tiny") }
            2 | 3 if !nonempty.is_empty() => (out[*rng.pick(&nonempty)].0.clone(), "identical"),
            4 | 5 if !nonempty.is_empty() => { let f = &out[*rng.pick(&nonempty)].0; let k = rng.range(1, f.len() as u64) as usize; let mut d = f[..k].to_vec(); if rng.chance(3, 4) { let n = small(rng); d.extend(fresh_bytes(rng, target, n, pool)); } (d, "prefix") }
            6 | 7 if !nonempty.is_empty() => { let f = out[*rng.pick(&nonempty)].0.clone(); let k = rng.below(f.len() as u64) as usize; let n = small(rng); let mut d = fresh_bytes(rng, target, n, pool); d.extend_from_slice(&f[k..]); (d, "suffix") }
            8 | 9 if !nonempty.is_empty() => { let f = out[*rng.pick(&nonempty)].0.clone(); let a = rng.below(f.len() as u64) as usize; let b = rng.range(a as u64 + 1, f.len() as u64) as usize;
                                                let n = small(rng); let mut d = fresh_bytes(rng, target, n, pool); d.extend_from_slice(&f[a..b]); let n = small(rng); d.extend(fresh_bytes(rng, target, n, pool)); (d, "middle") }
            10 | 11 if nonempty.len() >= 2 => { let a = *rng.pick(&nonempty); let b = *rng.pick(&nonempty); let mut d = out[a].0.clone(); d.extend_from_slice(&out[b].0); (d, "concat") }
            12 | 13 | 14 if !earlier.is_empty() => {
                let f = rng.pick(earlier).clone();
                if f.is_empty() || rng.chance(1, 2) { ((*f).clone(), "earlier_session_copy") }
                else { let a = rng.below(f.len() as u64) as usize; let b = rng.range(a as u64 + 1, f.len() as u64) as usize; let n = small(rng); let mut d = fresh_bytes(rng, target, n, pool); d.extend_from_slice(&f[a..b]); if rng.chance(1, 2) { let n = small(rng); d.extend(fresh_bytes(rng, target, n, pool)); } (d, "earlier_session_splice") }
            }
            15 => { let n = small(rng); (fresh_bytes(rng, target, n, pool), "fresh_small") }
            _ => { let n = big(rng); (fresh_bytes(rng, target, n, pool), "fresh_big") }
        };
        out.push((data, kind));
    }
    if let Some(s) = signature { let at = rng.below(out.len() as u64 + 1) as usize; out.insert(at, ((**s).clone(), "signature")); }
    out.into_iter().map(|(data, kind)| {
        if burst { let l = data.len(); let parts = if rng.chance(1, 2) { vec![l] } else { let a = rng.below(l as u64 + 1) as usize; vec![a, l - a] }; let pauses = vec![0; parts.len()]; return CFile { data: Arc::new(data), parts, pauses, start_yields: 0, kind }; }
        let (parts, pauses) = gen_parts(rng, target, data.len()); CFile { data: Arc::new(data), parts, pauses, start_yields: rng.below(6) as u32, kind }
    }).collect()
}

// ------------------------------------------------------------------------------------------------ running sessions
struct Store { base: PathBuf, config: Arc<TranslatorConfig>, xorb_dir: PathBuf }

fn make_store(base: PathBuf, salt: [u8; 32]) -> Store {
    std::fs::create_dir_all(&base).unwrap();
    let mut config = TranslatorConfig::local_config(&base).unwrap();
    Arc::get_mut(&mut config).expect("fresh config").shard_config.repo_salt = salt;
    let xorb_dir = base.join("xet").join("xorbs");
    Store { base, config, xorb_dir }
}

fn open_session(tp: &Arc<ThreadPool>, st: &Store) -> Result<(Arc<FileUploadSession>, Arc<Mutex<ClientLog>>), Fault> {
    let log = Arc::new(Mutex::new(ClientLog::default()));
    let xd = st.xorb_dir.clone();
    let inner = bounded(tp, "LocalClient::new", async move { LocalClient::new(&xd, None).map_err(|e| e.to_string()) })?.map_err(Fault::Error)?;
    let client: Arc<dyn Client + Send + Sync> = Arc::new(LoggingClient { inner: Arc::new(inner), log: log.clone() });
    let (cfg2, tp2) = (st.config.clone(), tp.clone());
    let session = bounded(tp, "FileUploadSession::new", async move { FileUploadSession::new_with_client(cfg2, tp2, client).await.map_err(|e| e.to_string()) })?.map_err(Fault::Error)?;
    Ok((session, log))
}

struct FileOut { pointer: PointerFile, metrics: DeduplicationMetrics, oracle: Vec<String> }
struct SessOut { files: Vec<FileOut>, smetrics: DeduplicationMetrics, file_infos: Vec<MDBFileInfo>, log: Arc<Mutex<ClientLog>>, shards_before_finalize: usize }

fn session_shards_on_disk(st: &Store) -> usize {
    let mut n = 0;
    if let Ok(rd) = std::fs::read_dir(st.base.join("xet").join("shard-session")) {
        for d in rd.flatten() { if let Ok(rd2) = std::fs::read_dir(d.path()) { n += rd2.flatten().filter(|e| e.path().extension().map(|x| x == "mdb").unwrap_or(false)).count(); } }
    }
    n
}

fn finalize(tp: &Arc<ThreadPool>, session: Arc<FileUploadSession>) -> Result<(DeduplicationMetrics, Vec<MDBFileInfo>), Fault> {
    bounded(tp, "finalize", async move { session.finalize_with_file_info().await.map_err(|e| e.to_string()) })?.map_err(Fault::Error)
}

/// the files one after another (each with its own add_data partition); `record`: collect the dedup oracle for the model
fn run_sequential(tp: &Arc<ThreadPool>, st: &Store, files: &[(Arc<Vec<u8>>, Vec<usize>)], record: bool) -> Result<SessOut, Fault> {
    let (session, log) = open_session(tp, st)?;
    RECORD.store(record, Ordering::SeqCst);
    take_events();
    let mut outs = Vec::new();
    for (i, (data, parts)) in files.iter().enumerate() {
        let (s2, d2, p2) = (session.clone(), data.clone(), parts.clone());
        let r = bounded(tp, "sequential clean", async move {
            let mut cl = s2.start_clean(format!("s{i}")); drop(s2);
            let mut pos = 0;
            for n in p2 { cl.add_data(&d2[pos..pos + n]).await.map_err(|e| format!("add_data: {e}"))?; pos += n; }
            cl.finish().await.map_err(|e| format!("finish: {e}"))
        });
        let oracle = oracle_of(&take_events());
        match r { Ok(Ok((pointer, metrics))) => outs.push(FileOut { pointer, metrics, oracle }), Ok(Err(e)) => { RECORD.store(false, Ordering::SeqCst); return Err(Fault::Error(e)); }, Err(f) => { RECORD.store(false, Ordering::SeqCst); return Err(f); } }
    }
    let shards_before_finalize = session_shards_on_disk(st);
    let fin = finalize(tp, session);
    RECORD.store(false, Ordering::SeqCst);
    take_events();
    let (smetrics, file_infos) = fin?;
    Ok(SessOut { files: outs, smetrics, file_infos, log, shards_before_finalize })
}

struct ConcOut { out: SessOut, max_active: usize, completion: Vec<usize> }

async fn pause(p: u32) { if p < 8 { for _ in 0..p { tokio::task::yield_now().await; } } else { tokio::time::sleep(Duration::from_micros(p as u64)).await; } }

/// loose rendezvous of the cleaning tasks (bounded: a task that failed early never arrives)
struct Gate { n: usize, arrived: AtomicUsize }
impl Gate {
    fn new(n: usize) -> Arc<Gate> { Arc::new(Gate { n, arrived: AtomicUsize::new(0) }) }
    async fn wait(&self) {
        self.arrived.fetch_add(1, Ordering::SeqCst);
        let t0 = std::time::Instant::now();
        while self.arrived.load(Ordering::SeqCst) < self.n && t0.elapsed() < Duration::from_millis(20) { tokio::task::yield_now().await; }
    }
}

async fn clean_one(session: Arc<FileUploadSession>, f: &CFile, name: String, start: Option<Arc<Gate>>, finish: Option<Arc<Gate>>) -> Result<(PointerFile, DeduplicationMetrics), String> {
    if let Some(g) = start { g.wait().await; }
    for _ in 0..f.start_yields { tokio::task::yield_now().await; }
    let mut cl = session.start_clean(name);
    drop(session);
    let mut pos = 0;
    for (i, n) in f.parts.iter().enumerate() {
        cl.add_data(&f.data[pos..pos + n]).await.map_err(|e| format!("add_data: {e}"))?;
        pos += n;
        pause(f.pauses[i]).await;
    }
    if let Some(g) = finish { g.wait().await; }
    cl.finish().await.map_err(|e| format!("finish: {e}"))
}

/// `width == 0`: one spawned task per file; otherwise `width` worker tasks pull the next file index from a queue
/// (the shape of `parutils::tokio_par_for_each` used by `data_client::upload_async`)
/// `sync_start` / `sync_finish` (task-per-file mode only): all tasks start together / call `finish` together
fn run_concurrent(tp: &Arc<ThreadPool>, st: &Store, files: &Arc<Vec<CFile>>, width: usize, sync_start: bool, sync_finish: bool) -> Result<ConcOut, Fault> {
    let (session, log) = open_session(tp, st)?;
    let n = files.len();
    let next = Arc::new(AtomicUsize::new(0));
    let active = Arc::new(AtomicUsize::new(0));
    let max_active = Arc::new(AtomicUsize::new(0));
    let results: Arc<Mutex<Vec<Option<Result<(PointerFile, DeduplicationMetrics), String>>>>> = Arc::new(Mutex::new((0..n).map(|_| None).collect()));
    let completion: Arc<Mutex<Vec<usize>>> = Arc::new(Mutex::new(Vec::new()));
    let ntasks = if width == 0 { n } else { width.min(n) };
    let gate_s = if width == 0 && sync_start { Some(Gate::new(n)) } else { None };
    let gate_f = if width == 0 && sync_finish { Some(Gate::new(n)) } else { None };
    JITTER.store(true, Ordering::SeqCst);
    let mut handles = Vec::new();
    for _ in 0..ntasks {
        let (session, files, next, active, max_active, results, completion) = (session.clone(), files.clone(), next.clone(), active.clone(), max_active.clone(), results.clone(), completion.clone());
        let (gate_s, gate_f) = (gate_s.clone(), gate_f.clone());
        handles.push(tp.spawn(async move {
            loop {
                let idx = next.fetch_add(1, Ordering::SeqCst);
                if idx >= files.len() { break; }
                let a = active.fetch_add(1, Ordering::SeqCst) + 1;
                max_active.fetch_max(a, Ordering::SeqCst);
                let r = clean_one(session.clone(), &files[idx], format!("c{idx}"), gate_s.clone(), gate_f.clone()).await;
                active.fetch_sub(1, Ordering::SeqCst);
                completion.lock().unwrap().push(idx);
                results.lock().unwrap()[idx] = Some(r);
                if width == 0 { break; }
            }
            drop(session);
        }));
    }
    let joined = bounded(tp, "concurrent clean", async move {
        let mut panics = Vec::new();
        for h in handles { if let Err(e) = h.await { panics.push(e.to_string()); } }
        panics
    });
    JITTER.store(false, Ordering::SeqCst);
    let panics = joined?;
    if !panics.is_empty() { return Err(Fault::Panic(format!("{} cleaning task(s) panicked: {}", panics.len(), panics[0]))); }
    let mut outs = Vec::new();
    for (i, r) in std::mem::take(&mut *results.lock().unwrap()).into_iter().enumerate() {
        match r { Some(Ok((pointer, metrics))) => outs.push(FileOut { pointer, metrics, oracle: Vec::new() }),
                  Some(Err(e)) => return Err(Fault::Error(format!("file {i}: {e}"))),
                  None => return Err(Fault::Error(format!("file {i} was never cleaned"))) }
    }
    let shards_before_finalize = session_shards_on_disk(st);
    JITTER.store(true, Ordering::SeqCst);
    let fin = finalize(tp, session);
    JITTER.store(false, Ordering::SeqCst);
    let (smetrics, file_infos) = fin?;
    let completion = completion.lock().unwrap().clone();
    Ok(ConcOut { out: SessOut { files: outs, smetrics, file_infos, log, shards_before_finalize }, max_active: max_active.load(Ordering::SeqCst), completion })
}

// ------------------------------------------------------------------------------------------------ monitors
struct Limits { target: usize, maxmul: usize, maxb: usize, maxc: usize }

fn sha_hex(data: &[u8]) -> String { Sha256::digest(data).iter().map(|b| format!("{b:02x}")).collect() }

/// C14 / C15 / C16-order / C02 on one finalized session.  `fed[i]` are the bytes of file i of `out`.
fn check_session(ctx: &mut Ctx, tag: &str, replay: &str, lim: &Limits, st: &Store, salt: &[u8; 32], fed: &[Arc<Vec<u8>>], out: &SessOut) {
    let k = |s: &str| if tag.is_empty() { s.to_string() } else { format!("{tag}-{s}") };
    let (smetrics, file_infos) = (&out.smetrics, &out.file_infos);
    let lg = out.log.lock().unwrap();
    // ---- C14: upload byte accounting against what the logging client saw
    if smetrics.xorb_bytes_uploaded != lg.put_returns { ctx.fail("C14", &k("xorb-bytes-uploaded-lost"), format!("xorb_bytes_uploaded {} != sum of put returns {}", smetrics.xorb_bytes_uploaded, lg.put_returns), replay.into()); }
    let shard_bytes: usize = lg.shards.iter().sum();
    if smetrics.shard_bytes_uploaded != shard_bytes { ctx.fail("C14", &k("shard-bytes-uploaded"), format!("shard_bytes_uploaded {} != bytes handed to upload_shard {shard_bytes}", smetrics.shard_bytes_uploaded), replay.into()); }
    if smetrics.total_bytes_uploaded != smetrics.shard_bytes_uploaded + smetrics.xorb_bytes_uploaded { ctx.fail("C14", &k("total-bytes-uploaded"), "total_bytes_uploaded != xorb + shard bytes".into(), replay.into()); }
    // ---- C16 (order): every put precedes the first shard upload
    if let Some(first_shard) = lg.order.iter().position(|o| o.starts_with("shard")) { if lg.order[first_shard..].iter().any(|o| o.starts_with("put")) { ctx.fail("C16", &k("put-after-shard"), "a xorb put was issued after a shard upload started".into(), replay.into()); } }
    // ---- C15: limits of every put
    for (h, n, len, _) in lg.puts.iter() { if *n == 0 || *n > lim.maxc || *len == 0 || *len > lim.maxb { ctx.fail("C15", &k("xorb-limits"), format!("put of xorb {} with {n} chunks / {len} bytes violates limits {}/{}", h.hex(), lim.maxc, lim.maxb), replay.into()); } }
    // ---- C14: conservation per file and for the session
    let mut sum = DeduplicationMetrics::default();
    for (i, f) in out.files.iter().enumerate() {
        let m = &f.metrics;
        sum.merge_in(m);
        if m.total_bytes != fed[i].len() || f.pointer.filesize() as usize != fed[i].len() { ctx.fail("C14", &k("metrics-double-count"), format!("file {i}: pointer size {} / total_bytes {} != bytes fed {}", f.pointer.filesize(), m.total_bytes, fed[i].len()), replay.into()); }
        if m.new_bytes + m.deduped_bytes != m.total_bytes || m.new_chunks + m.deduped_chunks != m.total_chunks { ctx.fail("C14", &k("new-plus-deduped"), format!("file {i}: new + deduped != total ({})", metrics_str(m)), replay.into()); }
        if m.defrag_prevented_dedup_bytes > m.new_bytes || m.defrag_prevented_dedup_chunks > m.new_chunks { ctx.fail("C14", &k("prevented-exceeds-new"), format!("file {i}: withheld bytes exceed new bytes ({})", metrics_str(m)), replay.into()); }
    }
    if metrics_str(&sum) != metrics_str(smetrics) { ctx.fail("C14", &k("session-metrics-sum"), format!("session metrics {} != sum over files {}", metrics_str(smetrics), metrics_str(&sum)), replay.into()); }
    // every byte / chunk counted as new was handed to the store in exactly one put (a put of an object that exists already still counts)
    let (put_chunks, put_bytes): (usize, usize) = lg.puts.iter().fold((0, 0), |a, p| (a.0 + p.1, a.1 + p.2));
    if put_bytes != smetrics.new_bytes || put_chunks != smetrics.new_chunks { ctx.fail("C14", &k("new-bytes-vs-put-bytes"), format!("session new bytes/chunks {}/{} != bytes/chunks handed to put {put_bytes}/{put_chunks}", smetrics.new_bytes, smetrics.new_chunks), replay.into()); }
    let put_hashes: BTreeSet<MerkleHash> = lg.puts.iter().map(|p| p.0).collect();
    drop(lg);

    // ---- C02: independent validation of the stored xorbs and of every file record of the session's shards
    let max_chunk = lim.target * lim.maxmul;
    let mut xorb_chunks: HashMap<MerkleHash, Vec<(MerkleHash, Vec<u8>)>> = HashMap::new();
    let mut bad_xorbs: BTreeSet<MerkleHash> = BTreeSet::new();
    let load = |h: &MerkleHash, xorb_chunks: &mut HashMap<MerkleHash, Vec<(MerkleHash, Vec<u8>)>>, bad: &mut BTreeSet<MerkleHash>| {
        if xorb_chunks.contains_key(h) { return; }
        // independent decode of the stored object: read the file, check the footer against the name, decode chunk by chunk
        let path = st.xorb_dir.join("xorbs").join(format!("default.{:?}", h));
        let mut v = Vec::new();
        match std::fs::read(&path) {
            Ok(bytes) => {
                if !matches!(cas_object::CasObject::validate_cas_object(&mut std::io::Cursor::new(&bytes), h), Ok(Some(_))) { bad.insert(*h); }
                match cas_object::CasObject::deserialize(&mut std::io::Cursor::new(&bytes)) {
                    Ok(co) => for i in 0..co.info.num_chunks { match co.get_bytes_by_chunk_range(&mut std::io::Cursor::new(&bytes), i, i + 1) { Ok(b) => v.push((compute_data_hash(&b), b)), Err(_) => { bad.insert(*h); } } },
                    Err(_) => { bad.insert(*h); }
                }
            }
            Err(_) => { bad.insert(*h); }
        }
        xorb_chunks.insert(*h, v);
    };
    for h in put_hashes.iter() { load(h, &mut xorb_chunks, &mut bad_xorbs); }
    for h in put_hashes.iter() {
        let v = &xorb_chunks[h];
        if bad_xorbs.contains(h) { ctx.fail("C02", &k("stored-xorb-invalid"), format!("stored xorb {} is missing, undecodable or not accepted by validate_cas_object for its own name", h.hex()), replay.into()); continue; }
        let hl: Vec<(MerkleHash, usize)> = v.iter().map(|c| (c.0, c.1.len())).collect();
        if merkledb::aggregate_hashes::cas_node_hash(&hl) != *h { ctx.fail("C02", &k("xorb-name-hash"), format!("xorb {} does not hash to its name", h.hex()), replay.into()); }
        if v.is_empty() || v.len() > lim.maxc || v.iter().map(|c| c.1.len()).sum::<usize>() > lim.maxb || v.iter().any(|c| c.1.is_empty() || c.1.len() > max_chunk) {
            ctx.fail("C15", &k("stored-xorb-limits"), format!("stored xorb {} has {} chunks / {} bytes / largest chunk {} (limits {}/{}/{max_chunk})", h.hex(), v.len(), v.iter().map(|c| c.1.len()).sum::<usize>(), v.iter().map(|c| c.1.len()).max().unwrap_or(0), lim.maxc, lim.maxb), replay.into());
        }
    }
    let by_content: HashMap<MerkleHash, &Arc<Vec<u8>>> = out.files.iter().enumerate().filter_map(|(i, f)| f.pointer.hash().ok().map(|h| (h, &fed[i]))).collect();
    for fi in file_infos.iter() {
        let fh = fi.metadata.file_hash;
        let mut chunk_list: Vec<(MerkleHash, usize)> = Vec::new();
        let mut bytes: Vec<u8> = Vec::new();
        let mut ok = true;
        if !fi.verification.is_empty() && fi.verification.len() != fi.segments.len() { ctx.fail("C02", &k("verification-count"), format!("file record {}: {} verification entries for {} segments", fh.hex(), fi.verification.len(), fi.segments.len()), replay.into()); }
        for (si, s) in fi.segments.iter().enumerate() {
            if s.cas_hash == MerkleHash::default() { ctx.fail("C15", &k("unresolved-xorb-reference"), format!("file record {} segment {si} has a zero xorb hash", fh.hex()), replay.into()); ok = false; continue; }
            load(&s.cas_hash, &mut xorb_chunks, &mut bad_xorbs);
            let entry = &xorb_chunks[&s.cas_hash];
            if bad_xorbs.contains(&s.cas_hash) { ctx.fail("C02", &k("segment-xorb-missing"), format!("segment {si} of file record {} references xorb {} which is missing or invalid in the store", fh.hex(), s.cas_hash.hex()), replay.into()); ok = false; continue; }
            if s.chunk_index_start >= s.chunk_index_end || s.chunk_index_end as usize > entry.len() { ctx.fail("C02", &k("segment-out-of-range"), format!("segment {si} [{},{}) of file {} is not within xorb {} of {} chunks", s.chunk_index_start, s.chunk_index_end, fh.hex(), s.cas_hash.hex(), entry.len()), replay.into()); ok = false; continue; }
            let range = &entry[s.chunk_index_start as usize..s.chunk_index_end as usize];
            let sum: usize = range.iter().map(|c| c.1.len()).sum();
            if sum != s.unpacked_segment_bytes as usize { ctx.fail("C02", &k("segment-bytes"), format!("segment {si} of file {} records {} bytes, chunks sum to {sum}", fh.hex(), s.unpacked_segment_bytes), replay.into()); ok = false; }
            if fi.verification.len() == fi.segments.len() {
                let hs: Vec<MerkleHash> = range.iter().map(|c| c.0).collect();
                if mdb_shard::chunk_verification::range_hash_from_chunks(&hs) != fi.verification[si].range_hash { ctx.fail("C02", &k("verification-hash"), format!("verification hash of segment {si} of file {} does not match the referenced chunks", fh.hex()), replay.into()); }
            }
            for c in range { chunk_list.push((c.0, c.1.len())); bytes.extend_from_slice(&c.1); }
        }
        if !ok { continue; }
        // the record's chunk sequence hashes to the record's file hash under the session's salt
        match merkledb::aggregate_hashes::file_node_hash(&chunk_list, salt) { Ok(h) if h == fh => {}, _ => ctx.fail("C02", &k("file-hash-of-record"), format!("the chunks referenced by file record {} do not hash to its file hash", fh.hex()), replay.into()) }
        if fi.file_size() != bytes.len() { ctx.fail("C02", &k("record-size"), format!("file record {} sums to {} bytes, its chunks to {}", fh.hex(), fi.file_size(), bytes.len()), replay.into()); }
        match by_content.get(&fh) {
            Some(want) => {
                // C01 without the downloader: the stored chunks the record points at are the bytes that were fed
                if ***want != bytes { ctx.fail("C01", &k("record-bytes-mismatch"), format!("file record {}: the referenced stored chunks ({} bytes) are not the bytes fed ({} bytes)", fh.hex(), bytes.len(), want.len()), replay.into()); }
                let got = fi.metadata_ext.as_ref().map(|m| m.sha256.hex()).unwrap_or_default();
                let sha = sha_hex(want);
                if got != sha { ctx.fail("C02", &k(if want.is_empty() { "empty-file-sha256" } else { "sha256" }), format!("recorded SHA-256 {got} != SHA-256 of the bytes {sha} ({} bytes)", want.len()), replay.into()); }
            }
            None => ctx.fail("C02", &k("stray-file-record"), format!("the session's shards hold a file record {} that is no pointer of this session", fh.hex()), replay.into()),
        }
    }
    for (i, f) in out.files.iter().enumerate() {
        match f.pointer.hash() { Ok(fh) => if !file_infos.iter().any(|r| r.metadata.file_hash == fh) { ctx.fail("C02", &k("file-record-missing"), format!("no file record for pointer {} of file {i}", fh.hex()), replay.into()); },
                                 Err(_) => ctx.fail("C03", &k("pointer-hash-unparsable"), format!("pointer hash of file {i} does not parse"), replay.into()) }
    }
}

/// C01: whole-file and range downloads through the real `FileDownloader`
fn check_downloads(ctx: &mut Ctx, tp: &Arc<ThreadPool>, st: &Store, rng: &mut Rng, items: &[(PointerFile, Arc<Vec<u8>>)], replay: &str) -> Result<(), Fault> {
    let (cfg, tp3) = (st.config.clone(), tp.clone());
    let downloader = Arc::new(bounded(tp, "FileDownloader::new", async move { FileDownloader::new(cfg, tp3).await.map_err(|e| e.to_string()) })?.map_err(Fault::Error)?);
    for (pi, (ptr, bytes)) in items.iter().enumerate() {
        let out_path = st.base.join(format!("dl-{pi}"));
        let l = bytes.len() as u64;
        let mut ranges: Vec<Option<(u64, u64)>> = vec![None];
        if l > 0 { let a = rng.below(l); let b = rng.range(a, l); ranges.push(Some((a, b))); ranges.push(Some((0, 1))); ranges.push(Some((l - 1, l))); let c = rng.below(l); ranges.push(Some((c, l))); }
        for r in ranges {
            let _ = std::fs::remove_file(&out_path);
            let (dlr, p2, op) = (downloader.clone(), ptr.clone(), OutputProvider::File(FileProvider::new(out_path.clone())));
            let fr = r.map(|(a, b)| FileRange { start: a, end: b });
            let res = bounded(tp, "download", async move { dlr.smudge_file_from_pointer(&p2, &op, fr, None).await.map_err(|e| e.to_string()) })?;
            let got = std::fs::read(&out_path).unwrap_or_default();
            let want: &[u8] = match r { None => &bytes[..], Some((a, b)) => &bytes[a as usize..b as usize] };
            match res { Ok(n) if got == want && n as usize == want.len() => {}
                Ok(n) => ctx.fail("C01", "download-mismatch", format!("download of file {pi} ({} bytes) range {r:?} returned {} bytes (reported {n}), expected {}{}", bytes.len(), got.len(), want.len(), if got.len() == want.len() { " with different content" } else { "" }), replay.into()),
                Err(e) => ctx.fail("C01", "download-error", format!("download of file {pi} ({} bytes) range {r:?} failed: {e}", bytes.len()), replay.into()) }
            ctx.stat("downloads");
        }
        let _ = std::fs::remove_file(&out_path);
    }
    Ok(())
}

// ------------------------------------------------------------------------------------------------ the child
pub fn run_child(ctx: &mut Ctx) {
    let (target, mindiv, maxmul) = (*TARGET_CHUNK_SIZE, *MINIMUM_CHUNK_DIVISOR, *MAXIMUM_CHUNK_MULTIPLIER);
    let (maxb, maxc) = (*MAX_XORB_BYTES, *MAX_XORB_CHUNKS);
    let lim = Limits { target, maxmul, maxb, maxc };
    let ingest: usize = std::env::var("HF_XET_INGESTION_BLOCK_SIZE").ok().and_then(|s| s.parse().ok()).unwrap_or(8 << 20);
    let shard_target: u64 = std::env::var("HF_XET_MDB_SHARD_MIN_TARGET_SIZE").ok().and_then(|s| s.parse().ok()).unwrap_or(0);
    // backstop against a wedged runtime: every wait below is bounded, this only fires if even that fails
    let hard_limit = if ctx.quick() { 600 } else { 7200 };
    std::thread::spawn(move || { std::thread::sleep(Duration::from_secs(hard_limit)); eprintln!("session_conc-child: hard time limit of {hard_limit} s exceeded, giving up"); std::process::exit(5); });
    let tp = Arc::new(ThreadPool::new().expect("threadpool"));
    utils::verif_hooks::set_event_callback(Some(Arc::new(on_event)));
    let tmp_root = PathBuf::from(std::env::var("TMPDIR").unwrap_or("/verif/run/tmp".into())).join(format!("session_conc-{}-{}", std::process::id(), ctx.seed));
    let nworlds = if ctx.quick() { 24 } else { 150 };
    // one content cleaned in every world, under a different salt each: "different salts give different hashes"
    let signature: Arc<Vec<u8>> = { let mut r = ctx.rng.fork(77); let n = r.range(3 * target as u64, 9 * target as u64) as usize; Arc::new(r.bytes(n)) };
    let mut signature_hashes: Vec<([u8; 32], String)> = Vec::new();
    let mut wedged = false;
    'worlds: for w in 0..nworlds {
        let mut rng = ctx.rng.fork(41_000 + w);
        let mut salt = [0u8; 32];
        if w > 0 { rng.fill(&mut salt); }
        let salt_hex: String = salt.iter().map(|b| format!("{b:02x}")).collect();
        let store_r = make_store(tmp_root.join(format!("world{w}-ref")), salt);
        let store_c = make_store(tmp_root.join(format!("world{w}-conc")), salt);
        let mut earlier: Vec<Arc<Vec<u8>>> = Vec::new();                  // distinct contents of earlier sessions of this world
        let mut world_ptrs: Vec<(PointerFile, Arc<Vec<u8>>)> = Vec::new(); // pointers of earlier concurrent sessions
        let mut pool: Vec<Vec<u8>> = Vec::new();
        let nsessions = rng.range(2, 4);
        for sno in 0..nsessions {
            // flavours: 0 = mixed files, task per file or worker pool; 1 = mixed files, task per file, rendezvous before `finish`;
            //           2 = burst of small files, task per file, common start (and mostly a rendezvous before `finish`)
            let flavour: usize = match rng.below(10) { 0..=3 => 0, 4..=6 => 1, _ => 2 };
            let files = Arc::new(gen_session_files(&mut rng, target, &earlier, if sno == 0 { Some(&signature) } else { None }, &mut pool, flavour == 2));
            let width = if flavour == 0 { match rng.below(3) { 0 => 0, _ => rng.range(2, 8) as usize } } else { 0 };
            let (sync_start, sync_finish) = match flavour { 0 => (false, false), 1 => (rng.chance(1, 2), true), _ => (true, rng.chance(2, 3)) };
            let replay = format!("{{\"suite\":\"session_conc\",\"seed\":{},\"world\":{},\"session\":{},\"target\":{},\"maxb\":{},\"maxc\":{},\"ingest\":{},\"shard_target\":{},\"width\":{},\"flavour\":{},\"file_sizes\":[{}],\"kinds\":\"{}\"}}",
                                 ctx.seed, w, sno, target, maxb, maxc, ingest, shard_target, width, flavour, join(&files.iter().map(|f| f.data.len()).collect::<Vec<_>>()), files.iter().map(|f| f.kind).collect::<Vec<_>>().join(","));
            // distinct contents in order of first occurrence (one record per file hash and session is kept by a shard)
            let mut distinct: Vec<usize> = Vec::new();
            for (i, f) in files.iter().enumerate() { if !distinct.iter().any(|j| files[*j].data == f.data) { distinct.push(i); } }

            // ---------------- store R: the sequential reference, replayed by the model (`sess.run`)
            let ref_files: Vec<(Arc<Vec<u8>>, Vec<usize>)> = distinct.iter().map(|i| (files[*i].data.clone(), files[*i].parts.clone())).collect();
            let reference = match run_sequential(&tp, &store_r, &ref_files, true) {
                Ok(r) => r,
                Err(f) => { ctx.fail(if matches!(f, Fault::Panic(_)) { "*" } else { "C01" }, &f.key("sequential-reference"), format!("the sequential reference session failed: {}", f.text()), replay.clone()); if f.is_hang() { wedged = true; } break 'worlds; }
            };
            let ref_fed: Vec<Arc<Vec<u8>>> = ref_files.iter().map(|f| f.0.clone()).collect();
            check_session(ctx, "reference", &replay, &lim, &store_r, &salt, &ref_fed, &reference);

            // ---------------- store C: the same files cleaned concurrently
            for c in [&N_AGG_XORBS, &N_CAS_BLOCKS, &N_HITS_SESSION, &N_HITS_CACHE] { c.store(0, Ordering::SeqCst); }
            let conc = match run_concurrent(&tp, &store_c, &files, width, sync_start, sync_finish) {
                Ok(c) => Some(c),
                Err(f) => {
                    let what = match &f { Fault::Hang(_) => "hung", Fault::Error(_) => "failed", Fault::Panic(_) => "panicked" };
                    ctx.fail(if matches!(f, Fault::Panic(_)) { "*" } else { "C01" }, &f.key("concurrent-session"), format!("a session cleaning {} files concurrently (width {width}) {what} without any injected fault: {}", files.len(), f.text()), replay.clone());
                    if f.is_hang() { wedged = true; }
                    None
                }
            };

            // ---------------- C03: the pointers of the concurrent run against the model (through the reference line) and directly
            let mut fstrs = Vec::new();
            let mut fans = Vec::new();
            for (k, i) in distinct.iter().enumerate() {
                let r = &reference.files[k];
                let (off, len) = ctx.blob(&files[*i].data);
                let sha = sha_hex(&files[*i].data);
                fstrs.push(format!("{off}:{len}/{}/{sha}/{}", join(&files[*i].parts), if r.oracle.is_empty() { "-".to_string() } else { r.oracle.join("|") }));
                // hash and size: what the CONCURRENT session wrote into the pointer of the first file with this content
                let (h, sz) = match &conc { Some(c) => (c.out.files[*i].pointer.hash_string().clone(), c.out.files[*i].pointer.filesize()), None => (r.pointer.hash_string().clone(), r.pointer.filesize()) };
                fans.push(format!("{h}:{sz}:{}:{}:false", metrics_str(&r.metrics), r.oracle.len()));
            }
            {
                let lg = reference.log.lock().unwrap();
                let mut puts: Vec<String> = lg.puts.iter().map(|(h, n, len, _)| format!("{}:{n}:{len}", h.hex())).collect(); puts.sort();
                let mut recs: Vec<String> = reference.file_infos.iter().map(file_info_str).collect(); recs.sort(); recs.dedup();
                let mut model_cas: Vec<String> = lg.puts.iter().map(|(h, n, _, _)| format!("{}:{n}", h.hex())).collect(); model_cas.sort();
                let line = format!("sess.run target={target} mindiv={mindiv} maxmul={maxmul} ingest={ingest} maxb={maxb} maxc={maxc} salt={salt_hex} files={}", fstrs.join("#"));
                let ans = format!("files={} puts={} cas={} recs={} sm={}", fans.join(" "), puts.join(","), model_cas.join(","), recs.join(" "), metrics_str(&reference.smetrics));
                drop(lg);
                ctx.op(&line, &ans);
                ctx.case(fnv(line.as_bytes()), files.len() >= 2);
            }
            ctx.stat("sessions");
            ctx.stat_add("files", files.len() as u64);
            ctx.stat(&format!("files_per_session_{:02}", files.len()));
            for f in files.iter() { ctx.stat(&format!("kind_{}", f.kind)); }
            ctx.stat_add("duplicate_contents_in_session", (files.len() - distinct.len()) as u64);
            ctx.stat(if width == 0 { "mode_task_per_file" } else { "mode_worker_pool" });
            ctx.stat(["flavour_mixed", "flavour_mixed_common_finish", "flavour_burst"][flavour]);
            let Some(conc) = conc else { if wedged { break 'worlds; } else { break; } };
            for (i, f) in files.iter().enumerate() {
                let k = distinct.iter().position(|j| files[*j].data == f.data).unwrap();
                let (cp, rp) = (&conc.out.files[i].pointer, &reference.files[k].pointer);
                if cp.hash_string() != rp.hash_string() || cp.filesize() != rp.filesize() {
                    ctx.fail("C03", "concurrent-pointer-differs", format!("file {i} ({} bytes, {}) cleaned concurrently got pointer ({}, {}), cleaned sequentially on another store ({}, {})", f.data.len(), f.kind, cp.hash_string(), cp.filesize(), rp.hash_string(), rp.filesize()), replay.clone());
                }
            }
            if sno == 0 {
                if let Some(i) = files.iter().position(|f| f.kind == "signature") {
                    let h = conc.out.files[i].pointer.hash_string().clone();
                    for (s2, h2) in signature_hashes.iter() { if *s2 != salt && *h2 == h { ctx.fail("C03", "salt-ignored", format!("the same {} bytes have file hash {h} under two different salts", signature.len()), replay.clone()); } }
                    signature_hashes.push((salt, h));
                }
            }

            // ---------------- monitors on the concurrent session
            let fed: Vec<Arc<Vec<u8>>> = files.iter().map(|f| f.data.clone()).collect();
            check_session(ctx, "", &replay, &lim, &store_c, &salt, &fed, &conc.out);
            {
                let lg = conc.out.log.lock().unwrap();
                ctx.stat_add("xorbs_put", lg.puts.len() as u64);
                ctx.stat_add("xorbs_put_again_existing", lg.puts.iter().filter(|p| p.3 == 0).count() as u64);
                ctx.stat_add("shards_uploaded", lg.shards.len() as u64);
                if lg.shards.len() >= 2 { ctx.stat("sessions_with_several_shards"); }
            }
            ctx.stat_add("xorbs_cut_in_aggregator", N_AGG_XORBS.load(Ordering::SeqCst) as u64);
            ctx.stat_add("xorbs_cut_mid_file", N_CAS_BLOCKS.load(Ordering::SeqCst).saturating_sub(N_AGG_XORBS.load(Ordering::SeqCst)) as u64);
            ctx.stat_add("dedup_hits_in_session_shard", N_HITS_SESSION.load(Ordering::SeqCst) as u64);
            ctx.stat_add("dedup_hits_in_cache_shards", N_HITS_CACHE.load(Ordering::SeqCst) as u64);
            if conc.out.shards_before_finalize > 0 { ctx.stat("sessions_flushed_while_cleaning"); ctx.stat_add("shards_flushed_while_cleaning", conc.out.shards_before_finalize as u64); }
            ctx.stat(&format!("max_active_cleaners_{:02}", conc.max_active));
            if conc.max_active >= 2 { ctx.stat("sessions_with_overlapping_cleaners"); }
            if conc.completion.windows(2).any(|p| p[0] > p[1]) { ctx.stat("sessions_completing_out_of_order"); }
            if conc.out.files.iter().any(|f| f.metrics.defrag_prevented_dedup_chunks > 0) { ctx.stat("sessions_with_defrag_rejection"); }
            let conc_dedup: usize = conc.out.files.iter().map(|f| f.metrics.deduped_bytes).sum();
            let ref_dedup: usize = reference.files.iter().map(|f| f.metrics.deduped_bytes).sum();
            ctx.stat_add("deduped_bytes_concurrent", conc_dedup as u64);
            ctx.stat_add("deduped_bytes_reference_distinct_only", ref_dedup as u64);
            // a sequential session would add (next to) nothing for the repeated contents: the difference is what concurrency stored twice
            ctx.stat_add("new_bytes_concurrent", conc.out.smetrics.new_bytes as u64);
            ctx.stat_add("new_bytes_reference_distinct_only", reference.smetrics.new_bytes as u64);

            // ---------------- C01: downloads of this session's files (and a few of earlier sessions) from store C
            let mut items: Vec<(PointerFile, Arc<Vec<u8>>)> = conc.out.files.iter().zip(files.iter()).map(|(o, f)| (o.pointer.clone(), f.data.clone())).collect();
            for _ in 0..3.min(world_ptrs.len()) { items.push(rng.pick(&world_ptrs).clone()); }
            if let Err(f) = check_downloads(ctx, &tp, &store_c, &mut rng, &items, &replay) {
                ctx.fail("C01", &f.key("download"), format!("downloading after a concurrent session: {}", f.text()), replay.clone());
                if f.is_hang() { wedged = true; break 'worlds; }
            }

            // ---------------- C11 (and C03 once more): an echo session re-uploads the same files one after another, whole
            let echo_files: Vec<(Arc<Vec<u8>>, Vec<usize>)> = files.iter().map(|f| (f.data.clone(), vec![f.data.len()])).collect();
            match run_sequential(&tp, &store_c, &echo_files, false) {
                Ok(echo) => {
                    check_session(ctx, "echo", &replay, &lim, &store_c, &salt, &fed, &echo);
                    for (i, e) in echo.files.iter().enumerate() {
                        let m = &e.metrics;
                        if m.new_bytes > m.defrag_prevented_dedup_bytes {
                            ctx.fail("C11", "repeat-upload-new-bytes", format!("re-upload of file {i} ({} bytes, {}) right after the concurrent session that uploaded it transferred {} new bytes in {} chunks ({} of them withheld by fragmentation prevention; limits {maxb}/{maxc}, target {target})", files[i].data.len(), files[i].kind, m.new_bytes, m.new_chunks, m.defrag_prevented_dedup_bytes), replay.clone());
                        } else if m.new_bytes > 0 { ctx.stat("echo_files_with_defrag_rejection_only"); }
                        let cp = &conc.out.files[i].pointer;
                        if cp.hash_string() != e.pointer.hash_string() || cp.filesize() != e.pointer.filesize() { ctx.fail("C03", "echo-pointer-differs", format!("file {i}: concurrent pointer ({}, {}) != pointer of the sequential re-upload ({}, {})", cp.hash_string(), cp.filesize(), e.pointer.hash_string(), e.pointer.filesize()), replay.clone()); }
                    }
                    let lg = echo.log.lock().unwrap();
                    if !lg.puts.is_empty() { ctx.stat("echo_sessions_with_puts"); }
                    ctx.stat("echo_sessions");
                }
                Err(f) => { ctx.fail(if matches!(f, Fault::Panic(_)) { "*" } else { "C11" }, &f.key("echo-session"), format!("the sequential re-upload after a concurrent session failed: {}", f.text()), replay.clone()); if f.is_hang() { wedged = true; } break 'worlds; }
            }
            for (o, f) in conc.out.files.iter().zip(files.iter()) { world_ptrs.push((o.pointer.clone(), f.data.clone())); }
            for i in distinct.iter() { if !earlier.iter().any(|e| **e == *files[*i].data) { earlier.push(files[*i].data.clone()); } }
        }
        let _ = std::fs::remove_dir_all(&store_r.base);
        let _ = std::fs::remove_dir_all(&store_c.base);
    }
    utils::verif_hooks::set_event_callback(None);
    let _ = std::fs::remove_dir_all(&tmp_root);
    // after a hang the runtime may hold tasks that never finish: do not wait for them
    if wedged { std::mem::forget(tp); }
}
